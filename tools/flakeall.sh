#!/bin/bash
# usage: tools/flakeall.sh <runs> id...   — flakehunt over several checks, sequentially
cd "$(dirname "$0")/.."
N=$1; shift
for id in "$@"; do tools/flakehunt.sh $id $N; done
