#!/bin/bash
# validates MANIFEST.json and every evidence file against the given schemas
cd "$(dirname "$0")/.."
python3-vt - <<'PY'
import json,jsonschema,glob
jsonschema.validate(json.load(open('MANIFEST.json')), json.load(open('/root/.vp/MANIFEST.schema.json')))
s=json.load(open('/root/.vp/EVIDENCE.schema.json'))
for f in sorted(glob.glob('evidence/*.json')):
    try:
        jsonschema.validate(json.load(open(f)), s); print('ok', f)
    except Exception as e:
        print('INVALID', f, str(e)[:300])
PY
