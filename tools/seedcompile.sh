#!/bin/bash
# usage: tools/seedcompile.sh <workers>  — for every seeded change (not superseded): patch applies to /repo HEAD, tree builds, demo compiles
# (go vet of the demo's package with the demo copied in). Cheap stand-in for reverify_seed.sh after fix commits; prints only failures.
cd "$(dirname "$0")/.."
export GOFLAGS=-mod=mod GOPROXY=off GOSUMDB=off GOTOOLCHAIN=local
W=${1:-4}
one() {
  d=$(readlink -f $1); s=$(basename $d); wt=/tmp/sc-$$-$s
  [ "$(jq -r '.status_after_fix // ""' $d/meta.json)" != "" ] && return
  git -C /repo worktree add -q --detach $wt HEAD || { echo "$s: worktree failed"; return; }
  ( cd $wt
    git apply $d/patch.diff 2>/dev/null || { echo "$s: PATCH DOES NOT APPLY"; exit; }
    go build ./... >/dev/null 2>&1 || { echo "$s: DOES NOT BUILD"; exit; }
    dest=$(jq -r .demo.copy_to $d/meta.json); cmd=$(jq -r .demo.command $d/meta.json)
    pkg=$(echo "$cmd" | grep -o '\./[^ ]*' | tail -1)
    cdto=$(echo "$cmd" | grep -o '^cd [^ ;&]*' | sed 's/^cd //')
    cp $d/demo_test.go "$dest" 2>/dev/null || { echo "$s: cannot copy demo to $dest"; exit; }
    ( [ -n "$cdto" ] && cd "$cdto"; go vet -vet=off ${pkg:-./...} >/dev/null 2>&1 || go test -count=1 -run XXX_NONE ${pkg:-./...} >/dev/null 2>&1 ) || echo "$s: DEMO DOES NOT COMPILE ($pkg)"
  )
  git -C /repo worktree remove --force $wt 2>/dev/null
}
export -f one
ls -d seeded/*/ | sed 's#/$##' | xargs -P $W -I{} bash -c 'one {}'
git -C /repo worktree prune
echo "seedcompile done"
