#!/bin/bash
# usage: tools/seedpass.sh <workers>  — runs every seeded change (not superseded) against the check of its own property on the current HEAD,
# records the outcome in meta.json (tools/seed_run.sh). Each worker uses a fixed scratch slot (MWT_SLOT) to keep the Go build cache small.
cd "$(dirname "$0")/.."
W=${1:-4}
ls -d seeded/*/ | sed 's#/$##' | while read d; do [ "$(jq -r '.status_after_fix // ""' $d/meta.json)" = "" ] && echo $d; done > out/seedpass.list
split -n r/$W -d out/seedpass.list out/seedpass.part.
for i in $(seq 0 $((W-1))); do
  ( while read d; do s=$(basename $d); MWT_SLOT=slot$i tools/seed_run.sh $d ${s%%-*}; done < out/seedpass.part.0$i ) &
done
wait
echo "seedpass done"
