#!/bin/bash
# usage: tools/recheck_pairs.sh <workers> [seed-glob]  — re-runs, against the CURRENT checks, every (seeded change, check of ANOTHER property)
# pair that raised an alarm in out/matrix/*.log; one line per pair in out/recheck_pairs.out. Cross alarms must be explained one by one (DESIGN §7.4).
cd "$(dirname "$0")/.."
W=${1:-3}; G=${2:-*}
for f in out/matrix/$G.log; do s=$(basename $f .log); p=${s%%-*}
  [ -d seeded/$s ] || continue
  [ "$(jq -r '.status_after_fix // ""' seeded/$s/meta.json)" = "" ] || continue
  grep -E "^C[0-9]+ exit=1" $f | awk '{print $1}' | grep -v "^$p$" | while read c; do echo "$s $c"; done
done | sort -u > out/recheck_pairs.txt
split -n r/$W -d out/recheck_pairs.txt out/recheck_pairs.part.
: > out/recheck_pairs.out
for i in $(seq 0 $((W-1))); do
  ( while read s c; do o=$(MWT_SLOT=rslot$i LINES_MAX=3 tools/mutant_iso.sh seeded/$s/patch.diff $c 2>&1); echo "$s $c $(echo "$o" | grep -o "exit=[0-9]*" | head -1) $(echo "$o" | grep -m1 "^VIOLATION" | sed "s#.*replay=.*/##")" >> out/recheck_pairs.out; done < out/recheck_pairs.part.0$i ) &
done
wait
sort out/recheck_pairs.out
