#!/bin/bash
# usage: tools/recheck_pairs.sh <workers> [seed-glob]  — re-runs, against the CURRENT checks, every (seeded change, check of ANOTHER property)
# pair that raised an alarm in out/matrix/*.log; prints one line per pair. Cross alarms must be explained one by one (DESIGN §7.4).
cd "$(dirname "$0")/.."
W=${1:-3}; G=${2:-*}
for f in out/matrix/$G.log; do s=$(basename $f .log); p=${s%%-*}
  grep -E "^C[0-9]+ exit=1" $f | awk '{print $1}' | grep -v "^$p$" | while read c; do echo "$s $c"; done
done | sort -u > out/recheck_pairs.txt
cat out/recheck_pairs.txt | xargs -P $W -L 1 sh -c 'o=$(LINES_MAX=3 tools/mutant_iso.sh seeded/$0/patch.diff $1 2>&1); echo "$0 $1 $(echo "$o" | grep -o "exit=[0-9]*" | head -1) $(echo "$o" | grep -m1 "^VIOLATION" | sed "s#.*replay=.*/##")"'
