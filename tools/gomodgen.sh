#!/bin/bash
# Generates /verif/harness/go.mod and go.sum from /repo/go.mod (replace directives are not inherited by a dependent module).
set -e
REPO=${VERIF_REPO:-/repo}
H=$(cd "$(dirname "$0")/.." && pwd)/harness
tmp=$(mktemp)
{
  echo "module verifharness"
  echo
  echo "go 1.17"
  echo
  echo "require ("
  echo "	github.com/kubewharf/kubegateway v0.0.0"
  echo "	github.com/anishathalye/porcupine v1.3.0"
  echo ")"
  echo
  echo "replace github.com/kubewharf/kubegateway => $REPO"
  echo
  # copy the replace block(s), rewriting relative paths
  awk '/^replace \(/{p=1; print; next} p&&/^\)/{p=0; print; next} p{print} /^replace [^(]/{print}' "$REPO/go.mod" \
    | sed -e "s#=> \./#=> $REPO/#"
} > "$tmp"
if ! cmp -s "$tmp" "$H/go.mod.gen" 2>/dev/null; then
  cp "$tmp" "$H/go.mod.gen"
  cp "$tmp" "$H/go.mod"
  cat "$REPO/go.sum" > "$H/go.sum"
fi
[ -f "$H/go.mod" ] || cp "$tmp" "$H/go.mod"
[ -f "$H/go.sum" ] || cat "$REPO/go.sum" > "$H/go.sum"
rm -f "$tmp"
