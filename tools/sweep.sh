#!/bin/bash
# usage: tools/sweep.sh <tier> "<seeds>" [ids...]   — runs the claimed checks (or the given ids) at each seed; prints one line per run
cd "$(dirname "$0")/.."
TIER=${1:-quick}; SEEDS=${2:-1}; shift 2
IDS="$@"
[ -z "$IDS" ] && IDS=$(jq -r '.checks[].property_id' MANIFEST.json)
for s in $SEEDS; do
  for id in $IDS; do
    t0=$(date +%s)
    out=$(VERIF_SEED=$s ./check $id $TIER 2>&1); rc=$?
    t1=$(date +%s)
    echo "$id seed=$s tier=$TIER exit=$rc wall=$((t1-t0))s $(echo "$out" | grep -E '^(VIOLATION|INCONCLUSIVE|KNOWN-FINDING)' | head -3 | tr '\n' ' ' | cut -c1-300)"
  done
done
