#!/bin/bash
# usage: tools/mutant_iso.sh <patch.diff> <id> [id...] — like mutant.sh but in isolation: scratch worktree of /repo HEAD (+ uncommitted hook
# files) and a private copy of /verif under /tmp, removed afterwards. For use while /repo itself must stay untouched.
P=$(readlink -f "$1"); shift
# MWT_SLOT (optional): a fixed slot name instead of the PID, so that successive runs of one worker reuse the same paths and with them
# most of the Go build cache (the cache key of a package depends on its directory)
TAG=${MWT_SLOT:-$$}
WT=/tmp/mwt-$TAG; VC=/tmp/mverif-$TAG
git -C /repo worktree remove --force $WT 2>/dev/null; rm -rf $WT $VC; git -C /repo worktree prune
git -C /repo worktree add -q --detach $WT HEAD || exit 2
(cd /repo && git ls-files --others --exclude-standard | grep verif_hooks | while read f; do cp /repo/$f $WT/$f; done)
trap 'git -C /repo worktree remove --force '$WT' 2>/dev/null; [ -n "$KEEP" ] || rm -rf '$VC EXIT
rsync -a --exclude out --exclude replay --exclude evidence --exclude .git /verif/ $VC/
if ! git -C $WT apply "$P"; then echo "patch does not apply"; exit 2; fi
for id in "$@"; do
  t0=$(date +%s)
  out=$(VERIF_REPO=$WT VERIF_NO_EVIDENCE=1 $VC/check $id ${TIER:-quick} 2>&1); rc=$?
  t1=$(date +%s)
  echo "$id exit=$rc wall=$((t1-t0))s"
  echo "$out" | grep -E '^(VIOLATION|  what:|INCONCLUSIVE)' | head -${LINES_MAX:-6} | cut -c1-400
done
