#!/bin/bash
# runs the repository's own suite with the verif guard OFF (repo root = $1, default /repo) and compares with BASELINE.json
R=${1:-/repo}
export GOFLAGS=-mod=mod GOPROXY=off GOSUMDB=off GOTOOLCHAIN=local
T=$(mktemp)
for m in . ./staging/src/github.com/kubewharf/apiserver-runtime; do (cd $R/$m && go test -mod=mod -json -vet=off -count=1 -timeout 25m ./... 2>/dev/null); done > $T
python3 - "$T" <<'PY'
import json,sys
ok=set();fail=set()
for l in open(sys.argv[1]):
    try: e=json.loads(l)
    except: continue
    if e.get('Test') and e.get('Action') in('pass','fail'):
        (ok if e['Action']=='pass' else fail).add(e['Package']+'::'+e['Test'])
sp=set(json.load(open('/root/.vp/BASELINE.json'))['stable_pass'])
miss=sorted(sp-ok)
print('baseline: pass',len(ok),'fail',len(fail),'stable_pass missing:',miss[:10])
sys.exit(1 if miss else 0)
PY
rc=$?; rm -f $T; exit $rc
