#!/bin/bash
# usage: tools/mutant.sh <patch.diff> <id> [id...]  — applies the patch to /repo, runs the quick checks, and undoes it straight afterwards
cd "$(dirname "$0")/.."
P=$(readlink -f "$1"); shift
if ! git -C /repo diff --quiet; then echo "/repo has uncommitted changes to tracked files; refusing"; exit 2; fi
git -C /repo apply "$P" || { echo "patch does not apply"; exit 2; }
trap 'git -C /repo checkout -- . ' EXIT
for id in "$@"; do
  t0=$(date +%s)
  out=$(VERIF_NO_EVIDENCE=1 ./check $id ${TIER:-quick} 2>&1); rc=$?
  t1=$(date +%s)
  echo "$id exit=$rc wall=$((t1-t0))s"
  echo "$out" | grep -E '^(VIOLATION|  what:|INCONCLUSIVE)' | head -6 | cut -c1-400
done
