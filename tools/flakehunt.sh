#!/bin/bash
# usage: tools/flakehunt.sh <id> <runs> [tier] — repeats a check at increasing seeds, keeps the log of every run that is not HELD
cd "$(dirname "$0")/.."
ID=$1; N=${2:-50}; TIER=${3:-quick}
mkdir -p out/flakes
for i in $(seq 1 $N); do
  s=$((1000+i))
  out=$(VERIF_SEED=$s VERIF_NO_EVIDENCE=1 ./check $ID $TIER 2>&1)
  if ! echo "$out" | grep -q '^HELD'; then
    cp out/$ID.$TIER.log out/flakes/$ID.seed$s.log
    echo "NOT-HELD $ID seed=$s: $(echo "$out" | grep -E '^(VIOLATION|INCONCLUSIVE)' | head -2 | cut -c1-200)"
  fi
done
echo "done $ID $N runs"
