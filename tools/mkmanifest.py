#!/usr/bin/env python3
"""Regenerates /verif/MANIFEST.json from the table below (run after adding a check)."""
import json, os, subprocess

ROOT = os.path.dirname(os.path.dirname(os.path.abspath(__file__)))

# id -> (level, technique, level text, level note, design ref)
CHECKS = {
 "C01": ("exploration", "reference-model differential monitor (exhaustive small scope + seeded random + end-to-end through the real handler chain)",
         "Every per-field list of length<=3 over a 14-entry alphabet is enumerated against every request value; random whole rules, policy lists and real HTTP requests are compared with an executable reading of the documented semantics. Exploration: says nothing about lists/requests outside what was generated.",
         "Trusted: the reference model in harness/c01/model.go; k8s RequestInfo resolver for the verb/resource derivation in the end-to-end part.", "DESIGN.md §2 C01"),
}

NOT_BUILT = "check not built yet in this round (work in progress; see DESIGN.md §6 build order)"


def main():
    props = [json.loads(l) for l in open(os.path.join(ROOT, "properties.jsonl"))]
    checks, na = [], []
    for p in props:
        pid = p["id"]
        if pid in CHECKS and os.path.isdir(os.path.join(ROOT, "harness", pid.lower())):
            level, tech, text, note, ref = CHECKS[pid]
            checks.append({
                "property_id": pid,
                "quick_cmd": "./check %s quick" % pid,
                "thorough_cmd": "./check %s thorough" % pid,
                "evidence_file": "evidence/%s.json" % pid,
                "replay_cmd_template": "./check %s --replay {path}" % pid,
                "engine": "harness",
                "level_claimed": {"category": level, "text": text, "design_ref": ref},
                "level_note": note,
                "technique": tech,
            })
        else:
            na.append({"property_id": pid, "reason": NA.get(pid, NOT_BUILT)})
    hooks_commits = []
    try:
        out = subprocess.check_output(["git", "-C", "/repo", "log", "--format=%h %s"], text=True)
        for line in out.splitlines():
            if line.split(" ", 1)[1].startswith("verif hooks"):
                hooks_commits.append(line.split(" ", 1)[0])
    except Exception:
        pass
    m = {
        "version": 1,
        "setup_cmd": "./setup.sh",
        "hooks": {
            "guard": "verif",
            "enable": "go build tag: every check runs `go test -tags verif` on the harness module, which imports /repo through a replace directive; hook files are `//go:build verif` new files (verif_hooks.go)",
            "baseline_off_cmd": "for m in . ./staging/src/github.com/kubewharf/apiserver-runtime; do (cd /repo/$m && GOFLAGS=-mod=mod GOPROXY=off GOSUMDB=off go test -mod=mod -json -vet=off -count=1 -timeout 25m ./...); done",
            "source_commits": hooks_commits,
            "add_only": True,
        },
        "engines": [
            {"name": "harness", "path": "harness", "serves_properties": [c["property_id"] for c in checks],
             "kind_free_text": "Go test packages (one per property) that run the real kubegateway packages under generated, hostile and concurrent workloads with runtime monitors; driven by ./check; shared kit in harness/vkit (verdicts, evidence, PRNG) and harness/bed (stub upstreams, real controller + handler chain)"},
        ],
        "checks": checks,
        "not_applicable": na,
        "notes": "Runtime monitoring only. Exit codes of ./check: 0 held, 1 VIOLATION, 2 inconclusive/broken. Known findings: known_findings.json.",
    }
    json.dump(m, open(os.path.join(ROOT, "MANIFEST.json"), "w"), indent=1)
    print("claimed:", [c["property_id"] for c in checks], "not claimed:", [x["property_id"] for x in na])


NA = {}

if __name__ == "__main__":
    main()
