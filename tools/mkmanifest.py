#!/usr/bin/env python3
"""Regenerates /verif/MANIFEST.json from the table below (run after adding a check)."""
import json, os, subprocess

ROOT = os.path.dirname(os.path.dirname(os.path.abspath(__file__)))

# id -> (level, technique, level text, level note, design ref)
CHECKS = {
 "C01": ("exploration", "reference-model differential monitor (exhaustive small scope + seeded random + end-to-end through the real handler chain)",
         "Every per-field list of length<=3 over a 14-entry alphabet is enumerated against every request value; random whole rules, policy lists and real HTTP requests are compared with an executable reading of the documented semantics. Exploration: says nothing about lists/requests outside what was generated.",
         "Trusted: the reference model in harness/c01/model.go; k8s RequestInfo resolver for the verb/resource derivation in the end-to-end part.", "DESIGN.md §2 C01"),
 "C02": ("exploration", "boundary monitor on recorded wire events (client side vs recording stub upstream) with an independent model of Kubernetes impersonation rules",
         "Generated identities, header families/casings/duplicates and scripted authorizer answers are sent through the real handler chain; what the stub upstream received is compared with the expected identity and checked for any client-supplied identity-bearing header. Held on the executions produced, nothing more.",
         "Trusted: the harness' model of impersonation rules; net/http parsing on the stub side; scripted authenticator/authorizer stand in for the webhook ones (those are C12).", "DESIGN.md §2 C02"),
 "C03": ("exploration", "boundary monitor over recorded histories (stub logs with one monotonic clock) with stable and single-change racing phases",
         "Histories of spec updates and scripted health outcomes against the real controller, health checker and handler chain; every forwarded id must be at a pickable endpoint (before-or-after state for the one racing change), exactly once; disabled endpoints must log neither traffic nor probes.",
         "Trusted: stub logs and the harness clock; 'racing' phases apply exactly one change, so before/after is a complete description; watchdog expiry is inconclusive.", "DESIGN.md §2 C03"),
 "C04": ("exploration", "wire-level differential monitor (raw-socket client and stub upstream around the real handler chain)",
         "Hand-built HTTP/1.1 requests and scripted upstream responses cross the gateway; method, decoded path, query multimap, body hash, end-to-end headers, status and response bytes are compared on both sides with an explicit allow-list of hop normalisations; gateway-terminated requests must be well-formed Status answers seen by no stub.",
         "Trusted: the allow-list of RFC 7230 / net/http normalisations documented in DESIGN.md; requests answered by the generic k8s filters before gateway code are excluded and counted.", "DESIGN.md §2 C04"),
 "C05": ("exploration", "shadow-counter monitor + porcupine linearizability on short histories + end-to-end slot conservation, under injected schedule points",
         "A sound under-approximating in-flight counter per (cluster, schema, epoch) watches concurrent acquire/release/reconfigure workloads on the real limiter with yields injected at every statement of the anchored files; short histories are checked against a non-deterministic semaphore model; every way a proxied request can end is driven through the chain and slots are counted back at quiescence.",
         "Trusted: increment-after-acquire / decrement-before-release ordering of the shadow counter; porcupine; schedule-point instrumentation is semantically neutral. Race-detector pass is auxiliary.", "DESIGN.md §2 C05"),
 "C06": ("exploration", "event-log monitor with sound one-sided window inequalities on one monotonic clock",
         "(t_call, t_return, result) of every TryAcquire is recorded; all windows between events must admit <= burst + qps*T, and after an observed refusal + measured idle time at least min(burst, floor(qps*t)) are admitted; no-op syncs must not refill. Scheduling delay can only hide, never invent, a violation.",
         "Trusted: the process monotonic clock; float32 qps rounding slack documented in the check.", "DESIGN.md §2 C06"),
 "C07": ("exploration", "invariant monitor on the exported quota calculation + quiescent-sum invariants on the real server under sequential and concurrent honest reports",
         "Arithmetic invariants of the statement are asserted on generated (total, allocated, level, current, used, clients) tuples; the real rateLimiter with scripted leadership answers histories of honest reports and limit changes and the recorded sums are checked after every batch.",
         "Trusted: the 'honest report' generator mirrors remote_allocation.go; leadership and lister are scripted through verif hooks.", "DESIGN.md §2 C07"),
 "C08": ("exploration", "quiescent accounting invariants + porcupine linearizability (non-deterministic model) + sound window bound for token grants, under injected schedule points",
         "Concurrent reports/removals on the real global flow controls with yields at every statement; DebugInfo accounting must be exact at quiescence, accepted sums never exceed max, decreases always apply, stale ids are refused; token grants are bounded over every window.",
         "Trusted: DebugInfo as the observation of the running total; porcupine; monotonic clock.", "DESIGN.md §2 C08"),
 "C09": ("exploration", "fault-sequence monitor: scripted limiter replies through fake-clientset reactors, effective-limit probes and shadow counters on the real gateway-side limiter",
         "Scripted reply/fault sequences (any int32 quota, omitted items, errors, stale replies, readiness flaps) are fed to the real remote flow-control wrappers; after each step the effective limit is measured by probing, and in the asynchronous count strategy in-flight/admission logs are bounded against the global limit.",
         "Trusted: reply scripts keep the schema type (ill-typed replies are outside the quantifier); VerifReconcileOnce runs the same body as the 2 s ticker.", "DESIGN.md §2 C09"),
 "C10": ("exploration", "invariant monitor after every controller event over generated create/update/delete histories, incl. real TLS handshakes",
         "After every processed event the resolution table, ownership of names, stopped contexts and the TLS material handed out per SNI name are compared with a model of who owns which name.",
         "Trusted: the ownership model written from the statement; events are delivered through VerifSync in orders the real queue can produce.", "DESIGN.md §2 C10"),
 "C11": ("exploration", "differential monitor between two live gateways (lived-through history vs fresh with latest objects)",
         "For each generated history of versions, failures and re-deliveries, a gateway that processed the history is compared observable by observable with a fresh gateway given only the latest objects.",
         "Trusted: the list of compared observables is what the statement enumerates; client connection settings excluded as stated.", "DESIGN.md §2 C11"),
 "C12": ("exploration", "boundary monitor over request histories with per-cluster distinguishable answer tables",
         "Same token / same attributes are sent to different hosts in every order with per-cluster scripted answers; each decision must equal the addressed cluster's table entry (or fail/deny) and every review must be received by that cluster's stub; alias moves change who owns a host.",
         "Trusted: answer tables are fixed during a run so cached answers need no wall-clock reasoning.", "DESIGN.md §2 C12"),
 "C13": ("exploration", "reference-model differential (FNV-1a) + boundary monitor on stub limiter servers + state-unchanged monitor on the real server under scripted leadership histories",
         "Shard mapping compared with an independent implementation on random names and N; gateway-side calls must arrive at the server the leader table names; a non-leader must refuse naming the leader and leave the store untouched; loss discards state.",
         "Trusted: independent FNV-1a; scripted elector reproduces the callbacks of the real one.", "DESIGN.md §2 C13"),
 "C14": ("exploration", "counting monitor over barrier-separated batches + porcupine linearizability against fetch-and-increment, under injected schedule points",
         "Concurrent pickers on the real EndpointPicker with yields at every statement of Pop; per-batch counts must be floor/ceil (subset policies) or within the documented constant (others); short histories are linearizable against fetch-and-increment mod k.",
         "Trusted: ready set is stable inside a batch (scripted health); porcupine.", "DESIGN.md §2 C14"),
 "C15": ("exploration", "boundary monitor over stream histories with control streams (promptness judged relative to live controls)",
         "Streams are opened to endpoints that are then removed at chosen phases; removed targets must end (client and stub side) while control streams stay alive; no new request or probe reaches a removed target.",
         "Trusted: stub disconnect logs; the 5 s promptness bound is 2-3 orders above observed latency and a dead control stream makes the history inconclusive.", "DESIGN.md §2 C15"),
 "C16": ("exploration", "totality monitor under recover + apply-what-was-accepted monitor on real consumers + must-reject list",
         "Structure-aware and mutated UpstreamCluster objects go through the real validation and admission plugin; every accepted object is applied to a fresh real gateway controller (create and update path) and a real limiter server; demonstrated breaking classes must be rejected.",
         "Trusted: 'breaks a consumer' is demonstrated on a hand-made instance before a class enters the must-reject list.", "DESIGN.md §2 C16"),
 "C17": ("exploration", "differential monitor raw rule vs admitted rule through the real admission plugin (exhaustive small scope + random)",
         "Every per-field list of length<=3 over the alphabet and random whole rules are normalised by the real Admit(); raw and stored rules must match the same probe requests; Admit is idempotent.",
         "Trusted: probe sets are built to separate the entries of each rule; matching is the real RuleMatches (itself checked by C01).", "DESIGN.md §2 C17"),
 "C18": ("exploration", "state monitor over generated instance-lifecycle histories on the real server with deterministic heartbeat times",
         "Histories of join/report/acquire/silence/cleanup/return; after both cleanup kinds ran, nothing of a dead instance may remain and freed capacity must be grantable; instances with fresh heartbeats keep everything.",
         "Trusted: heartbeat times are set through a verif hook instead of sleeping; asynchronous deletion is awaited with a watchdog.", "DESIGN.md §2 C18"),
 "C19": ("fault_enumeration", "fault injection at every API call position x fault kind (incl. crash before/after) on the real store over a shared object tracker, then reload and compare",
         "For each generated operation sequence every API call position is enumerated with every fault kind; after the fault a new store loads from the shared tracker and is compared with what was acknowledged.",
         "Trusted: client-go ObjectTracker as the API; a crash = kill switch + sentinel panic; sequences are sampled, positions and kinds are exhaustive per sequence.", "DESIGN.md §2 C19"),
 "C20": ("exploration", "reference-convention monitor on the real API path (rest.BeforeCreate/BeforeUpdate with the registered strategies)",
         "Generated (stored, submitted) pairs differing in any subset of metadata/spec/status fields are pushed through the strategies actually registered; status, spec, labels and generation are compared with the conventions in the statement.",
         "Trusted: k8s.io/apiserver BeforeCreate/BeforeUpdate is what the generic registry Store calls.", "DESIGN.md §2 C20"),
}

# checks that are finished, reviewed and silent on the (repaired) unchanged tree
READY = {"C%02d" % i for i in range(1, 21)}

NOT_BUILT = "check not built yet in this round (work in progress; see DESIGN.md §6 build order)"


def main():
    props = [json.loads(l) for l in open(os.path.join(ROOT, "properties.jsonl"))]
    checks, na = [], []
    for p in props:
        pid = p["id"]
        if pid in CHECKS and pid in READY and os.path.isdir(os.path.join(ROOT, "harness", pid.lower())):
            level, tech, text, note, ref = CHECKS[pid]
            checks.append({
                "property_id": pid,
                "quick_cmd": "./check %s quick" % pid,
                "thorough_cmd": "./check %s thorough" % pid,
                "evidence_file": "evidence/%s.json" % pid,
                "replay_cmd_template": "./check %s --replay {path}" % pid,
                "engine": "harness",
                "level_claimed": {"category": level, "text": text, "design_ref": ref},
                "level_note": note,
                "technique": tech,
            })
        else:
            na.append({"property_id": pid, "reason": NA.get(pid, NOT_BUILT)})
    hooks_commits = []
    try:
        out = subprocess.check_output(["git", "-C", "/repo", "log", "--format=%h %s"], text=True)
        for line in out.splitlines():
            if line.split(" ", 1)[1].startswith("verif hooks"):
                hooks_commits.append(line.split(" ", 1)[0])
    except Exception:
        pass
    m = {
        "version": 1,
        "setup_cmd": "./setup.sh",
        "hooks": {
            "guard": "verif",
            "enable": "go build tag: every check runs `go test -tags verif` on the harness module, which imports /repo through a replace directive; hook files are `//go:build verif` new files (verif_hooks.go)",
            "baseline_off_cmd": "for m in . ./staging/src/github.com/kubewharf/apiserver-runtime; do (cd /repo/$m && GOFLAGS=-mod=mod GOPROXY=off GOSUMDB=off go test -mod=mod -json -vet=off -count=1 -timeout 25m ./...); done",
            "source_commits": hooks_commits,
            "add_only": True,
        },
        "engines": [
            {"name": "harness", "path": "harness", "serves_properties": [c["property_id"] for c in checks],
             "kind_free_text": "Go test packages (one per property) that run the real kubegateway packages under generated, hostile and concurrent workloads with runtime monitors; driven by ./check; shared kit in harness/vkit (verdicts, evidence, PRNG) and harness/bed (stub upstreams, real controller + handler chain)"},
        ],
        "checks": checks,
        "not_applicable": na,
        "notes": "Runtime monitoring only. Exit codes of ./check: 0 held, 1 VIOLATION, 2 inconclusive/broken. Known findings: known_findings.json.",
    }
    json.dump(m, open(os.path.join(ROOT, "MANIFEST.json"), "w"), indent=1)
    print("claimed:", [c["property_id"] for c in checks], "not claimed:", [x["property_id"] for x in na])


NA = {}

if __name__ == "__main__":
    main()
