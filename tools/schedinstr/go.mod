module schedinstr

go 1.17
