#!/bin/bash
# usage: tools/verify_seed.sh <Cxx> <k>   — independently confirms a seeded mutant in its scratch worktree /tmp/seed/Cxx:
#   patch applies, tree builds, the repository's own suite still passes, the demonstration FAILS with the patch and PASSES without.
# On success copies it to /verif/seeded/Cxx-k/ (patch.diff, demo, README.md) and writes meta.json skeleton.
ID=$1; K=$2; ROOT=${SEEDROOT:-/tmp/seed}; DK=${3:-$K}   # DK = number under /verif/seeded (round 2 uses 3,4)
WT=$ROOT/$ID; S=$WT/SEED/$K
export GOFLAGS=-mod=mod GOPROXY=off GOSUMDB=off GOTOOLCHAIN=local
[ -f $S/patch.diff ] || { echo "no $S/patch.diff"; exit 2; }
DEST=$(grep -o 'copy `demo_test.go` to `[^`]*`' $S/README.md | head -1 | sed 's/.*to `\(.*\)`/\1/')
[ -n "$DEST" ] || DEST=$(grep -o 'copy to `[^`]*_test.go`' $S/README.md | head -1 | sed 's/.*to `\(.*\)`/\1/')
CMD=$(grep -o '`go test [^`]*-run [^`]*`' $S/README.md | head -1 | tr -d '`')
[ -n "$CMD" ] || CMD=$(grep -E '^ +go test .*-run ' $S/README.md | head -1 | sed 's/^ *//')
[ -n "$DEST" ] && [ -n "$CMD" ] || { echo "cannot parse demo location/command from README ($DEST | $CMD)"; exit 2; }
cd $WT || exit 2
git checkout -q -- . ; rm -f "$DEST"
echo "== $ID/$K  demo at $DEST  cmd: $CMD"
git apply $S/patch.diff || { echo "RESULT $ID/$K: patch does not apply"; exit 1; }
touched=$(git diff --name-only | tr '\n' ' ')
if ! go build ./... 2>&1 | tail -5; then :; fi
go build ./... >/dev/null 2>&1 || { echo "RESULT $ID/$K: does not build"; git checkout -q -- .; exit 1; }
T=$(mktemp)
for m in . ./staging/src/github.com/kubewharf/apiserver-runtime; do (cd $WT/$m && go test -mod=mod -json -vet=off -count=1 -timeout 25m ./... 2>/dev/null); done > $T
suite=$(python3 - "$T" <<'PY'
import json,sys
ok=set()
for l in open(sys.argv[1]):
    try: e=json.loads(l)
    except: continue
    if e.get('Test') and e.get('Action')=='pass': ok.add(e['Package']+'::'+e['Test'])
sp=set(json.load(open('/root/.vp/BASELINE.json'))['stable_pass'])
miss=sorted(sp-ok)
print('suite-ok' if not miss else 'suite-FAIL '+' '.join(miss[:5]))
PY
)
rm -f $T
echo "   suite with patch: $suite"
cp $S/demo_test.go "$DEST"
# extra demo files (e.g. helpers) named demo_*.go
$CMD > /tmp/demo_with.$$ 2>&1; rc_with=$?
git checkout -q -- .
$CMD > /tmp/demo_without.$$ 2>&1; rc_without=$?
rm -f "$DEST"
echo "   demo with patch: exit $rc_with ; without: exit $rc_without"
if [ "$suite" = "suite-ok" ] && [ $rc_with -ne 0 ] && [ $rc_without -eq 0 ]; then
  D=/verif/seeded/$ID-$DK; mkdir -p $D
  cp $S/patch.diff $S/demo_test.go $S/README.md $D/
  grep -E -- '--- FAIL|FAIL|Error|seed' /tmp/demo_with.$$ | head -5 > $D/demo_with_patch.txt
  python3 - "$D" "$ID" "$DK" "$DEST" "$CMD" "$touched" <<'PY'
import json,sys,re
d,pid,k,dest,cmd,touched=sys.argv[1:7]
readme=open(d+'/README.md').read()
def sec(name):
    m=re.search(r'\*\*'+name+r'[^*]*\*\*:?\s*(.*?)(?=\n\*\*|\Z)', readme, re.S)
    return ' '.join(m.group(1).split()) if m else ''
meta={"property":pid,"mutant":int(k),"files_touched":touched.split(),
 "breaks":sec('Clause broken'),"needs_to_manifest":sec('Needs to manifest'),
 "demo":{"copy_to":dest,"command":cmd},
 "confirmed":{"patch_applies":True,"builds":True,"repo_suite_155_pass_with_patch":True,"demo_fails_with_patch":True,"demo_passes_without_patch":True,
              "how":"tools/verify_seed.sh in the seeder's scratch worktree of %s (HEAD of /repo at seeding time)"%pid},
 "checks_run":[]}
json.dump(meta,open(d+'/meta.json','w'),indent=1)
PY
  echo "RESULT $ID/$K: CONFIRMED -> $D"
  rm -f /tmp/demo_with.$$ /tmp/demo_without.$$
  exit 0
fi
echo "RESULT $ID/$K: NOT confirmed"; tail -5 /tmp/demo_with.$$; tail -5 /tmp/demo_without.$$
rm -f /tmp/demo_with.$$ /tmp/demo_without.$$
exit 1
