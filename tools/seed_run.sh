#!/bin/bash
# usage: tools/seed_run.sh <seeded/Cxx-k> <id> [id...]  — runs checks against a seeded change and records the outcome in its meta.json.
# MODE=iso (default; scratch worktree + private harness copy) or MODE=repo (git -C /repo apply … ; run ; git -C /repo checkout -- .)
cd "$(dirname "$0")/.."
D=$1; shift
for id in "$@"; do
  if [ "${MODE:-iso}" = "repo" ]; then out=$(tools/mutant.sh $D/patch.diff $id 2>&1); else out=$(tools/mutant_iso.sh $D/patch.diff $id 2>&1); fi
  rc=$(echo "$out" | grep -o "^$id exit=[0-9]*" | head -1 | sed 's/.*=//')
  sig=$(echo "$out" | grep -m1 '^VIOLATION' | sed 's#.*replay=.*/##; s/\.json$//')
  what=$(echo "$out" | grep -m1 '^  what:' | cut -c9-300)
  echo "$D  $id exit=$rc sig=$sig"
  python3 - "$D/meta.json" "$id" "${rc:-2}" "$sig" "$what" "${TIER:-quick}" "${MODE:-iso}" <<'PY'
import json,sys
f,pid,rc,sig,what,tier,mode=sys.argv[1:8]
m=json.load(open(f))
m['checks_run']=[c for c in m.get('checks_run',[]) if not (c['check']==pid and c['tier']==tier)]
m['checks_run'].append({"check":pid,"tier":tier,"exit":int(rc),"detected":int(rc)==1,"first_violation":sig,"what":what,
  "how":"git apply in a scratch worktree of /repo + private copy of /verif (VERIF_REPO)" if mode=='iso' else "git -C /repo apply; ./check; git -C /repo checkout -- ."})
json.dump(m,open(f,'w'),indent=1)
PY
done
