#!/bin/bash
# usage: tools/racescan.sh [ids...]   — exploratory, NON-deciding: runs each check's quick workload under the Go race detector
# (halt_on_error=0) and prints the data-race reports that involve kubegateway code, de-duplicated by the pair of innermost
# kubegateway frames (line numbers kept). Output: out/race/<id>.log, out/race/<id>.<pid> (raw reports), out/race/SUMMARY.txt
cd "$(dirname "$0")/.."
ROOT=$PWD
export GOFLAGS=-mod=mod GOPROXY=off GOSUMDB=off GOTOOLCHAIN=local VERIF_ROOT=$ROOT VERIF_REPO=${VERIF_REPO:-/repo}
IDS="$@"; [ -z "$IDS" ] && IDS=$(jq -r '.checks[].property_id' MANIFEST.json)
mkdir -p out/race; tools/gomodgen.sh || exit 2
for id in $IDS; do
  pkg=$(echo $id | tr A-Z a-z)
  rm -f out/race/$id.*
  ( cd harness && VERIF_TIER=quick VERIF_SEED=${VERIF_SEED:-1} VERIF_NO_EVIDENCE=1 VERIF_RACE_PASS=1 \
      GORACE="halt_on_error=0 log_path=$ROOT/out/race/$id" timeout -s QUIT ${RACE_TIMEOUT:-2400} \
      go test -race -v -tags verif -vet=off -count=1 -timeout 0 -run '^TestCheck$' ./$pkg ) > out/race/$id.log 2>&1
  echo "$id exit=$? reports=$(cat out/race/$id.[0-9]* 2>/dev/null | grep -c 'WARNING: DATA RACE')"
done
python3 - "$ROOT" $IDS <<'PY' | tee out/race/SUMMARY.txt
import sys,glob,re,collections
root=sys.argv[1]
for pid in sys.argv[2:]:
    txt=''.join(open(f,errors='replace').read() for f in glob.glob(f'{root}/out/race/{pid}.[0-9]*'))
    reps=txt.split('WARNING: DATA RACE')[1:]
    seen=collections.Counter(); ex={}
    for r in reps:
        stacks=re.split(r'\n\n', r)
        keys=[]
        for st in stacks[:2]:
            m=re.findall(r'\n\s+(/repo/[^\s]+:\d+)', st)
            keys.append(m[0].replace('/repo/','') if m else '(no kubegateway frame)')
        k=' <-> '.join(sorted(keys))
        seen[k]+=1; ex.setdefault(k, r[:1500])
    for k,n in seen.most_common():
        if 'kubegateway' in k or 'pkg/' in k or 'cmd/' in k or 'staging' in k:
            print(f'{pid} x{n}: {k}')
PY
