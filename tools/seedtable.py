#!/usr/bin/env python3
"""usage: tools/seedtable.py <round>  — prints the DESIGN.md §7.4 table of one seeding round from seeded/*/meta.json + README.md."""
import json, glob, os, re, sys
rnd = int(sys.argv[1])
rows = []; det = miss = 0
for d in sorted(glob.glob(os.path.join(os.path.dirname(__file__), '..', 'seeded', 'C*-*')), key=lambda p: (os.path.basename(p)[:3], int(os.path.basename(p).split('-')[1]))):
    m = json.load(open(d + '/meta.json'))
    if m.get('round') != rnd: continue
    name = os.path.basename(d)
    title = ''
    for f in ('README.md', 'README.txt'):
        if os.path.exists(d + '/' + f):
            first = open(d + '/' + f).readline().strip().lstrip('# ').strip()
            title = re.split(r'\s[—–-]\s', first, maxsplit=1)[-1] if re.search(r'\s[—–-]\s', first) else first
            break
    own = [c for c in m.get('checks_run', []) if c['check'] == m['property'] and c['tier'] == 'quick']
    sig = own[-1]['first_violation'] if own and own[-1].get('detected') else 'NOT DETECTED'
    if m.get('status_after_fix'): sig = 'superseded by a fix (see meta.json)'
    first = 'missed → check strengthened (see meta.json `history`)' if m.get('history') else 'detected'
    if m.get('history'): miss += 1
    else: det += 1
    rows.append(f"| {name} {title} | {first} | `{sig}` |")
print("| change | first version of the quick tier | signature that now reports it |\n|---|---|---|")
print("\n".join(rows))
print(f"\nRound {rnd}: {det+miss} changes, {det} detected at the first try, {miss} missed at first.")
