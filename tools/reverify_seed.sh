#!/bin/bash
# usage: tools/reverify_seed.sh <seeded/Cxx-k>  — re-confirms a seeded change against the CURRENT /repo HEAD in a fresh scratch worktree
# (patch applies, builds, repo suite passes with it, demo fails with / passes without). Updates meta.json (confirmed.repo_head).
cd "$(dirname "$0")/.."
D=$(readlink -f $1)
export GOFLAGS=-mod=mod GOPROXY=off GOSUMDB=off GOTOOLCHAIN=local
WT=/tmp/rv-$$
git -C /repo worktree add -q --detach $WT HEAD || exit 2
trap 'cd /; git -C /repo worktree remove --force '$WT' 2>/dev/null' EXIT
DEST=$(jq -r .demo.copy_to $D/meta.json); CMD=$(jq -r .demo.command $D/meta.json)
cd $WT
git apply $D/patch.diff || { echo "RESULT $D: patch does not apply to HEAD"; exit 1; }
go build ./... >/dev/null 2>&1 || { echo "RESULT $D: does not build"; exit 1; }
T=$(mktemp)
for m in . ./staging/src/github.com/kubewharf/apiserver-runtime; do (cd $WT/$m && go test -mod=mod -json -vet=off -count=1 -timeout 25m ./... 2>/dev/null); done > $T
suite=$(python3 - "$T" <<'PY'
import json,sys
ok=set()
for l in open(sys.argv[1]):
    try: e=json.loads(l)
    except: continue
    if e.get('Test') and e.get('Action')=='pass': ok.add(e['Package']+'::'+e['Test'])
sp=set(json.load(open('/root/.vp/BASELINE.json'))['stable_pass'])
miss=sorted(sp-ok)
print('suite-ok' if not miss else 'suite-FAIL '+' '.join(miss[:5]))
PY
)
rm -f $T
cp $D/demo_test.go "$DEST"
$CMD > /tmp/rv_with.$$ 2>&1; rc_with=$?
git apply -R $D/patch.diff
$CMD > /tmp/rv_without.$$ 2>&1; rc_without=$?
head=$(git -C /repo rev-parse --short HEAD)
echo "$D @ $head: $suite ; demo with patch exit $rc_with ; without exit $rc_without"
if [ "$suite" = "suite-ok" ] && [ $rc_with -ne 0 ] && [ $rc_without -eq 0 ]; then
  tmp=$(mktemp); jq --arg h "$head" '.confirmed.repo_head=$h' $D/meta.json > $tmp && mv $tmp $D/meta.json
  echo "RESULT $D: CONFIRMED at $head"; rm -f /tmp/rv_with.$$ /tmp/rv_without.$$; exit 0
fi
echo "RESULT $D: NOT confirmed"; tail -5 /tmp/rv_with.$$ /tmp/rv_without.$$; rm -f /tmp/rv_with.$$ /tmp/rv_without.$$; exit 1
