#!/bin/bash
# usage: tools/matrix.sh <workers>  — runs EVERY claimed quick check against EVERY seeded change (isolated worktree + private harness copy),
# to look for alarms raised by checks of properties the change does not break. Results: out/matrix/<seed>.log
cd "$(dirname "$0")/.."
W=${1:-2}
IDS=$(jq -r '.checks[].property_id' MANIFEST.json | tr '\n' ' ')
ls -d seeded/*/ | sed 's#/$##' | while read d; do
  s=$(basename $d)
  [ -f out/matrix/$s.log ] && continue
  git -C /repo apply --check $(readlink -f $d/patch.diff) 2>/dev/null || { echo "$s: does not apply" > out/matrix/$s.log; continue; }
  echo $d
done | xargs -P $W -I{} sh -c 'LINES_MAX=2 tools/mutant_iso.sh {}/patch.diff '"$IDS"' > out/matrix/$(basename {}).log 2>&1'
