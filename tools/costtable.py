#!/usr/bin/env python3
"""usage: tools/costtable.py <sweep logs...>  — prints the DESIGN.md §5 cost table (min–max wall per check and tier) from tools/sweep.sh output."""
import re,sys,collections
w=collections.defaultdict(list)
for f in sys.argv[1:]:
    for l in open(f,errors='replace'):
        m=re.match(r'(C\d+) seed=\d+ tier=(\w+) exit=(\d+) wall=(\d+)s',l)
        if m and m.group(3)=='0': w[(m.group(1),m.group(2))].append(int(m.group(4)))
ids=sorted({k[0] for k in w})
print("| check | quick (wall incl. build, s) | thorough (wall, s) |\n|---|---|---|")
for i in ids:
    def rng(t):
        v=w.get((i,t))
        return '–' if not v else (f"{min(v)}" if min(v)==max(v) else f"{min(v)}–{max(v)}")+f" (n={len(v)})"
    print(f"| {i} | {rng('quick')} | {rng('thorough')} |")
