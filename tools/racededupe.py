#!/usr/bin/env python3
"""usage: tools/racededupe.py <id>...  — de-duplicates out/race/<id>.<pid> reports by the pair of innermost kubegateway frames."""
import sys,glob,re,collections
root='/verif'
for pid in sys.argv[1:]:
    txt=''.join(open(f,errors='replace').read() for f in glob.glob(f'{root}/out/race/{pid}.[0-9]*'))
    reps=txt.split('WARNING: DATA RACE')[1:]
    seen=collections.Counter()
    for r in reps:
        stacks=re.split(r'\n\n', r)
        keys=[]
        for st in stacks[:2]:
            head=st.strip().split('\n')[0][:40]
            m=re.findall(r'\n\s+(/repo/[^\s]+:\d+)', st)
            h=re.findall(r'\n\s+(/verif/harness/[^\s]+:\d+)', st)
            keys.append((m[0].replace('/repo/','') if m else ('HARNESS '+h[0].replace('/verif/harness/','') if h else '(none)')))
        seen[' <-> '.join(sorted(keys))]+=1
    for k,n in seen.most_common():
        print(f'{pid} x{n}: {k}')
