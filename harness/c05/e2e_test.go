package c05

import (
	"bufio"
	"context"
	"fmt"
	"io"
	"log"
	"net"
	"net/http"
	"net/http/httptest"
	"strings"
	"sync"
	"sync/atomic"
	"syscall"
	"time"

	"k8s.io/apiserver/pkg/authentication/user"

	proxyv1alpha1 "github.com/kubewharf/kubegateway/pkg/apis/proxy/v1alpha1"

	"verifharness/bed"
	"verifharness/vkit"
)

// End-to-end: real controller + real handler chain + stub upstreams. A request is "admitted" iff it reached a stub or
// (for the endings that never reach one) was not answered 429. Slot accounting is judged only by the quiescence probe
// over HTTP: with H streams still held and every other request finished (the outermost handler of the host has
// returned for all of them), exactly M-H further streams are admitted and the next request is answered 429; after
// releasing everything exactly M are admitted again.

const modeHeader = "X-Verif-Mode"

const watchdog = 15 * time.Second

// hostCounter wraps the whole chain: per-host number of requests whose outermost handler has not returned yet.
type hostCounter struct {
	inner http.Handler
	m     sync.Map // host -> *int64
	// panics injected through the ResponseWriter handed to the chain (see faultWriter)
	writePanics, hijackPanics int64
}

// faultWriter is the ResponseWriter the chain gets for a flagged request: the client connection "blows up" once, either
// when the gateway writes its own answer (WriteHeader/Write) or when the upgrade path hijacks the connection. Those
// calls are made in the dispatcher's frame or below it but OUTSIDE the recover() of the upgrade-aware handler's
// reverse-proxy branch, so the panic travels through the dispatcher's deferred calls after the request was admitted.
type faultWriter struct {
	http.ResponseWriter
	onWrite, onHijack bool
	fired             int32
	hc                *hostCounter
}

func (f *faultWriter) blow(counter *int64, v interface{}) {
	if atomic.CompareAndSwapInt32(&f.fired, 0, 1) {
		atomic.AddInt64(counter, 1)
		panic(v)
	}
}

func (f *faultWriter) WriteHeader(code int) {
	if f.onWrite {
		f.blow(&f.hc.writePanics, http.ErrAbortHandler)
	}
	f.ResponseWriter.WriteHeader(code)
}

func (f *faultWriter) Write(b []byte) (int, error) {
	if f.onWrite {
		f.blow(&f.hc.writePanics, http.ErrAbortHandler)
	}
	return f.ResponseWriter.Write(b)
}

func (f *faultWriter) Flush() {
	if fl, ok := f.ResponseWriter.(http.Flusher); ok {
		fl.Flush()
	}
}

func (f *faultWriter) Hijack() (net.Conn, *bufio.ReadWriter, error) {
	if f.onHijack {
		f.blow(&f.hc.hijackPanics, "verif: injected panic while hijacking the client connection for an upgrade")
	}
	return f.ResponseWriter.(http.Hijacker).Hijack()
}

func (f *faultWriter) CloseNotify() <-chan bool {
	if cn, ok := f.ResponseWriter.(http.CloseNotifier); ok { //nolint
		return cn.CloseNotify()
	}
	return make(chan bool)
}

func (h *hostCounter) ctr(host string) *int64 {
	if v, ok := h.m.Load(host); ok {
		return v.(*int64)
	}
	v, _ := h.m.LoadOrStore(host, new(int64))
	return v.(*int64)
}

func (h *hostCounter) ServeHTTP(w http.ResponseWriter, r *http.Request) {
	c := h.ctr(r.Host)
	atomic.AddInt64(c, 1)
	defer atomic.AddInt64(c, -1)
	switch r.Header.Get(modeHeader) {
	case "panic-writing-503":
		w = &faultWriter{ResponseWriter: w, onWrite: true, hc: h}
	case "panic-in-upgrade-hijack":
		w = &faultWriter{ResponseWriter: w, onHijack: true, hc: h}
	}
	h.inner.ServeHTTP(w, r)
}

// releases lets the harness end held streams.
type releases struct {
	mu sync.Mutex
	m  map[string]chan struct{}
	// ended: ids of held streams whose handler at the stub upstream has returned (released by the harness, or the
	// gateway ended the upstream request) - the upstream side of "this request is finished"
	ended sync.Map
}

func (r *releases) isEnded(id string) bool { _, ok := r.ended.Load(id); return ok }

func (r *releases) ch(id string) chan struct{} {
	r.mu.Lock()
	defer r.mu.Unlock()
	c, ok := r.m[id]
	if !ok {
		c = make(chan struct{})
		r.m[id] = c
	}
	return c
}

func (r *releases) release(id string) {
	c := r.ch(id)
	select {
	case <-c:
	default:
		close(c)
	}
}

func hangUp(w http.ResponseWriter) {
	if hj, ok := w.(http.Hijacker); ok {
		if c, _, err := hj.Hijack(); err == nil {
			if tc, ok := c.(*net.TCPConn); ok {
				_ = tc.SetLinger(0)
			}
			c.Close()
			return
		}
	}
	panic(http.ErrAbortHandler)
}

func responder(rel *releases) bed.Responder {
	return func(w http.ResponseWriter, r *http.Request, s *bed.Seen) {
		fl, _ := w.(http.Flusher)
		switch r.Header.Get(modeHeader) {
		case "5xx":
			w.WriteHeader(500)
			io.WriteString(w, "boom")
		case "hold", "cancel":
			defer rel.ended.Store(s.ID, true)
			w.Header().Set("Content-Type", "text/plain")
			w.WriteHeader(200)
			io.WriteString(w, "first\n")
			fl.Flush()
			select {
			case <-rel.ch(s.ID):
			case <-r.Context().Done():
			case <-time.After(60 * time.Second):
			}
			io.WriteString(w, "end\n")
		case "slow":
			w.WriteHeader(200)
			for k := 0; k < 4; k++ {
				io.WriteString(w, strings.Repeat("x", 512))
				fl.Flush()
				time.Sleep(300 * time.Microsecond)
			}
		case "upgrade", "panic-in-upgrade-hijack":
			// switch protocols, exchange a few bytes on the raw connection, then close it (exec/attach/port-forward shape)
			hj, ok := w.(http.Hijacker)
			if !ok {
				w.WriteHeader(500)
				return
			}
			c, brw, err := hj.Hijack()
			if err != nil {
				return
			}
			brw.WriteString("HTTP/1.1 101 Switching Protocols\r\nConnection: Upgrade\r\nUpgrade: SPDY/3.1\r\n\r\nhello-from-upstream")
			brw.Flush()
			time.Sleep(300 * time.Microsecond)
			c.Close()
		case "close-before-headers":
			hangUp(w)
		case "close-mid-body":
			w.WriteHeader(200)
			io.WriteString(w, strings.Repeat("y", 2048))
			fl.Flush()
			time.Sleep(200 * time.Microsecond)
			hangUp(w)
		case "truncated":
			w.Header().Set("Content-Length", "100000")
			w.WriteHeader(200)
			io.WriteString(w, "only this")
			fl.Flush()
			time.Sleep(200 * time.Microsecond)
			hangUp(w)
		default:
			w.Header().Set("Content-Type", "text/plain")
			w.WriteHeader(200)
			io.WriteString(w, "ok")
		}
	}
}

// faultRT wraps the exported EndpointInfo.ProxyTransport: panics / fails for flagged requests, passes the rest through.
type faultRT struct {
	inner  http.RoundTripper
	panics *int64
	fails  *int64
}

func (f *faultRT) RoundTrip(req *http.Request) (*http.Response, error) {
	switch req.Header.Get(modeHeader) {
	case "transport-panic":
		atomic.AddInt64(f.panics, 1)
		panic("verif: injected panic in the upstream-facing transport")
	case "transport-error":
		atomic.AddInt64(f.fails, 1)
		return nil, &net.OpError{Op: "dial", Net: "tcp", Err: syscall.ECONNREFUSED}
	}
	return f.inner.RoundTrip(req)
}

var endings = []string{
	"ok", "slow", "5xx", "close-before-headers", "close-mid-body", "truncated", "transport-error", "listener-closed",
	"no-ready-endpoint", "cancel", "transport-panic", "upload-then-5xx", "upgrade",
	// panics that surface in the dispatcher's frame after admission (the reverse-proxy branch recovers its own):
	"panic-writing-503",       // no ready endpoint, and the client connection blows up while the dispatcher writes the 503
	"panic-in-upgrade-hijack", // upgrade accepted by the upstream, hijacking the client connection panics
	// unusual but legal client behaviour
	"watch-stream",   // ?watch=true: long-running for the generic filters, streamed
	"http10",         // raw socket, HTTP/1.0 without keep-alive
	"upload-aborted", // raw socket, POST announcing 200000 bytes, connection closed after 1000
	// the same chain behind a TLS listener that speaks HTTP/2 (one connection, multiplexed streams)
	"h2-ok", "h2-slow", "h2-no-ready-endpoint",
	"h2-cancel", // the client resets the stream mid-body (RST_STREAM instead of a closed connection)
}

type e2eEnv struct {
	r                 *vkit.R
	gw                *bed.Gateway
	hc                *hostCounter
	tok               string
	idn               int64
	probeN            int64
	h2                *httptest.Server
	h2c               *http.Client
	h2Responses       int64
	rtPanics, rtFails int64
}

type batch struct {
	env           *e2eEnv
	host          string
	main          *bed.Stub
	off           *bed.Stub
	dying         *bed.Stub
	second        *bed.Stub // a second enabled endpoint (requests for "secondpods"), removable from the server list
	noSecond      bool
	sibName       string // a second max-in-flight schema (requests for "sibpods" on main) whose name nearly collides with hot
	sibMax        int32
	noSib         bool
	groupPolicies bool   // policies selected by user GROUP: grp-a -> hot (limit M), grp-b -> side (limit 2)
	tok           string // bearer token to use instead of the environment's (same user name, other groups)
	defName       bool   // a user schema literally named "system-default" (limit 1, resource "defpods") and a policy without schema ("freepods")
	rel           *releases
	M             int32
	violated      bool
	// live: streams the harness holds and believes unfinished (admitted, not yet released by it). Whether they really
	// are is OBSERVED at both sides before an over-limit verdict: the client has not seen the end and the stub's handler
	// has not returned. The gateway may end a request for reasons of its own; the slot it gives back is then free.
	live map[string]*pending
	log  []string
	mu   sync.Mutex
}

func (b *batch) note(f string, a ...interface{}) {
	b.mu.Lock()
	b.log = append(b.log, fmt.Sprintf(f, a...))
	b.mu.Unlock()
}

func (b *batch) object(hotCfg cfg, fillerMax int32) *proxyv1alpha1.UpstreamCluster {
	servers := []string{b.main.URL, b.off.URL}
	if b.dying != nil {
		servers = append(servers, b.dying.URL)
	}
	mkS := func(resource string, subset []string, schema string) proxyv1alpha1.DispatchPolicy {
		return proxyv1alpha1.DispatchPolicy{Strategy: proxyv1alpha1.RoundRobin, UpstreamSubset: subset, FlowControlSchemaName: schema,
			Rules: []proxyv1alpha1.DispatchPolicyRule{{Verbs: []string{"*"}, APIGroups: []string{"*"}, Resources: []string{resource}}}}
	}
	mk := func(resource string, subset []string) proxyv1alpha1.DispatchPolicy { return mkS(resource, subset, hot) }
	pols := []proxyv1alpha1.DispatchPolicy{mk("offpods", []string{b.off.URL})}
	if b.dying != nil {
		pols = append(pols, mk("dyingpods", []string{b.dying.URL}))
	}
	if b.second != nil && !b.noSecond {
		servers = append(servers, b.second.URL)
		pols = append(pols, mk("secondpods", []string{b.second.URL}))
	}
	if b.sibName != "" && !b.noSib {
		pols = append(pols, mkS("sibpods", []string{b.main.URL}, b.sibName))
	}
	if b.defName {
		pols = append(pols, mkS("defpods", []string{b.main.URL}, "system-default"), mkS("freepods", []string{b.main.URL}, ""))
	}
	if b.groupPolicies {
		byGroup := func(group, schema string) proxyv1alpha1.DispatchPolicy {
			p := mkS("*", []string{b.main.URL}, schema)
			p.Rules[0].UserGroups = []string{group}
			return p
		}
		pols = append(pols, byGroup("grp-a", hot), byGroup("grp-b", side))
	}
	pols = append(pols, bed.CatchAllPolicy([]string{b.main.URL}, hot))
	var schemas []proxyv1alpha1.FlowControlSchema
	switch hotCfg.Kind {
	case kMIF:
		schemas = append(schemas, mifSchema(hot, hotCfg.Max))
	case kTB:
		schemas = append(schemas, tbSchema(hot, 1000000, 1000000))
	case kExempt:
		schemas = append(schemas, exemptSchema(hot))
	}
	if b.sibName != "" && !b.noSib {
		schemas = append(schemas, mifSchema(b.sibName, b.sibMax))
	}
	if b.defName {
		schemas = append(schemas, mifSchema("system-default", 1))
	}
	if b.groupPolicies {
		schemas = append(schemas, mifSchema(side, 2))
	}
	schemas = append(schemas, mifSchema(filler, fillerMax))
	return bed.BuildCluster(bed.ClusterSpec{Name: b.host, Servers: servers, Disabled: map[string]bool{b.off.URL: true}, Policies: pols, Schemas: schemas})
}

func (b *batch) apply(c cfg, fillerMax int32) bool {
	sr := b.env.gw.Apply(stamps.stamp(b.object(c, fillerMax)))
	if sr.Err != nil || sr.Panic != nil || sr.Requeue {
		b.env.r.Inconclusive(fmt.Sprintf("controller did not apply the C05 e2e cluster: %+v", sr))
		return false
	}
	b.note("apply %s=%s", hot, describeCfg(c))
	return true
}

type outcome struct {
	id        string
	status    int
	err       error
	forwarded bool
}

type pending struct {
	id     string
	done   chan outcome
	cancel context.CancelFunc
}

func (b *batch) newID() string { return fmt.Sprintf("c05-%d", atomic.AddInt64(&b.env.idn, 1)) }

// start sends one request in the background.
func (b *batch) start(mode string) *pending { return b.startOn(mode, "pods") }

// startOn sends one request for the given resource (the dispatch policies route by resource) in the background.
func (b *batch) startOn(mode, resource string) *pending {
	if mode == "http10" || mode == "upload-aborted" {
		return b.startRaw(mode, resource)
	}
	id := b.newID()
	method := "GET"
	var body io.Reader
	viaH2 := strings.HasPrefix(mode, "h2-")
	mode = strings.TrimPrefix(mode, "h2-")
	switch mode {
	case "watch-stream":
		resource, mode = resource+"?watch=true", "slow"
	case "no-ready-endpoint", "panic-writing-503":
		resource = "offpods"
	case "listener-closed":
		resource = "dyingpods"
	case "upload-then-5xx":
		method, body, mode = "POST", strings.NewReader(strings.Repeat("z", 64<<10)), "5xx"
	}
	req := bed.NewRequest(method, b.host, "/api/v1/namespaces/default/"+resource, b.token(), id, body)
	req.Header.Set(modeHeader, mode)
	if mode == "upgrade" || mode == "panic-in-upgrade-hijack" {
		req.Header.Set("Connection", "Upgrade")
		req.Header.Set("Upgrade", "SPDY/3.1")
	}
	ctx, cancel := context.WithCancel(context.Background())
	req = req.WithContext(ctx)
	p := &pending{id: id, done: make(chan outcome, 1), cancel: cancel}
	go func() {
		if viaH2 {
			p.done <- b.env.doH2(req, id)
			return
		}
		resp := b.env.gw.Do(req)
		p.done <- outcome{id: id, status: resp.Status, err: resp.Err}
	}()
	return p
}

// doH2 sends the request over the HTTP/2 listener.
func (e *e2eEnv) doH2(req *http.Request, id string) outcome {
	req.URL.Scheme, req.URL.Host = "https", e.h2.Listener.Addr().String()
	resp, err := e.h2c.Do(req)
	if err != nil {
		return outcome{id: id, err: err}
	}
	defer resp.Body.Close()
	if resp.ProtoMajor == 2 {
		atomic.AddInt64(&e.h2Responses, 1)
	}
	_, err = io.Copy(io.Discard, resp.Body)
	return outcome{id: id, status: resp.StatusCode, err: err}
}

// startRaw speaks to the gateway's listener over a raw TCP connection.
func (b *batch) startRaw(mode, resource string) *pending {
	id := b.newID()
	p := &pending{id: id, done: make(chan outcome, 1), cancel: func() {}}
	go func() {
		o := outcome{id: id}
		defer func() { p.done <- o }()
		c, err := net.DialTimeout("tcp", b.env.gw.Addr(), watchdog)
		if err != nil {
			o.err = err
			return
		}
		defer c.Close()
		_ = c.SetDeadline(time.Now().Add(watchdog))
		hdr := fmt.Sprintf("Host: %s\r\nAuthorization: Bearer %s\r\n%s: %s\r\n", b.host, b.token(), bed.IDHeader, id)
		path := "/api/v1/namespaces/default/" + resource
		switch mode {
		case "http10":
			fmt.Fprintf(c, "GET %s HTTP/1.0\r\n%s%s: ok\r\n\r\n", path, hdr, modeHeader)
		case "upload-aborted":
			fmt.Fprintf(c, "POST %s HTTP/1.1\r\n%s%s: ok\r\nContent-Type: application/json\r\nContent-Length: 200000\r\n\r\n%s", path, hdr, modeHeader, strings.Repeat("z", 1000))
			// let the gateway admit it and start proxying (the stub records a request when its header arrives), then hang up
			vkit.WaitFor(50*time.Millisecond, func() bool { return b.seen(id) })
			if tc, ok := c.(*net.TCPConn); ok {
				_ = tc.SetLinger(0)
			}
			c.Close()
			return
		}
		br := bufio.NewReader(c)
		line, err := br.ReadString('\n')
		if err != nil {
			o.err = err
			return
		}
		fmt.Sscanf(line, "HTTP/1.%d %d", new(int), &o.status)
		_, _ = io.Copy(io.Discard, br)
	}()
	return p
}

func (b *batch) seen(id string) bool {
	if b.main.CountID(id) > 0 {
		return true
	}
	if b.second != nil && b.second.CountID(id) > 0 {
		return true
	}
	return b.dying != nil && b.dying.CountID(id) > 0
}

// hold starts a stream that stays in flight until released; returns (pending, admitted, ok=false on watchdog).
func (b *batch) hold() (*pending, bool, bool) { return b.holdOn("pods") }

func (b *batch) holdOn(resource string) (*pending, bool, bool) {
	p := b.startOn("hold", resource)
	var early *outcome
	ok := vkit.WaitFor(watchdog, func() bool {
		if b.seen(p.id) {
			return true
		}
		select {
		case o := <-p.done:
			early = &o
			return true
		default:
			return false
		}
	})
	if !ok {
		return p, false, false
	}
	if early != nil {
		p.done <- *early
		b.note("stream %s refused: %d", p.id, early.status)
		return p, false, true
	}
	b.note("stream %s admitted (held)", p.id)
	b.mu.Lock()
	if b.live == nil {
		b.live = map[string]*pending{}
	}
	b.live[p.id] = p
	b.mu.Unlock()
	return p, true, true
}

func (b *batch) finish(p *pending) (outcome, bool) {
	select {
	case o := <-p.done:
		o.forwarded = b.seen(o.id)
		b.mu.Lock()
		delete(b.live, p.id)
		b.mu.Unlock()
		return o, true
	case <-time.After(watchdog):
		return outcome{}, false
	}
}

func (b *batch) inflightIs(n int64) bool {
	c := b.env.hc.ctr(b.host)
	return vkit.WaitFor(watchdog, func() bool { return atomic.LoadInt64(c) == n })
}

// probe: with `held` streams of the CURRENT epoch in flight (and nothing else), exactly limit-held more are admitted and the
// next request is answered 429. Returns the streams it holds (still held) and false when a watchdog expired.
//
// requireFill=false is used when the held streams were admitted before a reconfiguration: the statement bounds admissions
// from above only, so a refusal below the new limit is not judged there (the probe is then moot and ends).
func (b *batch) probe(limit int, held int, requireFill bool, sigTail string, witness func() map[string]interface{}) ([]*pending, bool) {
	var mine []*pending
	if b.violated {
		return mine, true // one report per batch: a second probe on a limiter already found wrong adds nothing
	}
	for k := held; k < limit; k++ {
		p, admitted, ok := b.hold()
		if !ok {
			b.env.r.Inconclusive("watchdog: a probe stream was neither forwarded nor answered")
			return mine, false
		}
		if !admitted && !requireFill {
			b.env.r.Count("e2e_probe_moot(refused_below_limit_after_reconfiguration)", 1)
			return mine, true
		}
		if !admitted {
			b.env.r.Violation("C05/e2e/slot-not-given-back/"+sigTail,
				fmt.Sprintf("limit %d, %d streams in flight, every other request finished: stream number %d was answered 429: a slot that must be free is not (%s)", limit, k, k+1, sigTail), witness())
			b.violated = true
			return mine, true
		}
		mine = append(mine, p)
	}
	// the over-limit request is on the `events` resource every other time (the dispatcher's 429 has a variant for it)
	res := "pods"
	if atomic.AddInt64(&b.env.probeN, 1)%2 == 0 {
		res = "events"
	}
	before := atomic.LoadInt64(b.env.hc.ctr(b.host)) // streams in flight for this host; nothing else of the batch is running
	extra := b.startOn("ok", res)
	o, ok := b.finish(extra)
	if !ok {
		b.env.r.Inconclusive("watchdog: the over-limit probe request got no answer")
		return mine, false
	}
	// judge "forwarded" only when the probe's handler has returned (whatever it does after answering has then happened)
	if !b.inflightIs(before) {
		b.env.r.Inconclusive("watchdog: the over-limit probe's handler did not return")
		return mine, false
	}
	o.forwarded = b.seen(o.id)
	b.note("over-limit probe %s -> %d forwarded=%v", o.id, o.status, o.forwarded)
	if o.forwarded && o.status == 429 {
		// refused towards the client but proxied all the same (and the deferred release then frees a slot it never took)
		b.violated = true
		b.env.r.Violation("C05/e2e/answered-429-but-forwarded/resource="+res,
			fmt.Sprintf("limit %d and %d streams in flight: one more request on resource %q was answered 429 and nevertheless forwarded to the upstream", limit, limit, res), witness())
	} else if gone := b.endedMeanwhile(); (o.forwarded || o.status != 429) && len(gone) > 0 {
		// a stream the script still counted as in flight has in fact been ended by the gateway (seen at the client or at the
		// stub): its slot was legitimately free, the admission is no violation. Whether the gateway may end it is not C05's question.
		b.note("held stream(s) %v were ended by the gateway meanwhile: the admission of %s is not judged", gone, o.id)
		b.env.r.Count("e2e_probe_moot(held_stream_ended_by_the_gateway)", 1)
	} else if o.forwarded || o.status != 429 {
		b.violated = true
		b.env.r.Violation("C05/e2e/admitted-over-limit/"+sigTail,
			fmt.Sprintf("limit %d and %d streams admitted under it still in flight: one more request was answered %d (forwarded=%v) instead of 429 (%s)", limit, limit, o.status, o.forwarded, sigTail), witness())
	} else {
		b.env.r.Count("e2e_quiescence_429_observed", 1)
	}
	return mine, true
}

// endedMeanwhile lists the held streams whose end has been observed at the client or at the stub although the harness has not
// released them.
func (b *batch) endedMeanwhile() []string {
	b.mu.Lock()
	defer b.mu.Unlock()
	var out []string
	for id, p := range b.live {
		if len(p.done) > 0 || b.rel.isEnded(id) {
			out = append(out, id)
		}
	}
	return out
}

// settleHeld waits until the gateway-side in-flight count of the host equals the number of held streams whose end the
// client has not seen, consumes the ended ones and returns the streams that are really still in flight.
func (b *batch) settleHeld(held []*pending) ([]*pending, bool) {
	c := b.env.hc.ctr(b.host)
	liveN := func() int64 {
		n := int64(0)
		for _, p := range held {
			if len(p.done) == 0 {
				n++
			}
		}
		return n
	}
	if !vkit.WaitFor(watchdog, func() bool { return atomic.LoadInt64(c) == liveN() }) {
		return nil, false
	}
	var live []*pending
	for _, p := range held {
		if len(p.done) > 0 {
			o, _ := b.finish(p)
			b.note("held stream %s was ended by the gateway (status %d err=%v): its slot is free again", p.id, o.status, o.err != nil)
			b.env.r.Count("e2e_held_streams_ended_by_the_gateway", 1)
			continue
		}
		live = append(live, p)
	}
	return live, true
}

func (b *batch) releaseAll(ps []*pending) bool {
	for _, p := range ps {
		b.rel.release(p.id)
	}
	for _, p := range ps {
		o, ok := b.finish(p)
		if !ok {
			b.env.r.Inconclusive("watchdog: a released stream did not finish")
			return false
		}
		b.note("stream %s released and finished (status %d)", p.id, o.status)
	}
	return true
}

func endToEnd(r *vkit.R) {
	gw := bed.NewGateway(bed.GatewayOptions{})
	hc := &hostCounter{inner: gw.Handler}
	gw.Handler = hc
	gw.Start()
	defer gw.Close()
	env := &e2eEnv{r: r, gw: gw, hc: hc, tok: gw.Tokens.Add(&user.DefaultInfo{Name: "alice"})}
	env.h2 = httptest.NewUnstartedServer(hc)
	env.h2.EnableHTTP2 = true
	env.h2.Config.ErrorLog = log.New(io.Discard, "", 0)
	env.h2.StartTLS()
	defer env.h2.Close()
	env.h2c = env.h2.Client()
	env.h2c.CheckRedirect = func(*http.Request, []*http.Request) error { return http.ErrUseLastResponse }

	nEnd := count(r.Quick(), 132, 2200, 440)
	scen := []string{"type-toggle-tokenBucket", "type-toggle-exempt", "admitted-as-tokenBucket", "delete-re-add", "resize-down", "resize-up", "noop-update",
		"endpoint-removed", "near-collision-sibling", "schema-named-system-default",
		"cluster-delete-recreate", "limit-zero", "storm", "two-clusters-same-schema",
		"cluster-recreate-coalesced", "same-user-different-groups"}
	nScen := count(r.Quick(), 48, 640, 160)
	r.Parallel(nEnd+nScen, 6, func(i int, g *vkit.Rand) {
		b := &batch{env: env, host: fmt.Sprintf("c05e2e%d.test", i), rel: &releases{m: map[string]chan struct{}{}}}
		b.main, b.off = bed.NewStub("main"), bed.NewStub("off")
		defer b.main.Close()
		defer b.off.Close()
		b.main.SetResponder(responder(b.rel))
		ending := ""
		scenario := ""
		if i < nEnd {
			ending = endings[i%len(endings)]
			if ending == "listener-closed" {
				b.dying = bed.NewStub("dying")
				defer b.dying.Close()
			}
			b.M = int32(1 + (i/len(endings))%3)
		} else {
			scenario = scen[(i-nEnd)%len(scen)]
			round := (i - nEnd) / len(scen)
			b.M = 1
			switch scenario {
			case "resize-down":
				b.M = 2
			case "endpoint-removed":
				b.M = int32(2 + round%2)
				b.second = bed.NewStub("second")
				defer b.second.Close()
				b.second.SetResponder(responder(b.rel))
			case "schema-named-system-default":
				b.defName = true
			case "cluster-recreate-coalesced":
				b.M = 3
			case "same-user-different-groups":
				b.groupPolicies = true
			case "limit-zero":
				b.M = 0
			case "storm":
				b.M = 2
			case "near-collision-sibling":
				nn := nearNames[round%len(nearNames)]
				b.sibName, b.sibMax = nn.Name, 2
				scenario += "=" + nn.Class
			}
		}
		cur := cfg{Kind: kMIF, Max: b.M}
		if scenario == "admitted-as-tokenBucket" {
			cur = cfg{Kind: kTB}
		}
		if !b.apply(cur, 1) {
			return
		}
		defer func() { stamps.forget(b.host); gw.Delete(b.host) }()
		obj := b.object(cur, 1)
		for _, s := range obj.Spec.Servers {
			if s.Disabled != nil && *s.Disabled {
				continue
			}
			if !gw.WaitReady(b.host, s.Endpoint, true, watchdog) {
				r.Inconclusive("watchdog: stub endpoint did not become ready")
				return
			}
		}
		ci, _ := gw.Cluster(b.host)
		for _, s := range obj.Spec.Servers {
			if ep, ok := ci.Endpoints.Load(s.Endpoint); ok {
				ep.ProxyTransport = &faultRT{inner: ep.ProxyTransport, panics: &env.rtPanics, fails: &env.rtFails}
			}
		}
		witness := func() map[string]interface{} {
			b.mu.Lock()
			defer b.mu.Unlock()
			return map[string]interface{}{"host": b.host, "limit": b.M, "ending": ending, "scenario": scenario, "events": append([]string(nil), b.log...)}
		}
		r.Eval(1)

		if ending != "" {
			// ---- every way a request can end ----
			// streams held while the requests under test run: at least one whenever the limit allows it, because a slot given
			// back twice only shows while another request is in flight (the semaphore ignores a release at zero)
			H := 0
			if b.M > 1 {
				H = 1 + g.Intn(int(b.M)-1)
			}
			var held []*pending
			for k := 0; k < H; k++ {
				p, admitted, ok := b.hold()
				if !ok || !admitted {
					r.Inconclusive(fmt.Sprintf("setup: stream %d of %d was not admitted on a fresh limiter with limit %d", k+1, H, b.M))
					return
				}
				held = append(held, p)
			}
			if ending == "listener-closed" {
				b.dying.Close()
			}
			free := int(b.M) - H
			rounds := 2
			for round := 0; round < rounds; round++ {
				n := free + round // second round: one more than fits, so a 429 races with the endings
				var ps []*pending
				for k := 0; k < n; k++ {
					ps = append(ps, b.start(ending))
				}
				if ending == "cancel" || ending == "h2-cancel" {
					// cancel each stream once it is in flight upstream (or was refused)
					for _, p := range ps {
						p := p
						vkit.WaitFor(watchdog, func() bool { return b.seen(p.id) || len(p.done) > 0 })
						p.cancel()
					}
				}
				for _, p := range ps {
					o, ok := b.finish(p)
					if !ok {
						r.Inconclusive("watchdog: a request of the batch got no answer (ending " + ending + ")")
						return
					}
					b.note("request %s (%s) -> status %d err=%v forwarded=%v", o.id, ending, o.status, o.err != nil, o.forwarded)
					if o.status == 429 {
						r.Count("e2e_429_during_batches", 1)
					} else {
						r.Count(fmt.Sprintf("e2e_end_%s_status_%d", ending, o.status), 1)
					}
				}
			}
			if !b.inflightIs(int64(H)) {
				r.Inconclusive("watchdog: the handlers of finished requests did not return (ending " + ending + ")")
				return
			}
			tail := "ending=" + ending
			mine, ok := b.probe(int(b.M), H, true, tail, witness)
			if !ok {
				return
			}
			if !b.releaseAll(append(held, mine...)) || !b.inflightIs(0) {
				r.Inconclusive("watchdog: streams did not drain")
				return
			}
			mine, ok = b.probe(int(b.M), 0, true, tail+"/after-drain", witness)
			if !ok {
				return
			}
			if !b.releaseAll(mine) {
				return
			}
			r.Count("e2e_batches", 1)
			r.Distinct(vkit.Hash64("e2e", ending, fmt.Sprint(b.M, H)))
			if i == 0 {
				r.Sample(witness())
			}
			return
		}

		if scenario == "endpoint-removed" {
			b.endpointRemoved(g, witness)
			return
		}
		switch scenario {
		case "cluster-delete-recreate":
			b.clusterDeleteRecreate(witness)
			return
		case "limit-zero":
			b.limitZero(witness)
			return
		case "storm":
			b.storm(g, witness)
			return
		case "two-clusters-same-schema":
			b.twoClusters(witness)
			return
		case "cluster-recreate-coalesced":
			b.clusterRecreateCoalesced(witness)
			return
		case "same-user-different-groups":
			b.sameUserDifferentGroups(witness)
			return
		}
		if b.sibName != "" {
			b.nearCollisionSibling(scenario, witness)
			return
		}
		if b.defName {
			b.schemaNamedSystemDefault(witness)
			return
		}

		// ---- reconfiguration with streams in flight ----
		tail := "scenario=" + scenario
		switch scenario {
		case "type-toggle-tokenBucket", "type-toggle-exempt", "admitted-as-tokenBucket":
			// one scenario class: a request admitted before the schema (again) became max-in-flight finishes afterwards
			tail = "type-toggle-release-into-new-limiter"
		}
		A, admitted, ok := b.hold()
		if !ok || !admitted {
			r.Inconclusive("setup: first stream not admitted on a fresh limiter")
			return
		}
		old := []*pending{A}
		expectHeldNew := 0
		limit := 1
		switch scenario {
		case "type-toggle-tokenBucket":
			if !b.apply(cfg{Kind: kTB}, 1) || !b.apply(cfg{Kind: kMIF, Max: 1}, 1) {
				return
			}
		case "type-toggle-exempt":
			if !b.apply(cfg{Kind: kExempt}, 1) || !b.apply(cfg{Kind: kMIF, Max: 1}, 1) {
				return
			}
		case "admitted-as-tokenBucket":
			if !b.apply(cfg{Kind: kMIF, Max: 1}, 1) {
				return
			}
		case "delete-re-add":
			if !b.apply(cfg{Kind: kAbsent}, 1) || !b.apply(cfg{Kind: kMIF, Max: 1}, 1) {
				return
			}
		case "resize-down":
			B, adm2, ok := b.hold()
			if !ok || !adm2 {
				r.Inconclusive("setup: second stream not admitted under limit 2")
				return
			}
			if !b.apply(cfg{Kind: kMIF, Max: 1}, 1) {
				return
			}
			// A finishes; B (same epoch) is still in flight under the new limit 1
			if !b.releaseAll(old) || !b.inflightIs(1) {
				r.Inconclusive("watchdog: stream did not finish")
				return
			}
			old = []*pending{B}
			expectHeldNew = 1
		case "resize-up":
			if !b.apply(cfg{Kind: kMIF, Max: 2}, 1) {
				return
			}
			limit = 2
			expectHeldNew = 1
		case "noop-update":
			if !b.apply(cfg{Kind: kMIF, Max: 1}, 2) {
				return
			}
			expectHeldNew = 1
		}
		var mine []*pending
		switch scenario {
		case "type-toggle-tokenBucket", "type-toggle-exempt", "admitted-as-tokenBucket", "delete-re-add":
			// a new epoch began: B is admitted under it (not required by the statement: if it is refused the scenario is moot)
			B, adm2, ok := b.hold()
			if !ok {
				r.Inconclusive("watchdog: stream after re-configuration got no answer")
				return
			}
			if !adm2 {
				r.Count("e2e_scenario_moot(new_epoch_refused_first_stream)", 1)
				b.releaseAll(old)
				return
			}
			// the request admitted before the epoch finishes now
			if !b.releaseAll(old) || !b.inflightIs(1) {
				r.Inconclusive("watchdog: old stream did not finish")
				return
			}
			old = nil
			mine = append(mine, B)
			// B (current epoch) is in flight, limit 1: the next request must be refused
			more, ok := b.probe(1, 1, false, tail, witness)
			if !ok {
				return
			}
			mine = append(mine, more...)
		default:
			more, ok := b.probe(limit, expectHeldNew, false, tail, witness)
			if !ok {
				return
			}
			mine = append(mine, more...)
		}
		if !b.releaseAll(append(old, mine...)) || !b.inflightIs(0) {
			r.Inconclusive("watchdog: streams did not drain")
			return
		}
		fin := 1
		if scenario == "resize-up" {
			fin = 2
		}
		mine, ok = b.probe(fin, 0, true, tail+"/after-drain", witness)
		if !ok {
			return
		}
		b.releaseAll(mine)
		r.Count("e2e_reconfiguration_scenarios", 1)
		r.Distinct(vkit.Hash64("e2e-scen", scenario))
		if i == nEnd {
			r.Sample(witness())
		}
	})
	r.Count("e2e_panics_injected_while_writing_503", int(atomic.LoadInt64(&hc.writePanics)))
	r.Count("e2e_panics_injected_in_upgrade_hijack", int(atomic.LoadInt64(&hc.hijackPanics)))
	r.Count("e2e_h2_responses", int(atomic.LoadInt64(&env.h2Responses)))
	r.Count("e2e_transport_panics_injected", int(atomic.LoadInt64(&env.rtPanics)))
	r.Count("e2e_transport_errors_injected", int(atomic.LoadInt64(&env.rtFails)))
}

// endpointRemoved: H streams are held on the main endpoint; the remaining M-H slots are taken by streams proxied to a second
// endpoint, which is then removed from the server list (its context is cancelled and the dispatcher tears the requests
// down). Each of them must give its slot back exactly once: with the H streams still in flight exactly M-H more are admitted.
func (b *batch) endpointRemoved(g *vkit.Rand, witness func() map[string]interface{}) {
	r := b.env.r
	H := 1 + g.Intn(int(b.M)-1)
	var held []*pending
	for k := 0; k < H; k++ {
		p, admitted, ok := b.hold()
		if !ok || !admitted {
			r.Inconclusive("setup: stream on the main endpoint not admitted on a fresh limiter")
			return
		}
		held = append(held, p)
	}
	var doomed []*pending
	for k := H; k < int(b.M); k++ {
		p, admitted, ok := b.holdOn("secondpods")
		if !ok || !admitted {
			r.Inconclusive("setup: stream on the second endpoint not admitted below the limit")
			return
		}
		if b.second.CountID(p.id) == 0 {
			r.Inconclusive("setup: the stream for the second endpoint was proxied elsewhere")
			return
		}
		doomed = append(doomed, p)
	}
	b.noSecond = true
	if !b.apply(cfg{Kind: kMIF, Max: b.M}, 1) {
		return
	}
	b.note("second endpoint removed from the server list with %d stream(s) proxied to it, %d held on the main endpoint", len(doomed), H)
	for _, p := range doomed {
		o, ok := b.finish(p)
		if !ok {
			r.Inconclusive("watchdog: a stream to a removed endpoint was not torn down")
			return
		}
		b.note("stream %s on the removed endpoint ended: status %d err=%v", p.id, o.status, o.err != nil)
		r.Count("e2e_streams_ended_by_endpoint_removal", 1)
	}
	// the streams on the main endpoint are expected to go on; what is really still in flight is observed, not assumed
	held, ok := b.settleHeld(held)
	if !ok {
		r.Inconclusive("watchdog: handlers of the torn-down streams did not return")
		return
	}
	H = len(held)
	mine, ok := b.probe(int(b.M), H, true, "ending=endpoint-removed", witness)
	if !ok {
		return
	}
	if !b.releaseAll(append(held, mine...)) || !b.inflightIs(0) {
		r.Inconclusive("watchdog: streams did not drain")
		return
	}
	mine, ok = b.probe(int(b.M), 0, true, "ending=endpoint-removed/after-drain", witness)
	if !ok {
		return
	}
	b.releaseAll(mine)
	r.Count("e2e_endpoint_removed_scenarios", 1)
	r.Distinct(vkit.Hash64("e2e-epremoved", fmt.Sprint(b.M, H)))
}

// nearCollisionSibling: hot (limit 1) and a schema whose name nearly collides with it (limit 2) in one cluster.
func (b *batch) nearCollisionSibling(scenario string, witness func() map[string]interface{}) {
	r := b.env.r
	tail := "scenario=" + scenario
	// exhaust the sibling
	var sib []*pending
	for k := 0; k < int(b.sibMax); k++ {
		p, admitted, ok := b.holdOn("sibpods")
		if !ok {
			r.Inconclusive("watchdog: sibling stream got no answer")
			return
		}
		if !admitted {
			b.violated = true
			r.Violation("C05/e2e/slot-not-given-back/"+tail+"/sibling-fresh",
				fmt.Sprintf("schema %q (limit %d) next to %q (limit 1), nothing in flight: stream number %d under %q was answered 429", b.sibName, b.sibMax, hot, k+1, b.sibName), witness())
			b.releaseAll(sib)
			return
		}
		sib = append(sib, p)
	}
	// isolation: the hot schema has nothing in flight, so its one slot is free whatever the sibling does; then the next is 429
	mine, ok := b.probe(1, 0, true, tail+"/other-exhausted", witness)
	if !ok {
		return
	}
	// delete the sibling while streams are in flight: the hot schema keeps its limit (1 in flight => next is 429)
	b.noSib = true
	if !b.apply(cfg{Kind: kMIF, Max: 1}, 1) {
		return
	}
	b.note("schema %q deleted", b.sibName)
	if len(mine) == 1 {
		more, ok := b.probe(1, 1, false, tail+"/other-deleted", witness)
		if !ok {
			return
		}
		mine = append(mine, more...)
	}
	if !b.releaseAll(append(sib, mine...)) || !b.inflightIs(0) {
		r.Inconclusive("watchdog: streams did not drain")
		return
	}
	mine, ok = b.probe(1, 0, true, tail+"/other-deleted/after-drain", witness)
	if !ok {
		return
	}
	b.releaseAll(mine)
	r.Count("e2e_near_collision_scenarios", 1)
	r.Distinct(vkit.Hash64("e2e-near", scenario))
}

// schemaNamedSystemDefault: a user schema literally named "system-default" (limit 1) is used by one policy; another policy
// names no schema (exempt; the gateway REPORTS its flow control as "system-default"). Exhausting the user's schema must
// not reject the schema-less policy's requests, and those must not take the schema's slot.
func (b *batch) schemaNamedSystemDefault(witness func() map[string]interface{}) {
	r := b.env.r
	const tail = "scenario=schema-named-system-default"
	A, admitted, ok := b.holdOn("defpods")
	if !ok || !admitted {
		r.Inconclusive("setup: first stream under the schema named system-default not admitted")
		return
	}
	var free []*pending
	for k := 0; k < 3; k++ {
		p, admitted, ok := b.holdOn("freepods")
		if !ok {
			r.Inconclusive("watchdog: stream under the schema-less policy got no answer")
			return
		}
		if !admitted {
			b.violated = true
			r.Violation("C05/e2e/isolation/unnamed-policy-refused/"+tail,
				fmt.Sprintf("a policy that names no schema had stream number %d answered 429 while the user schema named \"system-default\" (limit 1) was exhausted by another policy", k+1), witness())
			b.releaseAll(append(free, A))
			return
		}
		free = append(free, p)
	}
	// the schema's own request finishes; the three schema-less streams stay in flight
	if !b.releaseAll([]*pending{A}) || !b.inflightIs(3) {
		r.Inconclusive("watchdog: stream did not finish")
		return
	}
	B, admitted, ok := b.holdOn("defpods")
	if !ok {
		r.Inconclusive("watchdog: stream got no answer")
		return
	}
	if !admitted {
		b.violated = true
		r.Violation("C05/e2e/isolation/unnamed-policy-consumes-slots/"+tail,
			"with nothing of its own policy in flight (3 streams of a schema-less policy in flight) the user schema named \"system-default\" (limit 1) answered 429", witness())
		b.releaseAll(free)
		return
	}
	extra := b.startOn("ok", "defpods")
	o, ok := b.finish(extra)
	if !ok {
		r.Inconclusive("watchdog: over-limit probe got no answer")
		return
	}
	b.note("over-limit probe %s under the schema named system-default -> %d forwarded=%v", o.id, o.status, o.forwarded)
	if o.forwarded || o.status != 429 {
		b.violated = true
		r.Violation("C05/e2e/admitted-over-limit/"+tail, fmt.Sprintf("limit 1 and 1 stream in flight under the schema named \"system-default\": one more request was answered %d (forwarded=%v)", o.status, o.forwarded), witness())
	} else {
		r.Count("e2e_quiescence_429_observed", 1)
	}
	b.releaseAll(append(free, B))
	r.Count("e2e_default_name_scenarios", 1)
	r.Distinct(vkit.Hash64("e2e-defname"))
}

// clusterDeleteRecreate: the cluster object is deleted while a stream is in flight (the stream is torn down with it) and
// created again under the same name: the new cluster starts with all its M slots and enforces M.
func (b *batch) clusterDeleteRecreate(witness func() map[string]interface{}) {
	r := b.env.r
	A, admitted, ok := b.hold()
	if !ok || !admitted {
		r.Inconclusive("setup: first stream not admitted on a fresh limiter")
		return
	}
	stamps.forget(b.host)
	b.env.gw.Delete(b.host)
	b.note("cluster object deleted with stream %s in flight", A.id)
	if _, ok := b.finish(A); !ok {
		r.Inconclusive("watchdog: the stream of a deleted cluster was not torn down")
		return
	}
	if !b.inflightIs(0) {
		r.Inconclusive("watchdog: handler of the torn-down stream did not return")
		return
	}
	if !b.apply(cfg{Kind: kMIF, Max: b.M}, 1) {
		return
	}
	if !b.env.gw.WaitReady(b.host, b.main.URL, true, watchdog) {
		r.Inconclusive("watchdog: endpoint of the re-created cluster did not become ready")
		return
	}
	b.note("cluster object created again under the same name")
	mine, ok := b.probe(int(b.M), 0, true, "scenario=cluster-delete-recreate", witness)
	if !ok {
		return
	}
	b.releaseAll(mine)
	r.Count("e2e_cluster_recreate_scenarios", 1)
	r.Distinct(vkit.Hash64("e2e-recreate"))
}

// limitZero: max-in-flight 0 admits nothing; after a resize to 1 exactly one.
func (b *batch) limitZero(witness func() map[string]interface{}) {
	r := b.env.r
	if _, ok := b.probe(0, 0, true, "scenario=limit-zero", witness); !ok {
		return
	}
	if _, ok := b.probe(0, 0, true, "scenario=limit-zero", witness); !ok {
		return
	}
	if !b.apply(cfg{Kind: kMIF, Max: 1}, 1) {
		return
	}
	mine, ok := b.probe(1, 0, true, "scenario=limit-zero/resized-to-1", witness)
	if !ok {
		return
	}
	b.releaseAll(mine)
	r.Count("e2e_limit_zero_scenarios", 1)
	r.Distinct(vkit.Hash64("e2e-zero"))
}

// storm: 8 concurrent clients send short streams while the cluster object is updated (resizes between 1 and 2, no-op
// updates) every ~0.5 ms; no type change, so all admissions belong to one epoch. The stub counts the requests it is serving
// at the same instant for this host: each of them is an admitted, unfinished request, so that number can never exceed the
// largest limit ever configured (2). Then the usual quiescence probe.
func (b *batch) storm(g *vkit.Rand, witness func() map[string]interface{}) {
	r := b.env.r
	var cur, maxSeen int64
	inner := responder(b.rel)
	b.main.SetResponder(func(w http.ResponseWriter, req *http.Request, s *bed.Seen) {
		n := atomic.AddInt64(&cur, 1)
		atomicMax(&maxSeen, n)
		defer atomic.AddInt64(&cur, -1)
		inner(w, req, s)
	})
	var stop int32
	var swg sync.WaitGroup
	nUpd := 0
	lim := int32(2)
	swg.Add(1)
	sg := g.Fork("storm")
	go func() {
		defer swg.Done()
		fillerMax := int32(1)
		for atomic.LoadInt32(&stop) == 0 {
			time.Sleep(time.Duration(200+sg.Intn(600)) * time.Microsecond)
			if sg.Chance(0.5) {
				lim = 1 + (lim % 2)
			} else {
				fillerMax++
			}
			sr := b.env.gw.Apply(stamps.stamp(b.object(cfg{Kind: kMIF, Max: lim}, fillerMax)))
			if sr.Err != nil || sr.Panic != nil {
				return
			}
			nUpd++
		}
	}()
	var wg sync.WaitGroup
	var admittedN, refusedN, otherN int64
	for c := 0; c < 8; c++ {
		wg.Add(1)
		go func() {
			defer wg.Done()
			for k := 0; k < 25; k++ {
				o, ok := b.finish(b.start("slow"))
				switch {
				case !ok:
					atomic.AddInt64(&otherN, 1)
				case o.status == 429:
					atomic.AddInt64(&refusedN, 1)
				case o.forwarded:
					atomic.AddInt64(&admittedN, 1)
				default:
					atomic.AddInt64(&otherN, 1)
				}
			}
		}()
	}
	wg.Wait()
	atomic.StoreInt32(&stop, 1)
	swg.Wait()
	b.note("storm: %d admitted, %d refused, %d other; %d updates of the object; at most %d requests served by the upstream at one instant", admittedN, refusedN, otherN, nUpd, maxSeen)
	r.Count("e2e_storm_admitted", int(admittedN))
	r.Count("e2e_storm_refused", int(refusedN))
	r.Count("e2e_storm_updates", nUpd)
	if otherN > 0 {
		r.Inconclusive(fmt.Sprintf("storm: %d exchanges ended neither forwarded nor 429", otherN))
		return
	}
	if maxSeen > 2 {
		b.violated = true
		r.Violation("C05/e2e/over-admission/scenario=storm",
			fmt.Sprintf("the upstream was serving %d requests of one max-in-flight schema at the same instant although its limit was never above 2 (8 concurrent clients, %d resizes / no-op updates meanwhile)", maxSeen, nUpd), witness())
	}
	if !b.inflightIs(0) {
		r.Inconclusive("watchdog: storm requests did not drain")
		return
	}
	if !b.apply(cfg{Kind: kMIF, Max: 2}, 1) {
		return
	}
	mine, ok := b.probe(2, 0, true, "scenario=storm/after-drain", witness)
	if !ok {
		return
	}
	b.releaseAll(mine)
	r.Count("e2e_storm_scenarios", 1)
	if maxSeen >= 2 {
		r.Count("e2e_storm_scenarios_reaching_the_limit", 1)
	}
	r.Distinct(vkit.Hash64("e2e-storm", fmt.Sprint(admittedN, refusedN)))
}

// twoClusters: a second cluster object (own host name, same stub upstreams) has a schema with the SAME name and limit 2.
// Exhausting it must not reject anything under this cluster's schema (limit 1) nor under a schema-less... and vice versa;
// deleting the second cluster leaves this one's limit alone.
func (b *batch) twoClusters(witness func() map[string]interface{}) {
	r := b.env.r
	const tail = "scenario=two-clusters-same-schema"
	b2 := &batch{env: b.env, host: strings.Replace(b.host, ".test", "-other.test", 1), main: b.main, off: b.off, rel: b.rel, M: 2}
	if !b2.apply(cfg{Kind: kMIF, Max: 2}, 1) {
		return
	}
	deleted := false
	defer func() {
		if !deleted {
			stamps.forget(b2.host)
			b.env.gw.Delete(b2.host)
		}
	}()
	if !b.env.gw.WaitReady(b2.host, b.main.URL, true, watchdog) {
		r.Inconclusive("watchdog: endpoint of the second cluster did not become ready")
		return
	}
	b.note("second cluster %s applied with %s=maxInflight(2)", b2.host, hot)
	w := func() map[string]interface{} {
		m := witness()
		b2.mu.Lock()
		m["events_other_cluster"] = append([]string(nil), b2.log...)
		b2.mu.Unlock()
		return m
	}
	// exhaust the other cluster's schema
	other, ok := b2.probe(2, 0, true, tail+"/other-cluster-fresh", w)
	if !ok || b2.violated {
		b2.releaseAll(other)
		return
	}
	// this cluster's schema still has its own slot, and only that one
	mine, ok := b.probe(1, 0, true, tail+"/other-cluster-exhausted", w)
	if !ok {
		b2.releaseAll(other)
		return
	}
	// this cluster's request finishes: the other cluster is still full (its streams count only there)
	if !b.releaseAll(mine) || !b.inflightIs(0) {
		r.Inconclusive("watchdog: stream did not finish")
		return
	}
	if _, ok := b2.probe(2, 2, true, tail+"/other-cluster-still-exhausted", w); !ok {
		return
	}
	// the other cluster is deleted with its streams in flight
	stamps.forget(b2.host)
	b.env.gw.Delete(b2.host)
	deleted = true
	b.note("second cluster deleted")
	for _, p := range other {
		if _, ok := b2.finish(p); !ok {
			r.Inconclusive("watchdog: stream of the deleted cluster was not torn down")
			return
		}
	}
	mine, ok = b.probe(1, 0, true, tail+"/other-cluster-deleted", w)
	if !ok {
		return
	}
	b.releaseAll(mine)
	if b.violated || b2.violated {
		return
	}
	r.Count("e2e_two_clusters_scenarios", 1)
	r.Distinct(vkit.Hash64("e2e-twoclusters"))
}

func (b *batch) token() string {
	if b.tok != "" {
		return b.tok
	}
	return b.env.tok
}

// clusterRecreateCoalesced: the object (limit 3, generation 1) is deleted and created again under the same name with limit
// 1 (generation 1 again, new uid); the controller handles both events only when the lister already holds the new object,
// so the EXISTING cluster info is synced with the new incarnation. The limit of the latest object (1) must be in force.
func (b *batch) clusterRecreateCoalesced(witness func() map[string]interface{}) {
	r := b.env.r
	gw := b.env.gw
	old := gw.RemoveFromLister(b.host)
	if old == nil {
		r.Inconclusive("setup: object not in the lister")
		return
	}
	stamps.forget(b.host)
	nw := gw.SetLister(stamps.stamp(b.object(cfg{Kind: kMIF, Max: 1}, 1)))
	for _, ev := range []*proxyv1alpha1.UpstreamCluster{old, nw} {
		if sr := gw.Deliver(ev); sr.Err != nil || sr.Panic != nil || sr.Requeue {
			r.Inconclusive(fmt.Sprintf("controller did not handle the events of the re-created object: %+v", sr))
			return
		}
	}
	b.note("object deleted and created again with %s=maxInflight(1) (generation %d -> %d, uid %s -> %s); both events handled with the new object in the lister", hot, old.Generation, nw.Generation, old.UID, nw.UID)
	if !gw.WaitReady(b.host, b.main.URL, true, watchdog) {
		r.Inconclusive("watchdog: endpoint not ready after the re-creation")
		return
	}
	b.M = 1
	mine, ok := b.probe(1, 0, true, "scenario=cluster-recreate-coalesced", witness)
	if !ok {
		return
	}
	b.releaseAll(mine)
	if old.Generation == nw.Generation {
		r.Count("e2e_recreate_coalesced_same_generation", 1)
	}
	r.Distinct(vkit.Hash64("e2e-recreate-coalesced"))
}

// sameUserDifferentGroups: the same user NAME arrives with different groups (two bearer tokens; client certificates with
// the same CN and another O, or impersonation, do this) and the groups select different policies / schemas for the same
// kind of request. Exhausting the schema of one group must not reject the other group's requests, and each schema admits
// exactly its own limit.
func (b *batch) sameUserDifferentGroups(witness func() map[string]interface{}) {
	r := b.env.r
	tokA := b.env.gw.Tokens.Add(&user.DefaultInfo{Name: "carol", Groups: []string{"grp-a"}})
	tokB := b.env.gw.Tokens.Add(&user.DefaultInfo{Name: "carol", Groups: []string{"grp-b"}})
	const tail = "scenario=same-user-different-groups"
	// group a -> hot (limit 1): exhaust it
	b.tok = tokA
	a, ok := b.probe(1, 0, true, tail+"/group-a-first", witness)
	if !ok || b.violated {
		b.releaseAll(a)
		return
	}
	// group b -> side (limit 2): same user name, same kind of request
	b.tok = tokB
	bs, ok := b.probe(2, 0, true, tail+"/group-b-while-a-exhausted", witness)
	if !ok || b.violated {
		b.releaseAll(append(a, bs...))
		return
	}
	// group a's request finishes; with group b's schema exhausted group a gets exactly its one slot again
	b.tok = tokA
	if !b.releaseAll(a) || !b.inflightIs(2) {
		r.Inconclusive("watchdog: stream did not finish")
		return
	}
	a, ok = b.probe(1, 0, true, tail+"/group-a-while-b-exhausted", witness)
	if !ok {
		return
	}
	b.releaseAll(append(a, bs...))
	b.tok = ""
	if !b.violated {
		r.Count("e2e_same_user_different_groups_scenarios", 1)
	}
	r.Distinct(vkit.Hash64("e2e-groups"))
}
