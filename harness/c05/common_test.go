package c05

import (
	"context"
	"fmt"
	"os"
	"reflect"
	"strings"
	"sync"

	metav1 "k8s.io/apimachinery/pkg/apis/meta/v1"
	"k8s.io/apimachinery/pkg/types"
	"k8s.io/apiserver/pkg/authentication/user"
	"k8s.io/apiserver/pkg/authorization/authorizer"

	proxyv1alpha1 "github.com/kubewharf/kubegateway/pkg/apis/proxy/v1alpha1"
	"github.com/kubewharf/kubegateway/pkg/clusters"
	"github.com/kubewharf/kubegateway/pkg/flowcontrols"
	"github.com/kubewharf/kubegateway/pkg/flowcontrols/flowcontrol"
)

// Schema names used by the limiter-level workloads. hot is the schema under test, side lives in the same cluster,
// filler only exists so that "no-op" syncs can change something else in the spec.
const (
	hot    = "s1"
	side   = "s2"
	filler = "s3"
)

// nearNames are schema names that validation accepts next to "s1" (names only have to be non-empty and distinct as byte
// strings) and that a sloppy key normalisation would conflate with it.
var nearNames = []struct{ Name, Class string }{
	{"S1", "case"},
	{"s1 ", "trailing-space"},
	{"\u017f1", "unicode-case"}, // LATIN SMALL LETTER LONG S: upper-cases / case-folds to "S1"
	{"s1/x:%41", "odd-characters"},
	{"s1" + strings.Repeat("x", 300), "300-chars"},
}

// kinds of configuration of one schema
const (
	kMIF    = "maxInflight"
	kTB     = "tokenBucket"
	kExempt = "exempt"
	kAbsent = "absent"
)

// cfg is the configuration of the hot schema at one point of a history.
type cfg struct {
	Kind     string `json:"kind"`
	Max      int32  `json:"max,omitempty"`
	Strategy string `json:"strategy,omitempty"` // "" or "local": a field that does not change the limit
}

func mifSchema(name string, max int32) proxyv1alpha1.FlowControlSchema {
	return proxyv1alpha1.FlowControlSchema{Name: name, FlowControlSchemaConfiguration: proxyv1alpha1.FlowControlSchemaConfiguration{
		MaxRequestsInflight: &proxyv1alpha1.MaxRequestsInflightFlowControlSchema{Max: max}}}
}

func tbSchema(name string, qps, burst int32) proxyv1alpha1.FlowControlSchema {
	return proxyv1alpha1.FlowControlSchema{Name: name, FlowControlSchemaConfiguration: proxyv1alpha1.FlowControlSchemaConfiguration{
		TokenBucket: &proxyv1alpha1.TokenBucketFlowControlSchema{QPS: qps, Burst: burst}}}
}

func exemptSchema(name string) proxyv1alpha1.FlowControlSchema {
	return proxyv1alpha1.FlowControlSchema{Name: name, FlowControlSchemaConfiguration: proxyv1alpha1.FlowControlSchemaConfiguration{
		Exempt: &proxyv1alpha1.ExemptFlowControlSchema{}}}
}

// spec builds the cluster's FlowControl spec: the hot schema as configured, the side schema (never changed) and a
// filler whose value is varied by no-op syncs. order permutes the list (a no-op for every schema).
func spec(c cfg, sideMax int32, fillerMax int32, order int) proxyv1alpha1.FlowControl {
	var ss []proxyv1alpha1.FlowControlSchema
	switch c.Kind {
	case kMIF:
		s := mifSchema(hot, c.Max)
		s.Strategy = proxyv1alpha1.LimitStrategy(c.Strategy)
		ss = append(ss, s)
	case kTB:
		// generous bucket: while the schema is a token bucket its admissions are not judged by C05
		ss = append(ss, tbSchema(hot, 1000000, 1000000))
	case kExempt:
		ss = append(ss, exemptSchema(hot))
	}
	ss = append(ss, mifSchema(side, sideMax), mifSchema(filler, fillerMax))
	if order%2 == 1 {
		ss[0], ss[len(ss)-1] = ss[len(ss)-1], ss[0]
	}
	return proxyv1alpha1.FlowControl{Schemas: ss}
}

// count picks the number of cases: quick / thorough / the auxiliary -race pass of the thorough tier (the race detector
// slows the workload ~5x; that pass is non-deciding and only needs the same shapes, not the same volume).
func count(quick bool, q, t, race int) int {
	switch {
	case quick:
		return q
	case os.Getenv("VERIF_RACE_PASS") != "":
		return race
	}
	return t
}

// stamper gives UpstreamCluster objects the metadata the API server would: generation 1 and a fresh uid at creation,
// generation +1 whenever spec or annotations differ from the previous version, everything reset after a deletion.
type stamper struct {
	mu   sync.Mutex
	last map[string]*proxyv1alpha1.UpstreamCluster
	n    int64
}

var stamps = &stamper{last: map[string]*proxyv1alpha1.UpstreamCluster{}}

func (s *stamper) stamp(o *proxyv1alpha1.UpstreamCluster) *proxyv1alpha1.UpstreamCluster {
	s.mu.Lock()
	defer s.mu.Unlock()
	last := s.last[o.Name]
	switch {
	case last == nil:
		s.n++
		o.Generation = 1
		o.UID = types.UID(fmt.Sprintf("uid-%s-%d", o.Name, s.n))
	case !reflect.DeepEqual(last.Spec, o.Spec) || !reflect.DeepEqual(last.Annotations, o.Annotations):
		o.Generation, o.UID = last.Generation+1, last.UID
	default:
		o.Generation, o.UID = last.Generation, last.UID
	}
	s.last[o.Name] = o.DeepCopy()
	return o
}

func (s *stamper) forget(name string) {
	s.mu.Lock()
	delete(s.last, name)
	s.mu.Unlock()
}

// limHandle is how a workload reaches the limiter of one cluster: get(name) is called once per request, exactly like
// the dispatcher does (GetOrDefault per request), sync is the single-threaded reconfiguration entry point.
type limHandle struct {
	// flip toggles the cluster's limiter type local <-> remote (what a feature-gate / --rate-limiter change does through
	// ResetLimiter). Without limiter client sets the remote mode falls back to the SAME local limiter, so a flip is a no-op
	// for every slot count. nil when the handle cannot do it.
	flip  func()
	via   string
	get   func(schema string) flowcontrol.FlowControl
	sync  func(fc proxyv1alpha1.FlowControl)
	close func()
}

// newDirect: flowcontrols.NewUpstreamLimiter(ctx, cluster, "", nil) as clusters.NewEmptyClusterInfo builds it.
func newDirect(cluster string) *limHandle {
	ctx, cancel := context.WithCancel(context.Background())
	l := flowcontrols.NewUpstreamLimiter(ctx, cluster, "", nil)
	remote := false
	return &limHandle{
		flip: func() {
			remote = !remote
			if remote {
				l.ResetLimiter("remote")
			} else {
				l.ResetLimiter("local")
			}
		},
		via:  "NewUpstreamLimiter.GetOrDefault",
		get:  l.GetOrDefault,
		sync: l.Sync,
		close: func() {
			l.Sync(proxyv1alpha1.FlowControl{}) // deletes every schema = stops their meters
			cancel()
		},
	}
}

// newViaClusterInfo: the limiter inside a real ClusterInfo, reached through MatchAttributes(...).FlowControl() (the
// dispatcher's exact path) and reconfigured through ClusterInfo.Sync.
func newViaClusterInfo(cluster string) *limHandle {
	ci := clusters.NewEmptyClusterInfo(cluster, nil, nil, "", nil)
	uc := &proxyv1alpha1.UpstreamCluster{ObjectMeta: metav1.ObjectMeta{Name: cluster}}
	names := []string{hot, side, filler}
	for _, nn := range nearNames {
		names = append(names, nn.Name)
	}
	for _, s := range names {
		uc.Spec.DispatchPolicies = append(uc.Spec.DispatchPolicies, proxyv1alpha1.DispatchPolicy{
			FlowControlSchemaName: s,
			Rules:                 []proxyv1alpha1.DispatchPolicyRule{{Verbs: []string{"*"}, APIGroups: []string{"*"}, Resources: []string{s}}},
		})
	}
	u := &user.DefaultInfo{Name: "u"}
	return &limHandle{
		via: "ClusterInfo.MatchAttributes.FlowControl",
		get: func(schema string) flowcontrol.FlowControl {
			p, err := ci.MatchAttributes(&authorizer.AttributesRecord{User: u, Verb: "get", Resource: schema, ResourceRequest: true})
			if err != nil {
				panic(fmt.Sprintf("harness: no policy for schema %s: %v", schema, err))
			}
			return p.FlowControl()
		},
		sync: func(fc proxyv1alpha1.FlowControl) {
			o := uc.DeepCopy()
			o.Spec.FlowControl = fc
			if err := ci.Sync(o); err != nil {
				panic("harness: ClusterInfo.Sync failed: " + err.Error())
			}
		},
		close: func() {
			o := uc.DeepCopy()
			_ = ci.Sync(o)
			ci.Stop()
		},
	}
}

func newHandle(cluster string, viaCI bool) *limHandle {
	if viaCI {
		return newViaClusterInfo(cluster)
	}
	return newDirect(cluster)
}
