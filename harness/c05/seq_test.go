package c05

import (
	"fmt"

	"github.com/kubewharf/kubegateway/pkg/flowcontrols/flowcontrol"

	"verifharness/vkit"
)

// Sequential histories: one goroutine issues acquire / release / reconfigure operations against the real limiter.
// Without concurrency the number of requests of the current epoch that hold a slot is known exactly, so
// "admitted although M of this epoch are in flight" is decided exactly; a refusal below the limit is NOT judged (the
// statement only bounds from above) except at all-finished points, where exactly M must be admitted again.

type seqHolder struct {
	id    int
	fc    flowcontrol.FlowControl // the object the request got from GetOrDefault and will Release() on (as the dispatcher)
	epoch int                     // epoch of admission, -1 = admitted while the schema was not max-in-flight
}

// nextCfg draws the next configuration of the hot schema; returns the op label.
func nextCfg(g *vkit.Rand, cur cfg, smallOnly bool) (cfg, string) {
	maxes := []int32{0, 1, 1, 2, 2, 3, 8, 100}
	if smallOnly {
		maxes = []int32{1, 1, 2, 2, 3}
	}
	pickMax := func(not int32) int32 {
		for {
			m := g.PickI32(maxes)
			if m != not {
				return m
			}
		}
	}
	x := g.Intn(100)
	switch cur.Kind {
	case kMIF:
		switch {
		case x < 30:
			return cfg{Kind: kMIF, Max: pickMax(cur.Max), Strategy: cur.Strategy}, "resize"
		case x < 42:
			// same limit, another field of the schema changes
			s := "local"
			if cur.Strategy == "local" {
				s = ""
			}
			return cfg{Kind: kMIF, Max: cur.Max, Strategy: s}, "noop-field"
		case x < 55:
			return cur, "noop"
		case x < 78:
			return cfg{Kind: kTB}, "to-tokenBucket"
		case x < 85:
			return cfg{Kind: kExempt}, "to-exempt"
		default:
			return cfg{Kind: kAbsent}, "delete"
		}
	case kTB, kExempt:
		switch {
		case x < 70:
			return cfg{Kind: kMIF, Max: pickMax(-1)}, "to-maxInflight"
		case x < 85:
			return cfg{Kind: kAbsent}, "delete"
		default:
			return cur, "noop"
		}
	default: // absent
		if x < 80 {
			return cfg{Kind: kMIF, Max: pickMax(-1)}, "re-add"
		}
		return cfg{Kind: kTB}, "re-add-as-tokenBucket"
	}
}

func describeCfg(c cfg) string {
	switch c.Kind {
	case kMIF:
		if c.Strategy != "" {
			return fmt.Sprintf("maxInflight(%d,strategy=%s)", c.Max, c.Strategy)
		}
		return fmt.Sprintf("maxInflight(%d)", c.Max)
	}
	return c.Kind
}

// epochBegin says how a max-in-flight epoch began, given the previous configuration.
func epochBegin(prev cfg, first bool) string {
	switch {
	case first:
		return "initial"
	case prev.Kind == kAbsent:
		return "re-add"
	default:
		return "type-toggle"
	}
}

// classOf names the scenario class of an over-admission. A max-in-flight epoch that began by a type change inside the
// same schema object and in which a request admitted BEFORE the epoch gave its slot back is the one class where the
// release can land in a limiter the request never acquired from; the other features do not matter for it.
func classOf(begin string, priorReleased bool, syncs string) string {
	if begin == "type-toggle" && priorReleased {
		return "type-toggle-release-into-new-limiter"
	}
	return fmt.Sprintf("begin=%s/prior-holders-released=%s/syncs=%s", begin, yesno(priorReleased), syncs)
}

func yesno(b bool) string {
	if b {
		return "yes"
	}
	return "no"
}

// sop is one scripted operation of a directed history.
type sop struct {
	op  string // acquire | release (id) | sync | quiescence
	id  int
	to  cfg
	lbl string
}

// directed are minimal hand-written histories, run before the random ones so that the first (= recorded) witness of a
// signature is a short one. They are ordinary cases: the same engine and the same oracle judge them.
var directed = [][]sop{
	// a request of the previous max-in-flight epoch finishes after a toggle through token bucket
	{{op: "acquire"}, {op: "sync", to: cfg{Kind: kTB}, lbl: "to-tokenBucket"}, {op: "sync", to: cfg{Kind: kMIF, Max: 1}, lbl: "to-maxInflight"}, {op: "acquire"}, {op: "release", id: 0}, {op: "acquire"}},
	// a request admitted while the schema was a token bucket finishes after it became max-in-flight
	{{op: "sync", to: cfg{Kind: kTB}, lbl: "to-tokenBucket"}, {op: "acquire"}, {op: "sync", to: cfg{Kind: kMIF, Max: 1}, lbl: "to-maxInflight"}, {op: "acquire"}, {op: "release", id: 0}, {op: "acquire"}},
	// the same through exempt
	{{op: "acquire"}, {op: "sync", to: cfg{Kind: kExempt}, lbl: "to-exempt"}, {op: "sync", to: cfg{Kind: kMIF, Max: 1}, lbl: "to-maxInflight"}, {op: "acquire"}, {op: "release", id: 0}, {op: "acquire"}},
	// delete / re-add with a request in flight
	{{op: "acquire"}, {op: "sync", to: cfg{Kind: kAbsent}, lbl: "delete"}, {op: "sync", to: cfg{Kind: kMIF, Max: 1}, lbl: "re-add"}, {op: "acquire"}, {op: "release", id: 0}, {op: "acquire"}},
	// resize down with requests in flight, then up
	{{op: "sync", to: cfg{Kind: kMIF, Max: 2}, lbl: "resize"}, {op: "acquire"}, {op: "acquire"}, {op: "sync", to: cfg{Kind: kMIF, Max: 1}, lbl: "resize"}, {op: "release", id: 0}, {op: "acquire"},
		{op: "sync", to: cfg{Kind: kMIF, Max: 3}, lbl: "resize"}, {op: "acquire"}, {op: "acquire"}, {op: "acquire"}},
	// no-op syncs with a request in flight
	{{op: "acquire"}, {op: "sync", to: cfg{Kind: kMIF, Max: 1}, lbl: "noop"}, {op: "acquire"}, {op: "sync", to: cfg{Kind: kMIF, Max: 1, Strategy: "local"}, lbl: "noop-field"}, {op: "acquire"}, {op: "release", id: 0}, {op: "quiescence"}},
}

func sequentialHistories(r *vkit.R) {
	for k, sc := range directed {
		oneSequential(r, -1-k, vkit.NewRand(uint64(k)), sc)
	}
	n := count(r.Quick(), 3000, 120000, 10000)
	r.Parallel(n, 16, func(i int, g *vkit.Rand) { oneSequential(r, i, g, nil) })
}

func oneSequential(r *vkit.R, i int, g *vkit.Rand, script []sop) {
	{
		length := 6 + g.Intn(40)
		if script != nil {
			length = len(script)
		}
		viaCI := i%3 == 0
		h := newHandle(fmt.Sprintf("c05seq%d", i), viaCI)
		defer h.close()

		cur := cfg{Kind: kMIF, Max: g.PickI32([]int32{1, 1, 2, 3})}
		if script != nil {
			cur.Max = 1
		}
		fillerMax := int32(5)
		order := 0
		h.sync(spec(cur, 2, fillerMax, order))
		ops := []string{"sync " + hot + "=" + describeCfg(cur)}

		epoch := 0
		begin := "initial"
		priorReleased := false // a request admitted before this epoch began gave its slot back during this epoch
		sawResize, sawNoop := false, false
		var holders []seqHolder
		nextID := 0
		countEpoch := func() int {
			c := 0
			for _, x := range holders {
				if x.epoch == epoch {
					c++
				}
			}
			return c
		}
		nontrivial := false
		classify := func() string {
			syncs := "none"
			if sawResize {
				syncs = "resize"
			} else if sawNoop {
				syncs = "noop"
			}
			return classOf(begin, priorReleased, syncs)
		}
		acquire := func() bool {
			var fc flowcontrol.FlowControl
			var ok bool
			if p := vkit.Safely(func() { fc = h.get(hot); ok = fc.TryAcquire() }); p != nil {
				// a panic is neither an admission nor a refusal; the statement says nothing about it, so it is counted (and
				// makes the run inconclusive, see TestCheck) and its consequences are left to the monitors
				r.Count("seq_panics", 1)
				r.Set("seq_panic_example", fmt.Sprintf("TryAcquire: %v after %v", p, ops))
				return false
			}
			id := nextID
			nextID++
			if cur.Kind == kMIF {
				c := countEpoch()
				ops = append(ops, fmt.Sprintf("acquire#%d -> %v   [%d admitted in this epoch still unfinished, limit %d]", id, ok, c, cur.Max))
				r.Count("seq_acquires_judged", 1)
				if c >= int(cur.Max) {
					r.Count("seq_acquires_at_limit", 1)
					nontrivial = true
				}
				if ok && c >= int(cur.Max) {
					r.Violation("C05/limiter-seq/over-admission/"+classify(),
						fmt.Sprintf("sequential history: a request was admitted under max-in-flight limit %d while %d requests admitted since the schema last became max-in-flight were still unfinished (%s)", cur.Max, c, classify()),
						map[string]interface{}{"ops": append([]string(nil), ops...), "via": h.via, "limit": cur.Max, "in_flight_this_epoch": c})
				}
				if !ok && c < int(cur.Max) {
					r.Count("seq_refused_below_limit_not_judged", 1)
				}
				if ok {
					holders = append(holders, seqHolder{id: id, fc: fc, epoch: epoch})
				}
			} else {
				ops = append(ops, fmt.Sprintf("acquire#%d -> %v   [schema is %s]", id, ok, cur.Kind))
				if ok {
					holders = append(holders, seqHolder{id: id, fc: fc, epoch: -1})
				}
			}
			return ok
		}
		release := func(k int) {
			x := holders[k]
			holders = append(holders[:k], holders[k+1:]...)
			if cur.Kind == kMIF && x.epoch != epoch {
				priorReleased = true
			}
			ops = append(ops, fmt.Sprintf("release#%d", x.id))
			if p := vkit.Safely(x.fc.Release); p != nil {
				r.Count("seq_panics", 1) // the slot may not have been given back: the quiescence check judges that
				r.Set("seq_panic_example", fmt.Sprintf("Release: %v after %v", p, ops))
			}
		}
		quiescence := func() {
			// all requests have finished: exactly M new ones are admitted again (no concurrency = no spurious refusal)
			if cur.Kind != kMIF || len(holders) != 0 {
				return
			}
			r.Count("seq_quiescence_checks", 1)
			got := 0
			want := int(cur.Max)
			probeN := want + 1
			if want > 64 {
				// a huge limit: 64 sequential requests must all be admitted (the refusal at M+1 is not probed)
				want, probeN = 64, 64
			}
			for k := 0; k < probeN; k++ {
				if acquire() {
					got++
				} else {
					break
				}
			}
			w := map[string]interface{}{"ops": append([]string(nil), ops...), "via": h.via, "limit": cur.Max, "admitted": got}
			if got < want {
				r.Violation("C05/limiter-seq/quiescence/slots-leaked/"+classify(),
					fmt.Sprintf("after every request had finished only %d of %d new requests were admitted (slot not given back)", got, cur.Max), w)
			}
			// got > Max is reported by acquire() as over-admission
			for len(holders) > 0 {
				release(len(holders) - 1)
			}
		}

		for step := 0; step < length; step++ {
			x := g.Intn(100)
			var so sop
			if script != nil {
				so = script[step]
				x = map[string]int{"acquire": 0, "release": 50, "quiescence": 80, "sync": 90}[so.op]
			}
			switch {
			case x < 45:
				acquire()
			case x < 78 && len(holders) > 0:
				k := g.Intn(len(holders))
				if script != nil {
					for j := range holders {
						if holders[j].id == so.id {
							k = j
						}
					}
				}
				release(k)
			case x < 82:
				quiescence()
			default:
				prev := cur
				nc, label := nextCfg(g, cur, true)
				if script != nil {
					nc, label = so.to, so.lbl
				}
				if label == "noop" {
					// something else in the spec changes (or nothing at all), or the limiter type flips
					switch g.Intn(4) {
					case 0:
						fillerMax++
					case 1:
						order++
					case 2:
						if h.flip != nil {
							h.flip()
							r.Count("seq_limiter_mode_flips", 1)
						}
					}
				}
				if script == nil && nc.Kind == kMIF && label != "noop" && label != "noop-field" && g.Chance(0.08) {
					// boundary limits: nothing / (practically) everything is admitted
					nc.Max = g.PickI32([]int32{0, 2147483647})
					r.Count("seq_boundary_limits(0_or_maxint32)", 1)
				}
				cur = nc
				h.sync(spec(cur, 2, fillerMax, order))
				ops = append(ops, fmt.Sprintf("sync %s=%s (%s)", hot, describeCfg(cur), label))
				r.Count("seq_sync_"+label, 1)
				switch {
				case cur.Kind == kMIF && prev.Kind != kMIF:
					epoch++
					begin = epochBegin(prev, false)
					priorReleased, sawResize, sawNoop = false, false, false
				case cur.Kind == kMIF && label == "resize":
					sawResize = true
				case cur.Kind == kMIF:
					sawNoop = true
				}
			}
		}
		for len(holders) > 0 {
			release(len(holders) - 1)
		}
		if cur.Kind != kMIF {
			prev := cur
			cur = cfg{Kind: kMIF, Max: g.PickI32([]int32{1, 2, 3})}
			h.sync(spec(cur, 2, fillerMax, order))
			ops = append(ops, fmt.Sprintf("sync %s=%s", hot, describeCfg(cur)))
			epoch++
			begin = epochBegin(prev, false)
			priorReleased, sawResize, sawNoop = false, false, false
		}
		quiescence()
		r.Eval(1)
		r.Count("seq_histories", 1)
		if nontrivial {
			r.Distinct(vkit.Hash64(ops...))
		}
		if i == 1 || i == -1 {
			r.Sample(map[string]interface{}{"kind": "sequential history", "via": h.via, "ops": ops})
		}
	}
}
