package c05

import (
	"fmt"
	"runtime"
	"sort"
	"sync"
	"sync/atomic"
	"time"

	proxyv1alpha1 "github.com/kubewharf/kubegateway/pkg/apis/proxy/v1alpha1"
	"github.com/kubewharf/kubegateway/pkg/flowcontrols/flowcontrol"

	"verifharness/vkit"
)

// Concurrent limiter-level workload with a shadow monitor.
//
// Logical clock: every boundary event takes a ticket from one atomic counter, so "a before b" in ticket order is implied
// by "a happened before b" in real time. No wall-clock value takes part in a verdict.
//
// Epochs: an epoch is a stretch during which the hot schema is continuously a max-in-flight schema. The reconfigurer
// unpublishes the epoch BEFORE it starts a sync that ends/begins one and publishes a fresh epoch object AFTER such a sync
// returned. An attempt is *firm in epoch e* iff it read e as published both before it called GetOrDefault and after
// TryAcquire returned: then the whole attempt ran while the schema was max-in-flight with no type change / delete /
// re-add overlapping it. Only firm admissions are counted against an epoch (sound under-approximation; everything else is
// counted as "ambiguous" in the evidence).
//
// Shadow counter of an epoch: +1 after TryAcquire()==true returned, -1 before Release() is called; it never exceeds the
// number of requests really holding a slot.
//   online check : counter > (largest limit ever configured in the epoch, in-progress resize included)  => violation.
//   offline check: for an admission X = [tc,tr], the firm holders whose whole shadow interval covers [tc,tr] were in
//                  flight at X's linearisation point; the limits that may have been in effect during X are those from
//                  the last sync that RETURNED before tc up to the last sync that STARTED before tr; admitted although
//                  #covering holders >= max(those limits) => violation (this is the "after a resize to M' returned"
//                  clause, made sound against resizes racing with the attempt).

type syncRec struct {
	Label string `json:"op"`
	To    cfg    `json:"to"`
	Start int64  `json:"start"`
	Done  int64  `json:"done"`
}

type epochInfo struct {
	id       int
	begin    string // initial | type-toggle | re-add
	beginSeq int64  // ticket taken before the sync that began the epoch started
	pubSeq   int64  // ticket taken after the epoch was published
	inflight int64  // shadow counter
	maxEver  int64  // largest limit configured in this epoch so far
	admitted int64
	syncs    []syncRec // syncs of this epoch (first = the one that began it); appended by the reconfigurer only
}

type attempt struct {
	g        int
	tc, tr   int64
	ok       bool
	ep       *epochInfo // firm epoch, nil = ambiguous or schema not max-in-flight
	inc, dec int64
}

type onlineHit struct {
	ep    *epochInfo
	seq   int64
	n, mx int64
}

type concRun struct {
	clk      int64
	epoch    atomic.Value // *epochInfo (nil = in transition / not max-in-flight)
	ops      int64
	totalOps int64
	hitMu    sync.Mutex
	hits     []onlineHit
}

func (c *concRun) tick() int64 { return atomic.AddInt64(&c.clk, 1) }
func (c *concRun) cur() *epochInfo {
	e, _ := c.epoch.Load().(*epochInfo)
	return e
}

func atomicMax(p *int64, v int64) {
	for {
		o := atomic.LoadInt64(p)
		if v <= o || atomic.CompareAndSwapInt64(p, o, v) {
			return
		}
	}
}

func hold(g *vkit.Rand) {
	x := g.Intn(100)
	switch {
	case x < 45:
		runtime.Gosched()
	case x < 75:
		for k := 0; k < 50+g.Intn(400); k++ {
			_ = k
		}
	case x < 96:
		time.Sleep(time.Duration(1+g.Intn(60)) * time.Microsecond)
	default:
		time.Sleep(time.Duration(100+g.Intn(400)) * time.Microsecond)
	}
}

func concurrentRuns(r *vkit.R) {
	n := count(r.Quick(), 300, 8000, 1500)
	totalOps := int64(2000)
	r.Parallel(n, 12, func(i int, g *vkit.Rand) {
		viaCI := i%4 == 3
		name := fmt.Sprintf("c05conc%d", i)
		hA := newHandle(name+"-a", viaCI)
		hB := newHandle(name+"-b", false)
		defer hA.close()
		defer hB.close()

		G := g.PickInt([]int{8, 8, 16, 32, 64})
		initMax := g.PickI32([]int32{0, 1, 1, 2, 2, 3, 3, 8, 100})
		nReconf := g.PickInt([]int{0, 4, 10, 20, 40})
		smallOnly := g.Chance(0.6)
		sideMax := int32(g.Range(1, 3))
		otherMax := int32(g.Range(1, 3))

		near := nearNames[i%len(nearNames)]
		nearMax := int32(g.Range(1, 3))

		run := &concRun{totalOps: totalOps}
		cur := cfg{Kind: kMIF, Max: initMax}
		fillerMax, order := int32(5), 0
		// cluster A's spec: hot schema as configured, side, filler and a schema whose name is a near-collision of the hot one
		specA := func() proxyv1alpha1.FlowControl {
			sp := spec(cur, sideMax, fillerMax, order)
			sp.Schemas = append(sp.Schemas, mifSchema(near.Name, nearMax))
			return sp
		}
		hA.sync(specA())
		hB.sync(spec(cfg{Kind: kMIF, Max: otherMax}, 1, 1, 0)) // other cluster, same schema name
		var allEpochs []*epochInfo
		t0 := run.tick()
		e0 := &epochInfo{id: 0, begin: "initial", beginSeq: 0, maxEver: int64(initMax), syncs: []syncRec{{Label: "initial", To: cur, Start: 0, Done: t0}}}
		allEpochs = append(allEpochs, e0)
		run.epoch.Store(e0)
		e0.pubSeq = run.tick()

		logs := make([][]attempt, G)
		var panics int64
		var wg sync.WaitGroup
		var workersDone int32
		for w := 0; w < G; w++ {
			wg.Add(1)
			wr := g.Sub(w)
			go func(w int, g *vkit.Rand) {
				defer wg.Done()
				var log []attempt
				for atomic.AddInt64(&run.ops, 1) <= run.totalOps {
					a := attempt{g: w}
					e1 := run.cur()
					a.tc = run.tick()
					var fc flowcontrol.FlowControl
					p := vkit.Safely(func() { fc = hA.get(hot); a.ok = fc.TryAcquire() })
					a.tr = run.tick()
					e2 := run.cur()
					if p != nil {
						// neither admitted nor refused (on this tree: nil limiter between Store and Sync of a new schema)
						atomic.AddInt64(&panics, 1)
						continue
					}
					if e1 != nil && e1 == e2 {
						a.ep = e1
					}
					if !a.ok {
						log = append(log, a)
						if g.Chance(0.3) {
							runtime.Gosched()
						}
						continue
					}
					if a.ep != nil {
						nn := atomic.AddInt64(&a.ep.inflight, 1)
						mx := atomic.LoadInt64(&a.ep.maxEver)
						atomic.AddInt64(&a.ep.admitted, 1)
						a.inc = run.tick()
						if nn > mx {
							run.hitMu.Lock()
							run.hits = append(run.hits, onlineHit{ep: a.ep, seq: a.inc, n: nn, mx: mx})
							run.hitMu.Unlock()
						}
					} else {
						a.inc = run.tick()
					}
					hold(g)
					a.dec = run.tick()
					if a.ep != nil {
						atomic.AddInt64(&a.ep.inflight, -1)
					}
					if p := vkit.Safely(fc.Release); p != nil {
						atomic.AddInt64(&panics, 1)
					}
					log = append(log, a)
				}
				logs[w] = log
			}(w, wr)
		}

		// isolation probers: (cluster A, side schema) and (cluster B, hot schema name). Each is used by ONE goroutine, so
		// with limit K the first K acquires must succeed (nobody else can hold a slot there, and an uncontended
		// TryAcquire does not refuse spuriously) and the (K+1)-th must fail, whatever happens to (A, hot).
		type isoRes struct {
			rounds, whileHotFull int
			bad                  string
			badAt                int
		}
		iso := make([]isoRes, 3)
		var pwg sync.WaitGroup
		for pi := 0; pi < 3; pi++ {
			pwg.Add(1)
			go func(pi int) {
				defer pwg.Done()
				h, schema, K := hA, side, int(sideMax)
				if pi == 1 {
					h, schema, K = hB, hot, int(otherMax)
				}
				if pi == 2 {
					h, schema, K = hA, near.Name, int(nearMax)
				}
				for {
					done := atomic.LoadInt32(&workersDone) == 1
					hotFull := false
					if e := run.cur(); e != nil && atomic.LoadInt64(&e.inflight) >= atomic.LoadInt64(&e.maxEver) {
						hotFull = true
					}
					var held []flowcontrol.FlowControl
					for k := 0; k < K+1; k++ {
						fc := h.get(schema)
						ok := fc.TryAcquire()
						if ok {
							held = append(held, fc)
						}
						if k < K && !ok && iso[pi].bad == "" {
							iso[pi].bad, iso[pi].badAt = "refused", k
						}
						if k == K && ok && iso[pi].bad == "" {
							iso[pi].bad, iso[pi].badAt = "over-admitted", k
						}
					}
					for _, fc := range held {
						fc.Release()
					}
					iso[pi].rounds++
					if hotFull {
						iso[pi].whileHotFull++
					}
					if done {
						return
					}
					runtime.Gosched()
				}
			}(pi)
		}

		// reconfigurer (single goroutine: Sync is documented single-threaded), paced by the shared op counter
		var nResizeDown, nToggle, nFlips int
		applySync := func(nc cfg, label string) {
			prev := cur
			epochChanging := !(prev.Kind == kMIF && nc.Kind == kMIF)
			if prev.Kind != kMIF && nc.Kind != kMIF {
				cur = nc
				hA.sync(specA())
				return
			}
			rec := syncRec{Label: label, To: nc}
			if epochChanging {
				run.epoch.Store((*epochInfo)(nil))
				rec.Start = run.tick()
				cur = nc
				hA.sync(specA())
				rec.Done = run.tick()
				if nc.Kind == kMIF {
					ne := &epochInfo{id: len(allEpochs), begin: epochBegin(prev, false), beginSeq: rec.Start, maxEver: int64(nc.Max), syncs: []syncRec{rec}}
					allEpochs = append(allEpochs, ne)
					run.epoch.Store(ne)
					ne.pubSeq = run.tick()
					nToggle++
				}
				return
			}
			// same epoch: resize or no-op
			e := run.cur()
			atomicMax(&e.maxEver, int64(nc.Max))
			if nc.Max < prev.Max {
				nResizeDown++
			}
			rec.Start = run.tick()
			cur = nc
			hA.sync(specA())
			rec.Done = run.tick()
			e.syncs = append(e.syncs, rec)
		}
		for k := 1; k <= nReconf; k++ {
			threshold := int64(k) * totalOps / int64(nReconf+1)
			for atomic.LoadInt64(&run.ops) < threshold {
				time.Sleep(20 * time.Microsecond)
			}
			nc, label := nextCfg(g, cur, smallOnly)
			if label == "noop" {
				switch g.Intn(4) {
				case 0:
					fillerMax++
				case 1:
					order++
				case 2:
					if hA.flip != nil {
						hA.flip() // concurrent with the workers' GetOrDefault, as ClusterInfo.Sync does it
						nFlips++
					}
				}
			}
			applySync(nc, label)
			if (label == "to-tokenBucket" || label == "to-exempt") && g.Chance(0.6) {
				// quick toggle back while requests of the old epoch are still in flight
				nc2, _ := nextCfg(g, cfg{Kind: kAbsent}, smallOnly)
				if nc2.Kind != kMIF {
					nc2 = cfg{Kind: kMIF, Max: 1}
				}
				applySync(nc2, "to-maxInflight")
			}
		}
		wg.Wait()
		atomic.StoreInt32(&workersDone, 1)
		pwg.Wait()

		// quiescence: every request has finished. Bring the schema to max-in-flight if it is not, then exactly M
		// successive acquires must succeed and the next must fail (no concurrency any more = no spurious refusals).
		usedEpoch := false
		if cur.Kind != kMIF {
			applySync(cfg{Kind: kMIF, Max: g.PickI32([]int32{1, 2, 3})}, "to-maxInflight")
		} else if e := run.cur(); e != nil && atomic.LoadInt64(&e.admitted) > 0 {
			usedEpoch = true
		}
		M := int(cur.Max)
		got := 0
		var held []flowcontrol.FlowControl
		for k := 0; k < M+1; k++ {
			fc := hA.get(hot)
			if fc.TryAcquire() {
				got++
				held = append(held, fc)
			} else {
				break
			}
		}
		for _, fc := range held {
			fc.Release()
		}

		// ---- judge ----
		var all []attempt
		for _, l := range logs {
			all = append(all, l...)
		}
		epochSummary := func(e *epochInfo) map[string]interface{} {
			return map[string]interface{}{"epoch": e.id, "begin": e.begin, "begin_ticket": e.beginSeq, "published_ticket": e.pubSeq, "syncs": e.syncs, "firm_admissions": e.admitted}
		}
		// prior holders: admitted (firm elsewhere or ambiguous) by an attempt that started before e was published, and
		// released after the sync that began e had started and before ticket `before`
		priorReleased := func(e *epochInfo, before int64) []attempt {
			var out []attempt
			for _, a := range all {
				if a.ok && a.ep != e && a.tc < e.pubSeq && a.dec > e.beginSeq && a.dec < before {
					out = append(out, a)
				}
			}
			return out
		}
		syncsBefore := func(e *epochInfo, before int64) string {
			res := "none"
			for _, s := range e.syncs[1:] {
				if s.Start < before {
					if s.Label == "resize" {
						return "resize"
					}
					res = "noop"
				}
			}
			return res
		}
		describeAttempt := func(a attempt) map[string]interface{} {
			m := map[string]interface{}{"goroutine": a.g, "call_ticket": a.tc, "return_ticket": a.tr, "admitted": a.ok}
			if a.ok {
				m["holding_from_ticket"] = a.inc
				m["release_ticket"] = a.dec
			}
			if a.ep != nil {
				m["firm_in_epoch"] = a.ep.id
			}
			return m
		}
		base := map[string]interface{}{"via": hA.via, "goroutines": G, "initial_limit": initMax, "reconfigurations": nReconf}

		for _, hit := range run.hits {
			pr := priorReleased(hit.ep, hit.seq)
			cls := classOf(hit.ep.begin, len(pr) > 0, syncsBefore(hit.ep, hit.seq))
			w := map[string]interface{}{"run": base, "epoch": epochSummary(hit.ep), "in_flight_counted": hit.n, "largest_limit_ever_in_epoch": hit.mx, "at_ticket": hit.seq}
			if len(pr) > 0 {
				var ps []map[string]interface{}
				for k, a := range pr {
					if k >= 4 {
						break
					}
					ps = append(ps, describeAttempt(a))
				}
				w["requests_admitted_before_the_epoch_and_released_in_it"] = ps
			}
			r.Violation("C05/limiter-conc/over-admission/"+cls,
				fmt.Sprintf("%d requests admitted (firmly) in one max-in-flight epoch were unfinished at the same instant although the largest limit ever configured in that epoch is %d (%s)", hit.n, hit.mx, cls), w)
		}

		// offline, resize-aware admission check
		byG := make([][]attempt, G) // firm holds per goroutine, in order
		for _, a := range all {
			if a.ok && a.ep != nil {
				byG[a.g] = append(byG[a.g], a)
			}
		}
		for gi := range byG {
			sort.Slice(byG[gi], func(x, y int) bool { return byG[gi][x].inc < byG[gi][y].inc })
		}
		var judged, atLimit, afterDown int
		for _, x := range all {
			if x.ep == nil {
				continue
			}
			e := x.ep
			// limits possibly in effect during [tc,tr]
			lo := 0
			for k, s := range e.syncs {
				if s.Done < x.tc {
					lo = k
				}
			}
			L := int64(-1)
			downBefore := false
			for k := lo; k < len(e.syncs); k++ {
				if k > lo && e.syncs[k].Start > x.tr {
					break
				}
				if int64(e.syncs[k].To.Max) > L {
					L = int64(e.syncs[k].To.Max)
				}
			}
			if lo > 0 && e.syncs[lo].To.Max < e.syncs[lo-1].To.Max {
				downBefore = true
			}
			// covering holders
			var cover []attempt
			for gi := range byG {
				if gi == x.g {
					continue
				}
				hs := byG[gi]
				k := sort.Search(len(hs), func(k int) bool { return hs[k].inc >= x.tc }) - 1
				if k >= 0 && hs[k].ep == e && hs[k].dec > x.tr {
					cover = append(cover, hs[k])
				}
			}
			judged++
			if int64(len(cover)) >= L {
				atLimit++
				if downBefore {
					afterDown++
				}
				if x.ok {
					pr := priorReleased(e, x.tc)
					cls := classOf(e.begin, len(pr) > 0, syncsBefore(e, x.tr))
					var cs []map[string]interface{}
					for _, c := range cover {
						cs = append(cs, describeAttempt(c))
					}
					r.Violation("C05/limiter-conc/over-admission/"+cls,
						fmt.Sprintf("a request was admitted although %d requests of the same epoch held a slot during its whole TryAcquire call and no limit above %d can have been in effect during the call (%s)", len(cover), L, cls),
						map[string]interface{}{"run": base, "epoch": epochSummary(e), "admission": describeAttempt(x), "covering_holders": cs, "largest_limit_possibly_in_effect": L})
				}
			}
		}

		if got < M {
			r.Violation("C05/limiter-conc/quiescence/slots-leaked",
				fmt.Sprintf("after every request had finished only %d of %d new requests were admitted under the max-in-flight schema", got, M),
				map[string]interface{}{"run": base, "limit": M, "admitted": got, "epoch": epochSummary(run.cur())})
		} else if got > M {
			r.Violation("C05/limiter-conc/quiescence/more-than-limit-admitted",
				fmt.Sprintf("at quiescence %d sequential acquires succeeded under limit %d", got, M),
				map[string]interface{}{"run": base, "limit": M, "admitted": got, "epoch": epochSummary(run.cur())})
		}
		for pi, what := range []string{"same-cluster-other-schema", "other-cluster-same-schema-name", "same-cluster-near-collision-name=" + near.Class} {
			if iso[pi].bad != "" {
				r.Violation("C05/isolation/"+iso[pi].bad+"/"+what,
					fmt.Sprintf("a limiter used by a single goroutine (%s) %s at its acquire number %d while another (cluster, schema) was under load / being reconfigured", what, iso[pi].bad, iso[pi].badAt+1),
					map[string]interface{}{"run": base, "probe": what, "rounds": iso[pi].rounds})
			}
			r.Count("isolation_probe_rounds", iso[pi].rounds)
			r.Count("isolation_probe_rounds_while_hot_exhausted", iso[pi].whileHotFull)
		}

		// ---- evidence ----
		var firmAdm, ambig, refused int
		for _, a := range all {
			switch {
			case a.ok && a.ep != nil:
				firmAdm++
			case a.ok:
				ambig++
			default:
				refused++
			}
		}
		r.Eval(1)
		r.Count("conc_runs", 1)
		r.Count("conc_attempts", len(all))
		r.Count("conc_firm_admissions", firmAdm)
		r.Count("conc_admissions_not_counted(ambiguous_or_not_maxinflight)", ambig)
		r.Count("conc_refusals", refused)
		r.Count("conc_attempts_judged_offline", judged)
		r.Count("conc_attempts_while_covering_holders_at_limit", atLimit)
		r.Count("conc_attempts_at_limit_after_resize_down_returned", afterDown)
		r.Count("conc_epochs", len(allEpochs))
		r.Count("conc_epoch_begins_by_toggle_or_readd", nToggle)
		r.Count("conc_resize_down", nResizeDown)
		r.Count("conc_limiter_mode_flips", nFlips)
		r.Count("conc_panics_in_acquire_or_release(not_judged)", int(panics))
		r.Count("conc_quiescence_checks", 1)
		if usedEpoch {
			r.Count("conc_quiescence_checks_on_used_limiter", 1)
		}
		if atLimit > 0 {
			r.Distinct(vkit.Hash64("conc", fmt.Sprint(i, G, initMax, nReconf, len(all), firmAdm, atLimit)))
		}
		if i == 0 {
			r.Sample(map[string]interface{}{"kind": "concurrent run", "run": base, "attempts": len(all), "firm_admissions": firmAdm, "refusals": refused,
				"attempts_at_limit": atLimit, "epochs": len(allEpochs), "quiescence_admitted": got, "quiescence_limit": M})
		}
	})
}
