package c05

import (
	"os"
	"testing"

	"verifharness/vkit"
)

func TestCheck(t *testing.T) {
	if os.Getenv("VERIF_RACE_PASS") != "" {
		// the auxiliary -race pass of the thorough tier runs a reduced workload; it must not overwrite the evidence file of
		// the deciding pass (the driver adds its race_pass summary to that file afterwards)
		os.Setenv("VERIF_NO_EVIDENCE", "1")
	}
	vkit.Run(t, "C05", "exploration", func(r *vkit.R) {
		r.Rule("(1) seeded sequential histories (6-45 ops) of acquire / release / reconfigure {resize, no-op, no-op with another field changed, ->tokenBucket, ->exempt, delete, re-add} on one schema, " +
			"exact count of unfinished requests of the current max-in-flight epoch, quiescence probe (exactly M admitted again) at all-finished points; " +
			"(2) concurrent runs: 8-64 goroutines x 2000 GetOrDefault+TryAcquire/hold/Release attempts, M in {0,1,2,3,8,100}, one reconfigurer goroutine (0-40 syncs), schedule points injected into " +
			"flowcontrol.go, flowcontrol_wrapper.go, limiter.go (and golib max_inflight.go), shadow counter per (cluster, schema, epoch) [+1 after TryAcquire==true, -1 before Release], " +
			"resize-aware offline admission check on a logical clock, single-goroutine isolation probers on (same cluster, other schema) and (other cluster, same schema name), quiescence probe; " +
			"(3) porcupine on <=60-op histories against the non-deterministic semaphore model; " +
			"(4) end-to-end batches through the real handler chain: every way a proxied request can end x limits 1-3 x 0..M-1 streams held meanwhile, then hold-M/next-is-429/release/hold-M-again over HTTP, plus reconfiguration scenarios with streams in flight. " +
			"(5) isolation between schemas of one cluster whose names nearly collide (case, trailing space, unicode case; all accepted by validation): exact sequential probes with the other schema exhausted / resized / deleted, a single-goroutine prober in every concurrent run, and an end-to-end scenario (sibling exhausted, then deleted with streams in flight); " +
			"(6) end-to-end ending 'endpoint removed from the server list while streams are proxied to it' with other streams of the same schema held on another endpoint. " +
			"Limiters are obtained exactly as the dispatcher does (NewUpstreamLimiter+Sync+GetOrDefault per request, or ClusterInfo.MatchAttributes().FlowControl()). " +
			"Non-trivial = an acquire was attempted while the counted in-flight requests were at the limit; distinct = hash of the history / run parameters.")
		r.Assume("a TryAcquire that overlaps a reconfiguration may be decided against either configuration; only calls that started after Sync returned are held to the new limit")
		r.Assume("only admissions whose whole GetOrDefault+TryAcquire ran inside one max-in-flight epoch are counted against that epoch (others are reported as ambiguous, not judged)")
		r.Assume("Sync is called by one goroutine at a time (documented single-threaded), concurrently with requests")

		seed := uint64(r.Seed)
		sequentialHistories(r)
		nearCollisionIsolation(r)
		defaultNameIsolation(r)
		twoClustersIsolation(r)
		sameUserDifferentGroupsIsolation(r)
		partialSyncResize(r)
		negativeLimitRefusedByValidation(r)

		vkit.Sched.Enable(seed, 0.04, 0.02, 0.002)
		concurrentRuns(r)
		linHistories(r)
		vkit.Sched.Disable()

		if os.Getenv("VERIF_C05_SKIP_E2E") == "" {
			endToEnd(r)
		}
		r.ReportSched()

		r.Require(r.Counter("conc_panics_in_acquire_or_release(not_judged)") == 0, "TryAcquire/Release panicked under concurrent reconfiguration: neither an admission nor a refusal, the statement is silent about it; look at it")
		r.Require(r.Counter("negative_limits_ACCEPTED_by_validation") == 0 && r.Counter("negative_limits_refused_by_validation") >= 2, "validation accepts a negative max, which this check leaves out as unstorable: drive it")
		r.Require(r.Counter("seq_panics") == 0, "the limiter panicked in a sequential history (see seq_panic_example); consequences were judged by the monitors but the run is not clean")
		r.Require(r.Counter("seq_acquires_at_limit") >= 500, "too few sequential acquires at the limit")
		r.Require(r.Counter("seq_quiescence_checks") >= 500, "too few sequential quiescence probes")
		r.Require(r.Counter("conc_attempts_while_covering_holders_at_limit") >= 2000, "too few concurrent attempts observed while the counted holders were at the limit")
		r.Require(r.Counter("conc_attempts_at_limit_after_resize_down_returned") >= 50, "too few attempts at the limit after a resize-down had returned")
		r.Require(r.Counter("conc_epoch_begins_by_toggle_or_readd") >= 50, "too few epochs begun by a type change / re-add")
		r.Require(r.Counter("isolation_probe_rounds_while_hot_exhausted") >= 100, "too few isolation probes while the other schema was exhausted")
		r.Require(r.Counter("partial_sync_cases_cluster-recreate-events-coalesced") >= 3 && r.Counter("partial_sync_recreate_same_generation") >= 3, "too few re-creations at the same generation handled on the existing cluster info")
		r.Require(r.Counter("partial_sync_cases") >= 24 && r.Counter("partial_sync_cases_cluster-delete-recreate") >= 3 && r.Counter("partial_sync_cases_endpoint-unusable") >= 3, "too few partial-sync / re-create resize cases")
		r.Require(r.Counter("seq_limiter_mode_flips") >= 100 && r.Counter("conc_limiter_mode_flips") >= 50, "too few limiter-mode flips")
		r.Require(r.Counter("seq_boundary_limits(0_or_maxint32)") >= 50, "too few sequential histories with boundary limits")
		r.Require(r.Counter("same_user_groups_cases_same_name") >= 9 && r.Counter("same_user_groups_exact_probes") >= 60, "too few same-user/different-groups isolation probes")
		r.Require(r.Counter("two_clusters_cases") >= 8 && r.Counter("two_clusters_exact_probes") >= 64, "too few two-cluster isolation probes")
		r.Require(r.Counter("default_name_isolation_cases_schema-less-policy") >= 6 && r.Counter("default_name_isolation_cases") >= 6, "too few system-default name isolation cases")
		r.Require(r.Counter("near_collision_cases") >= 30 && r.Counter("near_collision_exact_probes") >= 250, "too few near-collision isolation probes")
		r.Require(r.Counter("lin_histories") >= 100 && r.Counter("lin_admissions") >= 500, "too few linearizability histories")
		if os.Getenv("VERIF_C05_SKIP_E2E") == "" {
			r.Require(r.Counter("e2e_batches") >= 20, "too few end-to-end batches")
			r.Require(r.Counter("e2e_quiescence_429_observed") >= 20, "too few end-to-end quiescence probes reached the 429")
			r.Require(r.Counter("e2e_panics_injected_while_writing_503") >= 5 && r.Counter("e2e_panics_injected_in_upgrade_hijack") >= 5, "too few panics were injected in the dispatcher's frame after admission")
			r.Require(r.Counter("e2e_streams_ended_by_endpoint_removal") >= 3, "too few streams were torn down by an endpoint removal")
			r.Require(r.Counter("e2e_recreate_coalesced_same_generation") >= 2, "too few end-to-end re-creations at the same generation")
			r.Require(r.Counter("e2e_same_user_different_groups_scenarios") >= 2, "too few end-to-end same-user/different-groups scenarios")
			r.Require(r.Counter("e2e_h2_responses") >= 20 && r.Counter("e2e_end_h2-cancel_status_0")+r.Counter("e2e_end_h2-cancel_status_200") >= 3, "too few HTTP/2 endings")
			r.Require(r.Counter("e2e_two_clusters_scenarios") >= 2, "too few end-to-end two-cluster scenarios")
			r.Require(r.Counter("e2e_cluster_recreate_scenarios") >= 2 && r.Counter("e2e_limit_zero_scenarios") >= 2, "too few cluster re-create / limit-zero scenarios")
			r.Require(r.Counter("e2e_storm_scenarios_reaching_the_limit") >= 2 && r.Counter("e2e_storm_refused") >= 20 && r.Counter("e2e_storm_updates") >= 20, "the end-to-end storm did not load the limiter")
			r.Require(r.Counter("e2e_end_watch-stream_status_200") >= 3 && r.Counter("e2e_end_http10_status_200") >= 3 && r.Counter("e2e_end_upload-aborted_status_0") >= 3, "too few watch / HTTP/1.0 / aborted-upload endings")
			r.Require(r.Counter("e2e_default_name_scenarios") >= 2, "too few end-to-end scenarios with a schema named system-default")
			r.Require(r.Counter("e2e_near_collision_scenarios") >= 3, "too few end-to-end near-collision scenarios completed")
		}
	})
}
