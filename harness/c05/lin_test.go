package c05

import (
	"fmt"
	"runtime"
	"sync"
	"sync/atomic"
	"time"

	"github.com/anishathalye/porcupine"

	"github.com/kubewharf/kubegateway/pkg/flowcontrols/flowcontrol"

	"verifharness/vkit"
)

// Linearizability of short histories {TryAcquire -> bool, Release, Resize(n)} on one max-in-flight schema (reached through
// GetOrDefault / Sync like everything else) against a semaphore specification that is widened in two documented ways:
//
//  1. TryAcquire -> false is always legal (the implementation adds optimistically and rolls back, so it may refuse
//     spuriously under contention; the statement only bounds admissions from above).
//  2. An admission may be decided against the limit that was in effect at an earlier point of the same call: the statement
//     constrains "new requests after the limit is changed", i.e. calls that STARTED after the resize returned. This is
//     expressed by splitting an admitted TryAcquire into two steps with the same call interval, begin(c) (snapshot the
//     limit) and commit(c) (requires count < snapshot, then count++). A call that started after Resize(n) returned can
//     only snapshot n or something later.
//
// Clients are well formed (Release only after an own successful TryAcquire, once), so Release is always legal.

const maxLinClients = 6

type linState struct {
	count, max int32
	snap       [maxLinClients]int32 // -1 = no snapshot
}

type linIn struct {
	op     string // refuse | begin | commit | release | resize
	client int
	n      int32
}

func linModel(initMax int32) porcupine.Model {
	return porcupine.Model{
		Init: func() interface{} {
			s := linState{max: initMax}
			for i := range s.snap {
				s.snap[i] = -1
			}
			return s
		},
		Step: func(state, input, output interface{}) (bool, interface{}) {
			s := state.(linState)
			in := input.(linIn)
			switch in.op {
			case "refuse":
				return true, s
			case "begin":
				if s.snap[in.client] != -1 {
					return false, s
				}
				s.snap[in.client] = s.max
				return true, s
			case "commit":
				sn := s.snap[in.client]
				if sn == -1 || s.count >= sn {
					return false, s
				}
				s.snap[in.client] = -1
				s.count++
				return true, s
			case "release":
				if s.count <= 0 {
					return false, s
				}
				s.count--
				return true, s
			case "resize":
				s.max = in.n
				return true, s
			}
			return false, s
		},
	}
}

type linOp struct {
	Client int    `json:"client"`
	Op     string `json:"op"`
	Arg    int32  `json:"arg,omitempty"`
	Result string `json:"result,omitempty"`
	Call   int64  `json:"call"`
	Return int64  `json:"return"`
}

func linHistories(r *vkit.R) {
	n := count(r.Quick(), 400, 10000, 2000)
	var unknown int64
	r.Parallel(n, 12, func(i int, g *vkit.Rand) {
		h := newHandle(fmt.Sprintf("c05lin%d", i), i%5 == 4)
		defer h.close()
		C := g.Range(2, maxLinClients-1)
		resizer := C // client id of the reconfigurer
		initMax := g.PickI32([]int32{0, 1, 1, 2, 2, 3})
		nResize := g.PickInt([]int{0, 1, 2, 4, 6})
		budget := int64(60 - nResize)
		h.sync(spec(cfg{Kind: kMIF, Max: initMax}, 1, 1, 0))

		var clk, used int64
		tick := func() int64 { return atomic.AddInt64(&clk, 1) }
		recs := make([][]linOp, C+1)
		var wg sync.WaitGroup
		for c := 0; c < C; c++ {
			wg.Add(1)
			go func(c int, g *vkit.Rand) {
				defer wg.Done()
				for {
					// an acquire may need a release: reserve two operations
					if atomic.AddInt64(&used, 2) > budget {
						atomic.AddInt64(&used, -2)
						return
					}
					call := tick()
					fc := h.get(hot)
					ok := fc.TryAcquire()
					ret := tick()
					recs[c] = append(recs[c], linOp{Client: c, Op: "TryAcquire", Result: fmt.Sprint(ok), Call: call, Return: ret})
					if !ok {
						atomic.AddInt64(&used, -1)
						runtime.Gosched()
						continue
					}
					switch g.Intn(3) {
					case 0:
						runtime.Gosched()
					case 1:
						time.Sleep(time.Duration(1+g.Intn(30)) * time.Microsecond)
					}
					call = tick()
					fc.Release()
					ret = tick()
					recs[c] = append(recs[c], linOp{Client: c, Op: "Release", Call: call, Return: ret})
				}
			}(c, g.Sub(c))
		}
		cur := initMax
		for k := 0; k < nResize; k++ {
			for atomic.LoadInt64(&used) < int64(k+1)*budget/int64(nResize+1) {
				runtime.Gosched()
			}
			nm := g.PickI32([]int32{0, 1, 2, 3})
			if nm == cur {
				nm = (cur + 1) % 4
			}
			call := tick()
			h.sync(spec(cfg{Kind: kMIF, Max: nm}, 1, 1, 0))
			ret := tick()
			cur = nm
			recs[resizer] = append(recs[resizer], linOp{Client: resizer, Op: "Resize", Arg: nm, Call: call, Return: ret})
		}
		wg.Wait()

		var ops []porcupine.Operation
		var flat []linOp
		admitted, refused := 0, 0
		for _, l := range recs {
			for _, o := range l {
				flat = append(flat, o)
				switch {
				case o.Op == "TryAcquire" && o.Result == "true":
					admitted++
					ops = append(ops,
						porcupine.Operation{ClientId: o.Client, Input: linIn{op: "begin", client: o.Client}, Call: o.Call, Return: o.Return},
						porcupine.Operation{ClientId: o.Client, Input: linIn{op: "commit", client: o.Client}, Call: o.Call, Return: o.Return})
				case o.Op == "TryAcquire":
					refused++
					ops = append(ops, porcupine.Operation{ClientId: o.Client, Input: linIn{op: "refuse", client: o.Client}, Call: o.Call, Return: o.Return})
				case o.Op == "Release":
					ops = append(ops, porcupine.Operation{ClientId: o.Client, Input: linIn{op: "release", client: o.Client}, Call: o.Call, Return: o.Return})
				default:
					ops = append(ops, porcupine.Operation{ClientId: o.Client, Input: linIn{op: "resize", client: o.Client, n: o.Arg}, Call: o.Call, Return: o.Return})
				}
			}
		}
		res := vkit.CheckLin(linModel(initMax), ops, 20*time.Second)
		r.Eval(1)
		r.Count("lin_histories", 1)
		r.Count("lin_operations", len(flat))
		r.Count("lin_admissions", admitted)
		r.Count("lin_refusals", refused)
		r.Count("lin_resizes", nResize)
		if admitted > 0 && (refused > 0 || nResize > 0) {
			r.Distinct(vkit.Hash64("lin", fmt.Sprintf("%v", flat)))
		}
		switch res {
		case vkit.LinIllegal:
			feat := "no-resize"
			if nResize > 0 {
				feat = "with-resize"
			}
			r.Violation("C05/linearizability/"+feat,
				fmt.Sprintf("a %d-operation history of TryAcquire/Release/Resize on one max-in-flight schema (initial limit %d, %d clients) has no linearization under the (widened) semaphore specification: more requests were admitted than any limit in effect allows", len(flat), initMax, C),
				map[string]interface{}{"initial_limit": initMax, "clients": C, "via": h.via, "history": flat})
		case vkit.LinUnknown:
			atomic.AddInt64(&unknown, 1)
		}
		if i == 0 {
			r.Sample(map[string]interface{}{"kind": "linearizability history", "initial_limit": initMax, "clients": C, "history": flat, "verdict": fmt.Sprint(res == vkit.LinOK)})
		}

		// quiescence on the same limiter: everything released, exactly `cur` admitted again
		got := 0
		var held []flowcontrol.FlowControl
		for k := 0; k < int(cur)+1; k++ {
			fc := h.get(hot)
			if !fc.TryAcquire() {
				break
			}
			got++
			held = append(held, fc)
		}
		for _, fc := range held {
			fc.Release()
		}
		if got != int(cur) {
			kind := "slots-leaked"
			if got > int(cur) {
				kind = "more-than-limit-admitted"
			}
			r.Violation("C05/linearizability/quiescence/"+kind,
				fmt.Sprintf("after a short concurrent history with every request finished, %d sequential acquires succeeded under limit %d", got, cur),
				map[string]interface{}{"initial_limit": initMax, "final_limit": cur, "admitted": got, "history": flat})
		}
	})
	if unknown > 0 {
		r.Inconclusive(fmt.Sprintf("porcupine timed out on %d histories", unknown))
	}
}
