package c05

import (
	"fmt"

	metav1 "k8s.io/apimachinery/pkg/apis/meta/v1"
	"k8s.io/apiserver/pkg/authentication/user"
	"k8s.io/apiserver/pkg/authorization/authorizer"

	"k8s.io/apimachinery/pkg/util/validation/field"

	proxyv1alpha1 "github.com/kubewharf/kubegateway/pkg/apis/proxy/v1alpha1"
	"github.com/kubewharf/kubegateway/pkg/apis/proxy/v1alpha1/validation"
	"github.com/kubewharf/kubegateway/pkg/clusters"
	"github.com/kubewharf/kubegateway/pkg/flowcontrols/flowcontrol"

	"verifharness/bed"
	"verifharness/vkit"
)

// The limit is changed in an object whose OTHER part cannot be applied (serving key pair / client CA that does not load, an
// endpoint that cannot be used), or the cluster object is deleted and created again under the same name. "The limit is
// changed to M'" by the latest object: once the sync that delivered it returned (with an error), one goroutine must see
// exactly M' sequential admissions (nothing in flight) resp. M'-1 when one request admitted before the change is still
// unfinished (resize in place; not for the re-created cluster, whose requests were torn down with the old one).
func partialSyncResize(r *vkit.R) {
	stub := bed.NewStub("c05p")
	defer stub.Close()
	gw := bed.NewGateway(bed.GatewayOptions{})
	defer gw.Close()
	attrs := &authorizer.AttributesRecord{User: &user.DefaultInfo{Name: "u"}, Verb: "get", Resource: "pods", ResourceRequest: true}
	type kase struct {
		fault    string
		ctrl     bool
		from, to int32
		holder   bool
	}
	var list []kase
	// "cluster-recreate-events-coalesced": the object is deleted and created again (generation 1 again, new uid, other limit)
	// and the controller only gets to the events when the lister already holds the new object, so it syncs the EXISTING
	// cluster info with the new incarnation.
	for _, f := range []string{"serving-keypair-garbage", "client-ca-garbage", "endpoint-unusable", "cluster-delete-recreate", "cluster-recreate-events-coalesced"} {
		for _, ctrl := range []bool{false, true} {
			if !ctrl && (f == "endpoint-unusable" || f == "cluster-delete-recreate" || f == "cluster-recreate-events-coalesced") {
				continue
			}
			for _, m := range [][2]int32{{3, 1}, {1, 3}, {2, 0}} {
				for _, holder := range []bool{false, true} {
					if holder && (f == "cluster-delete-recreate" || f == "cluster-recreate-events-coalesced" || m[1] == 0) {
						continue
					}
					list = append(list, kase{fault: f, ctrl: ctrl, from: m[0], to: m[1], holder: holder})
				}
			}
		}
	}
	r.Parallel(len(list), 6, func(i int, _ *vkit.Rand) {
		k := list[i]
		name := fmt.Sprintf("c05partial%d.test", i)
		base := func(max int32) *proxyv1alpha1.UpstreamCluster {
			return bed.BuildCluster(bed.ClusterSpec{Name: name, Servers: []string{stub.URL},
				Policies: []proxyv1alpha1.DispatchPolicy{bed.CatchAllPolicy(nil, hot)}, Schemas: []proxyv1alpha1.FlowControlSchema{mifSchema(hot, max)}})
		}
		var apply func(o *proxyv1alpha1.UpstreamCluster) error
		var ciOf func() *clusters.ClusterInfo
		via := "ClusterInfo.Sync"
		if k.ctrl {
			via = "controller (lister update + sync handler)"
			apply = func(o *proxyv1alpha1.UpstreamCluster) error {
				sr := gw.Apply(stamps.stamp(o))
				switch {
				case sr.Panic != nil:
					return fmt.Errorf("panic: %v", sr.Panic)
				case sr.Err == nil && sr.Requeue:
					return fmt.Errorf("sync handler asked for a requeue: a step of the sync failed")
				}
				return sr.Err
			}
			ciOf = func() *clusters.ClusterInfo { ci, _ := gw.Cluster(name); return ci }
			defer func() { stamps.forget(name); gw.Delete(name) }()
		} else {
			ci := clusters.NewEmptyClusterInfo(name, nil, nil, "", nil)
			apply = func(o *proxyv1alpha1.UpstreamCluster) (err error) {
				defer func() {
					if p := recover(); p != nil {
						err = fmt.Errorf("panic: %v", p)
					}
				}()
				return ci.Sync(o)
			}
			ciOf = func() *clusters.ClusterInfo { return ci }
			defer func() {
				_ = ci.Sync(&proxyv1alpha1.UpstreamCluster{ObjectMeta: metav1.ObjectMeta{Name: name}})
				ci.Stop()
			}()
		}
		h := &limHandle{via: via, get: func(string) flowcontrol.FlowControl {
			ci := ciOf()
			if ci == nil {
				panic("harness: cluster not present")
			}
			p, err := ci.MatchAttributes(attrs)
			if err != nil {
				panic("harness: no policy matches")
			}
			return p.FlowControl()
		}}
		if err := apply(base(k.from)); err != nil {
			r.Inconclusive(fmt.Sprintf("partial-sync setup: the clean object was not applied (%s): %v", via, err))
			return
		}
		trace := []string{fmt.Sprintf("clean object applied: %s=maxInflight(%d)", hot, k.from)}
		var held []flowcontrol.FlowControl
		if k.holder {
			held = takeAll(h, hot, 0) // one request, admitted before the change, stays in flight
			if len(held) != 1 {
				r.Inconclusive("partial-sync setup: first request not admitted")
				return
			}
			trace = append(trace, "1 request admitted and still unfinished")
		}
		o := base(k.to)
		switch k.fault {
		case "serving-keypair-garbage":
			o.Spec.SecureServing.CertData, o.Spec.SecureServing.KeyData = []byte("garbage"), []byte("garbage")
		case "client-ca-garbage":
			o.Spec.SecureServing.ClientCAData = []byte("garbage")
		case "endpoint-unusable":
			o.Spec.Servers = append(o.Spec.Servers, proxyv1alpha1.UpstreamClusterServer{Endpoint: "http://[::1"})
		case "cluster-delete-recreate":
			stamps.forget(name)
			gw.Delete(name)
		}
		var err error
		if k.fault == "cluster-recreate-events-coalesced" {
			old := gw.RemoveFromLister(name)
			stamps.forget(name)
			nw := gw.SetLister(stamps.stamp(o))
			trace = append(trace, fmt.Sprintf("object deleted and created again (generation %d -> %d, new uid) before the controller handled either event", old.Generation, nw.Generation))
			for _, ev := range []*proxyv1alpha1.UpstreamCluster{old, nw} {
				if sr := gw.Deliver(ev); sr.Err != nil || sr.Panic != nil || sr.Requeue {
					err = fmt.Errorf("delivery failed: %+v", sr)
				}
			}
			r.Count("partial_sync_recreate_same_generation", b2i(old.Generation == nw.Generation))
		} else {
			err = apply(o)
		}
		if k.fault == "cluster-delete-recreate" || k.fault == "cluster-recreate-events-coalesced" {
			if err != nil {
				r.Inconclusive(fmt.Sprintf("re-creating the cluster failed: %v", err))
				return
			}
			trace = append(trace, fmt.Sprintf("cluster deleted and created again with %s=maxInflight(%d)", hot, k.to))
		} else {
			if err == nil {
				r.Count("partial_sync_moot(fault_did_not_fail_the_sync)", 1)
				releaseAllFC(held)
				return
			}
			trace = append(trace, fmt.Sprintf("object with %s=maxInflight(%d) and fault %s delivered: sync returned error %.80q", hot, k.to, k.fault, err.Error()))
		}
		want := int(k.to) - len(held)
		if want < 0 {
			want = 0
		}
		got := takeAll(h, hot, want)
		trace = append(trace, fmt.Sprintf("%d sequential acquires succeeded (%d in flight from before, new limit %d)", len(got), len(held), k.to))
		w := map[string]interface{}{"via": via, "fault": k.fault, "old_limit": k.from, "new_limit": k.to, "in_flight_from_before": len(held), "trace": trace}
		switch {
		case len(got) > want:
			r.Violation("C05/partial-sync/over-admission/fault="+k.fault,
				fmt.Sprintf("the latest object sets %s to max-in-flight %d (delivered with %s; previous limit %d): with %d request(s) in flight %d more were admitted", hot, k.to, k.fault, k.from, len(held), len(got)), w)
		case len(got) < want && len(held) == 0:
			// nothing in flight at all: "once all requests have finished M new ones are admitted again"
			r.Violation("C05/partial-sync/fewer-than-limit-when-idle/fault="+k.fault,
				fmt.Sprintf("the latest object sets %s to max-in-flight %d (delivered with %s; previous limit %d): with nothing in flight only %d were admitted", hot, k.to, k.fault, k.from, len(got)), w)
		case len(got) < want:
			r.Count("partial_sync_refused_below_new_limit_with_holder(not_judged)", 1)
		}
		releaseAllFC(got)
		releaseAllFC(held)
		r.Eval(1)
		r.Count("partial_sync_cases", 1)
		r.Count("partial_sync_cases_"+k.fault, 1)
		r.Distinct(vkit.Hash64("c05partial", fmt.Sprintf("%+v", k)))
	})
}

func b2i(b bool) int {
	if b {
		return 1
	}
	return 0
}

// negativeLimitRefusedByValidation observes (does not assume) that a negative max - which the limiter would turn into
// uint32(-1) = 4294967295 - cannot be stored.
func negativeLimitRefusedByValidation(r *vkit.R) {
	for _, m := range []int32{-1, -2147483648} {
		fc := &proxyv1alpha1.FlowControl{Schemas: []proxyv1alpha1.FlowControlSchema{mifSchema(hot, m)}}
		if _, errs := validation.ValidateFlowControl(fc, field.NewPath("spec")); len(errs) > 0 {
			r.Count("negative_limits_refused_by_validation", 1)
		} else {
			r.Count("negative_limits_ACCEPTED_by_validation", 1)
		}
	}
}
