package c05

import (
	"fmt"

	proxyv1alpha1 "github.com/kubewharf/kubegateway/pkg/apis/proxy/v1alpha1"
	"github.com/kubewharf/kubegateway/pkg/flowcontrols/flowcontrol"

	"verifharness/vkit"
)

// Isolation between two schemas of ONE cluster whose names nearly collide (differ only by case, by a trailing space, by a
// unicode case variant - all accepted by validation, which only wants non-empty, byte-wise distinct names). One goroutine,
// so every count is exact: with nothing of a schema in flight exactly its own M are admitted and the next is refused,
// whatever the other schema is doing (exhausted, resized, deleted).

// takeAll acquires under schema `name` until a refusal or K+1 admissions; returns what it holds.
func takeAll(h *limHandle, name string, K int) []flowcontrol.FlowControl {
	var held []flowcontrol.FlowControl
	for k := 0; k < K+1; k++ {
		fc := h.get(name)
		if !fc.TryAcquire() {
			break
		}
		held = append(held, fc)
	}
	return held
}

func releaseAllFC(held []flowcontrol.FlowControl) {
	for _, fc := range held {
		fc.Release()
	}
}

func nearCollisionIsolation(r *vkit.R) {
	type kase struct {
		near     int
		hotFirst bool
		m1, m2   int32
		viaCI    bool
	}
	var list []kase
	for n := range nearNames {
		for _, hf := range []bool{true, false} {
			for _, ms := range [][2]int32{{1, 3}, {3, 1}, {2, 2}} {
				for _, ci := range []bool{false, true} {
					list = append(list, kase{near: n, hotFirst: hf, m1: ms[0], m2: ms[1], viaCI: ci})
				}
			}
		}
	}
	r.Parallel(len(list), 8, func(i int, _ *vkit.Rand) {
		k := list[i]
		nn := nearNames[k.near]
		h := newHandle(fmt.Sprintf("c05near%d", i), k.viaCI)
		defer h.close()
		var trace []string
		mk := func(withHot, withNear bool, m1, m2 int32) proxyv1alpha1.FlowControl {
			var ss []proxyv1alpha1.FlowControlSchema
			if withHot {
				ss = append(ss, mifSchema(hot, m1))
			}
			if withNear {
				ss = append(ss, mifSchema(nn.Name, m2))
			}
			if !k.hotFirst && len(ss) == 2 {
				ss[0], ss[1] = ss[1], ss[0]
			}
			ss = append(ss, mifSchema(side, 1), mifSchema(filler, 1))
			trace = append(trace, fmt.Sprintf("sync %q=%v(max %d) %q=%v(max %d) hotFirst=%v", hot, withHot, m1, nn.Name, withNear, m2, k.hotFirst))
			return proxyv1alpha1.FlowControl{Schemas: ss}
		}
		report := func(what, text string) {
			r.Violation(fmt.Sprintf("C05/isolation/near-collision-name=%s/%s", nn.Class, what),
				fmt.Sprintf("schemas %q (max %d) and %q (max %d) of one cluster: %s", hot, k.m1, nn.Name, k.m2, text),
				map[string]interface{}{"via": h.via, "names": []string{hot, nn.Name}, "trace": append([]string(nil), trace...)})
		}
		// exact: nothing of `name` in flight => exactly K admitted, then a refusal
		exact := func(name string, K int32, ctx string) []flowcontrol.FlowControl {
			held := takeAll(h, name, int(K))
			trace = append(trace, fmt.Sprintf("%s: %d sequential acquires under %q succeeded (limit %d)", ctx, len(held), name, K))
			r.Count("near_collision_exact_probes", 1)
			switch {
			case len(held) < int(K) && ctx == "other-exhausted":
				report("refused-while-other-exhausted", fmt.Sprintf("with %q exhausted and nothing of %q in flight only %d of %d requests were admitted under %q", other(name, nn.Name), name, len(held), K, name))
			case len(held) < int(K):
				report("fewer-than-limit-admitted-when-idle/"+ctx, fmt.Sprintf("with nothing in flight only %d of %d requests were admitted under %q (%s)", len(held), K, name, ctx))
			case len(held) > int(K):
				report("over-admitted/"+ctx, fmt.Sprintf("%d requests were admitted under %q whose limit is %d (%s)", len(held), name, K, ctx))
			}
			return held
		}

		h.sync(mk(true, true, k.m1, k.m2))
		// 1. exhaust the near-collision schema, then the hot one must still have all its own slots
		a := exact(nn.Name, k.m2, "fresh")
		b := exact(hot, k.m1, "other-exhausted")
		releaseAllFC(a)
		releaseAllFC(b)
		// 2. the other way round
		b = exact(hot, k.m1, "fresh")
		a = exact(nn.Name, k.m2, "other-exhausted")
		releaseAllFC(a)
		releaseAllFC(b)
		// 3. resizing one leaves the other's limit alone
		h.sync(mk(true, true, k.m1, k.m2+2))
		releaseAllFC(exact(hot, k.m1, "other-resized"))
		releaseAllFC(exact(nn.Name, k.m2+2, "self-resized"))
		// 4. deleting one leaves the other's limit alone
		h.sync(mk(true, false, k.m1, 0))
		releaseAllFC(exact(hot, k.m1, "other-deleted"))
		h.sync(mk(true, true, k.m1, k.m2))
		h.sync(mk(false, true, 0, k.m2))
		releaseAllFC(exact(nn.Name, k.m2, "other-deleted"))
		r.Eval(1)
		r.Count("near_collision_cases", 1)
		r.Distinct(vkit.Hash64("near", fmt.Sprintf("%+v", k)))
		if i == 0 {
			r.Sample(map[string]interface{}{"kind": "near-collision schema names", "names": []string{hot, nn.Name}, "trace": trace})
		}
	})
}

func other(name, near string) string {
	if name == hot {
		return near
	}
	return hot
}
