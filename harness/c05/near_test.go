package c05

import (
	"fmt"

	metav1 "k8s.io/apimachinery/pkg/apis/meta/v1"
	"k8s.io/apiserver/pkg/authentication/user"
	"k8s.io/apiserver/pkg/authorization/authorizer"

	proxyv1alpha1 "github.com/kubewharf/kubegateway/pkg/apis/proxy/v1alpha1"
	"github.com/kubewharf/kubegateway/pkg/clusters"
	"github.com/kubewharf/kubegateway/pkg/flowcontrols/flowcontrol"

	"verifharness/bed"
	"verifharness/vkit"
)

// Isolation between two schemas of ONE cluster whose names nearly collide (differ only by case, by a trailing space, by a
// unicode case variant - all accepted by validation, which only wants non-empty, byte-wise distinct names). One goroutine,
// so every count is exact: with nothing of a schema in flight exactly its own M are admitted and the next is refused,
// whatever the other schema is doing (exhausted, resized, deleted).

// takeAll acquires under schema `name` until a refusal or K+1 admissions; returns what it holds.
func takeAll(h *limHandle, name string, K int) []flowcontrol.FlowControl {
	var held []flowcontrol.FlowControl
	for k := 0; k < K+1; k++ {
		fc := h.get(name)
		if !fc.TryAcquire() {
			break
		}
		held = append(held, fc)
	}
	return held
}

func releaseAllFC(held []flowcontrol.FlowControl) {
	for _, fc := range held {
		fc.Release()
	}
}

func nearCollisionIsolation(r *vkit.R) {
	type kase struct {
		near     int
		hotFirst bool
		m1, m2   int32
		viaCI    bool
	}
	var list []kase
	for n := range nearNames {
		for _, hf := range []bool{true, false} {
			for _, ms := range [][2]int32{{1, 3}, {3, 1}, {2, 2}} {
				for _, ci := range []bool{false, true} {
					list = append(list, kase{near: n, hotFirst: hf, m1: ms[0], m2: ms[1], viaCI: ci})
				}
			}
		}
	}
	r.Parallel(len(list), 8, func(i int, _ *vkit.Rand) {
		k := list[i]
		nn := nearNames[k.near]
		h := newHandle(fmt.Sprintf("c05near%d", i), k.viaCI)
		defer h.close()
		var trace []string
		mk := func(withHot, withNear bool, m1, m2 int32) proxyv1alpha1.FlowControl {
			var ss []proxyv1alpha1.FlowControlSchema
			if withHot {
				ss = append(ss, mifSchema(hot, m1))
			}
			if withNear {
				ss = append(ss, mifSchema(nn.Name, m2))
			}
			if !k.hotFirst && len(ss) == 2 {
				ss[0], ss[1] = ss[1], ss[0]
			}
			ss = append(ss, mifSchema(side, 1), mifSchema(filler, 1))
			trace = append(trace, fmt.Sprintf("sync %q=%v(max %d) %q=%v(max %d) hotFirst=%v", hot, withHot, m1, nn.Name, withNear, m2, k.hotFirst))
			return proxyv1alpha1.FlowControl{Schemas: ss}
		}
		report := func(what, text string) {
			r.Violation(fmt.Sprintf("C05/isolation/near-collision-name=%s/%s", nn.Class, what),
				fmt.Sprintf("schemas %q (max %d) and %q (max %d) of one cluster: %s", hot, k.m1, nn.Name, k.m2, text),
				map[string]interface{}{"via": h.via, "names": []string{hot, nn.Name}, "trace": append([]string(nil), trace...)})
		}
		// exact: nothing of `name` in flight => exactly K admitted, then a refusal
		exact := func(name string, K int32, ctx string) []flowcontrol.FlowControl {
			held := takeAll(h, name, int(K))
			trace = append(trace, fmt.Sprintf("%s: %d sequential acquires under %q succeeded (limit %d)", ctx, len(held), name, K))
			r.Count("near_collision_exact_probes", 1)
			switch {
			case len(held) < int(K) && ctx == "other-exhausted":
				report("refused-while-other-exhausted", fmt.Sprintf("with %q exhausted and nothing of %q in flight only %d of %d requests were admitted under %q", other(name, nn.Name), name, len(held), K, name))
			case len(held) < int(K):
				report("fewer-than-limit-admitted-when-idle/"+ctx, fmt.Sprintf("with nothing in flight only %d of %d requests were admitted under %q (%s)", len(held), K, name, ctx))
			case len(held) > int(K):
				report("over-admitted/"+ctx, fmt.Sprintf("%d requests were admitted under %q whose limit is %d (%s)", len(held), name, K, ctx))
			}
			return held
		}

		h.sync(mk(true, true, k.m1, k.m2))
		// 1. exhaust the near-collision schema, then the hot one must still have all its own slots
		a := exact(nn.Name, k.m2, "fresh")
		b := exact(hot, k.m1, "other-exhausted")
		releaseAllFC(a)
		releaseAllFC(b)
		// 2. the other way round
		b = exact(hot, k.m1, "fresh")
		a = exact(nn.Name, k.m2, "other-exhausted")
		releaseAllFC(a)
		releaseAllFC(b)
		// 3. resizing one leaves the other's limit alone
		h.sync(mk(true, true, k.m1, k.m2+2))
		releaseAllFC(exact(hot, k.m1, "other-resized"))
		releaseAllFC(exact(nn.Name, k.m2+2, "self-resized"))
		// 4. deleting one leaves the other's limit alone
		h.sync(mk(true, false, k.m1, 0))
		releaseAllFC(exact(hot, k.m1, "other-deleted"))
		h.sync(mk(true, true, k.m1, k.m2))
		h.sync(mk(false, true, 0, k.m2))
		releaseAllFC(exact(nn.Name, k.m2, "other-deleted"))
		r.Eval(1)
		r.Count("near_collision_cases", 1)
		r.Distinct(vkit.Hash64("near", fmt.Sprintf("%+v", k)))
		if i == 0 {
			r.Sample(map[string]interface{}{"kind": "near-collision schema names", "names": []string{hot, nn.Name}, "trace": trace})
		}
	})
}

func other(name, near string) string {
	if name == hot {
		return near
	}
	return hot
}

// A user schema may literally be named "system-default" (validation accepts any non-empty name), which is also the name
// the gateway REPORTS for policies that name no schema (those are exempt). Reached through ClusterInfo.MatchAttributes,
// like the dispatcher: with the user's schema exhausted the unnamed policy's requests are still all admitted, and they
// never take one of the schema's slots.
func defaultNameIsolation(r *vkit.R) {
	r.Parallel(12, 6, func(i int, _ *vkit.Rand) {
		// the limited schema is literally named like the reported default, or plainly
		reserved, sigClass := "system-default", "schema-named-system-default"
		if i >= 6 {
			reserved, sigClass = hot, "schema-less-policy"
		}
		M := int32(1 + i%3)
		name := fmt.Sprintf("c05defname%d", i)
		ci := clusters.NewEmptyClusterInfo(name, nil, nil, "", nil)
		uc := &proxyv1alpha1.UpstreamCluster{ObjectMeta: metav1.ObjectMeta{Name: name}}
		rule := func(res string) []proxyv1alpha1.DispatchPolicyRule {
			return []proxyv1alpha1.DispatchPolicyRule{{Verbs: []string{"*"}, APIGroups: []string{"*"}, Resources: []string{res}}}
		}
		p1 := proxyv1alpha1.DispatchPolicy{FlowControlSchemaName: reserved, Rules: rule("limited")}
		p2 := proxyv1alpha1.DispatchPolicy{Rules: rule("unnamed")}
		uc.Spec.DispatchPolicies = []proxyv1alpha1.DispatchPolicy{p1, p2}
		if i%2 == 1 {
			uc.Spec.DispatchPolicies = []proxyv1alpha1.DispatchPolicy{p2, p1}
		}
		uc.Spec.FlowControl.Schemas = []proxyv1alpha1.FlowControlSchema{mifSchema(reserved, M), mifSchema(filler, 1)}
		if err := ci.Sync(uc); err != nil {
			r.Inconclusive("ClusterInfo.Sync failed for the system-default case: " + err.Error())
			return
		}
		defer func() {
			o := uc.DeepCopy()
			o.Spec.FlowControl = proxyv1alpha1.FlowControl{}
			_ = ci.Sync(o)
			ci.Stop()
		}()
		u := &user.DefaultInfo{Name: "u"}
		h := &limHandle{via: "ClusterInfo.MatchAttributes.FlowControl", get: func(res string) flowcontrol.FlowControl {
			p, err := ci.MatchAttributes(&authorizer.AttributesRecord{User: u, Verb: "get", Resource: res, ResourceRequest: true})
			if err != nil {
				panic("harness: no policy matches " + res)
			}
			return p.FlowControl()
		}}
		var trace []string
		report := func(what, text string) {
			r.Violation("C05/isolation/"+sigClass+"/"+what, text,
				map[string]interface{}{"via": h.via, "limit": M, "policies": "P1: resource 'limited' -> schema 'system-default'; P2: resource 'unnamed' -> no schema", "trace": append([]string(nil), trace...)})
		}
		// 1. exhaust the user's schema
		a := takeAll(h, "limited", int(M))
		trace = append(trace, fmt.Sprintf("%d acquires under P1 (schema %q, limit %d) succeeded", len(a), reserved, M))
		if len(a) != int(M) {
			report("own-limit-wrong", fmt.Sprintf("schema %q with limit %d admitted %d sequential requests of its own policy", reserved, M, len(a)))
		}
		// 2. the policy without a schema is exempt whatever happens to that schema
		const N = 10
		b := takeAll(h, "unnamed", N-1) // up to N acquires
		trace = append(trace, fmt.Sprintf("with it exhausted, %d of %d acquires under P2 (no schema) succeeded", len(b), N))
		if len(b) < N {
			report("unnamed-policy-refused", fmt.Sprintf("a policy that names no schema had request number %d refused while the user schema %q (limit %d) was exhausted", len(b)+1, reserved, M))
		}
		// 3. P2's traffic does not use P1's slots
		releaseAllFC(a)
		a = takeAll(h, "limited", int(M))
		trace = append(trace, fmt.Sprintf("P1's requests finished; with %d of P2 in flight %d acquires under P1 succeeded (limit %d)", len(b), len(a), M))
		if len(a) < int(M) {
			report("unnamed-policy-consumes-slots", fmt.Sprintf("with nothing of its own policy in flight and %d requests of the schema-less policy in flight, schema %q admitted only %d of %d", len(b), reserved, len(a), M))
		} else if len(a) > int(M) {
			report("own-limit-wrong", fmt.Sprintf("schema %q with limit %d admitted %d sequential requests", reserved, M, len(a)))
		}
		releaseAllFC(a)
		releaseAllFC(b)
		r.Eval(1)
		r.Count("default_name_isolation_cases", 1)
		r.Count("default_name_isolation_cases_"+sigClass, 1)
		r.Distinct(vkit.Hash64("defname", fmt.Sprint(i)))
	})
}

// twoClustersIsolation: two CLUSTERS carry a schema with the same name (and a policy without schema each). One goroutine,
// exact counts: whatever happens to one cluster's schema (exhausted, resized, cluster deleted and re-created), the other
// cluster's schema admits exactly its own limit and its schema-less policy admits everything. Through the real controller
// (two UpstreamCluster objects) and through two bare limiters.
func twoClustersIsolation(r *vkit.R) {
	gw := bed.NewGateway(bed.GatewayOptions{})
	defer gw.Close()
	stub := bed.NewStub("c05two")
	defer stub.Close()
	u := &user.DefaultInfo{Name: "u"}
	type kase struct {
		ma, mb int32
		ctrl   bool
	}
	var list []kase
	for _, ms := range [][2]int32{{1, 3}, {3, 1}, {2, 2}, {1, 1}} {
		for _, c := range []bool{true, false} {
			list = append(list, kase{ma: ms[0], mb: ms[1], ctrl: c})
		}
	}
	r.Parallel(len(list), 4, func(i int, _ *vkit.Rand) {
		k := list[i]
		names := [2]string{fmt.Sprintf("c05two%da.test", i), fmt.Sprintf("c05two%db.test", i)}
		obj := func(c int, max int32) *proxyv1alpha1.UpstreamCluster {
			rule := func(res string) []proxyv1alpha1.DispatchPolicyRule {
				return []proxyv1alpha1.DispatchPolicyRule{{Verbs: []string{"*"}, APIGroups: []string{"*"}, Resources: []string{res}}}
			}
			return bed.BuildCluster(bed.ClusterSpec{Name: names[c], Servers: []string{stub.URL},
				Policies: []proxyv1alpha1.DispatchPolicy{{FlowControlSchemaName: hot, Rules: rule(hot)}, {Rules: rule("unnamed")}},
				Schemas:  []proxyv1alpha1.FlowControlSchema{mifSchema(hot, max)}})
		}
		var hs [2]*limHandle
		var apply func(c int, max int32) bool
		var del func(c int)
		via := "controller (two UpstreamCluster objects)"
		if k.ctrl {
			for c := 0; c < 2; c++ {
				c := c
				hs[c] = &limHandle{via: via, get: func(res string) flowcontrol.FlowControl {
					ci, ok := gw.Cluster(names[c])
					if !ok {
						panic("harness: cluster missing")
					}
					p, err := ci.MatchAttributes(&authorizer.AttributesRecord{User: u, Verb: "get", Resource: res, ResourceRequest: true})
					if err != nil {
						panic("harness: no policy matches " + res)
					}
					return p.FlowControl()
				}}
			}
			apply = func(c int, max int32) bool {
				sr := gw.Apply(stamps.stamp(obj(c, max)))
				return sr.Err == nil && sr.Panic == nil && !sr.Requeue
			}
			del = func(c int) { stamps.forget(names[c]); gw.Delete(names[c]) }
			defer del(0)
			defer del(1)
		} else {
			via = "two NewUpstreamLimiter instances"
			var cur [2]*limHandle
			apply = func(c int, max int32) bool {
				if cur[c] == nil {
					cur[c] = newDirect(names[c])
					inner := cur[c]
					hs[c] = &limHandle{via: via, get: func(res string) flowcontrol.FlowControl {
						if res == "unnamed" {
							return inner.get("")
						}
						return inner.get(res)
					}}
				}
				cur[c].sync(proxyv1alpha1.FlowControl{Schemas: []proxyv1alpha1.FlowControlSchema{mifSchema(hot, max)}})
				return true
			}
			del = func(c int) {
				if cur[c] != nil {
					cur[c].close()
					cur[c] = nil
				}
			}
			defer del(0)
			defer del(1)
		}
		if !apply(0, k.ma) || !apply(1, k.mb) {
			r.Inconclusive("two-clusters setup: objects not applied")
			return
		}
		var trace []string
		lim := [2]int32{k.ma, k.mb}
		exact := func(c int, ctx string) []flowcontrol.FlowControl {
			held := takeAll(hs[c], hot, int(lim[c]))
			trace = append(trace, fmt.Sprintf("%s: %d sequential acquires under cluster %d's %q succeeded (limit %d)", ctx, len(held), c, hot, lim[c]))
			r.Count("two_clusters_exact_probes", 1)
			w := map[string]interface{}{"via": via, "limits": lim, "trace": append([]string(nil), trace...)}
			switch {
			case len(held) < int(lim[c]):
				r.Violation("C05/isolation/two-clusters-same-schema-name/refused/"+ctx,
					fmt.Sprintf("clusters A and B both have a schema %q (limits %d / %d): with nothing of cluster %d's schema in flight only %d of %d were admitted under it (%s)", hot, lim[0], lim[1], c, len(held), lim[c], ctx), w)
			case len(held) > int(lim[c]):
				r.Violation("C05/isolation/two-clusters-same-schema-name/over-admitted/"+ctx,
					fmt.Sprintf("clusters A and B both have a schema %q (limits %d / %d): %d were admitted under cluster %d's (%s)", hot, lim[0], lim[1], len(held), c, ctx), w)
			}
			return held
		}
		free := func(c int, ctx string) {
			got := takeAll(hs[c], "unnamed", 9)
			if len(got) < 10 {
				r.Violation("C05/isolation/two-clusters-same-schema-name/schema-less-policy-refused/"+ctx,
					fmt.Sprintf("cluster %d's policy without schema had request %d refused (%s)", c, len(got)+1, ctx),
					map[string]interface{}{"via": via, "limits": lim, "trace": append([]string(nil), trace...)})
			}
			releaseAllFC(got)
		}
		a := exact(0, "fresh")
		b := exact(1, "other-cluster-exhausted")
		free(1, "both-exhausted")
		free(0, "both-exhausted")
		releaseAllFC(a)
		a = exact(0, "other-cluster-exhausted")
		releaseAllFC(a)
		releaseAllFC(b)
		// resize A: B unchanged
		lim[0] = k.ma + 2
		if !apply(0, lim[0]) {
			r.Inconclusive("two-clusters: resize not applied")
			return
		}
		releaseAllFC(exact(1, "other-cluster-resized"))
		releaseAllFC(exact(0, "self-resized"))
		// delete A with B's requests in flight, re-create it
		b = exact(1, "before-other-cluster-deleted")
		del(0)
		trace = append(trace, "cluster 0 deleted")
		free(1, "other-cluster-deleted")
		releaseAllFC(b)
		releaseAllFC(exact(1, "other-cluster-deleted"))
		lim[0] = k.ma
		if !apply(0, lim[0]) {
			r.Inconclusive("two-clusters: re-create not applied")
			return
		}
		trace = append(trace, "cluster 0 created again")
		b = exact(1, "other-cluster-recreated")
		releaseAllFC(exact(0, "recreated-while-other-exhausted"))
		releaseAllFC(b)
		r.Eval(1)
		r.Count("two_clusters_cases", 1)
		r.Distinct(vkit.Hash64("twoclusters", fmt.Sprintf("%+v", k)))
	})
}

// sameUserDifferentGroupsIsolation: dispatch rules also select by user GROUPS. The same user name arrives with different
// group sets that route the same kind of request to different schemas (or to a policy without schema). Through
// ClusterInfo.MatchAttributes, one goroutine, exact counts; the order in which the group sets are first seen is varied.
func sameUserDifferentGroupsIsolation(r *vkit.R) {
	type kase struct {
		ma, mb     int32
		firstGroup int // which identity sends the very first request
		sameUser   bool
	}
	var list []kase
	for _, ms := range [][2]int32{{1, 3}, {3, 1}, {2, 2}} {
		for fg := 0; fg < 3; fg++ {
			for _, su := range []bool{true, false} {
				list = append(list, kase{ma: ms[0], mb: ms[1], firstGroup: fg, sameUser: su})
			}
		}
	}
	r.Parallel(len(list), 6, func(i int, _ *vkit.Rand) {
		k := list[i]
		name := fmt.Sprintf("c05groups%d", i)
		ci := clusters.NewEmptyClusterInfo(name, nil, nil, "", nil)
		uc := &proxyv1alpha1.UpstreamCluster{ObjectMeta: metav1.ObjectMeta{Name: name}}
		rule := func(groups ...string) []proxyv1alpha1.DispatchPolicyRule {
			return []proxyv1alpha1.DispatchPolicyRule{{Verbs: []string{"*"}, APIGroups: []string{"*"}, Resources: []string{"*"}, UserGroups: groups}}
		}
		uc.Spec.DispatchPolicies = []proxyv1alpha1.DispatchPolicy{
			{FlowControlSchemaName: hot, Rules: rule("batch")},
			{FlowControlSchemaName: side, Rules: rule("interactive")},
			{Rules: rule("*")}, // everybody else: no schema
		}
		uc.Spec.FlowControl.Schemas = []proxyv1alpha1.FlowControlSchema{mifSchema(hot, k.ma), mifSchema(side, k.mb)}
		if err := ci.Sync(uc); err != nil {
			r.Inconclusive("ClusterInfo.Sync failed: " + err.Error())
			return
		}
		defer func() {
			o := uc.DeepCopy()
			o.Spec.FlowControl = proxyv1alpha1.FlowControl{}
			_ = ci.Sync(o)
			ci.Stop()
		}()
		ids := []*user.DefaultInfo{{Name: "carol", Groups: []string{"batch"}}, {Name: "carol", Groups: []string{"interactive", "system:authenticated"}}, {Name: "carol", Groups: []string{"system:authenticated"}}}
		if !k.sameUser {
			ids[1].Name, ids[2].Name = "dave", "erin"
		}
		h := &limHandle{via: "ClusterInfo.MatchAttributes.FlowControl", get: func(who string) flowcontrol.FlowControl {
			u := ids[int(who[0]-'0')]
			p, err := ci.MatchAttributes(&authorizer.AttributesRecord{User: u, Verb: "list", Resource: "pods", Namespace: "default", ResourceRequest: true})
			if err != nil {
				panic("harness: no policy matches")
			}
			return p.FlowControl()
		}}
		var trace []string
		lim := []int{int(k.ma), int(k.mb), 10}
		what := []string{"group batch -> " + hot, "group interactive -> " + side, "no such group -> no schema"}
		take := func(id int, ctx string) []flowcontrol.FlowControl {
			n := lim[id]
			if id == 2 {
				n = 9 // 10 requests, all admitted
			}
			held := takeAll(h, fmt.Sprint(id), n)
			trace = append(trace, fmt.Sprintf("%s: %d sequential acquires as %s%v (%s) succeeded", ctx, len(held), ids[id].Name, ids[id].Groups, what[id]))
			r.Count("same_user_groups_exact_probes", 1)
			w := map[string]interface{}{"limits": map[string]int32{hot: k.ma, side: k.mb}, "same_user_name": k.sameUser, "trace": append([]string(nil), trace...)}
			cls := "different-user-names"
			if k.sameUser {
				cls = "same-user-name"
			}
			switch {
			case len(held) < lim[id]:
				r.Violation("C05/isolation/policies-by-user-group/"+cls+"/refused",
					fmt.Sprintf("requests of %s%v are routed to %s (limit %d) and nothing of it is in flight, but only %d were admitted (%s)", ids[id].Name, ids[id].Groups, what[id], lim[id], len(held), ctx), w)
			case id != 2 && len(held) > lim[id]:
				r.Violation("C05/isolation/policies-by-user-group/"+cls+"/over-admitted",
					fmt.Sprintf("requests of %s%v are routed to %s (limit %d) but %d were admitted (%s)", ids[id].Name, ids[id].Groups, what[id], lim[id], len(held), ctx), w)
			}
			return held
		}
		order := []int{k.firstGroup, (k.firstGroup + 1) % 3, (k.firstGroup + 2) % 3}
		var held [3][]flowcontrol.FlowControl
		for n, id := range order {
			held[id] = take(id, fmt.Sprintf("step %d, earlier identities still in flight", n+1))
		}
		// the first identity's requests finish; it gets exactly its own slots again while the others are still exhausted
		releaseAllFC(held[order[0]])
		held[order[0]] = take(order[0], "again, others exhausted")
		for id := range held {
			releaseAllFC(held[id])
		}
		r.Eval(1)
		r.Count("same_user_groups_cases", 1)
		if k.sameUser {
			r.Count("same_user_groups_cases_same_name", 1)
		}
		r.Distinct(vkit.Hash64("groups", fmt.Sprintf("%+v", k)))
	})
}
