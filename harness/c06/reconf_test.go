package c06

import (
	"context"
	"fmt"
	"math"
	"sort"
	"sync"
	"time"

	proxyv1alpha1 "github.com/kubewharf/kubegateway/pkg/apis/proxy/v1alpha1"
	"github.com/kubewharf/kubegateway/pkg/flowcontrols"

	"verifharness/bed"
	"verifharness/vkit"
)

// Directed scenarios around a reconfiguration that follows an observed refusal (both tiers; a fixed list, the seed only
// varies the small burst of the first configuration and the order):
//
//	schema (q0 in {1,2,5}, small burst)  -> attempts until a refusal is observed (the schema is throttling)
//	-> no-op sync (same values, Strategy field changed) + a few immediate attempts: must not refill (upper bound over the
//	   whole first stretch)
//	-> Sync to (q1 in {500,2000}, burst1 = q1): a real change
//	-> idle for about 20 / 50 ms: NO attempt by anybody
//	-> back-to-back attempts by 1 or 4 callers.
//
// Demanded (statement: "after the schema has been idle for t seconds at least min(burst, floor(qps*t)) requests are
// admitted immediately", for the configuration in force): with t measured from the LATER of (Sync returned, last attempt
// returned) to the EARLIEST call of the burst - an under-estimate of the real idle time under (q1, burst1) - at least
// min(attempts, burst1, floor(q1*t - slack)) of the attempts are admitted. Tokens are never negative, so this holds for any
// correct bucket whatever it did with the old tokens; that a real change happens to hand out a full new bucket is NOT
// demanded.
func reconfigScenarios(r *vkit.R) {
	type sc struct {
		q0, b0, q1 int32
		idle       time.Duration
		callers    int
	}
	var list []sc
	g := r.Rng.Fork("reconf")
	for _, q0 := range []int32{1, 2, 5} {
		for _, q1 := range []int32{500, 2000} {
			for _, idle := range []time.Duration{20 * time.Millisecond, 50 * time.Millisecond} {
				for _, callers := range []int{1, 4} {
					list = append(list, sc{q0: q0, b0: int32(g.Range(1, 3)), q1: q1, idle: idle, callers: callers})
				}
			}
		}
	}
	r.Parallel(len(list), 8, func(i int, _ *vkit.Rand) {
		s := list[i]
		b1 := s.q1
		ctx, cancel := context.WithCancel(context.Background())
		lim := flowcontrols.NewUpstreamLimiter(ctx, fmt.Sprintf("c06-reconf-%d", i), "", nil)
		defer func() {
			lim.Sync(proxyv1alpha1.FlowControl{})
			cancel()
		}()
		var mu sync.Mutex
		var evs []ev
		attempt := func(caller int) bool {
			tc := bed.Now()
			fc := lim.GetOrDefault(tbName)
			ok := fc.TryAcquire()
			tr := bed.Now()
			if ok {
				fc.Release()
			}
			mu.Lock()
			evs = append(evs, ev{tc: tc, tr: tr, ok: ok, caller: caller})
			mu.Unlock()
			return ok
		}
		var trace []string
		lim.Sync(tbSpec(s.q0, s.b0, "", 1))
		trace = append(trace, fmt.Sprintf("sync qps=%d burst=%d", s.q0, s.b0))

		// 1. drive the schema into throttling
		refused := false
		admitted0 := 0
		for k := 0; k < int(s.b0)+20; k++ {
			if attempt(0) {
				admitted0++
			} else {
				refused = true
				break
			}
		}
		trace = append(trace, fmt.Sprintf("%d attempts admitted, then one refused=%v", admitted0, refused))
		if !refused {
			r.Count("reconf_scenarios_without_refusal(skipped)", 1)
			return
		}
		// 2. mirror case: a no-op sync must not refill
		lim.Sync(tbSpec(s.q0, s.b0, "local", 1))
		for k := 0; k < 3; k++ {
			attempt(0)
		}
		trace = append(trace, "no-op sync (Strategy field changed), 3 immediate attempts")
		mu.Lock()
		first := append([]ev(nil), evs...)
		mu.Unlock()
		var adm []ev
		for _, e := range first {
			if e.ok {
				adm = append(adm, e)
			}
		}
		sort.Slice(adm, func(a, b int) bool { return adm[a].tc < adm[b].tc })
		if excess, i0, j0, R := upperBound(adm, s.q0, s.b0); excess > slack {
			T := float64(R-adm[i0].tc) / 1e9
			r.Violation("C06/limiter/over-admission/single-caller/noop-sync-after-refusal",
				fmt.Sprintf("token bucket qps=%d burst=%d: %d requests admitted within %.6fs around a no-op sync that followed a refusal, bound %.3f", s.q0, s.b0, j0-i0+1, T, float64(s.b0)+float64(s.q0)*T),
				map[string]interface{}{"scenario": fmt.Sprintf("%+v", s), "trace": trace})
		}
		lastReturn := first[len(first)-1].tr

		// 3. real change
		lim.Sync(tbSpec(s.q1, b1, "local", 1))
		syncDone := bed.Now()
		trace = append(trace, fmt.Sprintf("sync qps=%d burst=%d (real change)", s.q1, b1))
		idleFrom := syncDone
		if lastReturn > idleFrom {
			idleFrom = lastReturn
		}
		// 4. idle
		time.Sleep(s.idle)
		// 5. back-to-back attempts
		nominal := int(float64(s.q1)*s.idle.Seconds()) + 1
		per := (2*nominal+8)/s.callers + 1
		from := len(first)
		var wg sync.WaitGroup
		for c := 0; c < s.callers; c++ {
			wg.Add(1)
			go func(c int) {
				defer wg.Done()
				for k := 0; k < per; k++ {
					attempt(c)
				}
			}(c)
		}
		wg.Wait()
		burstEvs := evs[from:]
		firstCall := int64(math.MaxInt64)
		got := 0
		for _, e := range burstEvs {
			if e.tc < firstCall {
				firstCall = e.tc
			}
			if e.ok {
				got++
			}
		}
		t := float64(firstCall-idleFrom) / 1e9
		want := math.Floor(float64(s.q1)*t - slack)
		want = math.Min(want, math.Min(float64(b1), float64(len(burstEvs))))
		if want < 0 {
			want = 0
		}
		trace = append(trace, fmt.Sprintf("idle >= %.6fs, then %d back-to-back attempts by %d caller(s): %d admitted", t, len(burstEvs), s.callers, got))
		r.Eval(1)
		r.Count("reconf_scenarios", 1)
		if want >= 1 {
			r.Count("reconf_scenarios_requiring>=1", 1)
			r.Distinct(vkit.Hash64("reconf", fmt.Sprintf("%+v", s)))
		}
		if float64(got) < want {
			r.Violation("C06/limiter/stricter-than-configured/after-reconfiguration/refusal-observed-before",
				fmt.Sprintf("schema qps=%d burst=%d was throttling (a refusal was observed), then reconfigured to qps=%d burst=%d; after at least %.6fs without any attempt only %d of %d immediate attempts were admitted, min(burst, floor(qps*t)) = %.0f",
					s.q0, s.b0, s.q1, b1, t, got, len(burstEvs), want),
				map[string]interface{}{"old": map[string]int32{"qps": s.q0, "burst": s.b0}, "new": map[string]int32{"qps": s.q1, "burst": b1},
					"idle_s_at_least": t, "attempts": len(burstEvs), "callers": s.callers, "admitted": got, "required": want, "trace": trace})
		}
		if i == 0 {
			r.Sample(map[string]interface{}{"kind": "reconfiguration after refusal", "trace": trace, "required": want, "admitted": got})
		}
	})
}

// Directed single-field reconfigurations (fixed list, both tiers, 1 and 4 callers each): only the burst, only the qps, or
// both change. After the Sync that delivered the change returned,
//
//	lowered: every admission whose call started after that return obeys burst' + qps'*T (the old, larger burst / rate must
//	         not survive); the callers keep attempting for >= 10 ms so that a surviving old RATE shows as well;
//	raised : the old bucket is first drained to an observed refusal; after an idle period t (from the later of Sync's
//	         return / last attempt's return to the earliest call of the burst) at least min(attempts, burst', floor(qps'*t))
//	         immediate attempts are admitted - the values are chosen so that this exceeds what the OLD configuration could
//	         hand out (old burst + old qps * duration of the burst).
func singleFieldScenarios(r *vkit.R) {
	type sc struct {
		kind           string
		q0, b0, q1, b1 int32
		raise          bool
		idle           time.Duration
		callers        int
	}
	base := []sc{
		{kind: "burst-down", q0: 10, b0: 50, q1: 10, b1: 5},
		{kind: "burst-down", q0: 1000, b0: 400, q1: 1000, b1: 20},
		{kind: "qps-down", q0: 2000, b0: 100, q1: 20, b1: 100},
		{kind: "both-down", q0: 1000, b0: 1000, q1: 10, b1: 5},
		{kind: "burst-up", q0: 1000, b0: 20, q1: 1000, b1: 400, raise: true, idle: 50 * time.Millisecond},
		{kind: "burst-up", q0: 2000, b0: 10, q1: 2000, b1: 1000, raise: true, idle: 30 * time.Millisecond},
		{kind: "qps-up", q0: 20, b0: 100, q1: 2000, b1: 100, raise: true, idle: 30 * time.Millisecond},
		{kind: "both-up", q0: 10, b0: 5, q1: 1000, b1: 1000, raise: true, idle: 30 * time.Millisecond},
	}
	var list []sc
	for _, s := range base {
		for _, c := range []int{1, 4} {
			s.callers = c
			list = append(list, s)
		}
	}
	r.Parallel(len(list), 8, func(i int, _ *vkit.Rand) {
		s := list[i]
		ctx, cancel := context.WithCancel(context.Background())
		lim := flowcontrols.NewUpstreamLimiter(ctx, fmt.Sprintf("c06-single-%d", i), "", nil)
		defer func() {
			lim.Sync(proxyv1alpha1.FlowControl{})
			cancel()
		}()
		var mu sync.Mutex
		var evs []ev
		attempt := func(caller int) bool {
			tc := bed.Now()
			fc := lim.GetOrDefault(tbName)
			ok := fc.TryAcquire()
			tr := bed.Now()
			if ok {
				fc.Release()
			}
			mu.Lock()
			evs = append(evs, ev{tc: tc, tr: tr, ok: ok, caller: caller})
			mu.Unlock()
			return ok
		}
		var trace []string
		lim.Sync(tbSpec(s.q0, s.b0, "", 1))
		trace = append(trace, fmt.Sprintf("sync qps=%d burst=%d", s.q0, s.b0))
		w := func(extra map[string]interface{}) map[string]interface{} {
			m := map[string]interface{}{"change": s.kind, "old": []int32{s.q0, s.b0}, "new": []int32{s.q1, s.b1}, "callers": s.callers, "trace": trace}
			for k, v := range extra {
				m[k] = v
			}
			return m
		}
		r.Eval(1)
		r.Count("single_field_scenarios", 1)
		r.Count("single_field_scenarios_"+s.kind, 1)
		r.Distinct(vkit.Hash64("single", fmt.Sprintf("%+v", s)))

		if !s.raise {
			attempt(0)
			attempt(0)
			lim.Sync(tbSpec(s.q1, s.b1, "", 1))
			syncDone := bed.Now()
			trace = append(trace, fmt.Sprintf("2 attempts, then sync qps=%d burst=%d", s.q1, s.b1))
			per := (int(s.b0)+50)/s.callers + 150
			var wg sync.WaitGroup
			for c := 0; c < s.callers; c++ {
				wg.Add(1)
				go func(c int) {
					defer wg.Done()
					for k := 0; k < per; k++ {
						if !attempt(c) {
							time.Sleep(50 * time.Microsecond)
						}
					}
				}(c)
			}
			wg.Wait()
			var adm []ev
			for _, e := range evs {
				if e.ok && e.tc >= syncDone {
					adm = append(adm, e)
				}
			}
			sort.Slice(adm, func(a, b int) bool { return adm[a].tc < adm[b].tc })
			if excess, i0, j0, R := upperBound(adm, s.q1, s.b1); excess > slack {
				T := float64(R-adm[i0].tc) / 1e9
				r.Violation("C06/limiter/over-admission/after-single-field-change="+s.kind,
					fmt.Sprintf("token bucket reconfigured qps=%d burst=%d -> qps=%d burst=%d (%s); after that Sync returned %d requests were admitted within %.6fs, bound burst+qps*T = %.3f (%d callers)",
						s.q0, s.b0, s.q1, s.b1, s.kind, j0-i0+1, T, float64(s.b1)+float64(s.q1)*T, s.callers),
					w(map[string]interface{}{"admitted_in_window": j0 - i0 + 1, "window_s": T}))
			}
			return
		}
		// raised
		refused := false
		for k := 0; k < int(s.b0)+50; k++ {
			if !attempt(0) {
				refused = true
				break
			}
		}
		if !refused {
			r.Count("single_field_moot(no_refusal_before)", 1)
			return
		}
		lastReturn := evs[len(evs)-1].tr
		lim.Sync(tbSpec(s.q1, s.b1, "", 1))
		idleFrom := bed.Now()
		if lastReturn > idleFrom {
			idleFrom = lastReturn
		}
		trace = append(trace, fmt.Sprintf("old bucket drained to a refusal, then sync qps=%d burst=%d", s.q1, s.b1))
		time.Sleep(s.idle)
		nominal := int(float64(s.q1) * s.idle.Seconds())
		per := (2*nominal+8)/s.callers + 1
		from := len(evs)
		var wg sync.WaitGroup
		for c := 0; c < s.callers; c++ {
			wg.Add(1)
			go func(c int) {
				defer wg.Done()
				for k := 0; k < per; k++ {
					attempt(c)
				}
			}(c)
		}
		wg.Wait()
		burst := evs[from:]
		first := int64(math.MaxInt64)
		got := 0
		for _, e := range burst {
			if e.tc < first {
				first = e.tc
			}
			if e.ok {
				got++
			}
		}
		t := float64(first-idleFrom) / 1e9
		want := math.Min(math.Floor(float64(s.q1)*t-slack), math.Min(float64(s.b1), float64(len(burst))))
		trace = append(trace, fmt.Sprintf("idle >= %.6fs, then %d immediate attempts by %d caller(s): %d admitted", t, len(burst), s.callers, got))
		if want > float64(s.b0) {
			r.Count("single_field_raise_requiring_more_than_old_burst", 1)
		}
		if float64(got) < want {
			r.Violation("C06/limiter/stricter-than-configured/after-single-field-change="+s.kind,
				fmt.Sprintf("token bucket reconfigured qps=%d burst=%d -> qps=%d burst=%d (%s) after the old one was drained; after at least %.6fs without any attempt only %d of %d immediate attempts were admitted, min(burst, floor(qps*t)) = %.0f (%d callers)",
					s.q0, s.b0, s.q1, s.b1, s.kind, t, got, len(burst), want, s.callers),
				w(map[string]interface{}{"idle_s_at_least": t, "attempts": len(burst), "admitted": got, "required": want}))
		}
	})
}
