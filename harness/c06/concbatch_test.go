package c06

import (
	"context"
	"fmt"
	"math"
	"sync"
	"sync/atomic"
	"time"

	proxyv1alpha1 "github.com/kubewharf/kubegateway/pkg/apis/proxy/v1alpha1"
	"github.com/kubewharf/kubegateway/pkg/flowcontrols"

	"verifharness/bed"
	"verifharness/vkit"
)

// concurrentNeverStricter: the "never stricter than configured" clause with callers that REALLY overlap. A fixed number of
// batches (count-based, not time-based). Before each batch the schema is left idle long enough to refill completely; then k
// callers are released together (channel broadcast + a bounded rendezvous spin) and ask for exactly burst admissions in
// total, each caller a share of several hundred back-to-back attempts so that the callers' work overlaps even when their
// wake-ups are tens of microseconds apart or the machine is loaded. Oracle unchanged: with t = (earliest call of the batch)
// - (latest return before it), at least min(attempts, burst, floor(qps*t)) of the batch's attempts must be admitted. On a
// correct bucket every batch admits the full amount; nothing depends on how much the callers overlapped.
func concurrentNeverStricter(r *vkit.R) {
	batches := r.N(200, 1000)
	type cfgT struct {
		q, b int32
		k    int
	}
	cfgs := []cfgT{{1000000, 4096, 8}, {1000000, 4096, 16}, {250000, 2048, 4}}
	ctx, cancel := context.WithCancel(context.Background())
	lim := flowcontrols.NewUpstreamLimiter(ctx, "c06-concbatch", "", nil)
	defer func() {
		lim.Sync(proxyv1alpha1.FlowControl{})
		cancel()
	}()
	var prevEnd int64
	cur := cfgT{}
	for n := 0; n < batches; n++ {
		c := cfgs[0]
		if n%10 == 9 {
			c = cfgs[1+(n/10)%2]
		}
		if c != cur {
			lim.Sync(tbSpec(c.q, c.b, "", 1))
			prevEnd = bed.Now()
			cur = c
		}
		per := int(c.b) / c.k
		logs := make([][]ev, c.k)
		release := make(chan struct{})
		var arrived int32
		var wg sync.WaitGroup
		for w := 0; w < c.k; w++ {
			wg.Add(1)
			go func(w int) {
				defer wg.Done()
				log := make([]ev, 0, per)
				<-release
				// bounded rendezvous: wait (at most ~200us) until all callers are running
				atomic.AddInt32(&arrived, 1)
				for spin := 0; spin < 20000 && atomic.LoadInt32(&arrived) < int32(c.k); spin++ {
				}
				for a := 0; a < per; a++ {
					tc := bed.Now()
					fc := lim.GetOrDefault(tbName)
					ok := fc.TryAcquire()
					tr := bed.Now()
					if ok {
						fc.Release()
					}
					log = append(log, ev{tc: tc, tr: tr, ok: ok, caller: w})
				}
				logs[w] = log
			}(w)
		}
		// idle long enough for a complete refill (the pattern; the verdict uses the measured t)
		time.Sleep(time.Duration(float64(c.b)/float64(c.q)*1e9)*time.Nanosecond + 300*time.Microsecond)
		close(release)
		wg.Wait()
		first, last := int64(math.MaxInt64), int64(0)
		got, att := 0, 0
		for _, l := range logs {
			for _, e := range l {
				att++
				if e.ok {
					got++
				}
				if e.tc < first {
					first = e.tc
				}
				if e.tr > last {
					last = e.tr
				}
			}
		}
		t := float64(first-prevEnd) / 1e9
		want := math.Min(math.Floor(float64(c.q)*t-slack), math.Min(float64(c.b), float64(att)))
		prevEnd = last
		r.Count("never_stricter_concurrent_batches", 1)
		if want >= float64(c.b) {
			r.Count("never_stricter_concurrent_batches_requiring_the_full_burst", 1)
		}
		if float64(got) < want {
			r.Violation("C06/limiter/stricter-than-configured/concurrent-batch",
				fmt.Sprintf("token bucket qps=%d burst=%d: after at least %.6fs without any attempt, %d callers released together made %d attempts in total and only %d were admitted, min(burst, floor(qps*t)) = %.0f (batch %d)",
					c.q, c.b, t, c.k, att, got, want, n),
				map[string]interface{}{"qps": c.q, "burst": c.b, "callers": c.k, "idle_s_at_least": t, "attempts": att, "admitted": got, "required": want, "batch": n, "batch_duration_s": float64(last-first) / 1e9})
		}
	}
	r.Eval(batches)
	r.Distinct(vkit.Hash64("concbatch", fmt.Sprint(batches)))
}
