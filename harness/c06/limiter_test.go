package c06

import (
	"context"
	"fmt"
	"math"
	"runtime"
	"sort"
	"sync"
	"sync/atomic"
	"time"

	proxyv1alpha1 "github.com/kubewharf/kubegateway/pkg/apis/proxy/v1alpha1"
	"github.com/kubewharf/kubegateway/pkg/flowcontrols"

	"verifharness/bed"
	"verifharness/vkit"
)

// Slack added to both bounds, in tokens. The bucket is client-go's NewTokenBucketRateLimiter(float32(qps), burst) over
// golang.org/x/time/rate: the schema's qps is an int32 and every value used here is < 2^24, so float32(qps) is exact and
// rate.Limit(float64(float32(qps))) == qps; the bucket then accumulates float64 products d.Seconds()*qps. With at most a
// few 1e5 admissions per run and token values <= 1e4 the accumulated rounding error is < 1e-8 tokens, and the conversion
// of our int64 nanosecond differences to seconds adds < 1e-9. 1e-6 therefore keeps both bounds sound; it only matters
// when qps*T is within 1e-6 of an integer.
const slack = 1e-6

const (
	tbName     = "tb"
	fillerName = "other"
)

type ev struct {
	tc, tr int64
	ok     bool
	caller int
}

type syncEv struct {
	start, done int64
	real        bool  // changes (qps, burst): ends the stretch
	qps, burst  int32 // configuration after the sync
}

type tbCase struct {
	QPS, Burst  int32
	Callers     int
	Pattern     string // saturate | bursts | ramp
	Noop        bool   // no-op syncs interleaved
	Reconfigs   int    // real reconfigurations during the run
	Long        bool
	AdmissionOK bool // burst >= qps: the pair passes the admission validation of UpstreamCluster
}

var pairs = [][2]int32{
	{50, 50}, {200, 200}, {1000, 1000}, {100, 300}, {2000, 5000}, // valid by admission (burst >= qps)
	{50, 1}, {1000, 50}, {5000, 500}, {20000, 1}, {20000, 100}, // accepted by the limiter itself
}

func tbSpec(qps, burst int32, strategy string, filler int32) proxyv1alpha1.FlowControl {
	s := proxyv1alpha1.FlowControlSchema{Name: tbName, Strategy: proxyv1alpha1.LimitStrategy(strategy),
		FlowControlSchemaConfiguration: proxyv1alpha1.FlowControlSchemaConfiguration{TokenBucket: &proxyv1alpha1.TokenBucketFlowControlSchema{QPS: qps, Burst: burst}}}
	f := proxyv1alpha1.FlowControlSchema{Name: fillerName,
		FlowControlSchemaConfiguration: proxyv1alpha1.FlowControlSchemaConfiguration{MaxRequestsInflight: &proxyv1alpha1.MaxRequestsInflightFlowControlSchema{Max: filler}}}
	return proxyv1alpha1.FlowControl{Schemas: []proxyv1alpha1.FlowControlSchema{s, f}}
}

type stretch struct {
	from, to   int64 // events with tc >= from and tr <= to belong to it
	qps, burst int32
	index      int
}

// upperBound checks, for one reconfiguration-free stretch, every window that starts at an admission's call time and ends
// at the latest return time seen so far: the admissions a_i..a_j (sorted by call time) all lie inside
// [tc_i, R_j] with R_j = max_{k<=j} tr_k, so j-i+1 <= burst + qps*(R_j - tc_i) must hold. One pass with a running minimum.
// Returns the worst excess (in tokens, <= 0 when the bound holds) and its window.
func upperBound(adm []ev, qps, burst int32) (excess float64, i0, j0 int, rj int64) {
	excess = math.Inf(-1)
	if len(adm) == 0 {
		return
	}
	base := adm[0].tc
	q := float64(qps)
	minB, minI := math.Inf(1), 0
	var R int64 = math.MinInt64
	for j := range adm {
		// B_i = (i) - q*tc_i   (i = number of admissions before a_i)
		b := float64(j) - q*float64(adm[j].tc-base)/1e9
		if b < minB {
			minB, minI = b, j
		}
		if adm[j].tr > R {
			R = adm[j].tr
		}
		a := float64(j+1) - q*float64(R-base)/1e9
		if x := a - minB - float64(burst); x > excess {
			excess, i0, j0, rj = x, minI, j, R
		}
	}
	return
}

func limiterRuns(r *vkit.R) {
	n := r.N(120, 4000)
	r.Parallel(n, 8, func(i int, g *vkit.Rand) {
		p := pairs[i%len(pairs)]
		c := tbCase{QPS: p[0], Burst: p[1], AdmissionOK: p[1] >= p[0]}
		c.Callers = g.PickInt([]int{1, 2, 4, 8, 16, 32})
		c.Pattern = []string{"saturate", "bursts", "ramp"}[(i/len(pairs))%3]
		c.Noop = i%4 != 3
		if !r.Quick() || i%4 == 1 {
			c.Reconfigs = g.PickInt([]int{0, 0, 1, 3})
		}
		c.Long = !r.Quick() && i%50 == 7
		oneRun(r, i, g, c)
	})
}

func oneRun(r *vkit.R, idx int, g *vkit.Rand, c tbCase) {
	ctx, cancel := context.WithCancel(context.Background())
	lim := flowcontrols.NewUpstreamLimiter(ctx, fmt.Sprintf("c06-%d", idx), "", nil)
	defer func() {
		lim.Sync(proxyv1alpha1.FlowControl{})
		cancel()
	}()
	strategy, filler := "", int32(1)
	curQ, curB := c.QPS, c.Burst
	s0 := bed.Now()
	lim.Sync(tbSpec(curQ, curB, strategy, filler))
	syncs := []syncEv{{start: s0, done: bed.Now(), real: true, qps: curQ, burst: curB}}

	logs := make([][]ev, c.Callers+1)
	attempt := func(caller int) bool {
		tc := bed.Now()
		ok := lim.GetOrDefault(tbName).TryAcquire()
		tr := bed.Now()
		logs[caller] = append(logs[caller], ev{tc: tc, tr: tr, ok: ok, caller: caller})
		if ok {
			lim.GetOrDefault(tbName).Release() // the dispatcher releases; a no-op for a token bucket
		}
		return ok
	}

	// reconfigurer: no-op syncs (identical spec / another schema changed / another field of this schema changed) and,
	// in some runs, real changes of (qps, burst). One goroutine (Sync is single-threaded by contract).
	var stop int32
	var swg sync.WaitGroup
	var nNoop, nModeFlips int
	var nRealKinds [3]int
	remoteMode := false
	if c.Noop || c.Reconfigs > 0 {
		swg.Add(1)
		sg := g.Fork("sync")
		go func() {
			defer swg.Done()
			realLeft := c.Reconfigs
			k := 0
			for atomic.LoadInt32(&stop) == 0 {
				time.Sleep(time.Duration(200+sg.Intn(1800)) * time.Microsecond)
				k++
				se := syncEv{}
				between := -1 // >= 0: a compound reconfiguration (the schema disappears / changes type in between)
				if realLeft > 0 && k%25 == 0 {
					realLeft--
					switch kind := sg.Intn(4); kind {
					case 0, 1: // new (qps, burst)
						np := pairs[sg.Intn(len(pairs))]
						if np[0] == curQ && np[1] == curB {
							np = [2]int32{curQ + 1, curB + 1}
						}
						curQ, curB = np[0], np[1]
						nRealKinds[0]++
					case 2: // schema deleted and re-added with the SAME values (a new bucket: legitimately full again)
						between = 0
						nRealKinds[1]++
					case 3: // type toggled to max-in-flight and back, same values
						between = 1
						nRealKinds[2]++
					}
					se.real = true
				} else if !c.Noop {
					continue
				} else {
					switch k % 4 {
					case 0: // identical spec
					case 1:
						filler++
					case 2:
						if strategy == "" {
							strategy = "local"
						} else {
							strategy = ""
						}
					case 3:
						// the cluster's limiter type flips (feature gate / --rate-limiter): without limiter client sets the
						// remote mode falls back to the same local bucket, which must not be refilled by the flip
						remoteMode = !remoteMode
						if remoteMode {
							lim.ResetLimiter("remote")
						} else {
							lim.ResetLimiter("local")
						}
						nModeFlips++
					}
					nNoop++
				}
				se.qps, se.burst = curQ, curB
				se.start = bed.Now()
				if between >= 0 {
					sp := tbSpec(curQ, curB, strategy, filler)
					if between == 0 {
						sp.Schemas = sp.Schemas[1:]
					} else {
						sp.Schemas[0].TokenBucket = nil
						sp.Schemas[0].MaxRequestsInflight = &proxyv1alpha1.MaxRequestsInflightFlowControlSchema{Max: 1000000}
					}
					lim.Sync(sp)
				}
				lim.Sync(tbSpec(curQ, curB, strategy, filler))
				se.done = bed.Now()
				syncs = append(syncs, se)
			}
		}()
	}

	// ---- arrival pattern (fixed by counts and sleeps, not by a time budget) ----
	scale := 1
	if c.Long {
		scale = 12
	}
	type lbCheck struct {
		prevEnd, first int64
		lastTr         int64
		attempts, adm  int
		callers        int
		drained        bool
		cfgSyncs       int // number of real syncs seen when the idle period began (no real sync may intervene)
	}
	var lbs []lbCheck
	var wg sync.WaitGroup
	switch c.Pattern {
	case "saturate":
		K := 1500 * scale
		for w := 0; w < c.Callers; w++ {
			wg.Add(1)
			go func(w int, g *vkit.Rand) {
				defer wg.Done()
				for k := 0; k < K; k++ {
					if !attempt(w) {
						if g.Chance(0.8) {
							time.Sleep(time.Duration(5+g.Intn(40)) * time.Microsecond)
						} else {
							runtime.Gosched()
						}
					}
				}
			}(w, g.Sub(w))
		}
		wg.Wait()
	case "ramp":
		K := 300 * scale
		for w := 0; w < c.Callers; w++ {
			wg.Add(1)
			go func(w int, g *vkit.Rand) {
				defer wg.Done()
				for k := 0; k < K; k++ {
					attempt(w)
					if d := time.Duration(K-k) * time.Millisecond / time.Duration(K); d > 20*time.Microsecond {
						time.Sleep(d)
					}
				}
			}(w, g.Sub(w))
		}
		wg.Wait()
	case "bursts":
		B := 8 * scale
		per := (int(c.Burst)+40)/c.Callers + 2
		if per > 400 {
			per = 400
		}
		var prevBurstEnd int64 = -1
		prevRefused := false
		for b := 0; b < B; b++ {
			before := make([]int, c.Callers)
			for w := range before {
				before[w] = len(logs[w])
			}
			for w := 0; w < c.Callers; w++ {
				wg.Add(1)
				go func(w int) {
					defer wg.Done()
					for k := 0; k < per; k++ {
						attempt(w)
					}
				}(w)
			}
			wg.Wait()
			// all callers are idle between bursts: the pause before this burst is an idle period for the whole schema
			var first, end int64 = math.MaxInt64, 0
			adm, att, refused := 0, 0, false
			for w := 0; w < c.Callers; w++ {
				for _, e := range logs[w][before[w]:] {
					att++
					if e.ok {
						adm++
					} else {
						refused = true
					}
					if e.tc < first {
						first = e.tc
					}
					if e.tr > end {
						end = e.tr
					}
				}
			}
			if prevBurstEnd >= 0 {
				lbs = append(lbs, lbCheck{prevEnd: prevBurstEnd, first: first, lastTr: end, attempts: att, adm: adm, drained: prevRefused, callers: c.Callers})
			}
			prevBurstEnd, prevRefused = end, refused
			time.Sleep(time.Duration(300+g.Intn(20000)) * time.Microsecond)
		}
	}

	// ---- drain / idle / burst epilogues: the "never stricter than configured" side, measured by one caller ----
	me := c.Callers
	for round := 0; round < 4*scale; round++ {
		// drain until a refusal is observed
		drained := false
		for k := 0; k < int(c.Burst)+3000; k++ {
			if !attempt(me) {
				drained = true
				break
			}
		}
		prevEnd := logs[me][len(logs[me])-1].tr
		time.Sleep(time.Duration(g.PickInt([]int{300, 1000, 3000, 10000, 30000})) * time.Microsecond)
		nAtt := int(c.Burst) + 3
		if nAtt > 600 {
			nAtt = 600
		}
		from := len(logs[me])
		adm := 0
		for k := 0; k < nAtt; k++ {
			if attempt(me) {
				adm++
			}
		}
		lbs = append(lbs, lbCheck{prevEnd: prevEnd, first: logs[me][from].tc, lastTr: logs[me][len(logs[me])-1].tr, attempts: nAtt, adm: adm, drained: drained, callers: 1})
	}
	atomic.StoreInt32(&stop, 1)
	swg.Wait()

	// ---- judge ----
	var all []ev
	for _, l := range logs {
		all = append(all, l...)
	}
	sort.Slice(all, func(a, b int) bool { return all[a].tc < all[b].tc })
	// stretches between real reconfigurations
	var sts []stretch
	var reals []syncEv
	for _, s := range syncs {
		if s.real {
			reals = append(reals, s)
		}
	}
	for k, s := range reals {
		st := stretch{from: s.done, to: math.MaxInt64, qps: s.qps, burst: s.burst, index: k}
		if k+1 < len(reals) {
			st.to = reals[k+1].start
		}
		sts = append(sts, st)
	}
	base := map[string]interface{}{"case": c, "noop_syncs": nNoop, "real_reconfigurations": len(reals) - 1}
	admTotal, refTotal, dropped := 0, 0, 0
	for _, st := range sts {
		var adm []ev
		for _, e := range all {
			if e.tc >= st.from && e.tr <= st.to {
				if e.ok {
					adm = append(adm, e)
					admTotal++
				} else {
					refTotal++
				}
			}
		}
		excess, i0, j0, R := upperBound(adm, st.qps, st.burst)
		if len(adm) > 0 {
			r.Count("windows_checked", len(adm)*(len(adm)+1)/2)
		}
		if excess > slack {
			T := float64(R-adm[i0].tc) / 1e9
			noopIn := 0
			for _, s := range syncs {
				if !s.real && s.done >= adm[i0].tc && s.start <= R {
					noopIn++
				}
			}
			stt := "initial"
			if st.index > 0 {
				stt = "after-reconfiguration"
			}
			// With several concurrent callers the over-admission cannot be attributed further from the boundary (on this
			// tree: calls reach the bucket's lock out of clock order); with one caller the remaining features matter.
			sig := "C06/limiter/over-admission/concurrent-callers"
			if c.Callers == 1 {
				sig = fmt.Sprintf("C06/limiter/over-admission/single-caller/noop-sync-in-window=%s/stretch=%s", yesno(noopIn > 0), stt)
			}
			r.Violation(sig,
				fmt.Sprintf("token bucket qps=%d burst=%d admitted %d requests in a window of %.6fs without reconfiguration: bound burst+qps*T = %.3f, excess %.3f tokens (%d callers, pattern %s, %d no-op syncs inside the window)",
					st.qps, st.burst, j0-i0+1, T, float64(st.burst)+float64(st.qps)*T, excess, c.Callers, c.Pattern, noopIn),
				map[string]interface{}{"run": base, "qps": st.qps, "burst": st.burst, "window_start_ns": adm[i0].tc, "window_end_ns": R, "window_s": T,
					"admitted_in_window": j0 - i0 + 1, "bound": float64(st.burst) + float64(st.qps)*T, "excess_tokens": excess, "noop_syncs_in_window": noopIn,
					"first_admission": fmt.Sprintf("%+v", adm[i0]), "last_admission": fmt.Sprintf("%+v", adm[j0])})
		}
	}
	dropped = len(all) - admTotal - refTotal

	// lower bound: idle time measured from the later end (last return before the pause) to the earlier start (first call
	// after it) under-estimates the real idle time; tokens are never negative, so at least min(burst, floor(qps*t)) of the
	// immediately following attempts must be admitted (all of them if fewer were attempted).
	lbDone, lbDrained := 0, 0
	for _, lb := range lbs {
		// the whole [end of the previous attempts, end of this burst] must lie in one reconfiguration-free stretch
		var st *stretch
		for k := range sts {
			if lb.prevEnd >= sts[k].from && lb.lastTr <= sts[k].to {
				st = &sts[k]
			}
		}
		if st == nil {
			continue
		}
		t := float64(lb.first-lb.prevEnd) / 1e9
		want := math.Floor(float64(st.qps)*t - slack)
		if want > float64(st.burst) {
			want = float64(st.burst)
		}
		if want > float64(lb.attempts) {
			want = float64(lb.attempts)
		}
		if want < 0 {
			want = 0
		}
		lbDone++
		if lb.drained && want >= 1 {
			lbDrained++
		}
		if float64(lb.adm) < want {
			stt := "initial"
			if st.index > 0 {
				stt = "after-reconfiguration"
			}
			r.Violation("C06/limiter/stricter-than-configured/stretch="+stt,
				fmt.Sprintf("token bucket qps=%d burst=%d: after at least %.6fs without any attempt only %d of %d immediate attempts were admitted, min(burst, floor(qps*t)) = %.0f",
					st.qps, st.burst, t, lb.adm, lb.attempts, want),
				map[string]interface{}{"run": base, "qps": st.qps, "burst": st.burst, "idle_s_at_least": t, "attempts": lb.attempts, "admitted": lb.adm, "required": want, "drained_before": lb.drained, "callers_in_burst": lb.callers})
		}
	}

	r.Eval(1)
	r.Count("runs", 1)
	r.Count("attempts", len(all))
	r.Count("admissions_judged", admTotal)
	r.Count("refusals_in_stretches", refTotal)
	r.Count("events_straddling_a_reconfiguration(dropped)", dropped)
	r.Count("noop_syncs", nNoop)
	r.Count("real_reconfigurations", len(reals)-1)
	r.Count("real_reconfigurations_new_values", nRealKinds[0])
	r.Count("real_reconfigurations_delete_readd_same_values", nRealKinds[1])
	r.Count("real_reconfigurations_type_toggle_same_values", nRealKinds[2])
	r.Count("noop_limiter_mode_flips(local<->remote_without_client_sets)", nModeFlips)
	r.Count("lower_bound_checks", lbDone)
	r.Count("lower_bound_checks_after_observed_refusal_requiring>=1", lbDrained)
	r.Count("runs_pattern_"+c.Pattern, 1)
	if c.AdmissionOK {
		r.Count("runs_with_admission_valid_pair", 1)
	}
	if refTotal > 0 && admTotal > int(c.Burst) {
		r.Distinct(vkit.Hash64("tb", fmt.Sprintf("%+v|%d|%d", c, len(all), admTotal)))
	}
	if idx < 3 {
		r.Sample(map[string]interface{}{"kind": "limiter run", "case": c, "attempts": len(all), "admitted": admTotal, "refused": refTotal, "noop_syncs": nNoop, "lower_bound_checks": lbDone})
	}
}

func yesno(b bool) string {
	if b {
		return "yes"
	}
	return "no"
}
