package c06

import (
	"encoding/json"
	"fmt"
	"sort"
	"sync"
	"sync/atomic"
	"time"

	metav1 "k8s.io/apimachinery/pkg/apis/meta/v1"
	"k8s.io/apiserver/pkg/authentication/user"

	proxyv1alpha1 "github.com/kubewharf/kubegateway/pkg/apis/proxy/v1alpha1"

	"verifharness/bed"
	"verifharness/vkit"
)

// endToEnd sends real HTTP requests through the real handler chain to a stub upstream under a token-bucket schema:
// a request is "admitted" iff it reached the stub; every other request must be answered 429 with a Status body; the
// admissions obey the same upper bound on the intervals (request sent, response received). No-op updates of the cluster
// object are applied meanwhile through the real controller.
func endToEnd(r *vkit.R) {
	n := r.N(6, 60)
	stub := bed.NewStub("c06")
	defer stub.Close()
	gw := bed.NewGateway(bed.GatewayOptions{}).Start()
	defer gw.Close()
	tok := gw.Tokens.Add(&user.DefaultInfo{Name: "alice"})
	g := r.Rng.Fork("e2e")
	var idn int64
	for sc := 0; sc < n; sc++ {
		p := [][2]int32{{5, 3}, {20, 5}, {50, 10}, {100, 20}, {10, 10}}[sc%5]
		qps, burst := p[0], p[1]
		clients := g.PickInt([]int{1, 4, 8})
		host := fmt.Sprintf("c06e2e%d.test", sc)
		filler := int32(1)
		build := func() *proxyv1alpha1.UpstreamCluster {
			return bed.BuildCluster(bed.ClusterSpec{Name: host, Servers: []string{stub.URL},
				Policies: []proxyv1alpha1.DispatchPolicy{bed.CatchAllPolicy(nil, tbName)},
				Schemas:  tbSpec(qps, burst, "", filler).Schemas})
		}
		obj := build()
		if sr := gw.Apply(obj); sr.Err != nil || sr.Panic != nil || sr.Requeue {
			r.Inconclusive(fmt.Sprintf("controller did not apply the C06 e2e cluster: %+v", sr))
			return
		}
		if !gw.WaitAllReady(obj, 10*time.Second) {
			r.Inconclusive("stub endpoint did not become ready within the 10s watchdog")
			return
		}
		var mu sync.Mutex
		var evs []ev
		var bad []string
		var stopSync int32
		var swg sync.WaitGroup
		nNoop := 0
		swg.Add(1)
		go func() {
			defer swg.Done()
			for atomic.LoadInt32(&stopSync) == 0 {
				time.Sleep(2 * time.Millisecond)
				filler++
				gw.Apply(build()) // same token-bucket values, another schema changed
				nNoop++
			}
		}()
		for round := 0; round < 2; round++ {
			var wg sync.WaitGroup
			for c := 0; c < clients; c++ {
				wg.Add(1)
				go func(c int) {
					defer wg.Done()
					for k := 0; k < 24/clients+int(burst)/clients+2; k++ {
						id := fmt.Sprintf("c06-%d", atomic.AddInt64(&idn, 1))
						req := bed.NewRequest("GET", host, "/api/v1/namespaces/default/pods", tok, id, nil)
						tc := bed.Now()
						resp := gw.Do(req)
						tr := bed.Now()
						forwarded := stub.CountID(id) > 0
						mu.Lock()
						evs = append(evs, ev{tc: tc, tr: tr, ok: forwarded, caller: c})
						switch {
						case resp.Err != nil:
							bad = append(bad, "client error: "+resp.Err.Error())
						case forwarded && resp.Status != 200:
							bad = append(bad, fmt.Sprintf("forwarded request answered %d", resp.Status))
						case !forwarded:
							var st metav1.Status
							if resp.Status != 429 || json.Unmarshal(resp.Body, &st) != nil || st.Kind != "Status" || st.Code != 429 {
								r.Violation("C06/e2e/refusal-not-429-status",
									fmt.Sprintf("a request that was not forwarded under token bucket qps=%d burst=%d was answered %d %.120q instead of a 429 Status", qps, burst, resp.Status, resp.Body),
									map[string]interface{}{"qps": qps, "burst": burst, "status": resp.Status, "body": string(resp.Body), "header": resp.Header})
							} else {
								r.Count("e2e_refusals_429", 1)
							}
						}
						mu.Unlock()
					}
				}(c)
			}
			wg.Wait()
			time.Sleep(time.Duration(40+g.Intn(100)) * time.Millisecond)
		}
		atomic.StoreInt32(&stopSync, 1)
		swg.Wait()
		gw.Delete(host)
		if len(bad) > 0 {
			r.Inconclusive("C06 e2e exchange failed for a reason unrelated to flow control: " + bad[0])
			return
		}
		sort.Slice(evs, func(a, b int) bool { return evs[a].tc < evs[b].tc })
		var adm []ev
		for _, e := range evs {
			if e.ok {
				adm = append(adm, e)
			}
		}
		r.Eval(1)
		r.Count("e2e_scenarios", 1)
		r.Count("e2e_requests", len(evs))
		r.Count("e2e_forwarded", len(adm))
		r.Count("e2e_noop_updates", nNoop)
		r.Distinct(vkit.Hash64("e2e", fmt.Sprint(sc, qps, burst, clients, len(evs), len(adm))))
		excess, i0, j0, R := upperBound(adm, qps, burst)
		if excess > slack {
			T := float64(R-adm[i0].tc) / 1e9
			sig := "C06/e2e/over-admission/concurrent-clients"
			if clients == 1 {
				sig = "C06/e2e/over-admission/single-client"
			}
			r.Violation(sig,
				fmt.Sprintf("through the handler chain, token bucket qps=%d burst=%d: %d requests reached the upstream within %.6fs, bound %.3f (excess %.3f) while only no-op updates of the cluster were applied",
					qps, burst, j0-i0+1, T, float64(burst)+float64(qps)*T, excess),
				map[string]interface{}{"qps": qps, "burst": burst, "clients": clients, "window_s": T, "forwarded_in_window": j0 - i0 + 1, "noop_updates": nNoop})
		}
		if sc == 0 {
			r.Sample(map[string]interface{}{"kind": "e2e scenario", "qps": qps, "burst": burst, "clients": clients, "requests": len(evs), "forwarded": len(adm), "noop_updates": nNoop})
		}
	}
}
