package c06

import (
	"encoding/json"
	"fmt"
	"io"
	"net/http"
	"sort"
	"strings"
	"sync"
	"sync/atomic"
	"time"

	metav1 "k8s.io/apimachinery/pkg/apis/meta/v1"
	"k8s.io/apiserver/pkg/authentication/user"

	proxyv1alpha1 "github.com/kubewharf/kubegateway/pkg/apis/proxy/v1alpha1"

	"verifharness/bed"
	"verifharness/vkit"
)

// inflight wraps the whole chain: number of requests whose outermost handler has not returned yet. The stub log is only
// judged when it is zero (whatever a handler does after it answered the client has then happened).
type inflight struct {
	inner http.Handler
	n     int64
}

func (h *inflight) ServeHTTP(w http.ResponseWriter, r *http.Request) {
	atomic.AddInt64(&h.n, 1)
	defer atomic.AddInt64(&h.n, -1)
	h.inner.ServeHTTP(w, r)
}

type exch struct {
	id       string
	resource string
	tc, tr   int64
	status   int
	body     []byte
	header   http.Header
	err      error
	client   int
}

// endToEnd sends real HTTP requests through the real handler chain to a stub upstream under a token-bucket schema; half of
// them are on the `events` resource (the dispatcher's 429 has a variant for it). Judged per request id against the stub's
// log once the gateway is idle:
//   - a request is admitted iff the stub received it; the stub received it at most once;
//   - every request that was not forwarded is answered 429 with a Status body, and conversely every request answered 429
//     reached NO stub ("the rest are answered 429": refused means refused, the upstream must not see it);
//   - the requests the stub received obey burst + qps*T on the intervals (request sent, response received).
//
// No-op updates of the cluster object are applied meanwhile through the real controller.
func endToEnd(r *vkit.R) {
	n := r.N(6, 60)
	stub := bed.NewStub("c06")
	defer stub.Close()
	gw := bed.NewGateway(bed.GatewayOptions{})
	fl := &inflight{inner: gw.Handler}
	gw.Handler = fl
	gw.Start()
	defer gw.Close()
	tok := gw.Tokens.Add(&user.DefaultInfo{Name: "alice"})
	g := r.Rng.Fork("e2e")
	var idn int64
	for sc := 0; sc < n; sc++ {
		p := [][2]int32{{5, 3}, {20, 5}, {50, 10}, {100, 20}, {10, 10}}[sc%5]
		qps, burst := p[0], p[1]
		clients := g.PickInt([]int{1, 4, 8})
		host := fmt.Sprintf("c06e2e%d.test", sc)
		filler := int32(1)
		build := func() *proxyv1alpha1.UpstreamCluster {
			return bed.BuildCluster(bed.ClusterSpec{Name: host, Servers: []string{stub.URL},
				// two policies share the one schema: "admitted under it" counts both
				Policies: []proxyv1alpha1.DispatchPolicy{
					{Strategy: proxyv1alpha1.RoundRobin, FlowControlSchemaName: tbName, Rules: []proxyv1alpha1.DispatchPolicyRule{{Verbs: []string{"*"}, APIGroups: []string{"*"}, Resources: []string{"events"}}}},
					bed.CatchAllPolicy(nil, tbName)},
				Schemas: tbSpec(qps, burst, "", filler).Schemas})
		}
		obj := build()
		if sr := gw.Apply(obj); sr.Err != nil || sr.Panic != nil || sr.Requeue {
			r.Inconclusive(fmt.Sprintf("controller did not apply the C06 e2e cluster: %+v", sr))
			return
		}
		if !gw.WaitAllReady(obj, 10*time.Second) {
			r.Inconclusive("stub endpoint did not become ready within the 10s watchdog")
			return
		}
		var mu sync.Mutex
		var xs []exch
		var stopSync int32
		var swg sync.WaitGroup
		nNoop := 0
		swg.Add(1)
		go func() {
			defer swg.Done()
			for atomic.LoadInt32(&stopSync) == 0 {
				time.Sleep(2 * time.Millisecond)
				filler++
				gw.Apply(build()) // same token-bucket values, another schema changed
				nNoop++
			}
		}()
		for round := 0; round < 2; round++ {
			var wg sync.WaitGroup
			for c := 0; c < clients; c++ {
				wg.Add(1)
				go func(c int) {
					defer wg.Done()
					for k := 0; k < 24/clients+int(burst)/clients+2; k++ {
						num := atomic.AddInt64(&idn, 1)
						id := fmt.Sprintf("c06-%d", num)
						resource, method, query := "pods", "GET", ""
						var body io.Reader
						switch num % 6 {
						case 0, 2, 4:
							resource = "events"
						case 1:
							method, body = "POST", strings.NewReader(`{"kind":"Pod","apiVersion":"v1","metadata":{"name":"p"}}`)
						case 3:
							query = "?watch=true" // long-running for the generic filters
						}
						req := bed.NewRequest(method, host, "/api/v1/namespaces/default/"+resource+query, tok, id, body)
						if body != nil {
							req.Header.Set("Content-Type", "application/json")
						}
						resource = method + " " + resource + query
						tc := bed.Now()
						resp := gw.Do(req)
						tr := bed.Now()
						mu.Lock()
						xs = append(xs, exch{id: id, resource: resource, tc: tc, tr: tr, status: resp.Status, body: resp.Body, header: resp.Header, err: resp.Err, client: c})
						mu.Unlock()
					}
				}(c)
			}
			wg.Wait()
			time.Sleep(time.Duration(40+g.Intn(100)) * time.Millisecond)
		}
		atomic.StoreInt32(&stopSync, 1)
		swg.Wait()
		if !vkit.WaitFor(10*time.Second, func() bool { return atomic.LoadInt64(&fl.n) == 0 }) {
			r.Inconclusive("watchdog: the gateway's handlers did not all return")
			return
		}
		gw.Delete(host)

		// ---- judge against the stub's log ----
		var evs []ev
		for _, x := range xs {
			cnt := stub.CountID(x.id)
			forwarded := cnt > 0
			w := map[string]interface{}{"qps": qps, "burst": burst, "request": x.id, "resource": x.resource, "status": x.status, "body": string(x.body), "times_received_by_upstream": cnt}
			class := "other"
			if strings.Contains(x.resource, "events") {
				class = "events"
			}
			switch {
			case x.err != nil:
				r.Inconclusive("C06 e2e exchange failed for a reason unrelated to flow control: " + x.err.Error())
				return
			case cnt > 1:
				r.Violation("C06/e2e/forwarded-more-than-once", fmt.Sprintf("request %s (%s) was received %d times by the upstream", x.id, x.resource, cnt), w)
			case forwarded && x.status == 429:
				r.Violation("C06/e2e/answered-429-but-forwarded/resource="+class,
					fmt.Sprintf("token bucket qps=%d burst=%d: a request on resource %q was answered 429 and nevertheless forwarded to the upstream", qps, burst, x.resource), w)
			case forwarded && x.status != 200:
				r.Inconclusive(fmt.Sprintf("C06 e2e: forwarded request answered %d", x.status))
				return
			case !forwarded:
				var st metav1.Status
				if x.status != 429 || json.Unmarshal(x.body, &st) != nil || st.Kind != "Status" || st.Code != 429 {
					r.Violation("C06/e2e/refusal-not-429-status",
						fmt.Sprintf("a request that was not forwarded under token bucket qps=%d burst=%d was answered %d %.120q instead of a 429 Status", qps, burst, x.status, x.body), w)
				} else {
					r.Count("e2e_refusals_429", 1)
					if class == "events" {
						r.Count("e2e_refusals_429_on_events", 1)
					} else if strings.HasPrefix(x.resource, "POST") {
						r.Count("e2e_refusals_429_on_post", 1)
					} else if strings.Contains(x.resource, "watch") {
						r.Count("e2e_refusals_429_on_watch", 1)
					}
				}
			}
			evs = append(evs, ev{tc: x.tc, tr: x.tr, ok: forwarded, caller: x.client})
		}
		sort.Slice(evs, func(a, b int) bool { return evs[a].tc < evs[b].tc })
		var adm []ev
		for _, e := range evs {
			if e.ok {
				adm = append(adm, e)
			}
		}
		r.Eval(1)
		r.Count("e2e_scenarios", 1)
		r.Count("e2e_requests", len(evs))
		r.Count("e2e_forwarded", len(adm))
		r.Count("e2e_noop_updates", nNoop)
		r.Distinct(vkit.Hash64("e2e", fmt.Sprint(sc, qps, burst, clients, len(evs), len(adm))))
		excess, i0, j0, R := upperBound(adm, qps, burst)
		if excess > slack {
			T := float64(R-adm[i0].tc) / 1e9
			sig := "C06/e2e/over-admission/concurrent-clients"
			if clients == 1 {
				sig = "C06/e2e/over-admission/single-client"
			}
			r.Violation(sig,
				fmt.Sprintf("through the handler chain, token bucket qps=%d burst=%d: %d requests reached the upstream within %.6fs, bound %.3f (excess %.3f) while only no-op updates of the cluster were applied",
					qps, burst, j0-i0+1, T, float64(burst)+float64(qps)*T, excess),
				map[string]interface{}{"qps": qps, "burst": burst, "clients": clients, "window_s": T, "forwarded_in_window": j0 - i0 + 1, "noop_updates": nNoop})
		}
		if sc == 0 {
			r.Sample(map[string]interface{}{"kind": "e2e scenario", "qps": qps, "burst": burst, "clients": clients, "requests": len(evs), "forwarded": len(adm), "noop_updates": nNoop})
		}
	}
}
