package c06

import (
	"context"
	"fmt"
	"math"
	"sort"
	"strings"
	"sync"
	"sync/atomic"
	"time"

	"k8s.io/apimachinery/pkg/util/validation/field"

	proxyv1alpha1 "github.com/kubewharf/kubegateway/pkg/apis/proxy/v1alpha1"
	"github.com/kubewharf/kubegateway/pkg/apis/proxy/v1alpha1/validation"
	"github.com/kubewharf/kubegateway/pkg/flowcontrols"

	"verifharness/bed"
	"verifharness/vkit"
)

// Both functions below judge ONLY from timestamps taken around the TryAcquire calls (bed.Now before the call and after its
// return): sleeps and attempt counts shape the arrival pattern, they never enter a bound. CPU contention (other checks share
// the cores) can only make the measured windows / idle times longer, and the bounds are computed from the measured values.

// boundaryScenarios: boundary values of (qps, burst) - directed, both tiers, 1 and 4 callers.
// (3,0) and (1000000,1000) are refused by the admission validation (burst < qps) but accepted by the limiter; they are labelled
// as such in the witness. qps=0 is NOT driven: validation refuses it ("must bigger than 0") and with rate.Limit(0) the
// x/time/rate arithmetic divides by zero (observed: such a bucket admits everything) - a configuration that cannot be stored.
func boundaryScenarios(r *vkit.R) {
	type bc struct {
		q, b    int32
		valid   bool
		callers int
	}
	var list []bc
	for _, p := range []bc{{q: 1, b: 1, valid: true}, {q: 1, b: 1000, valid: true}, {q: 1000000, b: 1000000, valid: true}, {q: 1000000, b: 1000},
		{q: 3, b: 0}, {q: 16777215, b: 16777215, valid: true},
		// beyond 2^24 float32(qps) is not exact (16777217 -> 16777216, 16777219 -> 16777220, 2^31-1 -> 2^31); int32 / int limits
		{q: 16777217, b: 16777217, valid: true}, {q: 16777219, b: 100}, {q: 2147483647, b: 2147483647, valid: true}, {q: 2147483647, b: 1}, {q: 1, b: 2147483647, valid: true}} {
		for _, c := range []int{1, 4} {
			p.callers = c
			list = append(list, p)
		}
	}
	r.Parallel(len(list), 6, func(i int, _ *vkit.Rand) {
		s := list[i]
		ctx, cancel := context.WithCancel(context.Background())
		lim := flowcontrols.NewUpstreamLimiter(ctx, fmt.Sprintf("c06-boundary-%d", i), "", nil)
		defer func() {
			lim.Sync(proxyv1alpha1.FlowControl{})
			cancel()
		}()
		lim.Sync(tbSpec(s.q, s.b, "", 1))
		var mu sync.Mutex
		var evs []ev
		attempt := func(caller int) bool {
			tc := bed.Now()
			fc := lim.GetOrDefault(tbName)
			ok := fc.TryAcquire()
			tr := bed.Now()
			if ok {
				fc.Release()
			}
			mu.Lock()
			evs = append(evs, ev{tc: tc, tr: tr, ok: ok, caller: caller})
			mu.Unlock()
			return ok
		}
		// phase 1: hammer (upper bound). Large buckets are not drained here: the bound is still checked on what was admitted.
		per := 1200 / s.callers
		var wg sync.WaitGroup
		for c := 0; c < s.callers; c++ {
			wg.Add(1)
			go func(c int) {
				defer wg.Done()
				for k := 0; k < per; k++ {
					if !attempt(c) {
						time.Sleep(20 * time.Microsecond)
					}
				}
			}(c)
		}
		wg.Wait()
		refusedSeen := false
		for _, e := range evs {
			if !e.ok {
				refusedSeen = true
			}
		}
		// phase 2: idle, then an immediate burst (lower bound)
		prevEnd := int64(0)
		for _, e := range evs {
			if e.tr > prevEnd {
				prevEnd = e.tr
			}
		}
		time.Sleep(15 * time.Millisecond)
		from := len(evs)
		nAtt := 60
		got := 0
		for k := 0; k < nAtt; k++ {
			if attempt(0) {
				got++
			}
		}
		t := float64(evs[from].tc-prevEnd) / 1e9
		want := math.Min(math.Floor(float64(s.q)*t-slack), math.Min(float64(s.b), float64(nAtt)))
		if want < 0 {
			want = 0
		}
		w := map[string]interface{}{"qps": s.q, "burst": s.b, "accepted_by_admission_validation": s.valid, "callers": s.callers}
		var adm []ev
		for _, e := range evs {
			if e.ok {
				adm = append(adm, e)
			}
		}
		sort.Slice(adm, func(a, b int) bool { return adm[a].tc < adm[b].tc })
		if excess, i0, j0, R := upperBound(adm, s.q, s.b); excess > slack {
			T := float64(R-adm[i0].tc) / 1e9
			w["admitted_in_window"], w["window_s"] = j0-i0+1, T
			r.Violation(fmt.Sprintf("C06/limiter/over-admission/boundary-values/qps=%d,burst=%d", s.q, s.b),
				fmt.Sprintf("token bucket qps=%d burst=%d admitted %d requests within %.6fs, bound %.3f (%d callers)", s.q, s.b, j0-i0+1, T, float64(s.b)+float64(s.q)*T, s.callers), w)
		}
		if float64(got) < want {
			w["idle_s_at_least"], w["admitted"], w["required"] = t, got, want
			r.Violation(fmt.Sprintf("C06/limiter/stricter-than-configured/boundary-values/qps=%d,burst=%d", s.q, s.b),
				fmt.Sprintf("token bucket qps=%d burst=%d: after at least %.6fs without any attempt only %d of %d immediate attempts were admitted, required %.0f", s.q, s.b, t, got, nAtt, want), w)
		}
		r.Eval(1)
		if s.q > 1<<24 || s.b > 1<<24 {
			r.Count("boundary_value_scenarios_beyond_2^24", 1)
		}
		r.Count("boundary_value_scenarios", 1)
		if refusedSeen {
			r.Count("boundary_value_scenarios_with_refusals", 1)
		}
		if want >= 1 {
			r.Count("boundary_value_lower_bound_requiring>=1", 1)
		}
		r.Distinct(vkit.Hash64("boundary", fmt.Sprintf("%+v", s)))
	})
}

// siblingHammered: two token-bucket schemas of ONE cluster (names that nearly collide, odd names, and a plain pair) with the
// same values. While the sibling is hammered continuously by two goroutines, the schema under test is drained to an observed
// refusal, left idle and then hit by an immediate burst: its own bucket must have refilled (lower bound), and each schema
// obeys its own upper bound - "admitted under it" is per schema. A shared bucket makes the idle schema stricter than
// configured; separate-but-confused buckets show in the upper bound.
func siblingHammered(r *vkit.R) {
	names := []struct{ name, class string }{
		{"TB", "case"}, {"tb ", "trailing-space"}, {"tb/x:%41", "odd-characters"}, {strings.Repeat("t", 300), "300-chars"}, {"other-bucket", "plain"},
	}
	r.Parallel(len(names)*2, 5, func(i int, _ *vkit.Rand) {
		nn := names[i%len(names)]
		q, b := int32(2000), int32(40)
		if i >= len(names) {
			q, b = 500, 500
		}
		ctx, cancel := context.WithCancel(context.Background())
		lim := flowcontrols.NewUpstreamLimiter(ctx, fmt.Sprintf("c06-sibling-%d", i), "", nil)
		defer func() {
			lim.Sync(proxyv1alpha1.FlowControl{})
			cancel()
		}()
		sp := tbSpec(q, b, "", 1)
		sib := sp.Schemas[0]
		sib.Name = nn.name
		sp.Schemas = append(sp.Schemas, sib)
		if i%2 == 1 {
			sp.Schemas[0], sp.Schemas[2] = sp.Schemas[2], sp.Schemas[0]
		}
		lim.Sync(sp)
		logs := make([][]ev, 3)
		attempt := func(slot int, schema string) bool {
			tc := bed.Now()
			fc := lim.GetOrDefault(schema)
			ok := fc.TryAcquire()
			tr := bed.Now()
			if ok {
				fc.Release()
			}
			logs[slot] = append(logs[slot], ev{tc: tc, tr: tr, ok: ok, caller: slot})
			return ok
		}
		var stop int32
		var hwg sync.WaitGroup
		for h := 1; h <= 2; h++ {
			hwg.Add(1)
			go func(h int) {
				defer hwg.Done()
				for atomic.LoadInt32(&stop) == 0 {
					if !attempt(h, nn.name) {
						time.Sleep(10 * time.Microsecond)
					}
				}
			}(h)
		}
		checks, nontrivial := 0, 0
		for round := 0; round < 3; round++ {
			refused := false
			for k := 0; k < int(b)+2000; k++ {
				if !attempt(0, tbName) {
					refused = true
					break
				}
			}
			prevEnd := logs[0][len(logs[0])-1].tr
			time.Sleep(time.Duration(10+10*round) * time.Millisecond)
			from := len(logs[0])
			nAtt := int(b) + 5
			got := 0
			for k := 0; k < nAtt; k++ {
				if attempt(0, tbName) {
					got++
				}
			}
			t := float64(logs[0][from].tc-prevEnd) / 1e9
			want := math.Min(math.Floor(float64(q)*t-slack), math.Min(float64(b), float64(nAtt)))
			checks++
			if refused && want >= 1 {
				nontrivial++
			}
			if float64(got) < want {
				r.Violation("C06/limiter/stricter-than-configured/sibling-schema-hammered/name="+nn.class,
					fmt.Sprintf("token-bucket schemas %q and %.40q (both qps=%d burst=%d) of one cluster: while the second was hammered, the first was idle for at least %.6fs and then admitted only %d of %d immediate attempts, required %.0f",
						tbName, nn.name, q, b, t, got, nAtt, want),
					map[string]interface{}{"names": []string{tbName, nn.name}, "qps": q, "burst": b, "idle_s_at_least": t, "admitted": got, "required": want})
			}
		}
		atomic.StoreInt32(&stop, 1)
		hwg.Wait()
		for slot, which := range []string{"idle-schema", "hammered-schema"} {
			var adm []ev
			ls := logs[0]
			if slot == 1 {
				ls = append(append([]ev(nil), logs[1]...), logs[2]...)
			}
			for _, e := range ls {
				if e.ok {
					adm = append(adm, e)
				}
			}
			sort.Slice(adm, func(a, c int) bool { return adm[a].tc < adm[c].tc })
			if excess, i0, j0, R := upperBound(adm, q, b); excess > slack {
				T := float64(R-adm[i0].tc) / 1e9
				r.Violation("C06/limiter/over-admission/sibling-schemas/"+which+"/name="+nn.class,
					fmt.Sprintf("token-bucket schemas %q and %.40q (both qps=%d burst=%d) of one cluster: the %s admitted %d requests within %.6fs, bound %.3f", tbName, nn.name, q, b, which, j0-i0+1, T, float64(b)+float64(q)*T),
					map[string]interface{}{"names": []string{tbName, nn.name}, "qps": q, "burst": b, "window_s": T, "admitted_in_window": j0 - i0 + 1})
			}
		}
		r.Eval(1)
		r.Count("sibling_hammered_scenarios", 1)
		r.Count("sibling_hammered_lower_bound_checks", checks)
		r.Count("sibling_hammered_lower_bound_checks_after_refusal_requiring>=1", nontrivial)
		r.Count("sibling_hammered_attempts_on_sibling", len(logs[1])+len(logs[2]))
		r.Distinct(vkit.Hash64("sibling", nn.class, fmt.Sprint(q, b)))
	})
}

// refusedByValidation observes (does not assume) that the value classes this check leaves out cannot be stored: the
// UpstreamCluster validation refuses qps <= 0, negative burst and burst < qps... only the first two are left out here.
func refusedByValidation(r *vkit.R) {
	for _, p := range [][2]int32{{0, 3}, {-5, -1}, {-5, 3}, {5, -1}, {-2147483648, -1}} {
		fc := &proxyv1alpha1.FlowControl{Schemas: tbSpec(p[0], p[1], "", 1).Schemas}
		if _, errs := validation.ValidateFlowControl(fc, field.NewPath("spec")); len(errs) > 0 {
			r.Count("out_of_range_pairs_refused_by_validation", 1)
		} else {
			r.Count("out_of_range_pairs_ACCEPTED_by_validation", 1)
			r.Set("out_of_range_pair_accepted_example", fmt.Sprintf("qps=%d burst=%d", p[0], p[1]))
		}
	}
}

// longWindow: one bucket observed for a long stretch (quick ~5 s, thorough ~150 s) at low CPU cost: a single caller attempts
// every 1-40 ms with occasional idle periods of 0.3-1.5 s; no-op syncs meanwhile. The same one-pass upper bound covers every
// window up to the whole stretch; every idle period is followed by a lower-bound check. Runs beside the other parts.
func longWindow(r *vkit.R) {
	total := 5 * time.Second
	if !r.Quick() {
		total = 150 * time.Second
	}
	g := r.Rng.Fork("long")
	q, b := int32(40), int32(8)
	ctx, cancel := context.WithCancel(context.Background())
	lim := flowcontrols.NewUpstreamLimiter(ctx, "c06-long", "", nil)
	defer func() {
		lim.Sync(proxyv1alpha1.FlowControl{})
		cancel()
	}()
	lim.Sync(tbSpec(q, b, "", 1))
	var evs []ev
	attempt := func() bool {
		tc := bed.Now()
		fc := lim.GetOrDefault(tbName)
		ok := fc.TryAcquire()
		tr := bed.Now()
		if ok {
			fc.Release()
		}
		evs = append(evs, ev{tc: tc, tr: tr, ok: ok})
		return ok
	}
	start := bed.Now()
	filler := int32(1)
	lbChecks := 0
	for iter := 0; bed.Now()-start < int64(total); iter++ { // the length of the observation, not a verdict
		if iter%50 == 1 || g.Chance(0.01) {
			// drain, idle, burst
			refused := false
			for k := 0; k < int(b)+50; k++ {
				if !attempt() {
					refused = true
					break
				}
			}
			prevEnd := evs[len(evs)-1].tr
			time.Sleep(time.Duration(300+g.Intn(1200)) * time.Millisecond)
			from := len(evs)
			got := 0
			for k := 0; k < int(b)+3; k++ {
				if attempt() {
					got++
				}
			}
			t := float64(evs[from].tc-prevEnd) / 1e9
			want := math.Min(math.Floor(float64(q)*t-slack), float64(b))
			if refused {
				lbChecks++
			}
			if float64(got) < want {
				r.Violation("C06/limiter/stricter-than-configured/long-window",
					fmt.Sprintf("token bucket qps=%d burst=%d, %.1fs into a long run: after at least %.6fs idle only %d immediate attempts were admitted, required %.0f", q, b, float64(evs[from].tc-start)/1e9, t, got, want),
					map[string]interface{}{"qps": q, "burst": b, "idle_s_at_least": t, "admitted": got, "required": want})
			}
			continue
		}
		attempt()
		if g.Chance(0.1) {
			filler++
			lim.Sync(tbSpec(q, b, "", filler)) // no-op for the bucket
		}
		time.Sleep(time.Duration(1+g.Intn(40)) * time.Millisecond)
	}
	var adm []ev
	for _, e := range evs {
		if e.ok {
			adm = append(adm, e)
		}
	}
	span := float64(bed.Now()-start) / 1e9
	if excess, i0, j0, R := upperBound(adm, q, b); excess > slack {
		T := float64(R-adm[i0].tc) / 1e9
		r.Violation("C06/limiter/over-admission/long-window",
			fmt.Sprintf("token bucket qps=%d burst=%d observed for %.1fs: %d requests admitted within a window of %.3fs, bound %.3f", q, b, span, j0-i0+1, T, float64(b)+float64(q)*T),
			map[string]interface{}{"qps": q, "burst": b, "window_s": T, "admitted_in_window": j0 - i0 + 1})
	}
	r.Eval(1)
	r.Set("long_window_seconds", span)
	r.Count("long_window_attempts", len(evs))
	r.Count("long_window_admissions", len(adm))
	r.Count("long_window_lower_bound_checks_after_refusal", lbChecks)
}
