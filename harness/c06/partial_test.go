package c06

import (
	"fmt"
	"math"
	"sort"
	"time"

	metav1 "k8s.io/apimachinery/pkg/apis/meta/v1"
	"k8s.io/apiserver/pkg/authentication/user"
	"k8s.io/apiserver/pkg/authorization/authorizer"

	proxyv1alpha1 "github.com/kubewharf/kubegateway/pkg/apis/proxy/v1alpha1"
	"github.com/kubewharf/kubegateway/pkg/clusters"
	"github.com/kubewharf/kubegateway/pkg/flowcontrols/flowcontrol"

	"verifharness/bed"
	"verifharness/vkit"
)

// A reconfiguration of the token bucket delivered in an object whose OTHER part cannot be applied (serving key pair that
// does not load, client CA that does not parse, an endpoint whose URL cannot be used). The configured schema is the latest
// object's: once the Sync that delivered it has returned (with an error), the bucket must obey the NEW (qps, burst) -
// not more than burst'+qps'*T (shown when the limit is lowered), not stricter (shown when it is raised after the old
// bucket was drained to an observed refusal). The limiter is reached like the dispatcher does
// (ClusterInfo.MatchAttributes(...).FlowControl() per attempt), through
//   - a bare ClusterInfo (NewEmptyClusterInfo + Sync): secure-serving faults,
//   - the real controller (bed.NewGateway + Apply = lister update + sync handler): secure-serving and endpoint faults.
// A delivery whose faulty part did NOT make Sync fail is not a case (counted as moot).

type partialTarget struct {
	via   string
	apply func(o *proxyv1alpha1.UpstreamCluster) error // error (or panic) of the sync that delivered o
	get   func() flowcontrol.FlowControl
	close func()
}

// "cluster-delete-recreate" is not a fault: the object is deleted and created again under the same name with other values
// (controller only); nothing of the old bucket may survive in either direction.
var faults = []string{"serving-keypair-garbage", "client-ca-garbage", "endpoint-unusable", "cluster-delete-recreate"}

func applyFault(o *proxyv1alpha1.UpstreamCluster, fault string) {
	switch fault {
	case "serving-keypair-garbage":
		o.Spec.SecureServing.CertData = []byte("garbage")
		o.Spec.SecureServing.KeyData = []byte("garbage")
	case "client-ca-garbage":
		o.Spec.SecureServing.ClientCAData = []byte("garbage")
	case "endpoint-unusable":
		o.Spec.Servers = append(o.Spec.Servers, proxyv1alpha1.UpstreamClusterServer{Endpoint: "http://[::1"})
	}
}

func partialSyncScenarios(r *vkit.R) {
	stub := bed.NewStub("c06p")
	defer stub.Close()
	gw := bed.NewGateway(bed.GatewayOptions{})
	defer gw.Close()
	attrs := &authorizer.AttributesRecord{User: &user.DefaultInfo{Name: "u"}, Verb: "get", Resource: "pods", ResourceRequest: true}

	type kase struct {
		fault     string
		raise     bool
		viaCtrl   bool
		low, high [2]int32
	}
	var list []kase
	for _, f := range faults {
		for _, raise := range []bool{false, true} {
			for _, ctrl := range []bool{false, true} {
				if (f == "endpoint-unusable" || f == "cluster-delete-recreate") && !ctrl {
					continue // a bare ClusterInfo built without a rest config skips the endpoint step
				}
				for _, p := range [][2][2]int32{{{2, 2}, {1000, 1000}}, {{5, 3}, {2000, 2000}}} {
					list = append(list, kase{fault: f, raise: raise, viaCtrl: ctrl, low: p[0], high: p[1]})
				}
			}
		}
	}
	r.Parallel(len(list), 6, func(i int, _ *vkit.Rand) {
		k := list[i]
		name := fmt.Sprintf("c06partial%d.test", i)
		base := func(qps, burst int32) *proxyv1alpha1.UpstreamCluster {
			o := bed.BuildCluster(bed.ClusterSpec{Name: name, Servers: []string{stub.URL},
				Policies: []proxyv1alpha1.DispatchPolicy{bed.CatchAllPolicy(nil, tbName)}, Schemas: tbSpec(qps, burst, "", 1).Schemas})
			return o
		}
		var tg partialTarget
		if k.viaCtrl {
			tg = partialTarget{via: "controller (lister update + sync handler)",
				apply: func(o *proxyv1alpha1.UpstreamCluster) error {
					sr := gw.Apply(o)
					if sr.Panic != nil {
						return fmt.Errorf("panic: %v", sr.Panic)
					}
					if sr.Err == nil && sr.Requeue {
						// the controller logs the error of ClusterInfo.Sync and asks for a requeue
						return fmt.Errorf("sync handler asked for a requeue: a step of the sync failed")
					}
					return sr.Err
				},
				get: func() flowcontrol.FlowControl {
					ci, ok := gw.Cluster(name)
					if !ok {
						return nil
					}
					p, err := ci.MatchAttributes(attrs)
					if err != nil {
						return nil
					}
					return p.FlowControl()
				},
				close: func() { gw.Delete(name) }}
		} else {
			ci := clusters.NewEmptyClusterInfo(name, nil, nil, "", nil)
			tg = partialTarget{via: "ClusterInfo.Sync",
				apply: func(o *proxyv1alpha1.UpstreamCluster) (err error) {
					defer func() {
						if p := recover(); p != nil {
							err = fmt.Errorf("panic: %v", p)
						}
					}()
					return ci.Sync(o)
				},
				get: func() flowcontrol.FlowControl {
					p, err := ci.MatchAttributes(attrs)
					if err != nil {
						return nil
					}
					return p.FlowControl()
				},
				close: func() {
					_ = ci.Sync(&proxyv1alpha1.UpstreamCluster{ObjectMeta: metav1.ObjectMeta{Name: name}})
					ci.Stop()
				}}
		}
		defer tg.close()
		old, nw := k.high, k.low
		if k.raise {
			old, nw = k.low, k.high
		}
		var trace []string
		if err := tg.apply(base(old[0], old[1])); err != nil {
			r.Inconclusive(fmt.Sprintf("partial-sync setup: the clean object was not applied (%s): %v", tg.via, err))
			return
		}
		trace = append(trace, fmt.Sprintf("clean object applied: token bucket qps=%d burst=%d", old[0], old[1]))
		var evs []ev
		attempt := func() (bool, bool) {
			tc := bed.Now()
			fc := tg.get()
			if fc == nil {
				return false, false
			}
			ok := fc.TryAcquire()
			tr := bed.Now()
			if ok {
				fc.Release()
			}
			evs = append(evs, ev{tc: tc, tr: tr, ok: ok})
			return ok, true
		}
		if k.raise {
			// the old (low) bucket is throttling: drain to an observed refusal
			refused := false
			for n := 0; n < int(old[1])+20; n++ {
				ok, alive := attempt()
				if !alive {
					r.Inconclusive("partial-sync: no limiter reachable for the cluster")
					return
				}
				if !ok {
					refused = true
					break
				}
			}
			if !refused {
				r.Count("partial_sync_moot(no_refusal_before)", 1)
				return
			}
			trace = append(trace, "old bucket drained until a refusal was observed")
		}
		o := base(nw[0], nw[1])
		applyFault(o, k.fault)
		recreate := k.fault == "cluster-delete-recreate"
		if recreate {
			gw.Delete(name)
		}
		err := tg.apply(o)
		syncDone := bed.Now()
		if recreate {
			if err != nil {
				r.Inconclusive(fmt.Sprintf("re-creating the cluster failed: %v", err))
				return
			}
			err = fmt.Errorf("(none: the object was deleted and created again)")
			r.Count("recreate_cases", 1)
		}
		if err == nil {
			// the other part was accepted: an ordinary reconfiguration, covered elsewhere
			r.Count("partial_sync_moot(fault_did_not_fail_the_sync)_"+k.fault, 1)
			return
		}
		trace = append(trace, fmt.Sprintf("object with token bucket qps=%d burst=%d and fault %s delivered: sync returned error %.80q", nw[0], nw[1], k.fault, err.Error()))
		r.Eval(1)
		r.Count("partial_sync_cases", 1)
		r.Count("partial_sync_cases_"+k.fault, 1)
		r.Distinct(vkit.Hash64("partial", fmt.Sprintf("%+v", k)))
		w := func(extra map[string]interface{}) map[string]interface{} {
			m := map[string]interface{}{"via": tg.via, "fault": k.fault, "old": old, "new": nw, "trace": trace}
			for kk, v := range extra {
				m[kk] = v
			}
			return m
		}
		if !k.raise {
			// lowered: everything that starts after the sync returned is bounded by the new values
			from := len(evs)
			for n := 0; n < 200; n++ {
				if _, alive := attempt(); !alive {
					r.Inconclusive("partial-sync: no limiter reachable after the failed sync")
					return
				}
			}
			var adm []ev
			for _, e := range evs[from:] {
				if e.ok && e.tc >= syncDone {
					adm = append(adm, e)
				}
			}
			sort.Slice(adm, func(a, b int) bool { return adm[a].tc < adm[b].tc })
			if excess, i0, j0, R := upperBound(adm, nw[0], nw[1]); excess > slack {
				T := float64(R-adm[i0].tc) / 1e9
				r.Violation("C06/partial-sync/over-admission/fault="+k.fault,
					fmt.Sprintf("the latest object configures token bucket qps=%d burst=%d (its %s part failed to apply, the sync returned an error); after that sync returned %d requests were admitted within %.6fs, bound %.3f (previous configuration qps=%d burst=%d)",
						nw[0], nw[1], k.fault, j0-i0+1, T, float64(nw[1])+float64(nw[0])*T, old[0], old[1]),
					w(map[string]interface{}{"admitted_in_window": j0 - i0 + 1, "window_s": T}))
			}
			return
		}
		// raised: idle, then an immediate burst
		idleFrom := syncDone
		if last := evs[len(evs)-1].tr; last > idleFrom {
			idleFrom = last
		}
		time.Sleep(20 * time.Millisecond)
		from := len(evs)
		nAtt := int(float64(nw[0])*0.02)*2 + 8
		got := 0
		for n := 0; n < nAtt; n++ {
			ok, alive := attempt()
			if !alive {
				r.Inconclusive("partial-sync: no limiter reachable after the failed sync")
				return
			}
			if ok {
				got++
			}
		}
		t := float64(evs[from].tc-idleFrom) / 1e9
		want := math.Min(math.Floor(float64(nw[0])*t-slack), math.Min(float64(nw[1]), float64(nAtt)))
		trace = append(trace, fmt.Sprintf("idle >= %.6fs, then %d immediate attempts: %d admitted", t, nAtt, got))
		if float64(got) < want {
			r.Violation("C06/partial-sync/stricter-than-configured/fault="+k.fault,
				fmt.Sprintf("the latest object configures token bucket qps=%d burst=%d (its %s part failed to apply, the sync returned an error); after at least %.6fs without any attempt only %d of %d immediate attempts were admitted, min(burst, floor(qps*t)) = %.0f (previous configuration qps=%d burst=%d, drained)",
					nw[0], nw[1], k.fault, t, got, nAtt, want, old[0], old[1]),
				w(map[string]interface{}{"idle_s_at_least": t, "attempts": nAtt, "admitted": got, "required": want}))
		}
		if i == 0 {
			r.Sample(map[string]interface{}{"kind": "partial sync", "case": fmt.Sprintf("%+v", k), "trace": trace})
		}
	})
}
