package c06

import (
	"testing"

	"verifharness/vkit"
)

func TestCheck(t *testing.T) {
	vkit.Run(t, "C06", "exploration", func(r *vkit.R) {
		r.Rule("(qps,burst) in {(50,50),(200,200),(1000,1000),(100,300),(2000,5000),(50,1),(1000,50),(5000,500),(20000,1),(20000,100)} x callers {1,2,4,8,16,32} x arrival pattern {saturate, bursts with pauses, ramp} " +
			"against the real limiter (NewUpstreamLimiter + Sync + GetOrDefault(name).TryAcquire per request), no-op syncs (identical spec / other schema changed / Strategy field of the same schema changed) every 0.2-2 ms, " +
			"real (qps,burst) changes in some runs (they split the run into stretches; events straddling one are dropped). Every TryAcquire is logged as (t_call, t_return, result) on one monotonic clock. " +
			"Upper bound: every window [t_call(i), max t_return(<=j)] over admissions i<=j of a stretch (one pass, running minimum). Lower bound: drain to a refusal, idle, immediate burst; idle time measured from the last return to the first call. " +
			"Directed scenarios (both tiers): low-qps schema (1,2,5 qps) driven to an observed refusal -> no-op sync (must not refill) -> real change to (500|2000 qps) -> idle 20|50 ms -> immediate burst by 1|4 callers must admit min(burst', floor(qps'*t)), t counted from the later of Sync's return / last attempt's return. " +
			"A sample runs through the real handler chain (HTTP, stub upstream): same upper bound on (request sent, response received) intervals and every non-forwarded request must be a 429 Status. " +
			"Non-trivial = the run saw refusals and more than burst admissions; distinct = hash of the case and its counts.")
		r.Assume("the harness clock (time.Since, monotonic) and the bucket's clock (time.Now, monotonic reading) advance at the same rate")
		r.Assume("slack 1e-6 tokens covers float64 rounding inside the bucket; qps values are integers < 2^24 so the float32 conversion in NewTokenBucketRateLimiter is exact")
		reconfigScenarios(r)
		limiterRuns(r)
		endToEnd(r)
		r.Require(r.Counter("admissions_judged") >= 5000 && r.Counter("refusals_in_stretches") >= 5000, "too few token-bucket events")
		r.Require(r.Counter("noop_syncs") >= 500, "too few no-op syncs interleaved")
		r.Require(r.Counter("lower_bound_checks_after_observed_refusal_requiring>=1") >= 50, "too few non-trivial lower-bound checks")
		r.Require(r.Counter("reconf_scenarios_requiring>=1") >= 20, "too few reconfiguration-after-refusal scenarios completed")
		r.Require(r.Counter("e2e_refusals_429") >= 20 && r.Counter("e2e_forwarded") >= 10, "too few end-to-end events")
	})
}
