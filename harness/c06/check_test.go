package c06

import (
	"testing"

	"verifharness/vkit"
)

func TestCheck(t *testing.T) {
	vkit.Run(t, "C06", "exploration", func(r *vkit.R) {
		r.Rule("(qps,burst) in {(50,50),(200,200),(1000,1000),(100,300),(2000,5000),(50,1),(1000,50),(5000,500),(20000,1),(20000,100)} x callers {1,2,4,8,16,32} x arrival pattern {saturate, bursts with pauses, ramp} " +
			"against the real limiter (NewUpstreamLimiter + Sync + GetOrDefault(name).TryAcquire per request), no-op syncs (identical spec / other schema changed / Strategy field of the same schema changed) every 0.2-2 ms, " +
			"real (qps,burst) changes in some runs (they split the run into stretches; events straddling one are dropped). Every TryAcquire is logged as (t_call, t_return, result) on one monotonic clock. " +
			"Upper bound: every window [t_call(i), max t_return(<=j)] over admissions i<=j of a stretch (one pass, running minimum). Lower bound: drain to a refusal, idle, immediate burst; idle time measured from the last return to the first call. " +
			"Directed scenarios (both tiers): low-qps schema (1,2,5 qps) driven to an observed refusal -> no-op sync (must not refill) -> real change to (500|2000 qps) -> idle 20|50 ms -> immediate burst by 1|4 callers must admit min(burst', floor(qps'*t)), t counted from the later of Sync's return / last attempt's return. " +
			"Directed single-field changes (both tiers): burst only / qps only / both, lowered (upper bound on everything that starts after Sync returned, callers keep attempting >= 10 ms) and raised (drain to refusal, idle, immediate burst must admit min(burst', floor(qps'*t)) which exceeds the old burst), 1 and 4 callers. " +
			"Partial syncs (both tiers): the (qps,burst) change is delivered in an object whose serving key pair / client CA / endpoint list cannot be applied, to a bare ClusterInfo and through the real controller; once that Sync returned an error the bucket must obey the new values (upper bound when lowered, lower bound after drain+idle when raised). " +
			"A sample runs through the real handler chain (HTTP, stub upstream): half of the requests on the events resource; judged by request id against the stub log once the gateway is idle: same upper bound on (request sent, response received) intervals of what the stub received, every non-forwarded request must be a 429 Status and every request answered 429 must have reached no stub. " +
			"Non-trivial = the run saw refusals and more than burst admissions; distinct = hash of the case and its counts.")
		r.Assume("the harness clock (time.Since, monotonic) and the bucket's clock (time.Now, monotonic reading) advance at the same rate")
		r.Assume("slack 1e-6 tokens covers float64 rounding inside the bucket; qps values are integers < 2^24 so the float32 conversion in NewTokenBucketRateLimiter is exact")
		longDone := make(chan struct{})
		go func() { defer close(longDone); longWindow(r) }()
		refusedByValidation(r)
		smallIdleScenarios(r)
		concurrentNeverStricter(r)
		boundaryScenarios(r)
		siblingHammered(r)
		reconfigScenarios(r)
		singleFieldScenarios(r)
		partialSyncScenarios(r)
		limiterRuns(r)
		endToEnd(r)
		<-longDone
		r.Require(r.Counter("admissions_judged") >= 5000 && r.Counter("refusals_in_stretches") >= 5000, "too few token-bucket events")
		r.Require(r.Counter("noop_syncs") >= 500, "too few no-op syncs interleaved")
		r.Require(r.Counter("lower_bound_checks_after_observed_refusal_requiring>=1") >= 50, "too few non-trivial lower-bound checks")
		r.Require(r.Counter("reconf_scenarios_requiring>=1") >= 20, "too few reconfiguration-after-refusal scenarios completed")
		r.Require(r.Counter("single_field_scenarios") >= 16 && r.Counter("single_field_raise_requiring_more_than_old_burst") >= 4, "too few single-field reconfiguration scenarios")
		r.Require(r.Counter("boundary_value_scenarios") >= 12 && r.Counter("boundary_value_scenarios_with_refusals") >= 4 && r.Counter("boundary_value_lower_bound_requiring>=1") >= 4, "too few boundary-value scenarios")
		r.Require(r.Counter("sibling_hammered_scenarios") >= 10 && r.Counter("sibling_hammered_lower_bound_checks_after_refusal_requiring>=1") >= 15 && r.Counter("sibling_hammered_attempts_on_sibling") >= 2000, "too few sibling-hammered checks")
		r.Require(r.Counter("recreate_cases") >= 4, "too few cluster delete/re-create cases")
		r.Require(r.Counter("noop_limiter_mode_flips(local<->remote_without_client_sets)") >= 100, "too few limiter-mode flips")
		r.Require(r.Quick() || (r.Counter("real_reconfigurations_delete_readd_same_values") >= 50 && r.Counter("real_reconfigurations_type_toggle_same_values") >= 50), "too few compound reconfigurations")
		r.Require(r.Counter("e2e_refusals_429_on_post") >= 3 && r.Counter("e2e_refusals_429_on_watch") >= 3, "too few refusals on POST / watch requests end to end")
		r.Require(r.Counter("out_of_range_pairs_ACCEPTED_by_validation") == 0 && r.Counter("out_of_range_pairs_refused_by_validation") >= 5, "validation accepts a (qps, burst) pair this check leaves out as unstorable (see out_of_range_pair_accepted_example): drive it")
		r.Require(r.Counter("boundary_value_scenarios_beyond_2^24") >= 8, "too few boundary scenarios beyond 2^24")
		r.Require(r.Counter("long_window_admissions") >= 40 && r.Counter("long_window_lower_bound_checks_after_refusal") >= 1, "the long-window observation saw too little")
		r.Require(r.Counter("never_stricter_concurrent_batches") >= 200, "the concurrent never-stricter batches did not all run") // count-based: 200 / 1000 batches always run
		r.Require(r.Counter("small_idle_scenarios") >= 30 && r.Counter("small_idle_scenarios_requiring>=1") >= 24 && r.Counter("small_idle_scenarios_reconfigured-then-idle") >= 10 && r.Counter("small_idle_scenarios_reconfigured-drained-idle") >= 10, "too few small-idle lower-bound scenarios")
		r.Require(r.Counter("partial_sync_cases") >= 12, "too few partial-sync cases in which the faulty part really failed the sync")
		r.Require(r.Counter("e2e_refusals_429") >= 20 && r.Counter("e2e_forwarded") >= 10, "too few end-to-end events")
		r.Require(r.Counter("e2e_refusals_429_on_events") >= 10, "too few refusals on the events resource end to end")
	})
}
