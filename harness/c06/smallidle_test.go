package c06

import (
	"context"
	"fmt"
	"math"
	"time"

	proxyv1alpha1 "github.com/kubewharf/kubegateway/pkg/apis/proxy/v1alpha1"
	"github.com/kubewharf/kubegateway/pkg/flowcontrols"

	"verifharness/bed"
	"verifharness/vkit"
)

// smallIdleScenarios: the "never stricter than set" clause near its thresholds. One caller; the bucket is drained to an
// observed refusal (so it holds less than one token), then left idle for a time aimed slightly above k/qps for
// k = 1, 2, burst, and hit by burst+3 immediate attempts: at least min(burst, floor(qps*t)) must be admitted, with t MEASURED
// from the refusal's return to the first call of the burst (the aimed time only chooses where the measurement lands).
// Three states of the bucket: as first configured / right after a real reconfiguration with NO attempt in between (idle
// counted from the Sync's return) / reconfigured, drained again and then idle.
func smallIdleScenarios(r *vkit.R) {
	type sc struct {
		q, b  int32
		k     int // aimed tokens
		state string
	}
	var list []sc
	for _, p := range [][2]int32{{100, 5}, {1000, 10}, {20, 3}, {5000, 50}} {
		for _, k := range []int{1, 2, int(p[1])} {
			for _, st := range []string{"fresh", "reconfigured-then-idle", "reconfigured-drained-idle"} {
				list = append(list, sc{q: p[0], b: p[1], k: k, state: st})
			}
		}
	}
	r.Parallel(len(list), 8, func(i int, _ *vkit.Rand) {
		s := list[i]
		ctx, cancel := context.WithCancel(context.Background())
		lim := flowcontrols.NewUpstreamLimiter(ctx, fmt.Sprintf("c06-smallidle-%d", i), "", nil)
		defer func() {
			lim.Sync(proxyv1alpha1.FlowControl{})
			cancel()
		}()
		var evs []ev
		attempt := func() bool {
			tc := bed.Now()
			fc := lim.GetOrDefault(tbName)
			ok := fc.TryAcquire()
			tr := bed.Now()
			if ok {
				fc.Release()
			}
			evs = append(evs, ev{tc: tc, tr: tr, ok: ok})
			return ok
		}
		drain := func(b int32) bool {
			for n := 0; n < int(b)+200; n++ {
				if !attempt() {
					return true
				}
			}
			return false
		}
		var trace []string
		var idleFrom int64
		switch s.state {
		case "fresh":
			lim.Sync(tbSpec(s.q, s.b, "", 1))
			if !drain(s.b) {
				r.Count("small_idle_moot(no_refusal)", 1)
				return
			}
			idleFrom = evs[len(evs)-1].tr
			trace = append(trace, fmt.Sprintf("sync qps=%d burst=%d; drained to a refusal", s.q, s.b))
		default:
			// another configuration first, driven to throttling
			lim.Sync(tbSpec(7, 2, "", 1))
			if !drain(2) {
				r.Count("small_idle_moot(no_refusal)", 1)
				return
			}
			lim.Sync(tbSpec(s.q, s.b, "", 1))
			idleFrom = bed.Now()
			trace = append(trace, fmt.Sprintf("sync qps=7 burst=2; drained to a refusal; sync qps=%d burst=%d", s.q, s.b))
			if s.state == "reconfigured-drained-idle" {
				if !drain(s.b) {
					r.Count("small_idle_moot(no_refusal)", 1)
					return
				}
				idleFrom = evs[len(evs)-1].tr
				trace = append(trace, "new bucket drained to a refusal")
			}
		}
		aim := time.Duration(float64(s.k)/float64(s.q)*1e9)*time.Nanosecond + 150*time.Microsecond
		time.Sleep(aim)
		from := len(evs)
		nAtt := int(s.b) + 3
		got := 0
		for n := 0; n < nAtt; n++ {
			if attempt() {
				got++
			}
		}
		t := float64(evs[from].tc-idleFrom) / 1e9
		want := math.Min(math.Floor(float64(s.q)*t-slack), float64(s.b))
		if want < 0 {
			want = 0
		}
		trace = append(trace, fmt.Sprintf("idle >= %.6fs (aimed at %d token(s)), then %d immediate attempts: %d admitted", t, s.k, nAtt, got))
		r.Eval(1)
		r.Count("small_idle_scenarios", 1)
		r.Count("small_idle_scenarios_"+s.state, 1)
		if want >= 1 {
			r.Count("small_idle_scenarios_requiring>=1", 1)
		}
		if int(want) == s.k {
			r.Count("small_idle_scenarios_landing_exactly_on_the_aimed_threshold", 1)
		}
		r.Distinct(vkit.Hash64("smallidle", fmt.Sprintf("%+v", s)))
		if float64(got) < want {
			r.Violation("C06/limiter/stricter-than-configured/small-idle/state="+s.state,
				fmt.Sprintf("token bucket qps=%d burst=%d (%s): after at least %.6fs without any attempt only %d of %d immediate attempts were admitted, min(burst, floor(qps*t)) = %.0f", s.q, s.b, s.state, t, got, nAtt, want),
				map[string]interface{}{"qps": s.q, "burst": s.b, "state": s.state, "idle_s_at_least": t, "admitted": got, "required": want, "trace": trace})
		}
	})
}
