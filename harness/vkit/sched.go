package vkit

import (
	"expvar"
	"math/bits"
	"os"
	"runtime"
	"sync/atomic"
	"time"
)

// Schedule points. tools/schedinstr compiles instrumented copies of the anchored source files (through go build -overlay)
// in which verifPoint(id) is called before every statement; those calls reach Sched.Point through an expvar-published
// hook, so the harness has no compile-time dependency on the instrumentation being present.

type schedVar struct{}

func (schedVar) String() string { return "\"verif schedule hook\"" }
func (schedVar) Point(id int)   { Sched.Point(id) }

func init() { expvar.Publish("verifsched", schedVar{}) }

const pairBits = 1 << 22

// Scheduler perturbs the interleaving at schedule points and records what was exercised.
type Scheduler struct {
	enabled int32
	// probabilities in 1/65536 units
	pYield, pShort, pLong uint32
	ctr                   uint64
	hits                  uint64
	last                  uint32
	pointSeen             [1 << 14]uint32 // bitmap of point ids (up to 512k ids)
	pairs                 [pairBits / 32]uint32
}

// Sched is the process-wide scheduler.
var Sched = &Scheduler{}

// Instrumented reports whether the driver built this test with schedule-point instrumentation.
func Instrumented() bool { return os.Getenv("VERIF_SCHED_TABLE") != "" }

// Enable turns perturbation on with the given probabilities of yield / short sleep (1-50us) / long sleep (0.2-1ms).
func (s *Scheduler) Enable(seed uint64, yield, short, long float64) {
	atomic.StoreUint64(&s.ctr, seed*0x9E3779B97F4A7C15)
	atomic.StoreUint32(&s.pYield, uint32(yield*65536))
	atomic.StoreUint32(&s.pShort, uint32(short*65536))
	atomic.StoreUint32(&s.pLong, uint32(long*65536))
	atomic.StoreInt32(&s.enabled, 1)
}

func (s *Scheduler) Disable() { atomic.StoreInt32(&s.enabled, 0) }

func mix(z uint64) uint64 {
	z = (z ^ (z >> 30)) * 0xBF58476D1CE4E5B9
	z = (z ^ (z >> 27)) * 0x94D049BB133111EB
	return z ^ (z >> 31)
}

// Point is called by instrumented code.
func (s *Scheduler) Point(id int) {
	atomic.AddUint64(&s.hits, 1)
	uid := uint32(id)
	if w := uid >> 5; int(w) < len(s.pointSeen) {
		if atomic.LoadUint32(&s.pointSeen[w])&(1<<(uid&31)) == 0 {
			orU32(&s.pointSeen[w], 1<<(uid&31))
		}
	}
	prev := atomic.SwapUint32(&s.last, uid)
	h := uint32(mix(uint64(prev)<<32|uint64(uid))) % pairBits
	if atomic.LoadUint32(&s.pairs[h>>5])&(1<<(h&31)) == 0 {
		orU32(&s.pairs[h>>5], 1<<(h&31))
	}
	if atomic.LoadInt32(&s.enabled) == 0 {
		return
	}
	r := mix(atomic.AddUint64(&s.ctr, 0x9E3779B97F4A7C15))
	x := uint32(r & 0xffff)
	py, ps, pl := atomic.LoadUint32(&s.pYield), atomic.LoadUint32(&s.pShort), atomic.LoadUint32(&s.pLong)
	switch {
	case x < py:
		runtime.Gosched()
	case x < py+ps:
		time.Sleep(time.Duration(1+(r>>16)%50) * time.Microsecond)
	case x < py+ps+pl:
		time.Sleep(time.Duration(200+(r>>16)%800) * time.Microsecond)
	}
}

func orU32(p *uint32, v uint32) {
	for {
		o := atomic.LoadUint32(p)
		if o&v == v || atomic.CompareAndSwapUint32(p, o, o|v) {
			return
		}
	}
}

// Stats returns (point executions, distinct points executed, distinct adjacent point pairs observed).
func (s *Scheduler) Stats() (hits uint64, points int, pairs int) {
	hits = atomic.LoadUint64(&s.hits)
	for i := range s.pointSeen {
		points += bits.OnesCount32(atomic.LoadUint32(&s.pointSeen[i]))
	}
	for i := range s.pairs {
		pairs += bits.OnesCount32(atomic.LoadUint32(&s.pairs[i]))
	}
	return
}

// ReportSched writes the schedule-point statistics into the evidence and marks the run inconclusive when the driver
// instrumented the build but no point was ever executed.
func (r *R) ReportSched() {
	hits, points, pairs := Sched.Stats()
	r.Set("sched_point_executions", hits)
	r.Set("sched_distinct_points", points)
	r.Set("sched_distinct_adjacent_pairs", pairs)
	r.Set("sched_instrumented_build", Instrumented())
	if Instrumented() && hits == 0 {
		r.Inconclusive("schedule-point instrumentation was requested but no point was executed")
	}
}
