package vkit

// DistinctBatch records many distinct-case hashes under one lock acquisition (hot loops with millions of cases).
func (r *R) DistinctBatch(hs []uint64) {
	if len(hs) == 0 {
		return
	}
	r.mu.Lock()
	for _, h := range hs {
		if len(r.distinct) >= 5_000_000 {
			break
		}
		r.distinct[h] = struct{}{}
	}
	r.mu.Unlock()
}

// DistinctFull reports whether the distinct-case set has reached its cap (callers may then skip hashing).
func (r *R) DistinctFull() bool {
	r.mu.Lock()
	defer r.mu.Unlock()
	return len(r.distinct) >= 5_000_000
}

// Mix64 combines two hashes.
func Mix64(a, b uint64) uint64 { return mix(a ^ (b+0x9E3779B97F4A7C15)*0xD6E8FEB86659FD93) }
