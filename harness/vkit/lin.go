package vkit

import (
	"time"

	"github.com/anishathalye/porcupine"
)

// LinResult is the three-valued verdict of a linearizability check.
type LinResult int

const (
	LinOK LinResult = iota
	LinIllegal
	LinUnknown
)

// CheckLin checks a recorded history against a (possibly non-deterministic) model; Unknown = checker timed out = inconclusive.
func CheckLin(model porcupine.Model, ops []porcupine.Operation, timeout time.Duration) LinResult {
	res := porcupine.CheckOperationsTimeout(model, ops, timeout)
	switch res {
	case porcupine.Ok:
		return LinOK
	case porcupine.Illegal:
		return LinIllegal
	}
	return LinUnknown
}
