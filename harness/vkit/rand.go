package vkit

import (
	"hash/fnv"
	"math"
)

// Rand is a small deterministic PRNG (splitmix64). It is NOT safe for concurrent use; Fork it per goroutine.
type Rand struct{ s uint64 }

func NewRand(seed uint64) *Rand { return &Rand{s: seed*0x9E3779B97F4A7C15 + 0x1234567} }

func (r *Rand) Uint64() uint64 {
	r.s += 0x9E3779B97F4A7C15
	z := r.s
	z = (z ^ (z >> 30)) * 0xBF58476D1CE4E5B9
	z = (z ^ (z >> 27)) * 0x94D049BB133111EB
	return z ^ (z >> 31)
}

// Fork returns an independent stream determined by the parent's state and the label.
func (r *Rand) Fork(label string) *Rand {
	h := fnv.New64a()
	h.Write([]byte(label))
	return &Rand{s: r.Uint64() ^ h.Sum64()}
}

// Sub returns an independent stream determined only by (seed of r at creation is unknown) label and index — use for
// parallel workers: r.Sub must be called from one goroutine, the result used by another.
func (r *Rand) Sub(i int) *Rand { return &Rand{s: r.Uint64() ^ (uint64(i)+1)*0xD6E8FEB86659FD93} }

func (r *Rand) Intn(n int) int {
	if n <= 0 {
		return 0
	}
	return int(r.Uint64() % uint64(n))
}

// Range returns a value in [lo, hi].
func (r *Rand) Range(lo, hi int) int {
	if hi <= lo {
		return lo
	}
	return lo + r.Intn(hi-lo+1)
}

func (r *Rand) Int63() int64     { return int64(r.Uint64() >> 1) }
func (r *Rand) Bool() bool       { return r.Uint64()&1 == 1 }
func (r *Rand) Float() float64   { return float64(r.Uint64()>>11) / float64(1<<53) }
func (r *Rand) Chance(p float64) bool { return r.Float() < p }

func (r *Rand) Pick(ss []string) string {
	if len(ss) == 0 {
		return ""
	}
	return ss[r.Intn(len(ss))]
}

func (r *Rand) PickInt(xs []int) int { return xs[r.Intn(len(xs))] }

func (r *Rand) PickI32(xs []int32) int32 { return xs[r.Intn(len(xs))] }

// Perm returns a random permutation of [0,n).
func (r *Rand) Perm(n int) []int {
	p := make([]int, n)
	for i := range p {
		p[i] = i
	}
	for i := n - 1; i > 0; i-- {
		j := r.Intn(i + 1)
		p[i], p[j] = p[j], p[i]
	}
	return p
}

// Shuffle shuffles a string slice in place.
func (r *Rand) Shuffle(ss []string) {
	for i := len(ss) - 1; i > 0; i-- {
		j := r.Intn(i + 1)
		ss[i], ss[j] = ss[j], ss[i]
	}
}

// Exp returns an exponentially distributed value with the given mean.
func (r *Rand) Exp(mean float64) float64 {
	u := r.Float()
	if u <= 0 {
		u = 1e-12
	}
	return -mean * math.Log(u)
}

// Bytes returns n random bytes.
func (r *Rand) Bytes(n int) []byte {
	b := make([]byte, n)
	for i := 0; i < n; i += 8 {
		v := r.Uint64()
		for j := 0; j < 8 && i+j < n; j++ {
			b[i+j] = byte(v >> (8 * j))
		}
	}
	return b
}

// Hash64 hashes strings for distinct counting.
func Hash64(parts ...string) uint64 {
	h := fnv.New64a()
	for _, p := range parts {
		h.Write([]byte(p))
		h.Write([]byte{0})
	}
	return h.Sum64()
}
