// Package vkit is the shared runtime of the /verif checks: seeded PRNG, verdict bookkeeping (violation / known finding /
// inconclusive), replay files and the evidence writer (EVIDENCE.schema.json).
package vkit

import (
	"encoding/json"
	"flag"
	"fmt"
	"os"
	"path/filepath"
	"sort"
	"strconv"
	"strings"
	"sync"
	"sync/atomic"
	"testing"
	"time"

	"k8s.io/klog"
)

// Root is /verif (or VERIF_ROOT).
func Root() string {
	if v := os.Getenv("VERIF_ROOT"); v != "" {
		return v
	}
	return "/verif"
}

type finding struct {
	Property  string `json:"property"`
	Signature string `json:"signature"`
	Status    string `json:"status"` // known | fixed
	Commit    string `json:"commit,omitempty"`
	What      string `json:"what"`
	Witness   string `json:"witness,omitempty"`
}

type violation struct {
	Signature string      `json:"signature"`
	What      string      `json:"what"`
	Witness   interface{} `json:"witness"`
	Count     int         `json:"count"`
}

// R is one run of one check.
type R struct {
	T     *testing.T
	ID    string
	Tier  string
	Seed  int64
	Level string
	Rng   *Rand
	Start time.Time

	mu           sync.Mutex
	evals        int64
	distinct     map[uint64]struct{}
	samples      []interface{}
	maxSamples   int
	counters     map[string]int64
	extra        map[string]interface{}
	rule         string
	assumptions  []string
	viol         map[string]*violation
	violOrder    []string
	known        map[string]*finding // signature -> finding (status known)
	knownSeen    map[string]int
	inconclusive []string
	ReplayPath   string
}

var silenceOnce sync.Once

// SilenceKlog sends klog output to nowhere (the code under test logs heavily).
func SilenceKlog() {
	silenceOnce.Do(func() {
		fs := flag.NewFlagSet("klog", flag.ContinueOnError)
		klog.InitFlags(fs)
		_ = fs.Set("logtostderr", "false")
		_ = fs.Set("alsologtostderr", "false")
		_ = fs.Set("stderrthreshold", "FATAL")
		_ = fs.Set("v", "0")
		klog.SetOutput(devNull{})
	})
}

type devNull struct{}

func (devNull) Write(p []byte) (int, error) { return len(p), nil }

// Run executes one check body and writes the evidence file. level is the claimed level ("exploration", "fault_enumeration").
func Run(t *testing.T, id, level string, body func(r *R)) {
	SilenceKlog()
	tier := os.Getenv("VERIF_TIER")
	if tier != "thorough" {
		tier = "quick"
	}
	seed := int64(1)
	if s := os.Getenv("VERIF_SEED"); s != "" {
		if v, err := strconv.ParseInt(s, 10, 64); err == nil {
			seed = v
		}
	}
	r := &R{
		T: t, ID: id, Tier: tier, Seed: seed, Level: level,
		Rng:        NewRand(uint64(seed)),
		Start:      time.Now(),
		distinct:   map[uint64]struct{}{},
		maxSamples: 6,
		counters:   map[string]int64{},
		extra:      map[string]interface{}{},
		viol:       map[string]*violation{},
		known:      map[string]*finding{},
		knownSeen:  map[string]int{},
		ReplayPath: os.Getenv("VERIF_REPLAY"),
	}
	r.loadKnown()
	func() {
		defer func() {
			if p := recover(); p != nil {
				r.Inconclusive(fmt.Sprintf("harness panic: %v", p))
				panic(p)
			}
		}()
		body(r)
	}()
	r.finish()
}

func (r *R) loadKnown() {
	b, err := os.ReadFile(filepath.Join(Root(), "known_findings.json"))
	if err != nil {
		return
	}
	var f struct {
		Findings []finding `json:"findings"`
	}
	if err := json.Unmarshal(b, &f); err != nil {
		r.Inconclusive("known_findings.json does not parse: " + err.Error())
		return
	}
	for i := range f.Findings {
		fd := f.Findings[i]
		if fd.Property == r.ID && fd.Status == "known" {
			r.known[fd.Signature] = &fd
		}
	}
}

func (r *R) Quick() bool { return r.Tier == "quick" }

// N picks a tier-dependent count.
func (r *R) N(quick, thorough int) int {
	if r.Quick() {
		return quick
	}
	return thorough
}

// Eval counts n evaluated cases.
func (r *R) Eval(n int) { atomic.AddInt64(&r.evals, int64(n)) }

// Distinct records one distinct non-trivial case by hash.
func (r *R) Distinct(h uint64) {
	r.mu.Lock()
	if len(r.distinct) < 5_000_000 {
		r.distinct[h] = struct{}{}
	}
	r.mu.Unlock()
}

// Sample keeps up to a few written-out cases for the evidence file.
func (r *R) Sample(v interface{}) {
	r.mu.Lock()
	if len(r.samples) < r.maxSamples {
		r.samples = append(r.samples, v)
	}
	r.mu.Unlock()
}

func (r *R) WantSample() bool {
	r.mu.Lock()
	defer r.mu.Unlock()
	return len(r.samples) < r.maxSamples
}

// Count adds to a named counter that is written into coverage.
func (r *R) Count(key string, n int) {
	r.mu.Lock()
	r.counters[key] += int64(n)
	r.mu.Unlock()
}

func (r *R) Counter(key string) int64 {
	r.mu.Lock()
	defer r.mu.Unlock()
	return r.counters[key]
}

// Set stores an extra coverage key.
func (r *R) Set(key string, v interface{}) {
	r.mu.Lock()
	r.extra[key] = v
	r.mu.Unlock()
}

func (r *R) Rule(s string)   { r.rule = s }
func (r *R) Assume(s string) { r.assumptions = append(r.assumptions, s) }

// Violation records a refuting observation. signature classifies it (property + scenario class + minimal discriminating
// features), so that known findings can be matched exactly and different violations stay distinguishable.
func (r *R) Violation(signature, what string, witness interface{}) {
	r.mu.Lock()
	defer r.mu.Unlock()
	if kf, ok := r.known[signature]; ok {
		r.knownSeen[kf.Signature]++
		return
	}
	v, ok := r.viol[signature]
	if ok {
		v.Count++
		return
	}
	r.viol[signature] = &violation{Signature: signature, What: what, Witness: witness, Count: 1}
	r.violOrder = append(r.violOrder, signature)
}

// Violations returns the number of distinct unlisted violation signatures so far.
func (r *R) Violations() int {
	r.mu.Lock()
	defer r.mu.Unlock()
	return len(r.viol)
}

// Inconclusive marks the run as not decided (watchdog, too few events, checker timeout).
func (r *R) Inconclusive(reason string) {
	r.mu.Lock()
	r.inconclusive = append(r.inconclusive, reason)
	r.mu.Unlock()
}

// Require marks the run inconclusive unless cond holds (used for minimum observation counts).
func (r *R) Require(cond bool, reason string) {
	if !cond {
		r.Inconclusive(reason)
	}
}

func (r *R) finish() {
	wall := time.Since(r.Start).Seconds()
	r.mu.Lock()
	defer r.mu.Unlock()

	cov := map[string]interface{}{}
	for k, v := range r.extra {
		cov[k] = v
	}
	for k, v := range r.counters {
		cov[k] = v
	}
	cov["evaluations"] = r.evals
	cov["distinct_nontrivial"] = len(r.distinct)
	cov["rule"] = r.rule
	samples := r.samples
	if samples == nil {
		samples = []interface{}{}
	}
	cov["samples"] = samples
	if len(r.inconclusive) > 0 {
		cov["inconclusive"] = r.inconclusive
	}
	var ks []string
	for sig, n := range r.knownSeen {
		ks = append(ks, fmt.Sprintf("%s x%d", sig, n))
	}
	sort.Strings(ks)
	if len(ks) > 0 {
		cov["known_findings_observed"] = ks
	}
	ev := map[string]interface{}{
		"property_id": r.ID,
		"tier":        r.Tier,
		"seed":        r.Seed,
		"level":       r.Level,
		"coverage":    cov,
		"assumptions": r.assumptions,
		"wall_s":      wall,
		"violations":  len(r.viol),
	}
	if r.assumptions == nil {
		ev["assumptions"] = []string{}
	}
	evDir := filepath.Join(Root(), "evidence")
	_ = os.MkdirAll(evDir, 0o755)
	b, err := json.MarshalIndent(ev, "", " ")
	if err != nil {
		// a sample that cannot be marshalled must not lose the verdict
		cov["samples"] = []interface{}{fmt.Sprintf("%v", samples)}
		b, _ = json.MarshalIndent(ev, "", " ")
	}
	if os.Getenv("VERIF_NO_EVIDENCE") == "" {
		if err := os.WriteFile(filepath.Join(evDir, r.ID+".json"), b, 0o644); err != nil {
			fmt.Printf("INCONCLUSIVE property=%s reason=cannot write evidence: %v\n", r.ID, err)
			r.T.Fail()
		}
	}

	// known findings: one line per listed finding
	var sigs []string
	for sig := range r.known {
		sigs = append(sigs, sig)
	}
	sort.Strings(sigs)
	for _, sig := range sigs {
		kf := r.known[sig]
		fmt.Printf("KNOWN-FINDING: property=%s %s [%s] observed=%d\n", r.ID, kf.What, kf.Signature, r.knownSeen[sig])
	}

	if len(r.viol) > 0 {
		dir := filepath.Join(Root(), "replay", r.ID)
		_ = os.MkdirAll(dir, 0o755)
		for i, sig := range r.violOrder {
			if i >= 25 {
				fmt.Printf("... %d more violation signatures suppressed\n", len(r.violOrder)-i)
				break
			}
			v := r.viol[sig]
			name := sanitize(sig)
			if len(name) > 80 {
				name = name[:80] + fmt.Sprintf("-%x", Hash64(sig)&0xffff)
			}
			path := filepath.Join(dir, name+".json")
			wb, err := json.MarshalIndent(map[string]interface{}{
				"property": r.ID, "tier": r.Tier, "seed": r.Seed, "signature": v.Signature, "what": v.What,
				"count": v.Count, "witness": v.Witness,
			}, "", " ")
			if err != nil {
				wb = []byte(fmt.Sprintf("{\"property\":%q,\"tier\":%q,\"seed\":%d,\"signature\":%q,\"what\":%q,\"witness\":%q}",
					r.ID, r.Tier, r.Seed, v.Signature, v.What, fmt.Sprintf("%+v", v.Witness)))
			}
			_ = os.WriteFile(path, wb, 0o644)
			fmt.Printf("VIOLATION property=%s replay=%s\n", r.ID, path)
			fmt.Printf("  what: %s (x%d)\n", v.What, v.Count)
		}
		r.T.Fail()
		return
	}
	if len(r.inconclusive) > 0 {
		for _, reason := range r.inconclusive {
			fmt.Printf("INCONCLUSIVE property=%s reason=%s\n", r.ID, reason)
		}
		r.T.Fail()
		return
	}
	fmt.Printf("HELD property=%s tier=%s seed=%d evaluations=%d distinct_nontrivial=%d wall_s=%.1f\n",
		r.ID, r.Tier, r.Seed, r.evals, len(r.distinct), wall)
}

func sanitize(s string) string {
	var b strings.Builder
	for _, c := range s {
		switch {
		case c >= 'a' && c <= 'z', c >= 'A' && c <= 'Z', c >= '0' && c <= '9', c == '-', c == '_', c == '.':
			b.WriteRune(c)
		default:
			b.WriteByte('_')
		}
	}
	return b.String()
}

// Parallel runs fn(i, rng_i) for i in [0,n) on up to workers goroutines; each call gets its own deterministic PRNG
// (determined by the parent state and i, independent of scheduling).
func (r *R) Parallel(n, workers int, fn func(i int, rng *Rand)) {
	if workers < 1 {
		workers = 1
	}
	base := r.Rng.Uint64()
	var next int64 = -1
	var wg sync.WaitGroup
	for w := 0; w < workers; w++ {
		wg.Add(1)
		go func() {
			defer wg.Done()
			for {
				i := int(atomic.AddInt64(&next, 1))
				if i >= n {
					return
				}
				fn(i, &Rand{s: base ^ (uint64(i)+1)*0xD6E8FEB86659FD93})
			}
		}()
	}
	wg.Wait()
}

// Safely runs fn and returns the recovered panic value (nil if none) and the stack.
func Safely(fn func()) (p interface{}) {
	defer func() {
		if x := recover(); x != nil {
			p = x
		}
	}()
	fn()
	return nil
}

// WaitFor polls cond until it is true or the (generous) watchdog expires; returns false on expiry.
func WaitFor(d time.Duration, cond func() bool) bool {
	deadline := time.Now().Add(d)
	for {
		if cond() {
			return true
		}
		if time.Now().After(deadline) {
			return cond()
		}
		time.Sleep(200 * time.Microsecond)
	}
}
