// Package c12 checks that authentication / authorization answers never cross clusters (property C12).
//
// Instrument: every answer a (stub) cluster gives carries its provenance — the user name of a TokenReview is
// "<persona>@<cluster>", a rejection carries Status.Error "rejected by <cluster>", a SubjectAccessReview status carries
// Reason "by:<cluster>", a scripted outage is an error "outage at <cluster>". The production authenticator / authorizer
// pass these through unchanged, so for every result the monitor knows which cluster's answer was applied, and compares it
// with the cluster that owns the request's host at the time of the request. Answer tables are fixed during a scenario, so
// a cached answer of the right cluster is always indistinguishable from a fresh one (no TTL reasoning, no wall clock).
package c12

import (
	"context"
	"fmt"
	"runtime"
	"strings"
	"sync"
	"testing"
	"time"

	authenticationv1 "k8s.io/api/authentication/v1"
	authorizationv1 "k8s.io/api/authorization/v1"
	k8sruntime "k8s.io/apimachinery/pkg/runtime"
	"k8s.io/apiserver/pkg/authentication/authenticator"
	"k8s.io/apiserver/pkg/authentication/user"
	"k8s.io/apiserver/pkg/authorization/authorizer"
	"k8s.io/client-go/kubernetes"
	"k8s.io/client-go/kubernetes/fake"
	k8stesting "k8s.io/client-go/testing"

	"github.com/kubewharf/kubegateway/pkg/clusters"
	tokenwebhook "github.com/kubewharf/kubegateway/pkg/gateway/authentication/token/webhook"
	sarwebhook "github.com/kubewharf/kubegateway/pkg/gateway/authorization/webhook"
	"github.com/kubewharf/kubegateway/pkg/gateway/endpoints/request"

	"verifharness/vkit"
)

// ---- scripted clusters ----

const (
	ansYes       = iota // authenticated / allowed
	ansNo               // not authenticated / denied
	ansNoOpinion        // SAR only: neither allowed nor denied
	ansOutage           // the review call fails
)

type review struct {
	Cluster  string // the cluster the answering endpoint belonged to when it received the review ("" = nobody's endpoint)
	Kind     string // token | sar
	Key      string
	Endpoint string
	EpReady  bool // that endpoint was a ready endpoint of that cluster at that moment
}

type scluster struct {
	name  string
	host  string
	info  *clusters.ClusterInfo
	ready bool // false = the whole cluster has no ready endpoint (whatever the endpoints' own flags say)
	rr    int
	salt  uint64
	log   *reviewLog
	gates *gateSet
}

type reviewLog struct {
	mu  sync.Mutex
	all []review
}

func (l *reviewLog) add(r review) {
	l.mu.Lock()
	l.all = append(l.all, r)
	l.mu.Unlock()
}

func (l *reviewLog) mark() int {
	l.mu.Lock()
	defer l.mu.Unlock()
	return len(l.all)
}

func (l *reviewLog) since(m int) []review {
	l.mu.Lock()
	defer l.mu.Unlock()
	return append([]review{}, l.all[m:]...)
}

// answer is the cluster's fixed table: a deterministic function of (cluster salt, kind, key).
func (c *scluster) answer(kind, key string) int {
	h := vkit.Hash64(fmt.Sprint(c.salt), kind, key) % 100
	if kind == "token" {
		switch {
		case h < 60:
			return ansYes
		case h < 88:
			return ansNo
		}
		return ansOutage
	}
	switch {
	case h < 45:
		return ansYes
	case h < 75:
		return ansNo
	case h < 88:
		return ansNoOpinion
	}
	return ansOutage
}

func sarKey(s *authorizationv1.SubjectAccessReviewSpec) string {
	k := s.User + "|" + strings.Join(s.Groups, ",")
	if s.ResourceAttributes != nil {
		a := s.ResourceAttributes
		k += fmt.Sprintf("|res|%s|%s|%s|%s|%s|%s", a.Verb, a.Group, a.Resource, a.Subresource, a.Namespace, a.Name)
	}
	if s.NonResourceAttributes != nil {
		k += fmt.Sprintf("|nonres|%s|%s", s.NonResourceAttributes.Verb, s.NonResourceAttributes.Path)
	}
	return k
}

// name is the identity that the cluster's answers carry (provenance); host is the cluster object's name, i.e. the host
// name it is reachable under. They differ only for a cluster that was deleted and created again under the same object
// name: a new incarnation (new ClusterInfo, new servers, new answers) behind the old host name.
func newSCluster(name, host string, salt uint64, log *reviewLog, gates *gateSet) *scluster {
	c := &scluster{name: name, host: host, ready: true, salt: salt, log: log, gates: gates}
	// a ClusterInfo of its own: Context() is what the production code ties its cache lifetime to
	c.info = clusters.NewEmptyClusterInfo(host, nil, nil, "", nil)
	return c
}

// sendpoint is one upstream API server. It belongs to one cluster at a time (or to nobody after it was removed), can be
// ready or not, and answers a review with the table of the cluster it belongs to when the review arrives - like a real
// server that was moved from one UpstreamCluster object to another.
type sendpoint struct {
	name  string
	cs    *fake.Clientset
	p     *provider
	owner *scluster // guarded by p.mu
	ready bool      // guarded by p.mu
}

func (e *sendpoint) state() (*scluster, bool) {
	e.p.mu.RLock()
	defer e.p.mu.RUnlock()
	return e.owner, e.owner != nil && e.ready && e.owner.ready
}

func newEndpoint(name string, p *provider, owner *scluster, log *reviewLog, gates *gateSet) *sendpoint {
	e := &sendpoint{name: name, p: p, owner: owner, ready: true, cs: fake.NewSimpleClientset()}
	e.cs.PrependReactor("create", "tokenreviews", func(action k8stesting.Action) (bool, k8sruntime.Object, error) {
		tr := action.(k8stesting.CreateAction).GetObject().(*authenticationv1.TokenReview).DeepCopy()
		c, epReady := e.state()
		if c == nil {
			log.add(review{Cluster: "", Kind: "token", Key: tr.Spec.Token, Endpoint: e.name})
			return true, nil, fmt.Errorf("this server belongs to no cluster")
		}
		name := c.name
		log.add(review{Cluster: name, Kind: "token", Key: tr.Spec.Token, Endpoint: e.name, EpReady: epReady})
		gates.hold("token", tr.Spec.Token, name)
		if err := gates.fault("token", tr.Spec.Token, name); err != nil {
			return true, nil, err
		}
		switch c.answer("token", tr.Spec.Token) {
		case ansYes:
			tr.Status = authenticationv1.TokenReviewStatus{Authenticated: true, User: authenticationv1.UserInfo{
				Username: "user-of-" + tr.Spec.Token + "@" + name, UID: "uid@" + name, Groups: []string{"grp@" + name}}}
		case ansNo:
			tr.Status = authenticationv1.TokenReviewStatus{Authenticated: false, Error: "rejected by " + name}
		default:
			return true, nil, fmt.Errorf("outage at %s", name)
		}
		return true, tr, nil
	})
	e.cs.PrependReactor("create", "subjectaccessreviews", func(action k8stesting.Action) (bool, k8sruntime.Object, error) {
		sar := action.(k8stesting.CreateAction).GetObject().(*authorizationv1.SubjectAccessReview).DeepCopy()
		key := sarKey(&sar.Spec)
		c, epReady := e.state()
		if c == nil {
			log.add(review{Cluster: "", Kind: "sar", Key: key, Endpoint: e.name})
			return true, nil, fmt.Errorf("this server belongs to no cluster")
		}
		name := c.name
		log.add(review{Cluster: name, Kind: "sar", Key: key, Endpoint: e.name, EpReady: epReady})
		gates.hold("sar", key, name)
		if err := gates.fault("sar", key, name); err != nil {
			return true, nil, err
		}
		switch c.answer("sar", key) {
		case ansYes:
			sar.Status = authorizationv1.SubjectAccessReviewStatus{Allowed: true, Reason: "by:" + name}
		case ansNo:
			sar.Status = authorizationv1.SubjectAccessReviewStatus{Denied: true, Reason: "by:" + name}
		case ansNoOpinion:
			sar.Status = authorizationv1.SubjectAccessReviewStatus{Reason: "by:" + name}
		default:
			return true, nil, fmt.Errorf("outage at %s", name)
		}
		return true, sar, nil
	})
	return e
}

// provider is the stub clusters.ClientProvider: the same contract as clusters.manager.ClientFor (unknown host: cluster
// not found; known cluster without a ready endpoint: the ClusterInfo and an error), plus host ownership that can change.
type provider struct {
	mu    sync.RWMutex
	hosts map[string]*scluster
	eps   []*sendpoint
}

// readyEndpointsLocked: the ready endpoints of c (what ClusterInfo.PickOne chooses from).
func (p *provider) readyEndpointsLocked(c *scluster) []*sendpoint {
	var out []*sendpoint
	if c == nil || !c.ready {
		return nil
	}
	for _, e := range p.eps {
		if e.owner == c && e.ready {
			out = append(out, e)
		}
	}
	return out
}

func (p *provider) usable(c *scluster) bool {
	p.mu.RLock()
	defer p.mu.RUnlock()
	return len(p.readyEndpointsLocked(c)) > 0
}

func (p *provider) ClientFor(name string) (*clusters.ClusterInfo, kubernetes.Interface, error) {
	p.mu.Lock()
	defer p.mu.Unlock()
	c := p.hosts[strings.ToLower(name)]
	if c == nil {
		return nil, nil, fmt.Errorf("cluster %q: %w", name, clusters.ErrClusterNotFound)
	}
	ready := p.readyEndpointsLocked(c)
	if len(ready) == 0 {
		return c.info, nil, clusters.ErrNoReadyEndpoints
	}
	c.rr++ // round robin over the ready endpoints, as PickOne does
	return c.info, ready[c.rr%len(ready)].cs, nil
}

func (p *provider) owner(host string) *scluster {
	p.mu.RLock()
	defer p.mu.RUnlock()
	return p.hosts[strings.ToLower(host)]
}

// ---- provenance ----

// provenanceOf extracts the answering cluster from any text the stub clusters produce ("" = no cluster's answer).
func provenanceOf(s string) string {
	for _, mark := range []string{"rejected by ", "outage at ", "by:", "@"} {
		if i := strings.LastIndex(s, mark); i >= 0 {
			rest := s[i+len(mark):]
			if j := strings.IndexAny(rest, " ,;:\"'"); j >= 0 {
				rest = rest[:j]
			}
			if strings.HasPrefix(rest, "cl") {
				return rest
			}
		}
	}
	return ""
}

// ---- scenario ----

type op struct {
	Kind    string `json:"op"` // authn | authz | move | ready | delete | assign
	Host    string `json:"host,omitempty"`
	Token   string `json:"token,omitempty"`
	User    string `json:"user,omitempty"`
	Attr    string `json:"attributes,omitempty"`
	Cluster string `json:"cluster,omitempty"` // move/assign target, ready/delete subject
	Ready   *bool  `json:"ready,omitempty"`
	Owner   string `json:"host_owner_at_request,omitempty"`
	Result  string `json:"result,omitempty"`
}

type scenario struct {
	r           *vkit.R
	idx         int
	g           *vkit.Rand
	p           *provider
	log         *reviewLog
	cls         []*scluster
	gone        map[string]bool
	authn       authenticator.Token
	authz       authorizer.Authorizer
	ttlN        [2]time.Duration
	ttlZ        [2]time.Duration
	ops         []op
	everOwn     map[string]map[string]bool // host -> clusters that ever owned it
	hostPool    []string
	panicked    bool
	gates       *gateSet
	deleted     []*scluster
	incarnation int
	retryFlip   bool
	sigCtx      string // appended to violation signatures while the overlap phase is judged
	caseN       int
	features    map[string]bool
}

var (
	tokens    = []string{"tok-a", "tok-b", "tok-c", "tok-d", "tok/with:odd%chars+=~", "tok-long-" + strings.Repeat("x", 4096)}
	sarUsers  = []string{"alice", "bob"}
	aliasPool = []string{"x.io", "y.io", "z.io", "w.io"}
	ttls      = [][2]time.Duration{{0, 0}, {10 * time.Second, 10 * time.Second}, {50 * time.Millisecond, 50 * time.Millisecond}, {10 * time.Second, 0}, {0, 10 * time.Second}, {time.Hour, time.Hour}}
)

type attrSpec struct {
	name string
	rec  authorizer.AttributesRecord
}

var attrSpecs = []attrSpec{
	{"get pods/p1 in ns1", authorizer.AttributesRecord{Verb: "get", Resource: "pods", Namespace: "ns1", Name: "p1", APIVersion: "v1", ResourceRequest: true}},
	{"delete deployments.apps/d in ns2", authorizer.AttributesRecord{Verb: "delete", APIGroup: "apps", APIVersion: "v1", Resource: "deployments", Namespace: "ns2", Name: "d", ResourceRequest: true}},
	{"impersonate users/admin", authorizer.AttributesRecord{Verb: "impersonate", Resource: "users", Name: "admin", APIVersion: "v1", ResourceRequest: true}},
	{"impersonate groups/system:masters", authorizer.AttributesRecord{Verb: "impersonate", Resource: "groups", Name: "system:masters", APIVersion: "v1", ResourceRequest: true}},
	{"get /metrics", authorizer.AttributesRecord{Verb: "get", Path: "/metrics", ResourceRequest: false}},
	// boundary values: names with ':' '/' '%' and upper case; attributes too long to be cached (shouldCache == false)
	{"impersonate users/<service account name with : / % and upper case>", authorizer.AttributesRecord{Verb: "impersonate", Resource: "users", Name: "system:serviceaccount:Kube-System:sa/with%2Fodd:chars", APIVersion: "v1", ResourceRequest: true}},
	{"get pods/<10 001 character name, not cacheable>", authorizer.AttributesRecord{Verb: "get", Resource: "pods", Namespace: "ns1", Name: strings.Repeat("n", 10001), APIVersion: "v1", ResourceRequest: true}},
}

const uncacheableAttr = 6

func newScenario(r *vkit.R, idx int, g *vkit.Rand) *scenario {
	s := &scenario{r: r, idx: idx, g: g, log: &reviewLog{}, gates: newGateSet(), gone: map[string]bool{}, everOwn: map[string]map[string]bool{}, features: map[string]bool{}}
	s.p = &provider{hosts: map[string]*scluster{}}
	k := g.Range(2, 4)
	for i := 0; i < k; i++ {
		c := newSCluster(fmt.Sprintf("cl%d", i), fmt.Sprintf("cl%d", i), g.Uint64(), s.log, s.gates)
		for j, ne := 0, g.Range(2, 3); j < ne; j++ {
			s.p.eps = append(s.p.eps, newEndpoint(fmt.Sprintf("%s-server%d", c.name, j), s.p, c, s.log, s.gates))
		}
		s.cls = append(s.cls, c)
		s.setOwner(c.name, c)
		s.hostPool = append(s.hostPool, c.name)
	}
	for _, a := range aliasPool {
		s.hostPool = append(s.hostPool, a)
		if g.Chance(0.7) {
			s.setOwner(a, s.cls[g.Intn(k)])
		}
	}
	s.hostPool = append(s.hostPool, "nobody.io")
	s.ttlN = ttls[g.Intn(len(ttls))]
	s.ttlZ = ttls[g.Intn(len(ttls))]
	s.authn = tokenwebhook.NewMultiClusterTokenReviewAuthenticator(s.p, s.ttlN[0], s.ttlN[1], nil)
	s.authz = sarwebhook.NewMultiClusterSubjectAccessReviewAuthorizer(s.p, s.ttlZ[0], s.ttlZ[1])
	return s
}

func (s *scenario) setOwner(host string, c *scluster) {
	s.p.mu.Lock()
	if c == nil {
		delete(s.p.hosts, host)
	} else {
		s.p.hosts[host] = c
	}
	s.p.mu.Unlock()
	if c != nil {
		if s.everOwn[host] == nil {
			s.everOwn[host] = map[string]bool{}
		}
		s.everOwn[host][c.name] = true
	}
}

func (s *scenario) close() {
	for _, c := range s.cls {
		c.info.Stop()
	}
}

func (s *scenario) liveClusters() []*scluster {
	var out []*scluster
	for _, c := range s.cls {
		if !s.gone[c.name] {
			out = append(out, c)
		}
	}
	return out
}

func ctxFor(host string) context.Context {
	return request.WithExtraRequestInfo(context.Background(), &request.ExtraRequestInfo{Hostname: host, IsProxyRequest: true})
}

func (s *scenario) witness(extra map[string]interface{}) map[string]interface{} {
	w := map[string]interface{}{"scenario": s.idx, "ops": s.ops,
		"token_cache_ttl_success_failure": []string{s.ttlN[0].String(), s.ttlN[1].String()},
		"sar_cache_ttl_allow_deny":        []string{s.ttlZ[0].String(), s.ttlZ[1].String()}}
	for k, v := range extra {
		w[k] = v
	}
	return w
}

// judge applies the provenance rules to one result. kind = authn|authz; positive = authenticated / allowed.
// provFromErr: the provenance was read from an error text only (an outage), which is no positive answer of anybody.
func (s *scenario) judge(kind string, o *op, owner *scluster, positive bool, prov string, provFromErr bool, reviews []review) {
	r := s.r
	ownerName := ""
	if owner != nil {
		ownerName = owner.name
	}
	// (1) every review caused by this request went to the cluster that owns the host
	for _, rv := range reviews {
		r.Count("reviews_observed", 1)
		if rv.Cluster != ownerName {
			r.Violation("C12/"+kind+"/review-sent-to-other-cluster"+s.sigCtx,
				fmt.Sprintf("request addressed to host %q (cluster %q) caused a %s review that was received by server %s, which belongs to cluster %q", o.Host, ownerName, rv.Kind, rv.Endpoint, orNone(rv.Cluster)), s.witness(nil))
			return
		}
		if !rv.EpReady {
			r.Violation("C12/"+kind+"/review-sent-to-endpoint-that-is-not-ready"+s.sigCtx,
				fmt.Sprintf("request addressed to host %q (cluster %q) caused a %s review that was received by server %s, which is not a ready endpoint of that cluster at that moment", o.Host, ownerName, rv.Kind, rv.Endpoint), s.witness(nil))
			return
		}
	}
	// (2) an applied answer of a cluster must be an answer of the host's own cluster
	if prov != "" && prov != ownerName {
		class := "answer-of-unrelated-cluster"
		if s.everOwn[o.Host][prov] {
			class = "stale-answer-after-host-changed-owner"
		}
		polarity := "negative"
		if positive {
			polarity = "positive"
		}
		r.Violation("C12/"+kind+"/"+class+s.sigCtx,
			fmt.Sprintf("%s request to host %q, which belongs to cluster %q at that moment, was decided by a %s answer of cluster %q (%s); %d review(s) were sent for it",
				kind, o.Host, orNone(ownerName), polarity, prov, o.Result, len(reviews)), s.witness(map[string]interface{}{"applied_answer_of": prov, "host_owner": ownerName}))
		return
	}
	// (3) a positive decision needs an answer of the own cluster
	if positive && (prov == "" || provFromErr) {
		why := "unknown-host"
		if provFromErr {
			why = "own-cluster-review-failed"
		} else if owner != nil && !s.p.usable(owner) {
			why = "no-ready-endpoint"
		} else if owner != nil {
			why = "own-cluster-gave-no-such-answer"
		}
		r.Violation("C12/"+kind+"/positive-without-answer-of-own-cluster/"+why,
			fmt.Sprintf("%s request to host %q (cluster %q) got a positive decision that no cluster gave (%s)", kind, o.Host, orNone(ownerName), o.Result), s.witness(nil))
		return
	}
	switch {
	case prov != "":
		r.Count(kind+"_decided_by_own_cluster", 1)
		if len(reviews) == 0 {
			r.Count(kind+"_served_from_cache", 1)
		}
	case owner == nil:
		r.Count(kind+"_refused_unknown_host", 1)
	case !s.p.usable(owner):
		r.Count(kind+"_refused_no_ready_endpoint", 1)
	default:
		// own cluster could be asked but the result carries nobody's answer: not a cross-cluster matter, only counted
		r.Count(kind+"_failed_without_answer", 1)
	}
}

func orNone(s string) string {
	if s == "" {
		return "<none>"
	}
	return s
}

func (s *scenario) doAuthn(host, token string) {
	o := op{Kind: "authn", Host: host, Token: token}
	owner := s.p.owner(host)
	if owner != nil {
		o.Owner = owner.name
	}
	m := s.log.mark()
	var resp *authenticator.Response
	var ok bool
	var err error
	if p := vkit.Safely(func() { resp, ok, err = s.authn.AuthenticateToken(ctxFor(host), token) }); p != nil {
		o.Result = fmt.Sprintf("panic: %v", p)
		s.ops = append(s.ops, o)
		s.panicked = true
		s.r.Violation("C12/authn/panic", fmt.Sprintf("AuthenticateToken panicked for host %q: %v", host, p), s.witness(nil))
		return
	}
	prov := ""
	switch {
	case ok && resp != nil && resp.User != nil:
		o.Result = "authenticated as " + resp.User.GetName()
		prov = provenanceOf(resp.User.GetName())
		if prov == "" {
			prov = "?" // a user nobody issued
		}
	case err != nil:
		o.Result = "error: " + err.Error()
		prov = provenanceOf(err.Error())
	default:
		o.Result = "not authenticated"
	}
	s.ops = append(s.ops, o)
	s.r.Count("authn_requests", 1)
	s.judge("authn", &s.ops[len(s.ops)-1], owner, ok, prov, !ok && err != nil, s.log.since(m))
	// sanity of the instrument: an answer of the own cluster must be the table's answer for this token
	if owner != nil && prov == owner.name {
		want := owner.answer("token", token)
		if (want == ansYes) != ok || (ok && resp.User.GetName() != "user-of-"+token+"@"+owner.name) {
			s.r.Count("own_cluster_answer_differs_from_table", 1)
		}
	}
}

func (s *scenario) doAuthz(host, userName string, ai int) {
	a := attrSpecs[ai]
	o := op{Kind: "authz", Host: host, User: userName, Attr: a.name}
	owner := s.p.owner(host)
	if owner != nil {
		o.Owner = owner.name
	}
	rec := a.rec
	rec.User = &user.DefaultInfo{Name: userName, Groups: []string{"system:authenticated"}}
	m := s.log.mark()
	var dec authorizer.Decision
	var reason string
	var err error
	if p := vkit.Safely(func() { dec, reason, err = s.authz.Authorize(ctxFor(host), &rec) }); p != nil {
		o.Result = fmt.Sprintf("panic: %v", p)
		s.ops = append(s.ops, o)
		s.panicked = true
		s.r.Violation("C12/authz/panic", fmt.Sprintf("Authorize panicked for host %q: %v", host, p), s.witness(nil))
		return
	}
	names := map[authorizer.Decision]string{authorizer.DecisionAllow: "allow", authorizer.DecisionDeny: "deny", authorizer.DecisionNoOpinion: "no-opinion"}
	o.Result = fmt.Sprintf("%s reason=%q", names[dec], reason)
	prov := provenanceOf(reason)
	provFromErr := false
	if err != nil {
		o.Result += " error: " + err.Error()
		if prov == "" {
			prov = provenanceOf(err.Error())
			provFromErr = prov != ""
		}
	}
	s.ops = append(s.ops, o)
	s.r.Count("authz_requests", 1)
	if strings.HasPrefix(a.name, "impersonate") {
		s.r.Count("authz_impersonation_requests", 1)
	}
	if ai == uncacheableAttr {
		s.r.Count("authz_requests_with_uncacheable_attributes", 1)
	}
	if ai == uncacheableAttr-1 {
		s.r.Count("authz_requests_with_odd_characters", 1)
	}
	// the generic authorization filter serves a request whenever the decision is Allow, even with an error
	s.judge("authz", &s.ops[len(s.ops)-1], owner, dec == authorizer.DecisionAllow, prov, provFromErr, s.log.since(m))
	if owner != nil && prov == owner.name && err == nil {
		sp := authorizationv1.SubjectAccessReviewSpec{User: userName, Groups: []string{"system:authenticated"}}
		if rec.ResourceRequest {
			sp.ResourceAttributes = &authorizationv1.ResourceAttributes{Verb: rec.Verb, Group: rec.APIGroup, Resource: rec.Resource, Subresource: rec.Subresource, Namespace: rec.Namespace, Name: rec.Name}
		} else {
			sp.NonResourceAttributes = &authorizationv1.NonResourceAttributes{Verb: rec.Verb, Path: rec.Path}
		}
		want := owner.answer("sar", sarKey(&sp))
		if (want == ansYes) != (dec == authorizer.DecisionAllow) {
			s.r.Count("own_cluster_answer_differs_from_table", 1)
		}
	}
}

// recent (host, credential) pairs are re-used so that caches are actually hit, on the same and on other hosts
type recent struct {
	host  string
	token string
	user  string
	attr  int
}

func (s *scenario) pickHost() string {
	// mostly hosts that currently belong to somebody
	if s.g.Chance(0.85) {
		s.p.mu.RLock()
		var owned []string
		for _, h := range s.hostPool {
			if s.p.hosts[h] != nil {
				owned = append(owned, h)
			}
		}
		s.p.mu.RUnlock()
		if len(owned) > 0 {
			return owned[s.g.Intn(len(owned))]
		}
	}
	return s.hostPool[s.g.Intn(len(s.hostPool))]
}

func (s *scenario) run(nops int) {
	g := s.g
	var rec []recent
	for i := 0; i < nops && !s.panicked; i++ {
		roll := g.Intn(100)
		if s.idx%6 == 0 && i == nops/2 {
			// one retried review per selected scenario (each costs the production 500 ms back-off)
			s.retryCase(false)
			continue
		}
		if s.idx%6 == 3 && i == nops/2 {
			s.retryCase(true)
			continue
		}
		if (s.idx%12 == 1 || s.idx%12 == 7) && i == nops/2 {
			// the same with a health flip instead of a move: the answering server becomes unready during the failing attempt
			s.retryFlip = true
			s.retryCase(s.idx%12 == 7)
			s.retryFlip = false
			continue
		}
		if len(s.deleted) > 0 && g.Chance(0.06) {
			// a deleted cluster is created again under the same object name: a new incarnation behind the old host name
			old := s.deleted[g.Intn(len(s.deleted))]
			if s.p.owner(old.host) == nil {
				s.incarnation++
				nc := newSCluster(fmt.Sprintf("%sr%d", old.host, s.incarnation), old.host, g.Uint64(), s.log, s.gates)
				for j := 0; j < 2; j++ {
					s.p.mu.Lock()
					s.p.eps = append(s.p.eps, newEndpoint(fmt.Sprintf("%s-server%d", nc.name, j), s.p, nc, s.log, s.gates))
					s.p.mu.Unlock()
				}
				s.cls = append(s.cls, nc)
				s.setOwner(old.host, nc)
				s.features["recreate-same-name"] = true
				s.r.Count("clusters_recreated_under_same_name", 1)
				s.ops = append(s.ops, op{Kind: "recreate", Host: old.host, Cluster: nc.name, Owner: old.name})
				// everything that was asked on this host name before is asked again, plus the standard credentials
				s.probeHost(old.host, rec)
				for _, t := range tokens[:4] {
					s.doAuthn(old.host, t)
				}
				for ai := range attrSpecs[:5] {
					s.doAuthz(old.host, sarUsers[0], ai)
				}
				continue
			}
		}
		if g.Chance(0.07) {
			s.endpointOp()
			continue
		}
		if g.Chance(0.08) {
			// concurrent phase: the same fresh credentials go to hosts of different clusters at the same time
			s.overlapCase(g.Bool())
			continue
		}
		switch {
		case roll < 40:
			host, tok := s.pickHost(), tokens[g.Intn(len(tokens))]
			if len(rec) > 0 {
				x := rec[g.Intn(len(rec))]
				switch k := g.Intn(10); {
				case k < 4 && x.token != "": // the same request again
					host, tok = x.host, x.token
				case k < 8 && x.token != "": // the same token on another host
					tok = x.token
				}
			}
			rec = append(rec, recent{host: host, token: tok})
			s.doAuthn(host, tok)
		case roll < 78:
			host, u, ai := s.pickHost(), sarUsers[g.Intn(len(sarUsers))], g.Intn(len(attrSpecs))
			if len(rec) > 0 {
				x := rec[g.Intn(len(rec))]
				switch k := g.Intn(10); {
				case k < 4 && x.user != "":
					host, u, ai = x.host, x.user, x.attr
				case k < 8 && x.user != "":
					u, ai = x.user, x.attr
				}
			}
			rec = append(rec, recent{host: host, user: u, attr: ai})
			s.doAuthz(host, u, ai)
		case roll < 88: // an alias moves to another live cluster (the previous owner stays alive)
			live := s.liveClusters()
			a := aliasPool[g.Intn(len(aliasPool))]
			cur := s.p.owner(a)
			if len(live) < 2 {
				continue
			}
			to := live[g.Intn(len(live))]
			if cur == to {
				continue
			}
			s.setOwner(a, to)
			if cur != nil {
				s.features["alias-move"] = true
				s.r.Count("alias_moves", 1)
				s.ops = append(s.ops, op{Kind: "move", Host: a, Cluster: to.name, Owner: cur.name})
				// the very credentials just used on this host are replayed right away (and later, by the random ops)
				s.probeHost(a, rec)
			} else {
				s.ops = append(s.ops, op{Kind: "assign", Host: a, Cluster: to.name})
			}
		case roll < 94: // readiness of a cluster flips (no ready endpoint <-> ready)
			live := s.liveClusters()
			if len(live) == 0 {
				continue
			}
			c := live[g.Intn(len(live))]
			s.p.mu.Lock()
			c.ready = !c.ready
			rd := c.ready
			s.p.mu.Unlock()
			s.features["readiness"] = true
			s.ops = append(s.ops, op{Kind: "ready", Cluster: c.name, Ready: &rd})
		case roll < 97: // an alias is dropped (host belongs to nobody)
			a := aliasPool[g.Intn(len(aliasPool))]
			if cur := s.p.owner(a); cur != nil {
				s.setOwner(a, nil)
				s.features["alias-dropped"] = true
				s.ops = append(s.ops, op{Kind: "unassign", Host: a, Owner: cur.name})
				s.probeHost(a, rec)
			}
		default: // a cluster is deleted: its hosts stop resolving, its context is cancelled
			live := s.liveClusters()
			if len(live) < 2 || i < nops/4 {
				continue
			}
			c := live[g.Intn(len(live))]
			s.p.mu.Lock()
			for h, o := range s.p.hosts {
				if o == c {
					delete(s.p.hosts, h)
				}
			}
			s.p.mu.Unlock()
			c.info.Stop()
			s.gone[c.name] = true
			s.deleted = append(s.deleted, c)
			s.features["cluster-delete"] = true
			s.r.Count("cluster_deletes", 1)
			s.ops = append(s.ops, op{Kind: "delete", Cluster: c.name})
		}
	}
}

// endpointOp: one upstream server becomes unready / ready, is removed from its cluster, or is given to another cluster
// (then it answers with that cluster's table). Afterwards fresh credentials (no cache entry can answer) are sent to the
// hosts of the clusters involved, so that new reviews have to be made.
func (s *scenario) endpointOp() {
	g := s.g
	s.p.mu.Lock()
	e := s.p.eps[g.Intn(len(s.p.eps))]
	from := e.owner
	live := s.liveClusters()
	var to *scluster
	what := ""
	switch k := g.Intn(10); {
	case from != nil && k < 3:
		e.ready = !e.ready
		what = fmt.Sprintf("ready=%v", e.ready)
	case from != nil && k < 5:
		e.owner = nil
		what = "removed from " + from.name
	case len(live) > 0:
		to = live[g.Intn(len(live))]
		if to == from {
			s.p.mu.Unlock()
			return
		}
		e.owner, e.ready = to, true
		what = "now a server of " + to.name
		if from != nil {
			what += " (was " + from.name + ")"
		}
	default:
		s.p.mu.Unlock()
		return
	}
	s.p.mu.Unlock()
	s.features["endpoint-change"] = true
	s.r.Count("endpoint_changes", 1)
	s.ops = append(s.ops, op{Kind: "endpoint", Host: e.name, Attr: what})
	for _, c := range []*scluster{from, to} {
		if c == nil || s.gone[c.name] {
			continue
		}
		n := 0
		for _, h := range s.hostPool {
			if s.p.owner(h) == c && n < 2 {
				n++
				s.caseN++
				s.doAuthn(h, fmt.Sprintf("tok-new-%d", s.caseN))
				s.doAuthz(h, fmt.Sprintf("erin-%d", s.caseN), g.Intn(len(attrSpecs)))
			}
		}
	}
}

// probeHost replays recently used credentials on a host whose ownership just changed.
func (s *scenario) probeHost(host string, rec []recent) {
	n := 0
	for i := len(rec) - 1; i >= 0 && n < 4 && !s.panicked; i-- {
		if rec[i].token != "" {
			s.doAuthn(host, rec[i].token)
		} else {
			s.doAuthz(host, rec[i].user, rec[i].attr)
		}
		n++
	}
}

func TestCheck(t *testing.T) {
	vkit.Run(t, "C12", "exploration", func(r *vkit.R) {
		r.Rule("quick tier: the production NewMultiClusterTokenReviewAuthenticator / NewMultiClusterSubjectAccessReviewAuthorizer over a stub ClientProvider " +
			"(2-4 clusters with fake clientsets whose tokenreview/subjectaccessreview reactors answer from a fixed per-cluster table: same token => a different user per cluster, " +
			"same SAR => allow/deny/no-opinion/outage per cluster). Seeded random sequences of 60 operations: AuthenticateToken / Authorize (incl. impersonate users/groups) for 4 tokens, " +
			"2 users x 5 attribute tuples on 7-9 hosts (cluster names, aliases, an unknown host), with re-use of recent credentials on other hosts; an alias moves to another live cluster " +
			"(followed by a replay of the recent credentials on it); every cluster has 2-3 upstream servers (one fake clientset each, ClientFor picks a ready one round-robin like PickOne): a server becomes unready / ready, " +
			"is removed, or is given to another cluster and then answers with that cluster's table (followed by fresh credentials on the hosts of the clusters involved); a cluster loses / regains all its ready endpoints; an alias is dropped; a cluster is deleted, and created again under the same name as a new incarnation (new ClusterInfo, servers and answers) followed by everything asked on that name before; " +
			"concurrent phase (about 5 per scenario): one fresh token, or one fresh user x attribute tuple, is sent to 2-4 hosts of pairwise different clusters at the same time - the stub review of the " +
			"first request is held at a barrier inside the reactor until the other requests have been issued (and have reached their own cluster's barrier or returned), so the overlap is " +
			"constructed, not hoped for; the credentials are then replayed sequentially on the same hosts; retry phase (one per 6th scenario): the first SubjectAccessReview of a fresh user x attribute tuple " +
			"(plain or impersonate) fails with a retriable API error (500 InternalError or 429 with Retry-After, what webhook.DefaultShouldRetry retries); the reactor signals the harness before it returns the error, " +
			"the harness moves the alias to another live cluster - or, in other cases, makes the answering server unready while another server of the cluster stays ready - then lets the error return, so the retry (after the production 500 ms back-off) happens after the change. Cache TTL pairs from " +
			"{0, 50ms, 10s, 1h} incl. asymmetric ones. Oracle: provenance monitor (see package comment) + every review caused by a request is received by the cluster owning the host. " +
			"Production wiring (8 worlds in quick, 60 in thorough): real controller = Manager = ClientProvider, authenticator/authorizer from the production config constructors, real handler chain, HTTP stub upstreams serving " +
			"TokenReview/SAR and recording the impersonated identity of forwarded requests; sequential and 4-client concurrent phases, alias moves, requests whose TLS connection state carries a server name " +
			"different from the Host header (another cluster's name / alias, unknown, empty), an alias move made while a request for that alias is inside the handler chain (just before its token is authenticated / its impersonation is authorized, or right after the authenticator / authorizer has returned and before dispatch; one-shot hooks at their positions, no timing), and after every alias move an outage of the new owner (its endpoint fails the health probes) with fresh credentials, then recovery. " +
			"Non-trivial = the scenario contains at least two hosts of different clusters asked with the same credentials; distinct = hash of the operation list.")
		r.Assume("a cached answer that the host's own cluster gave earlier may be applied while that cluster has no ready endpoint (the statement only forbids deciding from another cluster's answer)")
		r.Assume("Hostname in ExtraRequestInfo is lower-case without port, as the production ExtraRequestInfoFactory produces it")

		ns := r.N(3000, 40000)
		workers := runtime.GOMAXPROCS(0)
		if workers > 16 {
			workers = 16
		}
		var mu sync.Mutex
		feat := map[string]int{}
		r.Parallel(ns, workers, func(i int, g *vkit.Rand) {
			s := newScenario(r, i, g)
			defer s.close()
			s.run(60)
			r.Eval(1)
			r.Distinct(vkit.Hash64(fmt.Sprintf("%+v", s.ops)))
			mu.Lock()
			for f := range s.features {
				feat[f]++
			}
			mu.Unlock()
			if i < 2 {
				r.Sample(map[string]interface{}{"scenario": i, "ops": s.ops})
			}
		})
		r.Set("scenarios_by_feature", feat)
		wired(r)
		r.Require(r.Counter("authn_requests") > int64(ns*10) && r.Counter("authz_requests") > int64(ns*10), "too few requests")
		r.Require(r.Counter("authn_served_from_cache") > int64(ns) && r.Counter("authz_served_from_cache") > int64(ns), "caches were hardly ever hit")
		r.Require(r.Counter("alias_moves") > int64(ns), "too few alias moves")
		r.Require(r.Counter("authz_impersonation_requests") > int64(ns), "too few impersonation checks")
		r.Require(r.Counter("authn_refused_no_ready_endpoint")+r.Counter("authz_refused_no_ready_endpoint") > int64(ns/2), "too few requests to clusters without a ready endpoint")
		r.Require(r.Counter("overlap_pairs_authn") >= int64(ns/2) && r.Counter("overlap_pairs_authz") >= int64(ns/2) && r.Counter("overlap_pairs_authz_impersonation") >= int64(ns/10),
			"too few request pairs with the same credentials overlapped (review of the first in flight while the second was issued)")
		r.Require(r.Counter("clusters_recreated_under_same_name") >= int64(ns/10), "too few clusters deleted and created again under the same name")
		r.Require(r.Counter("authz_requests_with_uncacheable_attributes") >= int64(ns) && r.Counter("authz_requests_with_odd_characters") >= int64(ns), "too few requests with boundary attribute values")
		r.Require(r.Counter("retry_cases_endpoint_became_unready_authn") >= int64(ns/50) && r.Counter("retry_cases_endpoint_became_unready_authz") >= int64(ns/50), "too few reviews were retried after the answering server had become unready")
		r.Require(r.Counter("retry_cases_authn") >= int64(ns/12), "too few token reviews were retried after a retriable failure with the host moved in between")
		r.Require(r.Counter("retry_cases") >= int64(ns/12) && r.Counter("retry_cases_impersonation") >= int64(ns/60),
			"too few reviews were retried after a retriable failure with the host moved to another cluster in between")
		r.Require(r.Counter("endpoint_changes") >= int64(ns*2), "too few endpoint changes (unready / removed / moved to another cluster)")
		r.Require(r.Counter("gate_watchdog_expired") == 0, "a gated stub review was not released within the 20s watchdog")
		r.Require(r.Counter("own_cluster_answer_differs_from_table") == 0, "instrument broken: an answer attributed to the host's own cluster is not that cluster's table answer")
	})
}
