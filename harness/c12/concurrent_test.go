package c12

import (
	"fmt"
	"strings"
	"sync"
	"time"

	authorizationv1 "k8s.io/api/authorization/v1"
	apierrors "k8s.io/apimachinery/pkg/api/errors"
	"k8s.io/apiserver/pkg/authentication/authenticator"
	"k8s.io/apiserver/pkg/authentication/user"
	"k8s.io/apiserver/pkg/authorization/authorizer"

	"verifharness/vkit"
)

// gateSet lets the harness hold stub reviews for one (kind, key) at a barrier inside the reactor, so that "the review of
// request 1 is still in flight while request 2 is issued" is constructed instead of hoped for.
type gateSet struct {
	mu      sync.Mutex
	kind    string
	key     string
	release chan struct{}
	arrived chan string // cluster names, one per held review
	r       *vkit.R

	fKind, fKey string
	fErr        error
	fHit        chan string
	fProceed    chan struct{}
}

func newGateSet() *gateSet { return &gateSet{} }

func (g *gateSet) arm(kind, key string) (arrived chan string, release chan struct{}) {
	g.mu.Lock()
	defer g.mu.Unlock()
	g.kind, g.key = kind, key
	g.release = make(chan struct{})
	g.arrived = make(chan string, 64)
	return g.arrived, g.release
}

func (g *gateSet) disarm() {
	g.mu.Lock()
	g.kind, g.key, g.release, g.arrived = "", "", nil, nil
	g.mu.Unlock()
}

// hold is called by the stub reactors after the review has been logged.
func (g *gateSet) hold(kind, key, cluster string) {
	g.mu.Lock()
	rel, arr := g.release, g.arrived
	match := rel != nil && g.kind == kind && g.key == key
	g.mu.Unlock()
	if !match {
		return
	}
	select {
	case arr <- cluster:
	default:
	}
	select {
	case <-rel:
	case <-time.After(20 * time.Second):
		if g.r != nil {
			g.r.Count("gate_watchdog_expired", 1)
		}
	}
}

// fault: the next review for (kind, key) fails once with a retriable API error. The reactor is the synchronisation point:
// it tells the harness that the failing attempt is being answered and returns the error only after the harness has
// done what it wants to do "during the back-off" (move the host to another cluster).
func (g *gateSet) armFault(kind, key string, err error) (hit chan string, proceed chan struct{}) {
	g.mu.Lock()
	defer g.mu.Unlock()
	g.fKind, g.fKey, g.fErr = kind, key, err
	g.fHit = make(chan string, 1)
	g.fProceed = make(chan struct{})
	return g.fHit, g.fProceed
}

func (g *gateSet) fault(kind, key, cluster string) error {
	g.mu.Lock()
	if g.fErr == nil || g.fKind != kind || g.fKey != key {
		g.mu.Unlock()
		return nil
	}
	err, hit, proceed := g.fErr, g.fHit, g.fProceed
	g.fErr = nil // once
	g.mu.Unlock()
	hit <- cluster
	select {
	case <-proceed:
	case <-time.After(20 * time.Second):
		if g.r != nil {
			g.r.Count("gate_watchdog_expired", 1)
		}
	}
	return err
}

// retryCase: host x (an alias of cluster A) is asked with fresh credentials; A's first review fails with a retriable
// error; while that attempt is being answered the alias moves to cluster B; the retry follows after the back-off.
// The request was addressed to A (the cluster its host resolved to when it arrived): every review it causes must be
// received by A, and a positive decision must be A's. A denial or an error is always acceptable.
func (s *scenario) retryCase(authn bool) {
	g, r := s.g, s.r
	s.gates.r = r
	var x string
	var a, b *scluster
	s.p.mu.RLock()
	for _, i := range g.Perm(len(aliasPool)) {
		if c := s.p.hosts[aliasPool[i]]; c != nil && len(s.p.readyEndpointsLocked(c)) > 0 {
			x, a = aliasPool[i], c
			break
		}
	}
	s.p.mu.RUnlock()
	if a == nil {
		return
	}
	for _, c := range s.liveClusters() {
		if c != a && s.p.usable(c) {
			b = c
		}
	}
	if b == nil {
		return
	}
	s.caseN++
	userName, ai := fmt.Sprintf("dave-%d", s.caseN), g.Intn(len(attrSpecs))
	if g.Bool() {
		ai = 2 + g.Intn(2) // the impersonate tuples
	}
	var ferr error
	if g.Bool() {
		ferr = apierrors.NewInternalError(fmt.Errorf("transient failure"))
	} else {
		ferr = apierrors.NewTooManyRequests("slow down", 0)
	}
	kind, key, kindName := "sar", sarKeyFor(userName, ai), "authz"
	if authn {
		kind, key, kindName = "token", fmt.Sprintf("tok-retry-%d", s.caseN), "authn"
	}
	hit, proceed := s.gates.armFault(kind, key, ferr)
	s.ops = append(s.ops, op{Kind: "retry-begin", Host: x, Owner: a.name, Attr: fmt.Sprintf("first review of %s / %s at %s fails with %q; the alias moves to %s before the error is returned", userName, attrSpecs[ai].name, a.name, ferr.Error(), b.name)})
	m := s.log.mark()
	done := make(chan outcome, 1)
	go func() {
		if authn {
			done <- s.rawAuthn(x, key)
		} else {
			done <- s.rawAuthz(x, userName, ai)
		}
	}()
	var out outcome
	moved := false
	flippedEp := ""
	select {
	case <-hit:
		flipped := false
		if s.retryFlip {
			// instead of moving the host: the server that is answering the failing attempt stops being a ready endpoint of
			// the cluster (health flip during the review), another server of the cluster stays ready
			if rv := s.log.since(m); len(rv) > 0 {
				s.p.mu.Lock()
				var target *sendpoint
				others := 0
				for _, e := range s.p.eps {
					if e.owner == a && e.ready {
						if e.name == rv[len(rv)-1].Endpoint {
							target = e
						} else {
							others++
						}
					}
				}
				if target != nil && others > 0 {
					target.ready = false
					flipped = true
					flippedEp = target.name
				}
				s.p.mu.Unlock()
			}
		}
		if flipped {
			s.ops = append(s.ops, op{Kind: "endpoint", Host: flippedEp, Attr: "ready=false while it answers the failing attempt"})
		} else {
			s.setOwner(x, b)
			s.ops = append(s.ops, op{Kind: "move", Host: x, Cluster: b.name, Owner: a.name})
		}
		moved = true
		close(proceed)
		select {
		case out = <-done:
		case <-time.After(30 * time.Second):
			r.Inconclusive("a retried authorization did not return within the 30s watchdog")
			s.panicked = true
			return
		}
	case out = <-done:
		close(proceed)
	case <-time.After(20 * time.Second):
		r.Inconclusive("the request of a retry case neither reached its stub nor returned within the 20s watchdog")
		s.panicked = true
		return
	}
	s.ops = append(s.ops, out.o)
	r.Count(kindName+"_requests", 1)
	if !moved {
		r.Count("retry_cases_without_review", 1)
		return
	}
	reviews := s.log.since(m)
	ctxSig := "retry-after-host-moved"
	if flippedEp != "" {
		ctxSig = "retry-after-endpoint-unready"
	}
	// a case counts when its first attempt failed with the retriable error and the change was made before the error returned
	// (whether a second review is sent at all is the implementation's choice: giving up is a refusal)
	if len(reviews) >= 2 {
		r.Count("retry_cases_with_a_second_review", 1)
	}
	if len(reviews) >= 1 && flippedEp != "" {
		r.Count("retry_cases_endpoint_became_unready_"+kindName, 1)
	} else if len(reviews) >= 1 && authn {
		r.Count("retry_cases_authn", 1)
	} else if len(reviews) >= 1 {
		r.Count("retry_cases", 1)
		if strings.HasPrefix(attrSpecs[ai].name, "impersonate") {
			r.Count("retry_cases_impersonation", 1)
		}
	} else {
		r.Count("retry_cases_not_retried", 1)
	}
	wit := s.witness(map[string]interface{}{"request_resolved_to": a.name, "host_moved_to": b.name})
	for _, rv := range reviews {
		if rv.Cluster == a.name && !rv.EpReady {
			r.Violation("C12/"+kindName+"/review-sent-to-endpoint-that-is-not-ready/"+ctxSig, fmt.Sprintf("request to host %q (cluster %q): its first review failed with a retriable error at server %s, which stopped being a ready endpoint meanwhile; the retried review was again sent to server %s although another server of the cluster is ready", x, a.name, flippedEp, rv.Endpoint), wit)
			break
		}
		if rv.Cluster != a.name {
			r.Violation("C12/"+kindName+"/review-sent-to-other-cluster/retry-after-host-moved",
				fmt.Sprintf("request to host %q resolved to cluster %q; its first review failed with a retriable error, the host moved to %q, and the retried review was sent to cluster %q", x, a.name, b.name, rv.Cluster), wit)
			break
		}
	}
	if out.positive && out.prov != a.name {
		r.Violation("C12/"+kindName+"/answer-of-other-cluster/retry-after-host-moved",
			fmt.Sprintf("request to host %q resolved to cluster %q was allowed by the answer of %q after a retry (%s)", x, a.name, orNone(out.prov), out.o.Result), wit)
	}
	s.ops = append(s.ops, op{Kind: "retry-end"})
}

type outcome struct {
	o           op
	owner       *scluster
	positive    bool
	prov        string
	provFromErr bool
	panicked    bool
}

func (s *scenario) rawAuthn(host, token string) outcome {
	out := outcome{o: op{Kind: "authn", Host: host, Token: token}, owner: s.p.owner(host)}
	if out.owner != nil {
		out.o.Owner = out.owner.name
	}
	var resp *authenticator.Response
	var ok bool
	var err error
	if p := vkit.Safely(func() { resp, ok, err = s.authn.AuthenticateToken(ctxFor(host), token) }); p != nil {
		out.o.Result, out.panicked = fmt.Sprintf("panic: %v", p), true
		return out
	}
	switch {
	case ok && resp != nil && resp.User != nil:
		out.o.Result = "authenticated as " + resp.User.GetName()
		out.prov = provenanceOf(resp.User.GetName())
		if out.prov == "" {
			out.prov = "?"
		}
	case err != nil:
		out.o.Result = "error: " + err.Error()
		out.prov = provenanceOf(err.Error())
	default:
		out.o.Result = "not authenticated"
	}
	out.positive, out.provFromErr = ok, !ok && err != nil
	return out
}

func (s *scenario) rawAuthz(host, userName string, ai int) outcome {
	a := attrSpecs[ai]
	out := outcome{o: op{Kind: "authz", Host: host, User: userName, Attr: a.name}, owner: s.p.owner(host)}
	if out.owner != nil {
		out.o.Owner = out.owner.name
	}
	rec := a.rec
	rec.User = &user.DefaultInfo{Name: userName, Groups: []string{"system:authenticated"}}
	var dec authorizer.Decision
	var reason string
	var err error
	if p := vkit.Safely(func() { dec, reason, err = s.authz.Authorize(ctxFor(host), &rec) }); p != nil {
		out.o.Result, out.panicked = fmt.Sprintf("panic: %v", p), true
		return out
	}
	names := map[authorizer.Decision]string{authorizer.DecisionAllow: "allow", authorizer.DecisionDeny: "deny", authorizer.DecisionNoOpinion: "no-opinion"}
	out.o.Result = fmt.Sprintf("%s reason=%q", names[dec], reason)
	out.prov = provenanceOf(reason)
	if err != nil {
		out.o.Result += " error: " + err.Error()
		if out.prov == "" {
			out.prov = provenanceOf(err.Error())
			out.provFromErr = out.prov != ""
		}
	}
	out.positive = dec == authorizer.DecisionAllow
	return out
}

// overlapCase: one fresh credential (never used before in this scenario, so no cache can answer) is sent to 2-4 hosts of
// pairwise different, ready clusters. The stub review of the first request is held at the barrier; only then the other
// requests are issued; the barrier opens once every other request has reached its own cluster's barrier or has returned
// (or after a short settle period - code that lets them wait for the first review, e.g. a shared in-flight group, does
// neither). Everything is then judged by the usual provenance rules.
func (s *scenario) overlapCase(authn bool) {
	g, r := s.g, s.r
	s.gates.r = r
	// hosts of pairwise different ready clusters
	s.p.mu.RLock()
	byOwner := map[string][]string{}
	var owners []string
	for _, h := range s.hostPool {
		if c := s.p.hosts[h]; c != nil && len(s.p.readyEndpointsLocked(c)) > 0 {
			if len(byOwner[c.name]) == 0 {
				owners = append(owners, c.name)
			}
			byOwner[c.name] = append(byOwner[c.name], h)
		}
	}
	s.p.mu.RUnlock()
	if len(owners) < 2 {
		return
	}
	var hosts []string
	for _, i := range g.Perm(len(owners)) {
		hs := byOwner[owners[i]]
		hosts = append(hosts, hs[g.Intn(len(hs))])
	}
	hosts = hosts[:g.Range(2, len(hosts))]

	s.caseN++
	kind, key := "token", fmt.Sprintf("tok-conc-%d", s.caseN)
	userName, ai := fmt.Sprintf("carol-%d", s.caseN), g.Intn(len(attrSpecs))
	if !authn {
		kind = "sar"
	}
	issue := func(h string) outcome {
		if authn {
			return s.rawAuthn(h, key)
		}
		return s.rawAuthz(h, userName, ai)
	}
	if !authn {
		key = sarKeyFor(userName, ai)
	}
	arrived, release := s.gates.arm(kind, key)
	what := "token " + key
	if !authn {
		what = "user " + userName + " / " + attrSpecs[ai].name
	}
	s.ops = append(s.ops, op{Kind: "concurrent-begin", Attr: fmt.Sprintf("%s sent to %v at the same time; the review of the first is held until the others have been issued", what, hosts)})
	m := s.log.mark()
	results := make([]outcome, len(hosts))
	done := make(chan int, len(hosts))
	go func() { results[0] = issue(hosts[0]); done <- 0 }()
	finished := 0
	firstHeld := false
	select {
	case <-arrived:
		firstHeld = true
	case <-done:
		finished++ // answered without a review (cannot happen with fresh credentials on a ready cluster; counted below)
	case <-time.After(20 * time.Second):
		r.Inconclusive("the first request of a concurrent case neither reached its stub nor returned within the 20s watchdog")
	}
	for i := 1; i < len(hosts); i++ {
		i := i
		go func() { results[i] = issue(hosts[i]); done <- i }()
	}
	// settle: every other request is at its own cluster's barrier or back; 50ms is scheduling slack, not a verdict
	settle := time.After(50 * time.Millisecond)
	others := 0
wait:
	for others < len(hosts)-1 {
		select {
		case <-arrived:
			others++
		case <-done:
			finished++
			others++
		case <-settle:
			break wait
		}
	}
	if firstHeld {
		n := len(hosts) - 1
		if authn {
			r.Count("overlap_pairs_authn", n)
		} else {
			r.Count("overlap_pairs_authz", n)
			if strings.HasPrefix(attrSpecs[ai].name, "impersonate") {
				r.Count("overlap_pairs_authz_impersonation", n)
			}
		}
	} else {
		r.Count("overlap_cases_first_request_not_held", 1)
	}
	close(release)
	for finished < len(hosts) {
		select {
		case <-done:
			finished++
		case <-time.After(20 * time.Second):
			r.Inconclusive("a request of a concurrent case did not return within the 20s watchdog")
			s.panicked = true // stop this scenario
			s.gates.disarm()
			return
		}
	}
	s.gates.disarm()
	r.Count("overlap_cases", 1)

	// judge: reviews cannot be attributed to single requests here; a review at cluster X is legitimate iff one of the
	// concurrent requests was addressed to a host of X (each such request is then handed exactly those reviews)
	reviews := s.log.since(m)
	ownersAsked := map[string]bool{}
	for _, o := range results {
		if o.owner != nil {
			ownersAsked[o.owner.name] = true
		}
	}
	s.sigCtx = "/concurrent-same-credentials"
	kindName := map[bool]string{true: "authn", false: "authz"}[authn]
	for _, rv := range reviews {
		if !ownersAsked[rv.Cluster] {
			s.ops = append(s.ops, op{Kind: "concurrent-review", Cluster: rv.Cluster})
			r.Violation("C12/"+kindName+"/review-sent-to-other-cluster"+s.sigCtx, fmt.Sprintf("concurrent requests to %v caused a %s review at cluster %q, which owns none of these hosts", hosts, rv.Kind, rv.Cluster), s.witness(nil))
		}
	}
	for _, out := range results {
		s.ops = append(s.ops, out.o)
		r.Count(kindName+"_requests", 1)
		if out.panicked {
			s.panicked = true
			r.Violation("C12/"+kindName+"/panic", "panic in a concurrent request: "+out.o.Result, s.witness(nil))
			continue
		}
		var own []review
		for _, rv := range reviews {
			if out.owner != nil && rv.Cluster == out.owner.name {
				own = append(own, rv)
			}
		}
		s.judge(kindName, &s.ops[len(s.ops)-1], out.owner, out.positive, out.prov, out.provFromErr, own)
	}
	s.sigCtx = ""
	s.ops = append(s.ops, op{Kind: "concurrent-end"})
	// the same credentials again, one host after the other (what the concurrent phase left in the caches)
	for _, h := range hosts {
		if authn {
			s.doAuthn(h, key)
		} else {
			s.doAuthz(h, userName, ai)
		}
	}
}

func sarKeyFor(userName string, ai int) string {
	rec := attrSpecs[ai].rec
	sp := authorizationv1.SubjectAccessReviewSpec{User: userName, Groups: []string{"system:authenticated"}}
	if rec.ResourceRequest {
		sp.ResourceAttributes = &authorizationv1.ResourceAttributes{Verb: rec.Verb, Group: rec.APIGroup, Resource: rec.Resource, Subresource: rec.Subresource, Namespace: rec.Namespace, Name: rec.Name}
	} else {
		sp.NonResourceAttributes = &authorizationv1.NonResourceAttributes{Verb: rec.Verb, Path: rec.Path}
	}
	return sarKey(&sp)
}
