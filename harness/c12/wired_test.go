package c12

import (
	"crypto/tls"
	"encoding/json"
	"fmt"
	"io"
	"net/http"
	"net/http/httptest"
	"sort"
	"strings"
	"sync"
	"sync/atomic"
	"time"

	authenticationv1 "k8s.io/api/authentication/v1"
	authorizationv1 "k8s.io/api/authorization/v1"
	"k8s.io/apiserver/pkg/authentication/authenticator"
	"k8s.io/apiserver/pkg/authorization/authorizer"

	proxyauthn "github.com/kubewharf/kubegateway/pkg/gateway/proxy/authenticator"
	proxyauthz "github.com/kubewharf/kubegateway/pkg/gateway/proxy/authorizer"

	"context"

	"verifharness/bed"
	"verifharness/vkit"
)

// Thorough tier: the production wiring. Real UpstreamClusterController (= clusters.Manager = ClientProvider), real
// ClusterInfos with health-checked endpoints, authenticator/authorizer built by the production config constructors, the
// real proxy handler chain. Upstreams are HTTP stubs that serve TokenReview / SubjectAccessReview from a fixed per-cluster
// table (same provenance marks as in the quick tier) and record every proxied request with the identity the gateway
// impersonates towards them.

type proxied struct {
	ID, Host, ImpUser string
}

type wstub struct {
	name string
	salt uint64
	srv  *httptest.Server
	mu   sync.Mutex
	revs []review
	reqs []proxied
	bad  string
	sick int32 // /healthz answers 500
}

const sharedToken = "tok-shared" // every cluster authenticates it as the same user, so SAR specs are equal across clusters

func (s *wstub) answer(kind, key string) int {
	h := vkit.Hash64(fmt.Sprint(s.salt), kind, key) % 100
	if kind == "token" {
		if h < 70 {
			return ansYes
		}
		return ansNo
	}
	if h < 50 {
		return ansYes
	}
	return ansNo
}

func newWStub(name string, salt uint64) *wstub {
	s := &wstub{name: name, salt: salt}
	s.srv = bed.NewUnstartedServer(http.HandlerFunc(s.serve))
	s.srv.Config.ErrorLog = nil
	s.srv.Start()
	return s
}

func (s *wstub) close() {
	s.srv.CloseClientConnections()
	s.srv.Close()
}

func (s *wstub) serve(w http.ResponseWriter, r *http.Request) {
	body, _ := io.ReadAll(r.Body)
	switch {
	case r.URL.Path == "/healthz":
		if atomic.LoadInt32(&s.sick) != 0 {
			http.Error(w, "unhealthy", 500)
			return
		}
		io.WriteString(w, "ok")
	case r.Method == "POST" && strings.HasSuffix(r.URL.Path, "/tokenreviews"):
		var tr authenticationv1.TokenReview
		if err := json.Unmarshal(body, &tr); err != nil {
			s.mu.Lock()
			s.bad = "tokenreview body is not JSON (" + r.Header.Get("Content-Type") + ")"
			s.mu.Unlock()
			http.Error(w, "bad", 400)
			return
		}
		s.mu.Lock()
		s.revs = append(s.revs, review{Cluster: s.name, Kind: "token", Key: tr.Spec.Token})
		s.mu.Unlock()
		tr.APIVersion, tr.Kind = "authentication.k8s.io/v1", "TokenReview"
		switch {
		case tr.Spec.Token == sharedToken:
			tr.Status = authenticationv1.TokenReviewStatus{Authenticated: true, User: authenticationv1.UserInfo{Username: "shared-user", Groups: []string{"shared"}}}
		case s.answer("token", tr.Spec.Token) == ansYes:
			tr.Status = authenticationv1.TokenReviewStatus{Authenticated: true, User: authenticationv1.UserInfo{Username: "user-of-" + tr.Spec.Token + "@" + s.name, Groups: []string{"grp@" + s.name}}}
		default:
			tr.Status = authenticationv1.TokenReviewStatus{Error: "rejected by " + s.name}
		}
		w.Header().Set("Content-Type", "application/json")
		w.WriteHeader(201)
		json.NewEncoder(w).Encode(&tr)
	case r.Method == "POST" && strings.HasSuffix(r.URL.Path, "/subjectaccessreviews"):
		var sar authorizationv1.SubjectAccessReview
		if err := json.Unmarshal(body, &sar); err != nil {
			s.mu.Lock()
			s.bad = "subjectaccessreview body is not JSON (" + r.Header.Get("Content-Type") + ")"
			s.mu.Unlock()
			http.Error(w, "bad", 400)
			return
		}
		key := sarKey(&sar.Spec)
		s.mu.Lock()
		s.revs = append(s.revs, review{Cluster: s.name, Kind: "sar", Key: key})
		s.mu.Unlock()
		sar.APIVersion, sar.Kind = "authorization.k8s.io/v1", "SubjectAccessReview"
		if s.answer("sar", key) == ansYes {
			sar.Status = authorizationv1.SubjectAccessReviewStatus{Allowed: true, Reason: "by:" + s.name}
		} else {
			sar.Status = authorizationv1.SubjectAccessReviewStatus{Denied: true, Reason: "by:" + s.name}
		}
		w.Header().Set("Content-Type", "application/json")
		w.WriteHeader(201)
		json.NewEncoder(w).Encode(&sar)
	default:
		s.mu.Lock()
		s.reqs = append(s.reqs, proxied{ID: r.Header.Get(bed.IDHeader), Host: r.Host, ImpUser: r.Header.Get("Impersonate-User")})
		s.mu.Unlock()
		w.Header().Set("X-Verif-Stub", s.name)
		w.Header().Set("Content-Type", "application/json")
		io.WriteString(w, `{"kind":"PodList","apiVersion":"v1","items":[]}`)
	}
}

func (s *wstub) find(id string) (proxied, bool) {
	s.mu.Lock()
	defer s.mu.Unlock()
	for i := len(s.reqs) - 1; i >= 0; i-- {
		if s.reqs[i].ID == id {
			return s.reqs[i], true
		}
	}
	return proxied{}, false
}

func (s *wstub) reviewCount() int {
	s.mu.Lock()
	defer s.mu.Unlock()
	return len(s.revs)
}

// The wrappers sit exactly where the production authenticator / authorizer sit in the handler chain, i.e. after
// WithUpstreamInfo has resolved the cluster the request will be dispatched to. `before` (one shot) lets the harness make a
// configuration change at that very point of one request - "the host moves to another cluster while a request for it is
// being processed" - without any timing.
type lazyAuthn struct {
	get    func() authenticator.Request
	before *atomic.Value // func()
	// after: fired when the production authenticator has returned, i.e. after the token review has passed its ownership
	// check and before the request travels on towards the dispatcher
	after *atomic.Value
}

func oneShot(v *atomic.Value) {
	if v == nil {
		return
	}
	if f, _ := v.Load().(func()); f != nil {
		v.Store((func())(nil))
		f()
	}
}

func (l lazyAuthn) AuthenticateRequest(req *http.Request) (*authenticator.Response, bool, error) {
	oneShot(l.before)
	resp, ok, err := l.get().AuthenticateRequest(req)
	oneShot(l.after)
	return resp, ok, err
}

type lazyAuthz struct {
	get    func() authorizer.Authorizer
	before *atomic.Value
	after  *atomic.Value // fired when the production authorizer has returned its decision
}

func (l lazyAuthz) Authorize(ctx context.Context, a authorizer.Attributes) (authorizer.Decision, string, error) {
	oneShot(l.before)
	d, reason, err := l.get().Authorize(ctx, a)
	oneShot(l.after)
	return d, reason, err
}

type wiredWorld struct {
	r           *vkit.R
	idx         int
	gw          *bed.Gateway
	stubs       map[string]*wstub
	names       []string
	alias       map[string]string // alias -> owning cluster ("" = nobody)
	ever        map[string]map[string]bool
	log         []string
	idn         int
	lock        sync.Mutex
	down        map[string]bool // cluster -> its endpoint currently fails the health probes
	recreations int

	beforeAuthn, beforeAuthz, afterAuthn, afterAuthz atomic.Value

	gone    map[string]bool // cluster object deleted right now
	retired []*retiredStub  // upstreams of deleted incarnations: nothing may reach them any more
}

type retiredStub struct {
	s          *wstub
	revs, reqs int
}

func (s *wstub) reqCount() int {
	s.mu.Lock()
	defer s.mu.Unlock()
	return len(s.reqs)
}

// recreate deletes cluster c and creates it again under the same name in front of a NEW upstream (new answers, new
// identity): what was learnt from the deleted incarnation must not be applied to requests for the new one, and nothing may
// be sent to the old upstream any more.
func (w *wiredWorld) recreate(c string, g *vkit.Rand, toks []string) bool {
	r := w.r
	var hosts []string
	for _, a := range []string{"x.io", "y.io", "z.io"} {
		if w.alias[a] == c {
			hosts = append(hosts, a)
		}
	}
	hosts = append(hosts, c, strings.ToUpper(c)+":6443")
	var creds []wreq
	for _, h := range hosts {
		for _, t := range toks {
			creds = append(creds, wreq{Host: h, Token: t}, wreq{Host: h, Token: t, Impersonate: "admin"})
		}
	}
	for _, q := range creds {
		w.send(q, true) // fills the caches of the incarnation that is about to be deleted
	}
	if sr := w.gw.Delete(c); sr.Panic != nil || sr.Err != nil {
		r.Inconclusive(fmt.Sprintf("wired: delete of cluster %s failed: %+v", c, sr))
		return false
	}
	w.gone[c] = true
	w.lock.Lock()
	w.log = append(w.log, "DELETE cluster "+c)
	w.lock.Unlock()
	for _, q := range creds[:4] {
		w.send(q, true) // nobody's names now: nothing may be forwarded, nobody may be asked
	}
	old := w.stubs[c]
	w.recreations++
	w.stubs[c] = newWStub(fmt.Sprintf("%sr%d", c, w.recreations), g.Uint64())
	w.retired = append(w.retired, &retiredStub{s: old, revs: old.reviewCount(), reqs: old.reqCount()})
	w.gone[c] = false
	if !w.apply(c) {
		return false
	}
	w.lock.Lock()
	w.log = append(w.log, fmt.Sprintf("RE-CREATE cluster %s in front of a new upstream (identity %s)", c, w.stubs[c].name))
	w.lock.Unlock()
	r.Count("wired_clusters_recreated_under_same_name", 1)
	for _, q := range creds {
		w.send(q, true)
		r.Count("wired_requests_after_recreation", 1)
	}
	return w.checkRetired()
}

func (w *wiredWorld) checkRetired() bool {
	for _, rs := range w.retired {
		if rs.s.reviewCount() != rs.revs || rs.s.reqCount() != rs.reqs {
			w.lock.Lock()
			wit := map[string]interface{}{"world": w.idx, "last_requests_and_moves": append([]string{}, w.log...)}
			w.lock.Unlock()
			w.r.Violation("C12/wired/upstream-of-deleted-incarnation-still-used", fmt.Sprintf("the upstream of the deleted incarnation %q received %d review(s) and %d request(s) after the cluster was deleted",
				rs.s.name, rs.s.reviewCount()-rs.revs, rs.s.reqCount()-rs.reqs), wit)
			rs.revs, rs.reqs = rs.s.reviewCount(), rs.s.reqCount()
		}
	}
	return true
}

func hostVariant(g *vkit.Rand, h string) string {
	switch g.Intn(4) {
	case 1:
		return strings.ToUpper(h)
	case 2:
		return h + ":6443"
	case 3:
		return strings.ToUpper(h) + ":443"
	}
	return h
}

func (w *wiredWorld) apply(c string) bool {
	var names []string
	for _, a := range []string{"x.io", "y.io", "z.io"} {
		if w.alias[a] == c {
			names = append(names, a)
		}
	}
	obj := bed.BuildCluster(bed.ClusterSpec{Name: c, Servers: []string{w.stubs[c].srv.URL}})
	obj.Spec.SecureServing.ServerNames = names
	sr := w.gw.Apply(obj)
	if sr.Err != nil || sr.Panic != nil || sr.Requeue {
		w.r.Inconclusive(fmt.Sprintf("wired: controller did not apply cluster %s: %+v", c, sr))
		return false
	}
	if !w.gw.WaitReady(c, w.stubs[c].srv.URL, true, 20*time.Second) {
		w.r.Inconclusive("wired: stub endpoint did not become ready within the 20s watchdog")
		return false
	}
	return true
}

func (w *wiredWorld) owner(host string) string {
	h := normHostW(host)
	c := w.alias[h]
	for _, n := range w.names {
		if n == h {
			c = n
		}
	}
	if c != "" && w.gone[c] {
		return "" // the cluster object is deleted right now: none of its names belongs to anybody
	}
	return c
}

// ident is the identity the current incarnation of cluster c puts into its answers (the cluster name itself, or
// "<name>r<k>" after the object was deleted and created again in front of a new upstream).
func (w *wiredWorld) ident(c string) string {
	if s := w.stubs[c]; s != nil {
		return s.name
	}
	return c
}

func normHostW(h string) string {
	h = strings.ToLower(h)
	if i := strings.LastIndexByte(h, ':'); i >= 0 {
		h = h[:i]
	}
	return h
}

type wreq struct {
	Host, Token, Impersonate string
	// TLS: the request arrives on a TLS connection whose handshake carried the server name SNI (which a client is free
	// to choose differently from the Host header)
	TLS bool
	SNI string
}

// send issues one request and judges it. sequential = reviews can be attributed to this request.
func (w *wiredWorld) send(q wreq, sequential bool) {
	r := w.r
	w.lock.Lock()
	w.idn++
	id := fmt.Sprintf("c12w-%d-%d", w.idx, w.idn)
	w.lock.Unlock()
	owner := w.owner(q.Host)
	before := map[string]int{}
	if sequential {
		for n, s := range w.stubs {
			before[n] = s.reviewCount()
		}
	}
	req := bed.NewRequest("GET", q.Host, "/api/v1/namespaces/default/pods", q.Token, id, nil)
	if q.Impersonate != "" {
		req.Header.Set("Impersonate-User", q.Impersonate)
	}
	if q.TLS {
		req.TLS = &tls.ConnectionState{ServerName: q.SNI, HandshakeComplete: true, Version: tls.VersionTLS13}
		r.Count("wired_requests_with_tls_state", 1)
		if q.SNI != "" && w.owner(q.SNI) != owner {
			r.Count("wired_requests_sni_names_other_cluster_than_host", 1)
		}
	}
	rec := w.gw.Serve(req)
	r.Count("wired_requests", 1)
	desc := fmt.Sprintf("GET pods Host=%q token=%q impersonate=%q (host owner %s) -> %d", q.Host, q.Token, q.Impersonate, orNone(owner), rec.Code)
	if q.TLS {
		desc = fmt.Sprintf("GET pods Host=%q TLS-SNI=%q token=%q impersonate=%q (host owner %s) -> %d", q.Host, q.SNI, q.Token, q.Impersonate, orNone(owner), rec.Code)
	}
	w.lock.Lock()
	ownerDown := owner != "" && w.down[owner]
	w.lock.Unlock()
	if ownerDown {
		desc += " [cluster " + owner + " has no ready endpoint]"
	}
	w.lock.Lock()
	w.log = append(w.log, desc)
	if len(w.log) > 60 {
		w.log = w.log[len(w.log)-60:]
	}
	wit := map[string]interface{}{"world": w.idx, "last_requests_and_moves": append([]string{}, w.log...)}
	w.lock.Unlock()

	reviewedAt := map[string]bool{}
	if sequential {
		for n, s := range w.stubs {
			if d := s.reviewCount() - before[n]; d > 0 {
				r.Count("wired_reviews_observed", d)
				reviewedAt[n] = true
				if n != owner {
					r.Violation("C12/wired/review-sent-to-other-cluster", fmt.Sprintf("%s: %d review(s) were sent to the upstream of cluster %q", desc, d, n), wit)
				} else if ownerDown {
					r.Violation("C12/wired/review-sent-to-endpoint-that-is-not-ready", fmt.Sprintf("%s: %d review(s) were sent to the upstream of %q although it is not a ready endpoint", desc, d, n), wit)
				}
			}
		}
	}
	// where did the request go, and as whom
	var got proxied
	gotAt := ""
	for n, s := range w.stubs {
		if p, ok := s.find(id); ok {
			got, gotAt = p, n
		}
	}
	class := func(p string) string {
		h := normHostW(q.Host)
		for c := range w.ever[h] {
			if p == c || strings.HasPrefix(p, c+"r") {
				return "stale-answer-after-host-changed-owner"
			}
		}
		if p == h || strings.HasPrefix(p, h+"r") {
			return "stale-answer-of-deleted-incarnation"
		}
		return "answer-of-unrelated-cluster"
	}
	if gotAt != "" {
		r.Count("wired_forwarded", 1)
		if gotAt != owner {
			// the Host header addresses `owner`; whose reviews decided the request that cluster `gotAt` now serves?
			p := provenanceOf(got.ImpUser)
			foreign := p != "" && p != w.ident(gotAt)
			for n := range reviewedAt {
				if n != gotAt {
					foreign = true
				}
			}
			if foreign {
				r.Violation("C12/wired/dispatched-to-other-cluster-than-reviewed", fmt.Sprintf("%s: forwarded to the upstream of %q under identity %q; the reviews for this request went to %v", desc, gotAt, got.ImpUser, keys(reviewedAt)), wit)
			} else {
				r.Violation("C12/wired/forwarded-to-other-cluster", fmt.Sprintf("%s: forwarded to the upstream of %q", desc, gotAt), wit)
			}
			return
		}
		if ownerDown {
			r.Violation("C12/wired/forwarded-although-own-cluster-cannot-be-asked", fmt.Sprintf("%s: forwarded to %q as %q", desc, gotAt, got.ImpUser), wit)
			return
		}
		if q.Impersonate == "" {
			if p := provenanceOf(got.ImpUser); p != "" && p != w.ident(owner) {
				r.Violation("C12/wired/authn/"+class(p), fmt.Sprintf("%s: forwarded to %q under identity %q, which cluster %q issued", desc, gotAt, got.ImpUser, p), wit)
			} else if p == w.ident(owner) {
				r.Count("wired_authn_by_own_cluster", 1)
			}
			return
		}
		// impersonation was granted: the own cluster's table must grant it to the authenticated user
		if got.ImpUser != q.Impersonate {
			return
		}
		authnUser := "shared-user"
		groups := []string{"shared", "system:authenticated"}
		if q.Token != sharedToken {
			authnUser = "user-of-" + q.Token + "@" + w.ident(owner)
			groups = []string{"grp@" + w.ident(owner), "system:authenticated"}
		}
		sp := authorizationv1.SubjectAccessReviewSpec{User: authnUser, Groups: groups,
			ResourceAttributes: &authorizationv1.ResourceAttributes{Verb: "impersonate", Resource: "users", Name: q.Impersonate, Version: "v1"}}
		if w.stubs[owner].answer("sar", sarKey(&sp)) != ansYes {
			r.Violation("C12/wired/authz/impersonation-granted-without-own-cluster-allowing", fmt.Sprintf("%s: forwarded as %q although cluster %q does not allow %q to impersonate", desc, got.ImpUser, owner, authnUser), wit)
		} else {
			r.Count("wired_impersonation_granted_by_own_cluster", 1)
		}
		return
	}
	// not forwarded: a refusal that quotes another cluster's answer was decided by that cluster
	body := rec.Body.String()
	if p := provenanceOf(body); p != "" && p != w.ident(owner) {
		kind := "authn"
		if rec.Code == 403 {
			kind = "authz"
		}
		r.Violation("C12/wired/"+kind+"/"+class(p), fmt.Sprintf("%s: refused with the answer of cluster %q: %.160s", desc, p, body), wit)
		return
	}
	r.Count("wired_refused", 1)
}

func wired(r *vkit.R) {
	nw := r.N(8, 60)
	phases := r.N(4, 8)
	r.Parallel(nw, 8, func(i int, g *vkit.Rand) {
		w := &wiredWorld{r: r, idx: i, stubs: map[string]*wstub{}, names: []string{"cla", "clb", "clc"}, alias: map[string]string{}, ever: map[string]map[string]bool{}, down: map[string]bool{}, gone: map[string]bool{}}
		var once sync.Once
		var an authenticator.Request
		var az authorizer.Authorizer
		ttl := ttls[1+g.Intn(len(ttls)-1)]
		build := func() {
			once.Do(func() {
				an, _, _ = proxyauthn.AuthenricatorConfig{
					TokenSuccessCacheTTL: ttl[0], TokenFailureCacheTTL: ttl[1],
					TokenRequest: &proxyauthn.TokenAuthenticationConfig{ClusterClientProvider: w.gw.Ctrl},
				}.New()
				az, _, _ = (&proxyauthz.AuthorizerConfig{CacheAuthorizedTTL: ttl[0], CacheUnauthorizedTTL: ttl[1], ClusterClientProvider: w.gw.Ctrl}).New()
			})
		}
		w.gw = bed.NewGateway(bed.GatewayOptions{
			Authn: lazyAuthn{func() authenticator.Request { build(); return an }, &w.beforeAuthn, &w.afterAuthn},
			Authz: lazyAuthz{func() authorizer.Authorizer { build(); return az }, &w.beforeAuthz, &w.afterAuthz},
		})
		defer w.gw.Close()
		for _, c := range w.names {
			w.stubs[c] = newWStub(c, g.Uint64())
			defer w.stubs[c].close()
		}
		setAlias := func(a, c string) {
			w.alias[a] = c
			if c != "" {
				if w.ever[a] == nil {
					w.ever[a] = map[string]bool{}
				}
				w.ever[a][c] = true
			}
		}
		for _, a := range []string{"x.io", "y.io", "z.io"} {
			setAlias(a, w.names[g.Intn(3)])
		}
		for _, c := range w.names {
			if !w.apply(c) {
				return
			}
		}
		hosts := []string{"cla", "clb", "clc", "x.io", "y.io", "z.io", "nobody.io"}
		toks := []string{"tok-a", "tok-b", "tok-c", sharedToken}
		gen := func(g *vkit.Rand) wreq {
			q := wreq{Host: hostVariant(g, hosts[g.Intn(len(hosts))]), Token: toks[g.Intn(len(toks))]}
			if g.Chance(0.4) {
				q.Impersonate = []string{"admin", "root"}[g.Intn(2)]
			}
			if g.Chance(0.4) {
				// the request arrives over TLS; the handshake's server name is the client's choice
				q.TLS = true
				switch g.Intn(6) {
				case 0:
					q.SNI = normHostW(q.Host)
				case 1:
					q.SNI = w.names[g.Intn(3)] // (another) cluster's own name
				case 2:
					q.SNI = []string{"x.io", "y.io", "z.io"}[g.Intn(3)] // an alias, of whichever cluster holds it now
				case 3:
					q.SNI = "nobody.io"
				case 4:
					q.SNI = strings.ToUpper(w.names[g.Intn(3)])
				case 5:
					q.SNI = ""
				}
			}
			return q
		}
		for phase := 0; phase < phases; phase++ {
			// sequential part
			var used []wreq
			for k := 0; k < 25; k++ {
				q := gen(g)
				if len(used) > 0 && g.Chance(0.5) {
					q = used[g.Intn(len(used))]
					if g.Chance(0.5) {
						q.Host = hostVariant(g, hosts[g.Intn(len(hosts))])
					}
				}
				used = append(used, q)
				w.send(q, true)
			}
			// concurrent part: ownership is static, 4 clients replay and extend the same credentials
			var wg sync.WaitGroup
			for c := 0; c < 4; c++ {
				cg := g.Fork(fmt.Sprint("client", c))
				wg.Add(1)
				go func() {
					defer wg.Done()
					for k := 0; k < 15; k++ {
						q := used[cg.Intn(len(used))]
						if cg.Chance(0.5) {
							q.Host = hostVariant(cg, hosts[cg.Intn(len(hosts))])
						}
						w.send(q, false)
					}
				}()
			}
			wg.Wait()
			// an alias moves from its owner to another cluster (release first, then claim), both stay alive
			a := []string{"x.io", "y.io", "z.io"}[g.Intn(3)]
			from := w.alias[a]
			to := w.names[g.Intn(3)]
			if to == from {
				to = w.names[(g.Intn(2)+1+indexOf(w.names, from))%3]
			}
			// fresh credentials on the alias while it still belongs to `from` (a review for this name is served by `from`)
			fresh := fmt.Sprintf("tok-fresh-%d-%d", i, phase)
			w.send(wreq{Host: a, Token: fresh + "-before"}, true)
			w.send(wreq{Host: a, Token: fresh + "-before", Impersonate: "admin"}, true)
			if phase%2 == 1 {
				// the move happens while a request for the alias is inside the handler chain
				point := []string{"before-authn", "before-authz", "after-authn", "after-authz"}[(i*2+phase/2)%4]
				if !w.moveDuringRequest(a, from, to, point, setAlias) {
					return
				}
			}
			if w.alias[a] != to {
				setAlias(a, "")
				if !w.apply(from) {
					return
				}
				setAlias(a, to)
				if !w.apply(to) {
					return
				}
			}
			w.lock.Lock()
			w.log = append(w.log, fmt.Sprintf("MOVE alias %s: %s -> %s", a, from, to))
			w.lock.Unlock()
			r.Count("wired_alias_moves", 1)
			replay := func() {
				// replay what was just used on that alias
				for _, q := range used {
					if normHostW(q.Host) == a {
						w.send(q, true)
					}
				}
				for _, t := range toks {
					w.send(wreq{Host: a, Token: t}, true)
					w.send(wreq{Host: a, Token: t, Impersonate: "admin"}, true)
				}
			}
			// either the name is used on its new owner first, or the outage comes before anything was asked there
			outageFirst := g.Bool()
			if !outageFirst {
				replay()
			}
			// the new owner loses its only ready endpoint: requests for its names cannot be reviewed, so they are not
			// authenticated / denied - not decided by anybody else; after recovery the same credentials are decided by it
			if !w.setHealth(to, false) {
				return
			}
			w.lock.Lock()
			w.log = append(w.log, fmt.Sprintf("OUTAGE: the endpoint of %s fails its health probes", to))
			w.lock.Unlock()
			r.Count("wired_outages_after_alias_move", 1)
			outage := []wreq{{Host: a, Token: fresh}, {Host: a, Token: fresh, Impersonate: "admin"}, {Host: to, Token: fresh}, {Host: a, Token: fresh + "-before"}, {Host: a, Token: sharedToken, Impersonate: "root"}}
			for _, q := range outage {
				w.send(q, true)
				r.Count("wired_requests_during_outage", 1)
			}
			if !w.setHealth(to, true) {
				return
			}
			w.lock.Lock()
			w.log = append(w.log, fmt.Sprintf("RECOVERY: the endpoint of %s is ready again", to))
			w.lock.Unlock()
			for _, q := range outage {
				w.send(q, true)
			}
			if outageFirst {
				replay()
			}
			if phase%4 == 2 {
				if !w.recreate(w.names[g.Intn(3)], g, append([]string{fmt.Sprintf("tok-recreate-%d-%d", i, phase)}, toks[:2]...)) {
					return
				}
			}
			w.checkRetired()
		}
		for _, rs := range w.retired {
			rs.s.close()
		}
		for _, s := range w.stubs {
			if s.bad != "" {
				r.Inconclusive("wired: " + s.bad)
			}
		}
		r.Eval(1)
	})
	if nw > 0 {
		r.Require(r.Counter("wired_forwarded") > int64(nw*50) && r.Counter("wired_refused") > int64(nw*20), "wired: too few forwarded / refused requests")
		r.Require(r.Counter("wired_reviews_observed") > int64(nw*20), "wired: too few reviews observed at the stub upstreams")
		r.Require(r.Counter("wired_impersonation_granted_by_own_cluster") > int64(nw), "wired: impersonation was never granted")
		r.Require(r.Counter("wired_alias_moves") >= int64(nw*phases*3/4), "wired: too few alias moves")
		r.Require(r.Counter("wired_clusters_recreated_under_same_name") >= int64(nw*3/4) && r.Counter("wired_requests_after_recreation") >= int64(nw*8), "wired: too few clusters deleted and created again under the same name")
		for _, pt := range []string{"before-authn", "before-authz", "after-authn", "after-authz"} {
			r.Require(r.Counter("wired_moves_during_request_"+pt) >= int64(nw/4), "wired: too few alias moves "+pt+" of a request")
		}
		r.Require(r.Counter("wired_moves_during_request") >= int64(nw), "wired: too few alias moves made while a request for the alias was inside the handler chain")
		r.Require(r.Counter("wired_outages_after_alias_move") >= int64(nw*phases/2) && r.Counter("wired_requests_during_outage") >= int64(nw*phases*2), "wired: too few outages of the new owner after an alias move")
		r.Require(r.Counter("wired_requests_with_tls_state") >= int64(nw*40) && r.Counter("wired_requests_sni_names_other_cluster_than_host") >= int64(nw*15), "wired: too few requests whose TLS server name differs from the Host header")
	}
}

// moveDuringRequest: a request for alias a (owned by `from`) is being processed - the dispatch cluster is already resolved -
// when the alias moves to `to` (release, then claim): just before the token is authenticated, just before the impersonation
// is authorized, or right after the authenticator / the authorizer has returned (the reviews have passed their ownership
// checks, the request is on its way to the dispatcher). Whatever cluster ends up serving the request, the identity it is served under and every
// review made for it must come from THAT cluster; a refusal is always fine.
func (w *wiredWorld) moveDuringRequest(a, from, to string, point string, setAlias func(a, c string)) bool {
	r := w.r
	atAuthz := strings.HasSuffix(point, "authz")
	// credentials both clusters know (otherwise nothing can be observed): a token both authenticate, and - for the
	// impersonating request - a user whom both allow to impersonate
	allows := func(c, t string) bool {
		if !atAuthz {
			return true
		}
		sp := authorizationv1.SubjectAccessReviewSpec{User: "user-of-" + t + "@" + w.ident(c), Groups: []string{"grp@" + w.ident(c), "system:authenticated"},
			ResourceAttributes: &authorizationv1.ResourceAttributes{Verb: "impersonate", Resource: "users", Name: "admin", Version: "v1"}}
		return w.stubs[c].answer("sar", sarKey(&sp)) == ansYes
	}
	tok := ""
	for k := 0; k < 400 && tok == ""; k++ {
		t := fmt.Sprintf("tok-move-%d-%d-%d", w.idx, w.idn, k)
		if w.stubs[from].answer("token", t) == ansYes && w.stubs[to].answer("token", t) == ansYes && allows(from, t) && (strings.HasPrefix(point, "after") || allows(to, t)) {
			tok = t
		}
	}
	if tok == "" {
		return true
	}
	okMove := true
	move := func() {
		setAlias(a, "")
		okMove = w.apply(from)
		setAlias(a, to)
		okMove = okMove && w.apply(to)
	}
	q := wreq{Host: a, Token: tok}
	if atAuthz {
		q.Impersonate = "admin"
	}
	hook := map[string]*atomic.Value{"before-authn": &w.beforeAuthn, "before-authz": &w.beforeAuthz, "after-authn": &w.afterAuthn, "after-authz": &w.afterAuthz}[point]
	hook.Store(move)
	w.lock.Lock()
	w.idn++
	id := fmt.Sprintf("c12w-%d-%d", w.idx, w.idn)
	w.lock.Unlock()
	before := map[string]int{}
	for n, s := range w.stubs {
		before[n] = s.reviewCount()
	}
	req := bed.NewRequest("GET", a, "/api/v1/namespaces/default/pods", tok, id, nil)
	if atAuthz {
		req.Header.Set("Impersonate-User", "admin")
	}
	rec := w.gw.Serve(req)
	for _, h := range []*atomic.Value{&w.beforeAuthn, &w.beforeAuthz, &w.afterAuthn, &w.afterAuthz} {
		h.Store((func())(nil))
	}
	if !okMove {
		return false
	}
	if w.alias[a] != to {
		// the hook did not run (e.g. the request was refused before authorization): make the move now, nothing to judge
		move()
		r.Count("wired_move_during_request_not_reached", 1)
		return okMove
	}
	r.Count("wired_moves_during_request", 1)
	r.Count("wired_moves_during_request_"+point, 1)
	desc := fmt.Sprintf("GET pods Host=%q token=%q impersonate=%q; the alias moved %s -> %s %s of this request -> %d", a, tok, q.Impersonate, from, to, point, rec.Code)
	w.lock.Lock()
	w.log = append(w.log, "MOVE DURING REQUEST: "+desc)
	wit := map[string]interface{}{"world": w.idx, "last_requests_and_moves": append([]string{}, w.log...)}
	w.lock.Unlock()
	reviewedAt := map[string]bool{}
	for n, s := range w.stubs {
		if s.reviewCount() > before[n] {
			reviewedAt[n] = true
		}
	}
	gotAt := ""
	var got proxied
	for n, s := range w.stubs {
		if p, ok := s.find(id); ok {
			got, gotAt = p, n
		}
	}
	if gotAt == "" {
		r.Count("wired_moves_during_request_refused", 1)
		return true
	}
	r.Count("wired_moves_during_request_forwarded", 1)
	foreign := false
	if p := provenanceOf(got.ImpUser); p != "" && p != w.ident(gotAt) {
		foreign = true
	}
	for n := range reviewedAt {
		if n != gotAt {
			foreign = true
		}
	}
	if foreign {
		r.Violation("C12/wired/dispatched-to-other-cluster-than-reviewed/host-moved-"+point,
			fmt.Sprintf("%s: forwarded to the upstream of %q under identity %q; the reviews for this request went to %v", desc, gotAt, got.ImpUser, keys(reviewedAt)), wit)
	}
	return true
}

func keys(m map[string]bool) []string {
	var out []string
	for k := range m {
		out = append(out, k)
	}
	sort.Strings(out)
	return out
}

// setHealth makes the (single) endpoint of cluster c fail / pass its health probes and waits until the gateway has
// noticed (probe triggered, 20 s watchdog).
func (w *wiredWorld) setHealth(c string, healthy bool) bool {
	st := w.stubs[c]
	if healthy {
		atomic.StoreInt32(&st.sick, 0)
	} else {
		atomic.StoreInt32(&st.sick, 1)
	}
	ok := vkit.WaitFor(20*time.Second, func() bool {
		ci, found := w.gw.Cluster(c)
		if !found {
			return false
		}
		ep, found := ci.Endpoints.Load(st.srv.URL)
		if !found {
			return false
		}
		if ep.IsReady() == healthy {
			return true
		}
		ep.TriggerHealthCheck()
		time.Sleep(time.Millisecond)
		return false
	})
	if !ok {
		w.r.Inconclusive("wired: the gateway did not notice the scripted health change of a stub endpoint within the 20s watchdog")
		return false
	}
	w.lock.Lock()
	w.down[c] = !healthy
	w.lock.Unlock()
	return true
}

func indexOf(ss []string, s string) int {
	for i, x := range ss {
		if x == s {
			return i
		}
	}
	return 0
}
