package c03

import (
	"fmt"
	"sync"
	"sync/atomic"

	"k8s.io/apiserver/pkg/authentication/user"
	"k8s.io/apiserver/pkg/authorization/authorizer"

	"github.com/kubewharf/kubegateway/pkg/clusters"

	"verifharness/bed"
	"verifharness/vkit"
)

// serverListChurn: the server list of a cluster with >= 2 ready endpoints is changed back and forth (a further server is
// added and removed) a fixed number of times while several goroutines pick endpoints exactly as the dispatcher does
// (MatchAttributes + Pop). Oracle: every pick returns an endpoint that is in the server list before or after the change in
// flight (the two base servers are always pickable, the churned one only while listed), and no pick is refused while the
// base servers are ready. The scenario exists because a server-list change concurrent with picks used to corrupt the
// round-robin cursor map (fatal error: sync: unlock of unlocked mutex / concurrent map writes, fixed by 5e154e4): such a
// runtime fatal error cannot be recovered; the driver reports it through ANCHOR_RE (clusterinfo.go is anchored).
func serverListChurn(r *vkit.R, g *vkit.Rand, iterations int) {
	hc := func(e *clusters.EndpointInfo) bool { e.UpdateStatus(true, "", ""); return false }
	nBase := g.Range(2, 3)
	var eps []string
	for i := 0; i < nBase+1; i++ {
		eps = append(eps, fmt.Sprintf("http://127.0.0.1:%d", 20000+g.Intn(20000)))
	}
	name := fmt.Sprintf("churn-%d", g.Intn(1<<30))
	obj := bed.BuildCluster(bed.ClusterSpec{Name: name, Servers: eps[:nBase]})
	ci, err := clusters.CreateClusterInfo(obj, hc, "", nil)
	if err != nil {
		r.Inconclusive("churn: CreateClusterInfo failed: " + err.Error())
		return
	}
	defer ci.Stop()
	for _, e := range eps[:nBase] {
		e := e
		if !vkit.WaitFor(10e9, func() bool { ep, ok := ci.Endpoints.Load(e); return ok && ep.IsReady() }) {
			r.Inconclusive("churn: endpoint did not become ready within the 10 s watchdog")
			return
		}
	}
	base := map[string]bool{}
	for _, e := range eps[:nBase] {
		base[e] = true
	}
	extra := eps[nBase]
	attrs := &authorizer.AttributesRecord{User: &user.DefaultInfo{Name: "u"}, Verb: "get", Path: "/healthz"}
	var stop int32
	var picks, refused, bad int64
	var wg sync.WaitGroup
	pickers := g.Range(4, 12)
	for k := 0; k < pickers; k++ {
		wg.Add(1)
		go func() {
			defer wg.Done()
			for atomic.LoadInt32(&stop) == 0 {
				p, err := ci.MatchAttributes(attrs)
				if err != nil {
					atomic.AddInt64(&bad, 1)
					continue
				}
				ep, err := p.Pop()
				atomic.AddInt64(&picks, 1)
				switch {
				case err != nil:
					atomic.AddInt64(&refused, 1)
				case !base[ep.Endpoint] && ep.Endpoint != extra:
					atomic.AddInt64(&bad, 1)
				}
			}
		}()
	}
	for i := 0; i < iterations; i++ {
		n := nBase + i%2
		if err := ci.Sync(bed.BuildCluster(bed.ClusterSpec{Name: name, Servers: eps[:n]})); err != nil {
			r.Inconclusive("churn: Sync failed: " + err.Error())
			break
		}
	}
	atomic.StoreInt32(&stop, 1)
	wg.Wait()
	r.Eval(1)
	r.Count("churn_scenarios", 1)
	r.Count("churn_server_list_changes", iterations)
	r.Count("churn_picks_concurrent_with_changes", int(picks))
	if bad > 0 {
		r.Violation("C03/churn/picked-endpoint-not-in-server-list", fmt.Sprintf("%d picks concurrent with server-list changes returned an endpoint that is in neither the list before nor after the change (or the policy lookup failed)", bad),
			map[string]interface{}{"servers": eps, "bad": bad, "picks": picks})
	}
	if refused > 0 {
		r.Violation("C03/churn/refused-while-base-servers-ready", fmt.Sprintf("%d of %d picks concurrent with server-list changes were refused although %d servers that are always listed were ready", refused, picks, nBase),
			map[string]interface{}{"servers": eps, "refused": refused, "picks": picks})
	}
}
