// Package c03 checks property C03 (endpoint selection: only enabled, healthy endpoints of the matched policy that are in
// the current server list get traffic; 503 when there is none; disabled endpoints get neither traffic nor probes) by
// driving the real controller, the real health checker and the real proxy handler chain against stub upstreams through
// seeded histories of spec updates and health-probe outcomes, with request bursts in stable and in racing phases.
package c03

import (
	"bytes"
	"fmt"
	"io"
	"net"
	"os"
	"runtime"
	"sort"
	"strings"
	"sync"
	"sync/atomic"
	"testing"
	"time"

	"k8s.io/apiserver/pkg/authentication/user"

	proxyv1alpha1 "github.com/kubewharf/kubegateway/pkg/apis/proxy/v1alpha1"
	"github.com/kubewharf/kubegateway/pkg/clusters"

	"verifharness/bed"
	"verifharness/vkit"
)

const (
	// settle separates "a probe that was already on its way when the disabling sync returned" from "a probe started
	// while the endpoint was disabled". On correct code the former reaches the stub within a millisecond or so.
	settle   = 500 * time.Millisecond
	watchdog = 40 * time.Second
)

// racePass: the driver's auxiliary -race pass of the thorough tier (race reports are non-deciding, the monitors still
// decide). It runs the quick-sized workload and leaves the evidence file of the plain thorough pass in place.
var racePass = os.Getenv("VERIF_RACE_PASS") != ""

func tierN(r *vkit.R, quick, thorough int) int {
	if racePass {
		return quick
	}
	return r.N(quick, thorough)
}

func healthyMode(m bed.HealthMode) bool { return m == bed.HealthOK }

var modeName = map[bed.HealthMode]string{bed.HealthOK: "ok", bed.Health500: "500", bed.HealthClose: "close", bed.HealthHang: "hang"}

// model is what the harness knows about the gateway's view of one cluster.
type model struct {
	Servers  []int          `json:"servers"`  // stub indices in spec order
	Disabled map[int]bool   `json:"disabled"` // servers marked disabled
	Belief   map[int]bool   `json:"believed_healthy"`
	Mode     map[int]string `json:"stub_healthz_mode"`
	Subsets  [][]int        `json:"policy_subsets"` // per policy; empty = no subset; may name stubs that are not servers
	// Dup[e]: server e is listed TWICE (validation accepts duplicates; a patch that appends an entry instead of editing
	// the existing one produces them). For a disabled server the second entry does not carry the flag and stands
	// "before" or "after" the flagged one; an endpoint is marked disabled when any of its entries says so. For an enabled
	// server both entries are alike ("same").
	Dup map[int]string `json:"listed_twice,omitempty"`
	// Bad, when set, is one more entry of the object's server list: an endpoint string for which no client can be built
	// (the controller's sync of such an object fails half-way and asks for a requeue). It is never pickable.
	Bad string `json:"unbuildable_server,omitempty"`
}

func (m *model) clone() *model {
	c := &model{Disabled: map[int]bool{}, Belief: map[int]bool{}, Mode: map[int]string{}, Bad: m.Bad, Dup: map[int]string{}}
	for k, v := range m.Dup {
		c.Dup[k] = v
	}
	c.Servers = append(c.Servers, m.Servers...)
	for k, v := range m.Disabled {
		if v {
			c.Disabled[k] = true
		}
	}
	for k, v := range m.Belief {
		c.Belief[k] = v
	}
	for k, v := range m.Mode {
		c.Mode[k] = v
	}
	for _, s := range m.Subsets {
		c.Subsets = append(c.Subsets, append([]int(nil), s...))
	}
	return c
}

func (m *model) isServer(e int) bool {
	for _, s := range m.Servers {
		if s == e {
			return true
		}
	}
	return false
}

// why returns "" when stub e may be picked for policy p in this state, otherwise the first reason why not.
func (m *model) why(p, e int) string {
	if !m.isServer(e) {
		return "not-in-server-list"
	}
	if len(m.Subsets[p]) > 0 {
		in := false
		for _, s := range m.Subsets[p] {
			if s == e {
				in = true
			}
		}
		if !in {
			return "outside-subset"
		}
	}
	if m.Disabled[e] {
		return "disabled"
	}
	if !m.Belief[e] {
		return "unhealthy"
	}
	return ""
}

func (m *model) pickable(p, k int) map[int]bool {
	out := map[int]bool{}
	for e := 0; e < k; e++ {
		if m.why(p, e) == "" {
			out[e] = true
		}
	}
	return out
}

type reqRec struct {
	ID      string
	Policy  int
	Phase   string // stable | racing
	Step    int
	Change  string
	Before  *model // nil in stable phases
	After   *model
	Allowed map[int]bool
	Status  int
	Err     string
	Start   int64
	End     int64
	// ReadyThroughout: every endpoint this request may be picked to reported ready right before AND right after the
	// stable burst it belongs to (probes are at least a ticker period apart, so it was ready in between as well)
	ReadyThroughout bool
	Twin            bool // sent to the twin cluster (another cluster listing some of the same upstreams, with its own flags)
	Method  string
}

type disInt struct {
	stub  int
	from  int64
	class string // idle-at-disable | hung-probe-at-disable
	ep    *clusters.EndpointInfo
	pokes []int64
	// removed: the interval is "not in the latest object's server list" instead of "disabled"
	removed bool
}

type hist struct {
	r     *vkit.R
	id    int
	k     int
	stubs []*bed.Stub
	gw    *bed.Gateway
	host  string
	tok   string
	// spell[e]: how stub e's URL is written in the cluster objects of this history: "" = as the stub reports it
	// (http://127.0.0.1:port), "v6" = as an IPv6 literal (http://[::ffff:127.0.0.1]:port, the IPv4-mapped address of the
	// same listener), "upper" = with an upper-case host name (http://LOCALHOST:port). Same server, same statement.
	spell map[int]string
	// gwTok is the gateway's own credential for this history's cluster, unique in the whole run and constant across the
	// history's updates: /healthz probes are attributed by it (stub ports are ephemeral and can be re-bound by a stub of
	// another history while a checker of a closed gateway is still probing the old address)
	gwTok string
	m     *model
	np    int

	mu    sync.Mutex
	recs  []*reqRec
	nid   int64
	open  map[int]*disInt
	bad   bool
	// reenabled[e]: server e went through an "enable" step in its current incarnation
	reenabled map[int]bool
	// twin: a second cluster of the same gateway that lists some of the same upstreams with its OWN disabled flags (static
	// through the history). Nothing of one cluster's state may leak into the other.
	twinHost     string
	twinTok      string
	twinServers  map[int]bool
	twinDisabled map[int]bool
	twinFrom     int64
	forceDup     string
	stop         bool // end the history after this step (a violation left the model and the gateway apart)
	modes []bed.HealthMode
	// modeLog[e] = the /healthz mode changes of stub e with their instants
	modeLog [][]modeEv
}

type modeEv struct {
	at   int64
	mode bed.HealthMode
}

// probeTimeout is the timeout GatewayHealthCheck puts on one health-check call.
const probeTimeout = 5 * time.Second

// modeActive reports whether stub e answered /healthz in the given mode at some time in [a, b].
func (h *hist) modeActive(e int, mode bed.HealthMode, a, b int64) bool {
	l := h.modeLog[e]
	for i, ev := range l {
		end := int64(1<<62 - 1)
		if i+1 < len(l) {
			end = l[i+1].at
		}
		if ev.mode == mode && ev.at <= b && end >= a {
			return true
		}
	}
	return false
}

func (h *hist) object(m *model) *proxyv1alpha1.UpstreamCluster {
	var servers []string
	dis := map[string]bool{}
	for _, s := range m.Servers {
		servers = append(servers, h.url(s))
		if m.Disabled[s] {
			dis[h.url(s)] = true
		}
	}
	if m.Bad != "" {
		servers = append(servers, m.Bad)
	}
	var ps []proxyv1alpha1.DispatchPolicy
	for p := range m.Subsets {
		var sub []string
		for _, s := range m.Subsets[p] {
			sub = append(sub, h.url(s))
		}
		ps = append(ps, proxyv1alpha1.DispatchPolicy{
			Strategy:       proxyv1alpha1.RoundRobin,
			UpstreamSubset: sub,
			Rules:          []proxyv1alpha1.DispatchPolicyRule{{Verbs: []string{"*"}, APIGroups: []string{"*"}, Resources: []string{fmt.Sprintf("r%d", p)}}},
		})
	}
	obj := bed.BuildCluster(bed.ClusterSpec{Name: h.host, Servers: servers, Disabled: dis, Policies: ps, Token: h.gwTok})
	if len(m.Dup) > 0 {
		var list []proxyv1alpha1.UpstreamClusterServer
		for _, sv := range obj.Spec.Servers {
			plain := proxyv1alpha1.UpstreamClusterServer{Endpoint: sv.Endpoint}
			where := ""
			for e, w := range m.Dup {
				if h.url(e) == sv.Endpoint && m.isServer(e) {
					where = w
				}
			}
			switch where {
			case "before":
				list = append(list, plain, sv)
			case "after":
				list = append(list, sv, plain)
			case "same":
				list = append(list, sv, sv)
			default:
				list = append(list, sv)
			}
		}
		obj.Spec.Servers = list
	}
	return obj
}

func (h *hist) fail(reason string) {
	h.bad = true
	h.r.Inconclusive(fmt.Sprintf("history %d: %s", h.id, reason))
}

func (h *hist) apply(m *model) bool {
	sr := h.gw.Apply(h.object(m))
	if sr.Err != nil || sr.Panic != nil || sr.Requeue {
		h.fail(fmt.Sprintf("controller did not apply a generated object: err=%v panic=%v requeue=%v", sr.Err, sr.Panic, sr.Requeue))
		return false
	}
	return true
}

func (h *hist) endpoint(e int) *clusters.EndpointInfo {
	ci, ok := h.gw.Cluster(h.host)
	if !ok {
		return nil
	}
	ep, _ := ci.Endpoints.Load(h.url(e))
	return ep
}

func (h *hist) waitReady(e int, want bool) bool {
	if !h.gw.WaitReady(h.host, h.url(e), want, watchdog) {
		h.fail(fmt.Sprintf("endpoint %d did not report ready=%v within the %v watchdog", e, want, watchdog))
		return false
	}
	return true
}

// waitBelief waits until the endpoint's readiness follows what its stub has been answering on /healthz since `since`
// (want=false: 500 / hang / connection closed; want=true: 200, endpoint enabled). It is not only a watchdog: it calls
// TriggerHealthCheck every 500 ms (so the next probe starts as soon as the previous one has given up) and turns two
// situations in which the statement is contradicted directly into verdicts instead of a harness timeout:
//   - probe timeouts: the stub does not answer (hang / close); at least two probes that started >= 6 s ago (probe
//     timeout 5 s) were never answered, >= 11 s have passed, and the endpoint still reports ready;
//   - not probed: >= 11 s (two periods of the 5 s ticker) have passed, the harness called TriggerHealthCheck >= 5 times,
//     the stub received NO probe of this gateway at all since the change, and the readiness is still the old one (an
//     unhealthy endpoint still served; or an enabled, healthy endpoint never served again).
// After such a verdict the history ends with one more stable burst that shows where the traffic goes.
func (h *hist) waitBelief(e int, since int64, mode bed.HealthMode, want bool) bool {
	ep := h.endpoint(e)
	if ep == nil {
		h.fail(fmt.Sprintf("endpoint %d not found", e))
		return false
	}
	lastPoke := bed.Now()
	pokes := 0
	deadline := bed.Now() + int64(watchdog)
	for {
		if ep.IsReady() == want {
			if !want {
				h.r.Count("unhealthy_flips_that_made_the_endpoint_unready", 1)
			}
			return true
		}
		now := bed.Now()
		old, n := 0, 0
		var ages []float64
		for _, t := range h.probes(e) {
			if t >= since {
				n++
				ages = append(ages, float64(now-t)/1e9)
				if now-t >= int64(6*time.Second) {
					old++
				}
			}
		}
		w := map[string]interface{}{"history": h.id, "stub": e, "healthz_mode": modeName[mode], "seconds_since_change": float64(now-since) / 1e9,
			"probe_ages_s": ages, "trigger_calls": pokes, "endpoint_was_disabled_and_enabled_before": h.reenabled[e], "model": h.m.clone()}
		if !want && (mode == bed.HealthHang || mode == bed.HealthClose) && old >= 2 && now-since >= int64(11*time.Second) {
			h.r.Violation("C03/health/still-ready-after-probe-timeouts",
				fmt.Sprintf("the stub stopped answering /healthz (%s mode) %.1f s ago; %d probes that started more than 6 s ago (probe timeout 5 s) were never answered, no probe was answered since, and the endpoint still reports ready",
					modeName[mode], float64(now-since)/1e9, old), w)
			h.stop = true
			return true
		}
		if n == 0 && pokes >= 5 && now-since >= int64(11*time.Second) {
			sig := "C03/health/not-probed"
			if h.reenabled[e] {
				sig += "-after-re-enable"
			}
			what := fmt.Sprintf("the stub has been answering /healthz with %s for %.1f s, TriggerHealthCheck was called %d times and two periods of the health ticker have passed, but the stub received no probe at all and the endpoint still reports ready (it keeps being picked)",
				modeName[mode], float64(now-since)/1e9, pokes)
			if want {
				sig += "/never-ready-again"
				what = fmt.Sprintf("the endpoint is enabled and its stub has been answering /healthz with 200 for %.1f s, TriggerHealthCheck was called %d times and two periods of the health ticker have passed, but the stub received no probe at all and the endpoint never reports ready",
					float64(now-since)/1e9, pokes)
			}
			if h.reenabled[e] {
				what += " (the endpoint had been disabled and enabled again before)"
			}
			h.r.Violation(sig, what, w)
			h.stop = true
			return true
		}
		if now > deadline {
			h.fail(fmt.Sprintf("endpoint %d did not report ready=%v within the %v watchdog (%d probes since the change)", e, want, watchdog, n))
			return false
		}
		if now-lastPoke > int64(500*time.Millisecond) {
			ep.TriggerHealthCheck()
			pokes++
			lastPoke = now
		}
		time.Sleep(2 * time.Millisecond)
	}
}

func (h *hist) send(g *vkit.Rand, rec *reqRec) {
	rec.ID = fmt.Sprintf("c03-%d-%d", h.id, atomic.AddInt64(&h.nid, 1))
	path := fmt.Sprintf("/api/v1/namespaces/ns/r%d", rec.Policy)
	if g.Chance(0.3) {
		path += "/obj" + fmt.Sprint(g.Intn(9))
	}
	// unusual but ordinary clients: writes with bodies as well as reads (a request must reach at most one stub, once)
	method := "GET"
	var body io.Reader
	if g.Chance(0.35) {
		method = []string{"POST", "PUT", "PATCH", "DELETE"}[g.Intn(4)]
		if method == "POST" {
			path = fmt.Sprintf("/api/v1/namespaces/ns/r%d", rec.Policy)
		} else if !strings.Contains(path, "/obj") {
			path += "/obj0"
		}
		if method != "DELETE" {
			body = bytes.NewReader(g.Bytes(g.Range(1, 3000)))
		}
	}
	rec.Method = method
	host := h.host
	if rec.Twin {
		host = h.twinHost
	}
	rec.Start = bed.Now()
	req := bed.NewRequest(method, host, path, h.tok, rec.ID, body)
	if body != nil {
		req.Header.Set("Content-Type", "application/json")
	}
	resp := h.gw.Do(req)
	rec.End = bed.Now()
	rec.Status = resp.Status
	if resp.Err != nil {
		rec.Err = resp.Err.Error()
	}
	h.mu.Lock()
	h.recs = append(h.recs, rec)
	h.mu.Unlock()
}

func union(a, b map[int]bool) map[int]bool {
	out := map[int]bool{}
	for k := range a {
		out[k] = true
	}
	for k := range b {
		out[k] = true
	}
	return out
}

// stableBurst sends n concurrent requests while nothing changes.
func (h *hist) allReady(set map[int]bool) bool {
	for e := range set {
		ep := h.endpoint(e)
		if ep == nil || !ep.IsReady() {
			return false
		}
	}
	return true
}

func (h *hist) stableBurst(g *vkit.Rand, n, step int) {
	snap := h.m.clone()
	readyBefore := make([]bool, h.np)
	for p := 0; p < h.np; p++ {
		readyBefore[p] = h.allReady(snap.pickable(p, h.k))
	}
	var mine []*reqRec
	defer func() {
		for _, rec := range mine {
			rec.ReadyThroughout = readyBefore[rec.Policy] && h.allReady(rec.Allowed)
		}
	}()
	var wg sync.WaitGroup
	for i := 0; i < n; i++ {
		p := g.Intn(h.np)
		rg := g.Fork("s")
		wg.Add(1)
		twin := h.twinHost != "" && g.Chance(0.25)
		rec := &reqRec{Policy: p, Phase: "stable", Step: step, After: snap, Allowed: snap.pickable(p, h.k)}
		if !twin {
			mine = append(mine, rec)
		}
		go func() {
			defer wg.Done()
			if twin {
				h.send(rg, &reqRec{Policy: 0, Phase: "twin", Step: step, After: snap, Allowed: h.twinAllowed(), Twin: true})
				return
			}
			h.send(rg, rec)
		}()
	}
	wg.Wait()
}

// twinAllowed: the stubs a request to the twin cluster may reach as far as its server list and disabled flags go (the
// twin's belief about health is not tracked: it probes on its own ticker).
func (h *hist) twinAllowed() map[int]bool {
	out := map[int]bool{}
	for e := range h.twinServers {
		if !h.twinDisabled[e] {
			out[e] = true
		}
	}
	return out
}

// closeInterval judges the probes the stub of a disabled endpoint logged between (disabling sync returned + settle) and
// `to` (taken before the enabling/removing sync is called, or at the end of the history).
func (h *hist) closeInterval(di *disInt, to int64) {
	delete(h.open, di.stub)
	if di.removed {
		h.r.Count("removed_intervals_judged", 1)
	} else {
		h.r.Count("disabled_intervals_judged", 1)
	}
	// scenario class: a probe of this stub may have been hanging (stub in "hang" mode within the probe timeout before
	// the sync) when the endpoint was disabled
	if h.modeActive(di.stub, bed.HealthHang, di.from-int64(probeTimeout+settle), di.from) {
		di.class = "hung-probe-at-disable"
		if di.removed {
			di.class = "hung-probe-at-removal"
		}
	}
	lo := di.from + int64(settle)
	// Widening: ONE health-check call is not one /healthz request. client-go retries a GET that ended in a connection
	// reset / EOF every second until the call's 5 s timeout, so a call that was in flight when the disabling sync
	// returned (or that belongs to a previous incarnation of the endpoint) may still send requests for up to 5 s if the
	// stub answers by closing the connection. Those retries are treated like the in-flight probe itself: when the stub was
	// in "close" mode at any time from 5 s before the sync on, only probes later than timeout + settle are judged.
	if h.modeActive(di.stub, bed.HealthClose, di.from-int64(probeTimeout+settle), to) {
		lo = di.from + int64(probeTimeout+settle)
		for _, t := range h.probes(di.stub) {
			if t > di.from+int64(settle) && t < to && t <= lo {
				h.r.Count("observation_probe_retries_of_an_in_flight_check_after_disable", 1)
			}
		}
	}
	// the grace window is not exempt altogether: it stands for the probe(s) in flight when the sync returned - one per
	// checker generation, at most two - so more than two probes in it are judged (not when the stub closes connections:
	// one probe call then retries every second)
	if !di.removed && !h.modeActive(di.stub, bed.HealthClose, di.from-int64(probeTimeout+settle), to) {
		early := 0
		for _, t := range h.probes(di.stub) {
			if t > di.from && t <= di.from+int64(settle) && t < to {
				early++
			}
		}
		h.r.Count("probes_within_the_grace_window_after_disable", early)
		if early > 2 {
			h.r.Violation("C03/disabled/probe-while-disabled/more-than-the-in-flight-ones-within-the-grace-window",
				fmt.Sprintf("endpoint was marked disabled (sync returned), yet its stub logged %d /healthz probes within %v after that; at most two can have been in flight when the sync returned (class %s)", early, settle, di.class),
				map[string]interface{}{"history": h.id, "stub": di.stub, "class": di.class, "probes_in_grace_window": early, "model": h.m.clone()})
		}
	}
	var late, all, pokes []float64
	for _, t := range h.probes(di.stub) {
		if t > lo && t < to {
			late = append(late, float64(t-di.from)/1e6)
		}
		all = append(all, float64(t-di.from)/1e6)
	}
	for _, t := range di.pokes {
		pokes = append(pokes, float64(t-di.from)/1e6)
	}
	if len(late) > 0 && di.removed {
		// NOT judged here: C03's probe clause is about DISABLED endpoints only; that probing of a REMOVED endpoint stops
		// is C15's clause. Probes to servers that are not in the latest list are recorded as an observation; TRAFFIC to
		// them is judged by the request oracle.
		h.r.Count("observation_probes_to_servers_not_in_the_latest_list_"+di.class, len(late))
	} else if len(late) > 0 {
		h.r.Violation("C03/disabled/probe-while-disabled/"+di.class,
			fmt.Sprintf("endpoint was marked disabled (sync returned), yet its stub logged %d /healthz probe(s) %v ms after the disabling sync returned and before it was enabled again (class %s; probes within the first %v after the sync are not counted)",
				len(late), late, di.class, settle),
			map[string]interface{}{"history": h.id, "stub": di.stub, "class": di.class, "probe_ms_after_disable": late, "all_probes_ms_relative_to_disable": all, "trigger_calls_ms_after_disable": pokes, "interval_ms": float64(to-di.from) / 1e6, "model": h.m.clone()})
	}
}

// pokeDisabled calls TriggerHealthCheck on the retained EndpointInfo of every endpoint that has been disabled for longer
// than the settle time (this is what the proxy error path does on "connection refused").
func (h *hist) pokeDisabled() {
	for _, di := range h.open {
		if bed.Now() > di.from+int64(settle) && di.ep != nil {
			for i := 0; i < 2; i++ {
				di.pokes = append(di.pokes, bed.Now())
				di.ep.TriggerHealthCheck()
			}
			h.r.Count("disabled_triggers", 2)
		}
	}
}

type change struct {
	Kind   string `json:"kind"`
	Target int    `json:"target"`
	Detail string `json:"detail,omitempty"`
	after  *model
	// run applies the change to the real system and waits until it has converged
	run func() bool
}

func (h *hist) genSubset(g *vkit.Rand) []int {
	if g.Chance(0.3) {
		return nil
	}
	perm := g.Perm(h.k)
	n := g.Range(1, h.k)
	if n2 := g.Range(1, h.k); n2 > n {
		n = n2
	}
	return append([]int(nil), perm[:n]...)
}

func (h *hist) setMode(e int, m bed.HealthMode) {
	h.modes[e] = m
	h.modeLog[e] = append(h.modeLog[e], modeEv{bed.Now(), m})
	h.stubs[e].SetHealth(m)
}

// genChange draws one change that is legal in the current model. allowHang: timeouts (5 s per probe) may be scripted.
// force >= 0: the kind of change to try first (case number below); the shapes whose minimum counts matter are constructed
// in every history instead of being left to the draw.
func (h *hist) genChange(g *vkit.Rand, allowHang bool, tickerWait bool, force int) *change {
	m := h.m
	for try := 0; try < 20; try++ {
		after := m.clone()
		kindNo := g.Intn(13)
		if try == 0 && force >= 0 {
			kindNo = force
		}
		switch kindNo {
		case 11: // the cluster object is deleted and created again under the same name with another spec
			hang := false
			for e := 0; e < h.k; e++ {
				if h.modes[e] == bed.HealthHang {
					hang = true
				}
			}
			if hang || m.Bad != "" {
				continue
			}
			after = &model{Disabled: map[int]bool{}, Belief: map[int]bool{}, Mode: m.clone().Mode}
			for _, e := range g.Perm(h.k)[:g.Range(1, h.k)] {
				after.Servers = append(after.Servers, e)
				if g.Chance(0.2) {
					after.Disabled[e] = true
				}
				after.Belief[e] = !after.Disabled[e] && healthyMode(h.modes[e])
			}
			for p := 0; p < h.np; p++ {
				after.Subsets = append(after.Subsets, h.genSubset(g))
			}
			return &change{Kind: "cluster-recreate", after: after, run: func() bool {
				for _, di := range h.open {
					h.closeInterval(di, bed.Now())
				}
				if sr := h.gw.Delete(h.host); sr.Err != nil || sr.Panic != nil || sr.Requeue {
					h.fail(fmt.Sprintf("controller did not delete the cluster: %+v", sr))
					return false
				}
				h.reenabled = map[int]bool{}
				if g.Bool() {
					time.Sleep(time.Duration(g.Range(0, 20)) * time.Millisecond)
				}
				if !h.apply(after) {
					return false
				}
				for _, e := range after.Servers {
					if after.Disabled[e] {
						h.open[e] = &disInt{stub: e, from: bed.Now(), class: "created-disabled", ep: h.endpoint(e)}
					} else if after.Belief[e] && !h.waitReady(e, true) {
						return false
					}
				}
				return true
			}}
		case 0, 1, 2: // health outcome of an enabled server changes
			var cand []int
			for _, s := range m.Servers {
				// The health mode of a disabled server is not changed: it is not probed, so the gateway's belief would
				// be stale by design when it is enabled again (widening: that transient is not judged).
				if !m.Disabled[s] {
					cand = append(cand, s)
				}
			}
			if len(cand) == 0 {
				continue
			}
			e := g.PickInt(cand)
			choices := []bed.HealthMode{bed.HealthOK, bed.HealthOK, bed.HealthOK, bed.Health500, bed.HealthClose}
			if allowHang {
				choices = append(choices, bed.HealthHang)
			}
			nm := choices[g.Intn(len(choices))]
			if nm == h.modes[e] {
				continue
			}
			if h.modes[e] == bed.HealthHang && !allowHang {
				continue
			}
			after.Mode[e] = modeName[nm]
			after.Belief[e] = healthyMode(nm)
			old := m.Belief[e]
			return &change{Kind: "health", Target: e, Detail: modeName[h.modes[e]] + "->" + modeName[nm], after: after, run: func() bool {
				since := bed.Now()
				h.setMode(e, nm)
				if ep := h.endpoint(e); ep != nil {
					ep.TriggerHealthCheck()
				}
				if old != healthyMode(nm) {
					return h.waitBelief(e, since, nm, healthyMode(nm))
				}
				return true
			}}
		case 3, 4: // disable
			var cand []int
			for _, s := range m.Servers {
				if !m.Disabled[s] {
					cand = append(cand, s)
				}
			}
			if len(cand) == 0 || (len(m.Disabled) > 0 && h.forceDup == "" && g.Chance(0.5)) {
				continue
			}
			e := g.PickInt(cand)
			after.Disabled[e] = true
			delete(after.Dup, e)
			if g.Chance(0.4) {
				after.Dup[e] = []string{"before", "after"}[g.Intn(2)]
			}
			if h.forceDup != "" {
				after.Dup[e] = h.forceDup
			}
			return &change{Kind: "disable", Target: e, Detail: "listed twice: " + after.Dup[e], after: after, run: func() bool {
				if after.Dup[e] != "" {
					h.r.Count("disable_steps_with_a_second_unflagged_entry_"+after.Dup[e], 1)
				}
				ep := h.endpoint(e)
				class := "idle-at-disable"
				if !h.apply(after) {
					return false
				}
				h.open[e] = &disInt{stub: e, from: bed.Now(), class: class, ep: ep}
				time.Sleep(settle + 20*time.Millisecond)
				if tickerWait {
					// cover the 5 s health ticker and the 5 s probe timeout
					h.pokeDisabled()
					time.Sleep(5500 * time.Millisecond)
					h.r.Count("disabled_ticker_waits", 1)
				}
				return true
			}}
		case 5, 6: // enable
			var cand []int
			for _, s := range m.Servers {
				if m.Disabled[s] {
					cand = append(cand, s)
				}
			}
			if len(cand) == 0 {
				continue
			}
			e := g.PickInt(cand)
			delete(after.Disabled, e)
			delete(after.Dup, e)
			if g.Chance(0.2) {
				after.Dup[e] = "same"
			}
			after.Belief[e] = healthyMode(h.modes[e])
			return &change{Kind: "enable", Target: e, after: after, run: func() bool {
				if di := h.open[e]; di != nil {
					h.closeInterval(di, bed.Now())
				}
				since := bed.Now()
				if !h.apply(after) {
					return false
				}
				h.reenabled[e] = true
				if healthyMode(h.modes[e]) {
					// also shows that probing is restarted by the enabling sync
					return h.waitBelief(e, since, h.modes[e], true)
				}
				return true
			}}
		case 7: // add a server
			var cand []int
			for e := 0; e < h.k; e++ {
				if !m.isServer(e) {
					cand = append(cand, e)
				}
			}
			if len(cand) == 0 {
				continue
			}
			e := g.PickInt(cand)
			nm := []bed.HealthMode{bed.HealthOK, bed.HealthOK, bed.HealthOK, bed.Health500, bed.HealthClose}[g.Intn(5)]
			dis := g.Chance(0.2)
			pos := g.Intn(len(after.Servers) + 1)
			after.Servers = append(after.Servers[:pos:pos], append([]int{e}, m.Servers[pos:]...)...)
			after.Mode[e] = modeName[nm]
			delete(after.Dup, e)
			if dis {
				after.Disabled[e] = true
				if g.Chance(0.4) {
					after.Dup[e] = []string{"before", "after"}[g.Intn(2)]
					h.r.Count("created_disabled_with_a_second_unflagged_entry", 1)
				}
			}
			// a new endpoint starts as unhealthy and is probed at once unless it is created disabled
			after.Belief[e] = !dis && healthyMode(nm)
			return &change{Kind: "server-add", Target: e, Detail: fmt.Sprintf("disabled=%v mode=%s", dis, modeName[nm]), after: after, run: func() bool {
				if di := h.open[e]; di != nil {
					h.closeInterval(di, bed.Now()) // it was removed earlier: judge the time it was not listed
				}
				h.setMode(e, nm) // not a server yet: invisible to the gateway
				delete(h.reenabled, e)
				if !h.apply(after) {
					return false
				}
				if dis {
					h.open[e] = &disInt{stub: e, from: bed.Now(), class: "created-disabled", ep: h.endpoint(e)}
					return true
				}
				if healthyMode(nm) {
					return h.waitReady(e, true)
				}
				return true
			}}
		case 8: // remove a server
			if len(m.Servers) < 2 {
				continue
			}
			i := g.Intn(len(m.Servers))
			e := m.Servers[i]
			if h.modes[e] == bed.HealthHang {
				continue
			}
			after.Servers = append(after.Servers[:i:i], m.Servers[i+1:]...)
			delete(after.Disabled, e)
			delete(after.Dup, e)
			delete(after.Belief, e)
			return &change{Kind: "server-remove", Target: e, after: after, run: func() bool {
				if di := h.open[e]; di != nil {
					h.closeInterval(di, bed.Now())
				}
				ep := h.endpoint(e)
				if !h.apply(after) {
					return false
				}
				h.open[e] = &disInt{stub: e, from: bed.Now(), class: "removed", ep: ep, removed: true}
				return true
			}}
		case 10: // one update removes a server AND adds one for which no client can be built: the sync fails half-way
			if len(m.Servers) < 2 || m.Bad != "" {
				continue
			}
			i := g.Intn(len(m.Servers))
			e := m.Servers[i]
			if h.modes[e] == bed.HealthHang {
				continue
			}
			after.Servers = append(after.Servers[:i:i], m.Servers[i+1:]...)
			delete(after.Disabled, e)
			delete(after.Dup, e)
			delete(after.Belief, e)
			// Both pass the API's "starts with http:// or https://" test; url.Parse rejects them when the client is built.
			after.Bad = []string{"http://[::1", "http://a b", "https://[fe80::1%en0", "http://bad host:6443"}[g.Intn(4)]
			return &change{Kind: "server-replace-failing-add", Target: e, Detail: after.Bad, after: after, run: func() bool {
				if di := h.open[e]; di != nil {
					h.closeInterval(di, bed.Now())
				}
				ep := h.endpoint(e)
				// The object is the lister's latest version, so its server list is the current one even though the sync
				// fails and asks for a requeue; the queue re-delivers it (at most 3 times) and gives up.
				sr := h.gw.Apply(h.object(after))
				requeues := 0
				for sr.Panic == nil && sr.Requeue && requeues < 3 {
					requeues++
					item, ok, _ := h.gw.Indexer.GetByKey(h.host)
					if !ok {
						break
					}
					sr = h.gw.Deliver(item.(*proxyv1alpha1.UpstreamCluster))
				}
				if sr.Panic != nil {
					h.fail(fmt.Sprintf("controller panicked on an object with an unbuildable server %q: %v", after.Bad, sr.Panic))
					return false
				}
				h.r.Count("partially_failing_updates", 1)
				h.r.Count("partially_failing_update_redeliveries", requeues)
				h.open[e] = &disInt{stub: e, from: bed.Now(), class: "removed-with-failing-add", ep: ep, removed: true}
				time.Sleep(settle + 20*time.Millisecond)
				return true
			}}
		case 9: // subset of a policy changes
			p := g.Intn(h.np)
			after.Subsets[p] = h.genSubset(g)
			return &change{Kind: "subset", Target: p, Detail: fmt.Sprint(after.Subsets[p]), after: after, run: func() bool { return h.apply(after) }}
		default:
			return &change{Kind: "resync", after: after, run: func() bool { return h.apply(after) }}
		}
	}
	after := m.clone()
	return &change{Kind: "resync", after: after, run: func() bool { return h.apply(after) }}
}

// url is the spelling of stub e's URL used in this history's objects.
func (h *hist) url(e int) string {
	u := h.stubs[e].URL
	switch h.spell[e] {
	case "v6":
		return strings.Replace(u, "127.0.0.1", "[::ffff:127.0.0.1]", 1)
	case "upper":
		return strings.Replace(u, "127.0.0.1", "LOCALHOST", 1)
	}
	return u
}

// probes returns the instants of the /healthz probes stub e received from THIS history's gateway.
func (h *hist) probes(e int) []int64 { return h.stubs[e].ProbesFrom(h.gwTok) }

func (h *hist) close() {
	for _, s := range h.stubs {
		n := s.StrayProbeCount(h.gwTok)
		if h.twinTok != "" {
			n -= len(s.ProbesFrom(h.twinTok))
		}
		if n > 0 {
			h.r.Count("observation_stray_probes_from_other_histories", n)
		}
	}
	h.gw.Close()
	for _, s := range h.stubs {
		s.Close()
	}
}

func newHist(r *vkit.R, id, k int) *hist {
	h := &hist{r: r, id: id, k: k, host: fmt.Sprintf("c03-%d.test", id), open: map[int]*disInt{}, reenabled: map[int]bool{}, spell: map[int]string{}, modes: make([]bed.HealthMode, k), modeLog: make([][]modeEv, k)}
	for i := 0; i < k; i++ {
		h.stubs = append(h.stubs, bed.NewStub(fmt.Sprintf("h%d-s%d", id, i)))
	}
	h.gwTok = fmt.Sprintf("gwt-c03-%d-%s", id, h.host)
	h.gw = bed.NewGateway(bed.GatewayOptions{}).Start()
	h.tok = h.gw.Tokens.Add(&user.DefaultInfo{Name: "c03-user", Groups: []string{"system:authenticated"}})
	return h
}

func runHistory(r *vkit.R, id int, g *vkit.Rand, steps int, allowHang, tickerWait bool) {
	k := g.Range(2, 5)
	h := newHist(r, id, k)
	defer h.close()
	h.np = g.Range(1, 3)
	if spellingsWork && id%3 == 1 {
		for e := 0; e < k; e++ {
			h.spell[e] = []string{"", "v6", "upper"}[g.Intn(3)]
			if h.spell[e] != "" {
				r.Count("servers_spelled_"+h.spell[e], 1)
			}
		}
		r.Count("histories_with_ipv6_literal_or_upper_case_server_spellings", 1)
	}
	m := &model{Disabled: map[int]bool{}, Belief: map[int]bool{}, Mode: map[int]string{}, Dup: map[int]string{}}
	perm := g.Perm(k)
	ns := g.Range(1, k)
	for i := 0; i < k; i++ {
		nm := bed.HealthOK
		if g.Chance(0.12) {
			nm = []bed.HealthMode{bed.Health500, bed.HealthClose}[g.Intn(2)]
		}
		h.setMode(i, nm)
		m.Mode[i] = modeName[nm]
	}
	for i := 0; i < ns; i++ {
		e := perm[i]
		m.Servers = append(m.Servers, e)
		if ns > 1 && g.Chance(0.15) {
			m.Disabled[e] = true
			if g.Chance(0.5) {
				m.Dup[e] = []string{"before", "after"}[g.Intn(2)]
				r.Count("created_disabled_with_a_second_unflagged_entry", 1)
			}
		}
		m.Belief[e] = !m.Disabled[e] && healthyMode(h.modes[e])
	}
	h.m = m
	for p := 0; p < h.np; p++ {
		m.Subsets = append(m.Subsets, h.genSubset(g))
	}
	// start-up: in half of the histories requests are already arriving while the cluster is created and its endpoints are
	// probed for the first time (before: no such cluster, nothing may be forwarded; after: the converged first state)
	var startWG sync.WaitGroup
	if id%2 == 0 {
		none := &model{Disabled: map[int]bool{}, Belief: map[int]bool{}, Mode: m.Mode, Subsets: make([][]int, h.np)}
		for w := g.Range(2, 5); w > 0; w-- {
			rg := g.Fork("start")
			startWG.Add(1)
			go func() {
				defer startWG.Done()
				for j := 0; j < 6; j++ {
					p := rg.Intn(h.np)
					h.send(rg, &reqRec{Policy: p, Phase: "racing", Step: 0, Change: "cluster-create", Before: none, After: m, Allowed: m.pickable(p, k)})
					r.Count("requests_during_cluster_creation", 1)
				}
			}()
		}
	}
	ok := h.apply(m)
	if ok {
		for _, e := range m.Servers {
			if m.Disabled[e] {
				h.open[e] = &disInt{stub: e, from: bed.Now(), class: "created-disabled", ep: h.endpoint(e)}
			} else if m.Belief[e] && !h.waitReady(e, true) {
				ok = false
				break
			}
		}
	}
	startWG.Wait()
	if !ok {
		return
	}
	// twin cluster (every third history): lists a seeded part of the same upstreams with its own disabled flags
	if id%3 == 0 {
		h.twinHost = fmt.Sprintf("c03-%d-twin.test", id)
		h.twinTok = fmt.Sprintf("gwt-c03-%d-%s", id, h.twinHost)
		h.twinServers, h.twinDisabled = map[int]bool{}, map[int]bool{}
		var servers []string
		dis := map[string]bool{}
		for _, e := range g.Perm(k)[:g.Range(1, k)] {
			h.twinServers[e] = true
			servers = append(servers, h.url(e))
			if g.Chance(0.35) {
				h.twinDisabled[e] = true
				dis[h.url(e)] = true
			}
		}
		sr := h.gw.Apply(bed.BuildCluster(bed.ClusterSpec{Name: h.twinHost, Servers: servers, Disabled: dis, Token: h.twinTok}))
		if sr.Err != nil || sr.Panic != nil || sr.Requeue {
			h.fail(fmt.Sprintf("controller did not apply the twin cluster: %+v", sr))
			return
		}
		h.twinFrom = bed.Now()
		for e := range h.twinServers {
			if !h.twinDisabled[e] && healthyMode(h.modes[e]) && !h.gw.WaitReady(h.twinHost, h.url(e), true, watchdog) {
				h.fail("twin cluster endpoint did not become ready within the watchdog")
				return
			}
		}
		r.Count("histories_with_a_twin_cluster_sharing_upstreams", 1)
	}
	h.stableBurst(g, g.Range(8, 16), 0)

	var changes []map[string]interface{}
	for s := 1; s <= steps && !h.bad; s++ {
		force := -1
		switch s {
		case 2:
			force = 10 // server removed + unbuildable server added (the next step drops the bad entry)
		case 5:
			force = 11 // cluster deleted and re-created
		case 7:
			force = 3 // disable (with a second, unflagged entry: see below)
		}
		h.forceDup = ""
		if s == 7 {
			h.forceDup = []string{"before", "after"}[id%2]
		}
		ch := h.genChange(g, allowHang, tickerWait && s%5 == 0, force)
		if h.m.Bad != "" {
			// the object still lists the unbuildable server: every sync of it fails half-way, so the next change is the
			// operator dropping that entry (nothing else is changed while the object cannot be applied completely)
			after := h.m.clone()
			after.Bad = ""
			ch = &change{Kind: "drop-unbuildable-server", Detail: h.m.Bad, after: after, run: func() bool { return h.apply(after) }}
		}
		before := h.m.clone()
		after := ch.after
		r.Count("steps", 1)
		r.Count("change_"+ch.Kind, 1)
		changes = append(changes, map[string]interface{}{"step": s, "kind": ch.Kind, "target": ch.Target, "detail": ch.Detail})
		racing := g.Chance(0.55)
		if racing {
			W, M := g.Range(3, 8), g.Range(2, 5)
			threshold := int64(g.Range(1, W*M/2))
			var launched int64
			var wg sync.WaitGroup
			var mine []*reqRec
			var mmu sync.Mutex
			for w := 0; w < W; w++ {
				rg := g.Fork("r")
				wg.Add(1)
				go func() {
					defer wg.Done()
					for j := 0; j < M; j++ {
						p := rg.Intn(h.np)
						rec := &reqRec{Policy: p, Phase: "racing", Step: s, Change: ch.Kind, Before: before, After: after,
							Allowed: union(before.pickable(p, k), after.pickable(p, k))}
						atomic.AddInt64(&launched, 1)
						h.send(rg, rec)
						mmu.Lock()
						mine = append(mine, rec)
						mmu.Unlock()
					}
				}()
			}
			vkit.WaitFor(watchdog, func() bool { return atomic.LoadInt64(&launched) >= threshold })
			cStart := bed.Now()
			ok := ch.run()
			cEnd := bed.Now()
			wg.Wait()
			if !ok {
				return
			}
			for _, rec := range mine {
				if rec.Start < cEnd && rec.End > cStart {
					r.Count("racing_requests_overlapping_the_change", 1)
				}
			}
			r.Count("racing_phases", 1)
		} else if !ch.run() {
			return
		}
		h.m = after
		h.pokeDisabled()
		h.stableBurst(g, g.Range(12, 30), s)
		r.Count("stable_phases", 1)
		if h.stop {
			break
		}
	}
	if h.bad {
		return
	}
	// end of history: one more poke at the endpoints that are still disabled, then judge their intervals
	h.pokeDisabled()
	if len(h.open) > 0 {
		time.Sleep(100 * time.Millisecond)
	}
	for _, di := range h.open {
		h.closeInterval(di, bed.Now())
	}
	// the twin cluster's disabled endpoints were created disabled: no probe with the twin's credential may have reached
	// them (whatever the main cluster, which may have the same upstream enabled, does)
	for e := range h.twinDisabled {
		r.Count("twin_disabled_endpoints_judged", 1)
		var late []float64
		for _, t := range h.stubs[e].ProbesFrom(h.twinTok) {
			if t > h.twinFrom+int64(settle) {
				late = append(late, float64(t-h.twinFrom)/1e6)
			}
		}
		if len(late) > 0 {
			r.Violation("C03/disabled/probe-while-disabled/twin-cluster-created-disabled",
				fmt.Sprintf("the twin cluster lists stub %d as disabled, yet %d probe(s) carrying the twin cluster's credential reached it %v ms after it was created (the main cluster lists servers %v, disabled %v)",
					e, len(late), late, h.m.Servers, keys(h.m.Disabled)),
				map[string]interface{}{"history": h.id, "stub": e, "twin_servers": keys(h.twinServers), "twin_disabled": keys(h.twinDisabled), "model": h.m.clone()})
		}
	}
	h.judge(changes)
}

// judge decides every request of the history against the stub logs (by request id, so a late arrival is still seen).
func (h *hist) judge(changes interface{}) {
	r := h.r
	seenBy := map[string][]int{}
	for i, s := range h.stubs {
		for _, sn := range s.SeenAll() {
			if sn.ID != "" {
				seenBy[sn.ID] = append(seenBy[sn.ID], i)
			}
		}
	}
	for _, rec := range h.recs {
		r.Eval(1)
		r.Count("requests_"+rec.Phase, 1)
		if rec.Method == "POST" || rec.Method == "PUT" || rec.Method == "PATCH" {
			r.Count("requests_with_a_body", 1)
		}
		hits := seenBy[rec.ID]
		st := rec.After
		key := fmt.Sprintf("%v|%v|%v|%v|%d|%s", st.Servers, st.Disabled, st.Belief, st.Subsets[rec.Policy], rec.Policy, rec.Phase)
		if rec.Before != nil {
			key += fmt.Sprintf("|%v|%v|%v|%v", rec.Before.Servers, rec.Before.Disabled, rec.Before.Belief, rec.Before.Subsets[rec.Policy])
		}
		// non-trivial: some stub of the history may NOT be picked for this request
		if len(rec.Allowed) < h.k {
			r.Distinct(vkit.Hash64(key))
		}
		if rec.Before != nil && !sameSet(rec.Before.pickable(rec.Policy, h.k), rec.After.pickable(rec.Policy, h.k)) {
			r.Count("racing_requests_pickable_set_changes", 1)
		}
		w := map[string]interface{}{"history": h.id, "request": rec.ID, "policy": rec.Policy, "phase": rec.Phase, "step": rec.Step, "change": rec.Change,
			"state_before_change": rec.Before, "state": rec.After, "allowed_stubs": keys(rec.Allowed), "seen_by_stubs": hits, "status": rec.Status, "client_error": rec.Err, "changes": changes}
		scen := rec.Phase
		if rec.Phase == "racing" {
			scen += "/change=" + rec.Change
		}
		if len(hits) > 1 {
			r.Violation("C03/"+scen+"/forwarded-more-than-once", fmt.Sprintf("request %s was received %d times by stubs %v", rec.ID, len(hits), hits), w)
			continue
		}
		if len(hits) == 1 {
			r.Count("forwarded", 1)
			e := hits[0]
			if !rec.Allowed[e] {
				why := rec.After.why(rec.Policy, e)
				if rec.Twin {
					why = "not-in-server-list"
					if h.twinServers[e] {
						why = "disabled"
					}
				}
				what := fmt.Sprintf("request %s (policy %d) was forwarded to stub %d which is %s in the current state", rec.ID, rec.Policy, e, why)
				if rec.Twin {
					what = fmt.Sprintf("request %s for the twin cluster %s (servers %v, disabled %v) was forwarded to stub %d, which is %s in THAT cluster (the main cluster of the history lists servers %v, disabled %v)",
						rec.ID, h.twinHost, keys(h.twinServers), keys(h.twinDisabled), e, why, rec.After.Servers, keys(rec.After.Disabled))
				}
				if rec.Before != nil {
					what = fmt.Sprintf("request %s (policy %d) sent around one change (%s) was forwarded to stub %d, which may be picked neither before (%s) nor after (%s) the change",
						rec.ID, rec.Policy, rec.Change, e, rec.Before.why(rec.Policy, e), why)
				}
				r.Violation("C03/"+scen+"/forwarded-to-"+why, what, w)
			}
			continue
		}
		if len(rec.Allowed) == 0 {
			r.Count("no_pickable_endpoint_cases", 1)
			if rec.Status == 0 && rec.Err != "" {
				// the harness's own client could not talk to the in-process gateway (e.g. out of file descriptors)
				r.Count("client_side_errors", 1)
				clientErrOnce.Do(func() { r.Inconclusive("client-side error talking to the in-process gateway: " + rec.Err) })
			} else if rec.Status != 503 {
				r.Violation(fmt.Sprintf("C03/%s/no-pickable-endpoint/status-%d", scen, rec.Status),
					fmt.Sprintf("request %s (policy %d): no endpoint may be picked, nothing was forwarded, but the client got status %d (err %q) instead of 503", rec.ID, rec.Policy, rec.Status, rec.Err), w)
			} else {
				r.Count("got_503_as_required", 1)
			}
			continue
		}
		// Not forwarded although an endpoint was pickable: the statement does not forbid a refusal (widening), but the run
		// must not consist of refusals (Require below).
		if rec.Phase == "stable" {
			r.Count("stable_not_forwarded_although_pickable", 1)
			// "When no such endpoint exists the client gets 503": a 503 in a phase in which nothing changes, while every
			// endpoint the request may be picked to reported ready before and after the burst, says "no such endpoint" when
			// one exists. (Around a change, at start-up and while a belief may be stale a refusal is unavoidable: not judged.)
			if rec.Status == 503 && rec.ReadyThroughout {
				r.Violation("C03/stable/refused-although-pickable",
					fmt.Sprintf("request %s (policy %d) got 503 and was not forwarded in a stable phase although stubs %v may be picked and reported ready before and after the burst", rec.ID, rec.Policy, keys(rec.Allowed)), w)
			}
		}
	}
	// a request id that reached a stub but is unknown to the client side cannot happen (ids are generated here)
	if r.WantSample() {
		r.Sample(map[string]interface{}{"kind": "history", "stubs": h.k, "policies": h.np, "changes": changes, "requests": len(h.recs), "final_state": h.m})
	}
}

func sameSet(a, b map[int]bool) bool {
	if len(a) != len(b) {
		return false
	}
	for k := range a {
		if !b[k] {
			return false
		}
	}
	return true
}

func keys(m map[int]bool) []int {
	out := []int{}
	for k := range m {
		out = append(out, k)
	}
	sort.Ints(out)
	return out
}

// hungProbeScenario: the probe of an endpoint hangs (stub never answers /healthz; the real checker times out after
// 5 s); the endpoint is disabled while that probe is in flight; after the settle time the harness calls
// TriggerHealthCheck (the proxy error path does the same) and waits 6 s (probe timeout and health ticker). No probe may
// be started while the endpoint is disabled; traffic goes to the other endpoint only; enabling restarts probing.
func hungProbeScenario(r *vkit.R, id int, g *vkit.Rand) {
	h := newHist(r, id, 2)
	defer h.close()
	h.np = 1
	m := &model{Servers: []int{0, 1}, Disabled: map[int]bool{}, Belief: map[int]bool{0: true, 1: true}, Mode: map[int]string{0: "ok", 1: "ok"}, Subsets: [][]int{nil}}
	if g.Bool() {
		m.Subsets[0] = []int{1, 0}
	}
	h.m = m
	if !h.apply(m) || !h.waitReady(0, true) || !h.waitReady(1, true) {
		return
	}
	ep := h.endpoint(1)
	n0 := len(h.probes(1))
	h.setMode(1, bed.HealthHang)
	m.Mode[1] = "hang"
	ep.TriggerHealthCheck()
	if !vkit.WaitFor(watchdog, func() bool { return len(h.probes(1)) > n0 }) {
		h.fail("triggered probe did not reach the stub")
		return
	}
	// disable at a seeded offset into the 5 s the probe hangs
	time.Sleep(time.Duration(g.Range(0, 1500)) * time.Millisecond)
	after := m.clone()
	after.Disabled[1] = true
	// the hung probe still counts as healthy until it times out; traffic may reach stub 1 only before the disabling sync
	h.stableBurst(g, 6, 0)
	if !h.apply(after) {
		return
	}
	h.m = after
	di := &disInt{stub: 1, from: bed.Now(), class: "hung-probe-at-disable", ep: ep}
	h.open[1] = di
	time.Sleep(settle + 20*time.Millisecond)
	nTrig := g.Range(1, 3)
	for i := 0; i < nTrig; i++ {
		ep.TriggerHealthCheck()
	}
	r.Count("disabled_triggers", nTrig)
	h.stableBurst(g, 8, 1)
	time.Sleep(6 * time.Second)
	r.Count("disabled_ticker_waits", 1)
	h.stableBurst(g, 8, 2)
	h.closeInterval(di, bed.Now())
	// enable again with a healthy stub: the timed-out probe has made the belief "unhealthy" by now
	h.setMode(1, bed.HealthOK)
	en := after.clone()
	delete(en.Disabled, 1)
	en.Mode[1] = "ok"
	en.Belief[1] = false
	if !h.apply(en) {
		return
	}
	if !h.waitReady(1, true) {
		return
	}
	en.Belief[1] = true
	h.m = en
	h.stableBurst(g, 10, 3)
	r.Count("hung_probe_scenarios", 1)
	h.judge([]string{"stub1 healthz hangs", "disable stub1 while the probe is in flight", "TriggerHealthCheck, wait 6s", "enable stub1 (healthy)"})
}

// probeTimeoutScenario: two healthy endpoints; the /healthz of one stops being answered (hang, or connection closed);
// after the probe timeout the endpoint must not be ready and the traffic must go to the other endpoint only.
func probeTimeoutScenario(r *vkit.R, id int, g *vkit.Rand) {
	h := newHist(r, id, 2)
	defer h.close()
	h.np = 1
	m := &model{Servers: []int{0, 1}, Disabled: map[int]bool{}, Belief: map[int]bool{0: true, 1: true}, Mode: map[int]string{0: "ok", 1: "ok"}, Subsets: [][]int{nil}}
	if g.Bool() {
		m.Subsets[0] = []int{1, 0}
	}
	for i := 0; i < 2; i++ {
		h.setMode(i, bed.HealthOK)
	}
	h.m = m
	if !h.apply(m) || !h.waitReady(0, true) || !h.waitReady(1, true) {
		return
	}
	h.stableBurst(g, 8, 0)
	nm := bed.HealthHang
	if id%4 == 3 {
		nm = bed.HealthClose
	}
	since := bed.Now()
	h.setMode(1, nm)
	if ep := h.endpoint(1); ep != nil && g.Bool() {
		ep.TriggerHealthCheck() // otherwise the 5 s ticker finds out
	}
	if !h.waitBelief(1, since, nm, false) {
		return
	}
	after := m.clone()
	after.Belief[1] = false
	after.Mode[1] = modeName[nm]
	h.m = after
	h.stableBurst(g, 16, 1)
	r.Count("probe_timeout_scenarios", 1)
	h.judge([]string{"two healthy endpoints", "stub1 /healthz -> " + modeName[nm], "wait until the endpoint is not ready", "stable burst"})
}

// reenableScenario: two healthy endpoints; one is disabled and enabled again (its stub stays healthy, so it is ready at
// once); later its /healthz turns unhealthy (500, or the mirror: it was unhealthy, and turns healthy after the re-enable):
// the gateway must find out (probing was restarted by the enabling sync) and stop / start serving it.
func reenableScenario(r *vkit.R, id int, g *vkit.Rand) {
	h := newHist(r, id, 2)
	defer h.close()
	h.np = 1
	mirror := id%4 == 3
	m := &model{Servers: []int{0, 1}, Disabled: map[int]bool{}, Belief: map[int]bool{0: true, 1: !mirror}, Mode: map[int]string{0: "ok", 1: "ok"}, Subsets: [][]int{nil}}
	h.setMode(0, bed.HealthOK)
	h.setMode(1, bed.HealthOK)
	if mirror {
		h.setMode(1, bed.Health500)
		m.Mode[1] = "500"
	}
	h.m = m
	if !h.apply(m) || !h.waitReady(0, true) {
		return
	}
	if !mirror && !h.waitReady(1, true) {
		return
	}
	if mirror {
		// the first probe of the new endpoint must have been answered (500) before the endpoint is disabled
		if !vkit.WaitFor(watchdog, func() bool { return len(h.probes(1)) > 0 }) {
			h.fail("first probe did not reach the stub")
			return
		}
		time.Sleep(20 * time.Millisecond)
	}
	dis := m.clone()
	dis.Disabled[1] = true
	if !h.apply(dis) {
		return
	}
	h.m = dis
	time.Sleep(time.Duration(g.Range(5, 60)) * time.Millisecond)
	h.stableBurst(g, 6, 0)
	if !h.apply(m) {
		return
	}
	h.m = m
	h.reenabled[1] = true
	time.Sleep(time.Duration(g.Range(5, 60)) * time.Millisecond)
	h.stableBurst(g, 6, 1)
	since := bed.Now()
	nm := bed.Health500
	if mirror {
		nm = bed.HealthOK
	}
	h.setMode(1, nm)
	if ep := h.endpoint(1); ep != nil {
		ep.TriggerHealthCheck()
	}
	if !h.waitBelief(1, since, nm, mirror) {
		return
	}
	after := m.clone()
	after.Belief[1] = mirror
	after.Mode[1] = modeName[nm]
	h.m = after
	h.stableBurst(g, 16, 2)
	r.Count("reenable_scenarios", 1)
	h.judge([]string{"two endpoints", "disable stub1", "enable stub1", "stub1 /healthz -> " + modeName[nm], "wait until the readiness follows", "stable burst"})
}

// disableRacingProbes: probe outcomes are being recorded WHILE the disabling spec update is applied. Several goroutines
// call TriggerHealthCheck on the endpoint without pause (healthy stub, so every probe records "healthy"), the main
// goroutine alternates Apply(enabled) / Apply(disabled) for a fixed number of iterations. After EVERY disabling sync
// returned: the endpoint must not report ready, a request sent now must not reach it (503 when it is the only server),
// and - on some iterations, after the settle time - no new probe may reach it although the triggers continue.
func disableRacingProbes(r *vkit.R, id int, g *vkit.Rand, iters int) {
	k := g.Range(1, 2)
	h := newHist(r, id, k)
	defer h.close()
	h.np = 1
	m := &model{Disabled: map[int]bool{}, Belief: map[int]bool{}, Mode: map[int]string{}, Subsets: [][]int{nil}}
	for i := 0; i < k; i++ {
		h.setMode(i, bed.HealthOK)
		m.Servers = append(m.Servers, i)
		m.Belief[i] = true
		m.Mode[i] = "ok"
	}
	if k == 2 && g.Bool() {
		m.Subsets[0] = []int{1, 0}
	}
	h.m = m
	if !h.apply(m) {
		return
	}
	for i := 0; i < k; i++ {
		if !h.waitReady(i, true) {
			return
		}
	}
	ep := h.endpoint(0)
	dis := m.clone()
	dis.Disabled[0] = true
	stop := make(chan struct{})
	var hw sync.WaitGroup
	nh := g.Range(2, 4)
	for i := 0; i < nh; i++ {
		hw.Add(1)
		go func() {
			defer hw.Done()
			for n := 0; ; n++ {
				select {
				case <-stop:
					return
				default:
				}
				// paced (a few thousand calls per second and goroutine): enough to keep the checker probing back to back,
				// and bounded even if every call should start a probe of its own
				ep.TriggerHealthCheck()
				time.Sleep(time.Duration(200+n%5*100) * time.Microsecond)
			}
		}()
	}
	defer func() { close(stop); hw.Wait() }()
	settleEvery := iters / 3
	probeWaitExpired := 0
	found := 0
	for it := 0; it < iters && !h.bad; it++ {
		if !h.apply(m) {
			return
		}
		h.m = m
		// let the restarted checker run for a seeded moment so that a probe result lands around the disabling sync
		switch g.Intn(3) {
		case 0:
		case 1:
			for t := bed.Now() + int64(g.Range(0, 600))*1000; bed.Now() < t; {
				runtime.Gosched()
			}
		default:
			if probeWaitExpired >= 3 {
				break // no probes are coming (judged elsewhere); do not spend a second per iteration on it
			}
			n0 := len(h.probes(0))
			if !vkit.WaitFor(time.Second, func() bool { return len(h.probes(0)) > n0 }) {
				probeWaitExpired++
			}
		}
		if !h.apply(dis) {
			return
		}
		from := bed.Now()
		h.m = dis
		r.Count("racing_disable_iterations", 1)
		if found >= 3 {
			break // the scenario has its verdict
		}
		if ep.IsReady() {
			found++
			r.Violation("C03/disable-racing-probe-result/still-ready-after-disable",
				fmt.Sprintf("iteration %d: the disabling sync returned while health-probe results were being recorded, and the endpoint still reports ready", it),
				map[string]interface{}{"history": h.id, "iteration": it, "servers": k, "trigger_goroutines": nh, "model": dis})
		}
		h.send(g, &reqRec{Policy: 0, Phase: "disable-racing-probe-result", Step: it, After: dis, Allowed: dis.pickable(0, k)})
		if it%settleEvery == settleEvery-1 || it == iters-1 {
			di := &disInt{stub: 0, from: from, class: "racing-probe-result", ep: ep}
			h.open[0] = di
			time.Sleep(settle + 60*time.Millisecond)
			h.send(g, &reqRec{Policy: 0, Phase: "disable-racing-probe-result", Step: it, After: dis, Allowed: dis.pickable(0, k)})
			if n := len(h.probes(0)); true {
				before := r.Violations()
				h.closeInterval(di, bed.Now())
				if r.Violations() != before || n > 200000 {
					found += 3
				}
			}
		}
	}
	if h.bad {
		return
	}
	r.Count("racing_disable_scenarios", 1)
	h.judge([]string{fmt.Sprintf("%d goroutines call TriggerHealthCheck on stub0's endpoint continuously", nh), fmt.Sprintf("%d x (Apply enabled, Apply disabled, check)", iters)})
}

var clientErrOnce sync.Once

// spellingsWork: whether the sandbox can reach a 127.0.0.1 listener through "[::ffff:127.0.0.1]" and "LOCALHOST" at all
// (decided once with plain net.Dial against a throw-away listener; if not, the spellings are not generated and the run
// says so instead of blaming the gateway).
var spellingsWork = func() bool {
	l, err := net.Listen("tcp", "127.0.0.1:0")
	if err != nil {
		return false
	}
	defer l.Close()
	go func() {
		for {
			c, err := l.Accept()
			if err != nil {
				return
			}
			c.Close()
		}
	}()
	_, port, _ := net.SplitHostPort(l.Addr().String())
	for _, host := range []string{"[::ffff:127.0.0.1]", "LOCALHOST"} {
		c, err := net.DialTimeout("tcp", host+":"+port, 2*time.Second)
		if err != nil {
			return false
		}
		c.Close()
	}
	return true
}()

func TestCheck(t *testing.T) {
	vkit.Run(t, "C03", "exploration", func(r *vkit.R) {
		r.Rule("Seeded histories on a real gateway (controller VerifSync + GatewayHealthCheck + proxy handler chain) with 2..5 stub upstreams and 1..3 policies " +
			"(policy p matches resource r<p>; ordered subsets, possibly naming non-servers, or none). Steps: /healthz outcome of an enabled server changes (ok/500/close/hang) " +
			"followed by TriggerHealthCheck and a wait for IsReady; disable/enable; server add (possibly created disabled)/remove; subset change; no-op resync. " +
			"Each step is followed by a stable burst of 12..30 concurrent requests; 55% of the steps have 6..40 racing requests in flight while the single change is applied. " +
			"Oracle by request id over the stub logs: stable -> the receiving stub is a server, in the subset, enabled and believed healthy; racing -> pickable before or after the change; " +
			"at most one stub, once; empty pickable set -> 503 and nothing forwarded; disabled endpoints: no /healthz probe between (disabling sync returned + 500 ms) and the enabling sync " +
			"although TriggerHealthCheck is called on the retained EndpointInfo (some intervals span > 5.5 s to cover the ticker and the probe timeout; extra scenarios disable an endpoint " +
			"while its probe hangs); probes to servers that are no longer in the latest object's list are only counted (C15's clause). Partially failing updates: one object removes a server and adds an " +
			"endpoint string for which no client can be built (sync fails half-way, requeue re-delivered 3 times): the pickable set is the latest object's server list, the next step drops " +
			"the bad entry. Racing scenarios: goroutines call TriggerHealthCheck continuously while the spec alternates enabled/disabled for a fixed number of iterations; after every " +
			"disabling sync the endpoint must not be ready / receive a request / (after the settle) a probe. Non-trivial = some stub of the history may not be picked; distinct = hash(state, previous state when racing, policy, phase).")
		r.Assume("the gateway's belief about an endpoint's health is the result of its latest completed probe; the harness waits for IsReady() after every change that flips it, and never changes the /healthz mode of a disabled server")
		r.Assume("a probe logged by a stub within 500 ms after the disabling sync returned is taken as already in flight when the sync returned")

		if racePass {
			os.Setenv("VERIF_NO_EVIDENCE", "1")
		}
		n := tierN(r, 40, 600)
		steps := tierN(r, 10, 14)
		hung := tierN(r, 12, 40)
		racers := tierN(r, 6, 12)
		timeouts := tierN(r, 4, 16)
		reenables := tierN(r, 4, 16)
		racerIters := tierN(r, 800, 2000)
		vkit.Sched.Enable(uint64(r.Seed), 0.02, 0.01, 0.0005)
		// server-list churn under concurrent picks (see churn_test.go); runs first so that a fatal error shows up early
		churn := tierN(r, 6, 40)
		churnIters := tierN(r, 3000, 20000)
		r.Parallel(churn, 6, func(i int, g *vkit.Rand) { serverListChurn(r, g, churnIters) })
		// a change applied between MatchAttributes and Pop (see pickaftersync_test.go)
		pickAfterSync(r)
		r.Require(r.Counter("churn_picks_concurrent_with_changes") > 1000, "too few picks concurrent with server-list changes")
		r.Parallel(n+hung+racers+timeouts+reenables, 16, func(i int, g *vkit.Rand) {
			if p := vkit.Safely(func() {
				// the scenarios that wait for probe timeouts (5..11 s) start first
				if i < timeouts {
					probeTimeoutScenario(r, 100000+i, g)
					return
				}
				i -= timeouts
				if i < reenables {
					reenableScenario(r, 200000+i, g)
					return
				}
				i -= reenables
				if i >= n+hung {
					disableRacingProbes(r, i, g, racerIters)
					return
				}
				if i%((n+hung)/hung) == 0 && i/((n+hung)/hung) < hung {
					hungProbeScenario(r, i, g)
					return
				}
				// a few histories script timeouts (5 s per probe) and long disabled intervals
				slow := i%10 == 7
				runHistory(r, i, g, steps, slow, slow)
				r.Count("histories", 1)
			}); p != nil {
				r.Inconclusive(fmt.Sprintf("harness panic in history %d: %v", i, p))
			}
		})
		vkit.Sched.Disable()
		r.ReportSched()

		tot := r.Counter("requests_stable") + r.Counter("requests_racing")
		r.Require(r.Counter("histories") >= int64(n*8/10), "too few histories completed")
		r.Require(tot >= int64(tierN(r, 6000, 80000)), "too few requests judged")
		r.Require(r.Counter("forwarded")*10 >= tot*4, "fewer than 40% of the requests were forwarded: selection was not exercised")
		r.Require(r.Counter("stable_not_forwarded_although_pickable")*50 <= r.Counter("requests_stable"), "more than 2% of the stable-phase requests with a pickable endpoint were not forwarded")
		r.Require(r.Counter("got_503_as_required") >= int64(tierN(r, 100, 1500)), "too few requests with an empty pickable set")
		r.Require(r.Counter("racing_requests_overlapping_the_change") >= int64(tierN(r, 150, 2500)), "too few racing requests overlapped their change")
		r.Require(r.Counter("disabled_intervals_judged") >= int64(tierN(r, 40, 500)), "too few disabled intervals judged")
		r.Require(r.Counter("disabled_triggers") >= int64(tierN(r, 60, 900)), "too few TriggerHealthCheck calls on disabled endpoints")
		r.Require(r.Counter("hung_probe_scenarios") >= int64(hung*8/10), "too few hung-probe scenarios completed")
		r.Require(r.Counter("disable_steps_with_a_second_unflagged_entry_before")+r.Counter("created_disabled_with_a_second_unflagged_entry") >= int64(tierN(r, 3, 60)) && r.Counter("disable_steps_with_a_second_unflagged_entry_after") >= int64(tierN(r, 3, 60)), "too few disabled servers that are listed a second time without the flag")
		r.Require(!spellingsWork || r.Counter("histories_with_ipv6_literal_or_upper_case_server_spellings") >= int64(tierN(r, 6, 100)), "too few histories with IPv6-literal / upper-case server spellings")
		r.Set("ipv6_literal_and_upper_case_spellings_reachable_in_this_sandbox", spellingsWork)
		r.Require(r.Counter("change_cluster-recreate") >= int64(tierN(r, 10, 200)), "too few delete-and-recreate steps")
		r.Require(r.Counter("histories_with_a_twin_cluster_sharing_upstreams") >= int64(tierN(r, 8, 120)) && r.Counter("requests_twin") >= int64(tierN(r, 300, 6000)), "too few histories with a twin cluster")
		r.Require(r.Counter("requests_during_cluster_creation") >= int64(tierN(r, 150, 2500)), "too few requests sent while a cluster was being created")
		r.Require(r.Counter("requests_with_a_body") >= int64(tierN(r, 1500, 25000)), "too few write requests with bodies")
		r.Require(r.Counter("reenable_scenarios") >= int64(reenables*3/4), "too few disable/enable/health-change scenarios completed")
		r.Require(r.Counter("probe_timeout_scenarios") >= int64(timeouts*3/4), "too few probe-timeout scenarios completed")
		r.Require(r.Counter("racing_disable_iterations") >= int64(racers*racerIters*8/10), "too few disable-while-recording-probe-results iterations")
		r.Require(r.Counter("partially_failing_updates") >= int64(tierN(r, 10, 150)), "too few partially failing updates (server removed + unbuildable server added)")
	})
}
