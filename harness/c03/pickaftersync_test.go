package c03

import (
	"fmt"
	"sort"
	"strings"
	"sync"

	"k8s.io/apiserver/pkg/authentication/user"
	"k8s.io/apiserver/pkg/authorization/authorizer"

	proxyv1alpha1 "github.com/kubewharf/kubegateway/pkg/apis/proxy/v1alpha1"
	"github.com/kubewharf/kubegateway/pkg/clusters"

	"verifharness/bed"
	"verifharness/vkit"
)

// API-level phase: a spec update (or a probe outcome) is applied BETWEEN the two calls the dispatcher makes for one
// request, `picker := ClusterInfo.MatchAttributes(attrs)` and `picker.Pop()` (in between it acquires the flow-control
// slot). The pick is Pop: server-list membership, "enabled" and "healthy" are fixed at that moment, so after
// `Sync(object without X)` / `Sync(X disabled)` / `UpdateStatus(X unhealthy)` has returned, Pop must not return X, and must
// fail (ErrNoReadyEndpoints -> 503) when nothing else may be picked. Through HTTP this window is microseconds wide and the
// racing oracle ("before or after") accepts both, therefore it is driven here deterministically.
// The policy is the one matched by MatchAttributes: an endpoint is accepted when it is in the subset of the policy as it
// was at MatchAttributes time OR as it is at Pop time (the statement does not fix which); a server added between the two
// calls may or may not be returned.

type pasState struct {
	Servers  []string        `json:"servers"`
	Disabled map[string]bool `json:"disabled"`
	Healthy  map[string]bool `json:"healthy"`
	Subset   []string        `json:"subset"` // nil = no subset
}

func (s *pasState) clone() *pasState {
	c := &pasState{Disabled: map[string]bool{}, Healthy: map[string]bool{}}
	c.Servers = append(c.Servers, s.Servers...)
	c.Subset = append(c.Subset, s.Subset...)
	for k, v := range s.Disabled {
		if v {
			c.Disabled[k] = true
		}
	}
	for k, v := range s.Healthy {
		c.Healthy[k] = v
	}
	return c
}

func has(l []string, e string) bool {
	for _, x := range l {
		if x == e {
			return true
		}
	}
	return false
}

// whyNot: first reason why e may not be the result of a Pop in state `now` for a picker matched in state `then`.
func whyNot(then, now *pasState, e string) string {
	switch {
	case !has(now.Servers, e):
		return "not-in-server-list"
	case now.Disabled[e]:
		return "disabled"
	case !now.Healthy[e]:
		return "unhealthy"
	}
	inThen := len(then.Subset) == 0 || has(then.Subset, e)
	inNow := len(now.Subset) == 0 || has(now.Subset, e)
	if !inThen && !inNow {
		return "outside-subset"
	}
	return ""
}

type pasBed struct {
	ci *clusters.ClusterInfo
	mu sync.Mutex
	st *pasState
}

func (b *pasBed) object(st *pasState) *proxyv1alpha1.UpstreamCluster {
	pol := proxyv1alpha1.DispatchPolicy{Strategy: proxyv1alpha1.RoundRobin, UpstreamSubset: append([]string(nil), st.Subset...),
		Rules: []proxyv1alpha1.DispatchPolicyRule{{Verbs: []string{"*"}, APIGroups: []string{"*"}, Resources: []string{"*"}, NonResourceURLs: []string{"*"}}}}
	return bed.BuildCluster(bed.ClusterSpec{Name: "c03.pas.test", Servers: st.Servers, Disabled: st.Disabled, Policies: []proxyv1alpha1.DispatchPolicy{pol}})
}

func (b *pasBed) healthCheck(e *clusters.EndpointInfo) bool {
	b.mu.Lock()
	defer b.mu.Unlock()
	e.UpdateStatus(b.st.Healthy[e.Endpoint], "Scripted", "")
	return false
}

// install makes st the current state of the real ClusterInfo (spec through Sync, health through UpdateStatus).
func (b *pasBed) install(st *pasState) error {
	b.mu.Lock()
	b.st = st
	b.mu.Unlock()
	if err := b.ci.Sync(b.object(st)); err != nil {
		return err
	}
	b.mu.Lock()
	defer b.mu.Unlock()
	for _, s := range st.Servers {
		if ep, ok := b.ci.Endpoints.Load(s); ok {
			ep.UpdateStatus(st.Healthy[s], "Scripted", "")
		}
	}
	return nil
}

var pasPool = []string{"https://10.3.0.1:6443", "https://10.3.0.2:6443", "https://10.3.0.3:6443", "https://10.3.0.4:6443", "https://10.3.0.5:6443"}

func pickAfterSync(r *vkit.R) {
	beds := tierN(r, 40, 400)
	perBed := tierN(r, 40, 60)
	attrs := &authorizer.AttributesRecord{User: &user.DefaultInfo{Name: "u"}, Verb: "get", Resource: "pods", ResourceRequest: true, Path: "/api/v1/namespaces/ns/pods"}
	r.Parallel(beds, 8, func(bi int, g *vkit.Rand) {
		b := &pasBed{st: &pasState{Servers: []string{pasPool[0]}, Disabled: map[string]bool{}, Healthy: map[string]bool{}}}
		ci, err := clusters.CreateClusterInfo(b.object(b.st), b.healthCheck, "", nil)
		if err != nil {
			r.Inconclusive("pick-after-sync: CreateClusterInfo failed: " + err.Error())
			return
		}
		b.ci = ci
		defer ci.Stop()
		for c := 0; c < perBed; c++ {
			// state at MatchAttributes time
			then := &pasState{Disabled: map[string]bool{}, Healthy: map[string]bool{}}
			perm := g.Perm(len(pasPool))
			ns := g.Range(1, 4)
			for i := 0; i < ns; i++ {
				e := pasPool[perm[i]]
				then.Servers = append(then.Servers, e)
				then.Healthy[e] = !g.Chance(0.15)
				if g.Chance(0.1) {
					then.Disabled[e] = true
				}
			}
			if g.Chance(0.6) {
				n := g.Range(1, ns)
				p2 := g.Perm(ns)
				for i := 0; i < n; i++ {
					then.Subset = append(then.Subset, then.Servers[p2[i]])
				}
			}
			if err := b.install(then); err != nil {
				r.Inconclusive("pick-after-sync: Sync failed: " + err.Error())
				return
			}
			// the change applied between MatchAttributes and Pop
			now := then.clone()
			x := then.Servers[g.Intn(ns)]
			change := []string{"remove", "remove", "replace", "disable", "unhealthy", "subset", "add", "none"}[g.Intn(8)]
			switch change {
			case "remove":
				if ns < 2 {
					change = "disable"
					now.Disabled[x] = true
					break
				}
				now.Servers = without(now.Servers, x)
				now.Subset = without(now.Subset, x)
				delete(now.Disabled, x)
			case "replace":
				y := pasPool[perm[ns]]
				now.Servers = append(without(now.Servers, x), y)
				if has(now.Subset, x) {
					now.Subset = append(without(now.Subset, x), y)
				}
				delete(now.Disabled, x)
				now.Healthy[y] = true
			case "disable":
				now.Disabled[x] = true
			case "unhealthy":
				now.Healthy[x] = false
			case "subset":
				now.Subset = nil
				if ns > 1 {
					now.Subset = []string{then.Servers[g.Intn(ns)]}
				}
			case "add":
				y := pasPool[perm[ns]]
				now.Servers = append(now.Servers, y)
				now.Healthy[y] = true
			}
			var picker clusters.EndpointPicker
			var got *clusters.EndpointInfo
			var popErr error
			if p := vkit.Safely(func() {
				var err error
				picker, err = ci.MatchAttributes(attrs)
				if err != nil {
					popErr = err
					return
				}
				if err := b.install(now); err != nil {
					popErr = err
					picker = nil
					return
				}
				got, popErr = picker.Pop()
			}); p != nil {
				r.Violation("C03/pick-after-sync/panic", fmt.Sprintf("MatchAttributes / Sync / Pop panicked: %v", p), map[string]interface{}{"then": then, "now": now, "change": change})
				return
			}
			if picker == nil {
				r.Inconclusive(fmt.Sprintf("pick-after-sync: MatchAttributes or Sync failed: %v", popErr))
				return
			}
			r.Eval(1)
			r.Count("pick_after_sync_cases", 1)
			r.Count("pick_after_sync_change_"+change, 1)
			var allowed []string
			for _, e := range pasPool {
				if whyNot(then, now, e) == "" {
					allowed = append(allowed, e)
				}
			}
			sort.Strings(allowed)
			if len(allowed) < len(now.Servers) || change != "none" {
				r.Distinct(vkit.Hash64("pas", change, fmt.Sprint(then.Servers, then.Disabled, then.Healthy, then.Subset), fmt.Sprint(now.Servers, now.Disabled, now.Healthy, now.Subset)))
			}
			w := map[string]interface{}{"state_at_MatchAttributes": then, "state_at_Pop": now, "change_between": change, "changed_server": x, "may_be_picked": allowed}
			switch {
			case got != nil:
				w["popped"] = got.Endpoint
				if why := whyNot(then, now, got.Endpoint); why != "" {
					r.Violation("C03/pick-after-sync/change="+change+"/returned-"+why,
						fmt.Sprintf("picker obtained by MatchAttributes, then %s of %s was applied (Sync / UpdateStatus returned), then Pop() returned %s, which is %s at that moment (may be picked: [%s])",
							change, x, got.Endpoint, why, strings.Join(allowed, " ")), w)
				} else {
					r.Count("pick_after_sync_picked_allowed", 1)
				}
			case len(allowed) == 0:
				r.Count("pick_after_sync_refused_as_required", 1)
			default:
				// refusal although something may be picked: not forbidden by the statement (e.g. a server added in between)
				r.Count("pick_after_sync_refused_although_pickable", 1)
			}
		}
	})
	r.Require(r.Counter("pick_after_sync_cases") >= int64(beds*perBed*9/10), "too few pick-after-sync cases")
	r.Require(r.Counter("pick_after_sync_picked_allowed") >= int64(beds*perBed/4) && r.Counter("pick_after_sync_refused_as_required") >= int64(beds*perBed/20), "pick-after-sync cases did not exercise both outcomes")
}

func without(l []string, e string) []string {
	var out []string
	for _, x := range l {
		if x != e {
			out = append(out, x)
		}
	}
	return out
}
