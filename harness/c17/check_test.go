// Package c17 checks C17 (admission normalisation of dispatch rules does not change what they match; normalising twice
// changes nothing) by running the REAL admission plugin (plugin/admission/upstreamcluster, Admit through
// admission.MutationInterface with real admission.Attributes and the control plane's scheme defaulter) and comparing the
// real matcher clusters.RuleMatches / clusters.MatchPolicies on the submitted and on the stored object.
//
// The oracle is purely differential between two runs of the real matcher (before / after Admit); it does not depend on
// any reference model of the list semantics, so it stays valid whatever the (C01) semantics of the matcher are.
package c17

import (
	"context"
	"encoding/json"
	"fmt"
	"path"
	"strings"
	"sync"
	"sync/atomic"
	"testing"

	metav1 "k8s.io/apimachinery/pkg/apis/meta/v1"
	"k8s.io/apimachinery/pkg/runtime"
	"k8s.io/apiserver/pkg/admission"
	"k8s.io/apiserver/pkg/authentication/user"
	"k8s.io/apiserver/pkg/authorization/authorizer"

	runtimescheme "github.com/kubewharf/apiserver-runtime/pkg/scheme"

	proxyv1alpha1 "github.com/kubewharf/kubegateway/pkg/apis/proxy/v1alpha1"
	"github.com/kubewharf/kubegateway/pkg/clusters"
	_ "github.com/kubewharf/kubegateway/pkg/gateway/controlplane" // installs the proxy group (types + defaulters) into the control plane's scheme, as the real server does
	upstreamclusteradmission "github.com/kubewharf/kubegateway/plugin/admission/upstreamcluster"

	"verifharness/vkit"
)

// ---------- request tuples ----------

type Req struct {
	Verb, Group, Resource, Sub, Name, Path, User string
	Groups                                       []string
	IsResource                                   bool
}

func attrs(q *Req) authorizer.Attributes {
	return &authorizer.AttributesRecord{
		User:            &user.DefaultInfo{Name: q.User, Groups: q.Groups},
		Verb:            q.Verb,
		APIGroup:        q.Group,
		Resource:        q.Resource,
		Subresource:     q.Sub,
		Name:            q.Name,
		Path:            q.Path,
		ResourceRequest: q.IsResource,
	}
}

// ---------- the real plugin ----------

type admitter struct {
	inflight   int32
	overlapped int64 // admissions that started while another one was inside Admit
	plugin     admission.MutationInterface
	oi         admission.ObjectInterfaces
	scheme     *runtime.Scheme
}

func newAdmitter() (*admitter, error) {
	p := upstreamclusteradmission.NewUpstreamClusterPlugin()
	m, ok := p.(admission.MutationInterface)
	if !ok {
		return nil, fmt.Errorf("plugin is not an admission.MutationInterface")
	}
	if !p.Handles(admission.Create) || !p.Handles(admission.Update) {
		return nil, fmt.Errorf("plugin does not handle create and update")
	}
	sch := runtimescheme.Scheme
	if !sch.Recognizes(proxyv1alpha1.SchemeGroupVersion.WithKind("UpstreamCluster")) {
		return nil, fmt.Errorf("control-plane scheme does not know UpstreamCluster")
	}
	return &admitter{plugin: m, oi: admission.NewObjectInterfacesFromScheme(sch), scheme: sch}, nil
}

var (
	ucKind     = proxyv1alpha1.SchemeGroupVersion.WithKind("UpstreamCluster")
	ucResource = proxyv1alpha1.SchemeGroupVersion.WithResource("upstreamclusters")
)

// admit runs Admit on a deep copy of in (create, or update over old) and returns the object the API server would store.
func (a *admitter) admit(in, old *proxyv1alpha1.UpstreamCluster) (out *proxyv1alpha1.UpstreamCluster, err error, panicked interface{}) {
	out = in.DeepCopy()
	var rec admission.Attributes
	u := &user.DefaultInfo{Name: "admin", Groups: []string{"system:masters"}}
	if old == nil {
		rec = admission.NewAttributesRecord(out, nil, ucKind, "", out.Name, ucResource, "", admission.Create, &metav1.CreateOptions{}, false, u)
	} else {
		rec = admission.NewAttributesRecord(out, old.DeepCopy(), ucKind, "", out.Name, ucResource, "", admission.Update, &metav1.UpdateOptions{}, false, u)
	}
	if n := atomic.AddInt32(&a.inflight, 1); n > 1 {
		atomic.AddInt64(&a.overlapped, 1)
	}
	panicked = vkit.Safely(func() { err = a.plugin.Admit(context.Background(), rec, a.oi) })
	atomic.AddInt32(&a.inflight, -1)
	return
}

// ---------- list shapes (for signatures) ----------

func listClass(list []string) string {
	star, pos, neg, glob, starsub, emptystr, baredash, dup, noncanon, shaped := false, 0, 0, false, false, false, false, false, false, false
	seen := map[string]bool{}
	for _, e := range list {
		if seen[e] {
			dup = true
		}
		seen[e] = true
		if e == "*" {
			star = true
			continue
		}
		if e == "" {
			emptystr = true
		}
		if e == "-" {
			baredash = true
		}
		v := e
		if len(e) > 0 && e[0] == '-' {
			neg++
			v = e[1:]
		} else {
			pos++
		}
		if strings.HasSuffix(v, "*") {
			glob = true
		}
		if strings.HasPrefix(v, "*/") {
			starsub = true
		}
		if strings.HasPrefix(v, "/") && path.Clean(v) != v {
			noncanon = true // trailing slash, doubled slash, dot segment
		}
		if v != strings.ToLower(v) || v != strings.TrimSpace(v) {
			shaped = true // upper case / surrounding blank
		}
	}
	var c string
	switch {
	case star && pos+neg > 0:
		c = "star-with-others"
	case star:
		c = "star"
	case pos > 0 && neg > 0:
		c = "mixed"
	case pos > 0:
		c = "positive"
	case neg > 0:
		c = "inverted"
	case list == nil:
		c = "nil"
	default:
		c = "empty"
	}
	if star {
		return c // '*' decides; the other entries' shapes do not discriminate
	}
	// one feature at most, the most specific first (keeps the signature space small)
	switch {
	case noncanon:
		c += "+noncanonical-path"
	case shaped:
		c += "+case-or-blank"
	case emptystr:
		c += "+emptystr"
	case baredash:
		c += "+baredash"
	case glob:
		c += "+glob"
	case starsub:
		c += "+starsub"
	case dup:
		c += "+dup"
	}
	return c
}

type fieldAcc struct {
	name string
	get  func(*proxyv1alpha1.DispatchPolicyRule) *[]string
}

var fields = []fieldAcc{
	{"verbs", func(r *proxyv1alpha1.DispatchPolicyRule) *[]string { return &r.Verbs }},
	{"apiGroups", func(r *proxyv1alpha1.DispatchPolicyRule) *[]string { return &r.APIGroups }},
	{"resources", func(r *proxyv1alpha1.DispatchPolicyRule) *[]string { return &r.Resources }},
	{"resourceNames", func(r *proxyv1alpha1.DispatchPolicyRule) *[]string { return &r.ResourceNames }},
	{"users", func(r *proxyv1alpha1.DispatchPolicyRule) *[]string { return &r.Users }},
	{"userGroups", func(r *proxyv1alpha1.DispatchPolicyRule) *[]string { return &r.UserGroups }},
	{"nonResourceURLs", func(r *proxyv1alpha1.DispatchPolicyRule) *[]string { return &r.NonResourceURLs }},
}

// fieldVerdict evaluates one field of a rule with the real exported per-field matcher (used only to attribute a
// whole-rule divergence to a field for the signature; the verdict itself comes from RuleMatches).
func fieldVerdict(name string, ru *proxyv1alpha1.DispatchPolicyRule, q *Req) (bool, bool) {
	combined := q.Resource
	if q.Sub != "" {
		combined += "/" + q.Sub
	}
	switch name {
	case "verbs":
		return proxyv1alpha1.VerbMatches(ru.Verbs, q.Verb), true
	case "users":
		return proxyv1alpha1.UserOrServiceAccountMatches(ru.Users, ru.ServiceAccounts, q.User), true
	case "userGroups":
		return proxyv1alpha1.UserGroupMatches(ru.UserGroups, q.Groups), true
	case "apiGroups":
		return proxyv1alpha1.APIGroupMatches(ru.APIGroups, q.Group), q.IsResource
	case "resources":
		return proxyv1alpha1.ResourceMatches(ru.Resources, combined, q.Sub), q.IsResource
	case "resourceNames":
		return proxyv1alpha1.ResourceNameMatches(ru.ResourceNames, q.Name), q.IsResource
	case "nonResourceURLs":
		return proxyv1alpha1.NonResourceURLMatches(ru.NonResourceURLs, q.Path), !q.IsResource
	}
	return false, false
}

func direction(raw, stored bool) string {
	if raw {
		return "submitted-matches,stored-does-not"
	}
	return "stored-matches,submitted-does-not"
}

// divergence names the field responsible for RuleMatches(raw) != RuleMatches(stored) on q and the shape of a MINIMAL
// sub-list of that field which still diverges on q (entries are removed greedily, re-running the real Admit on a
// match-all rule carrying only that sub-list), so that one defect of the normaliser yields few signatures.
func divergence(a *admitter, raw, st *proxyv1alpha1.DispatchPolicyRule, q *Req) (sig string, detail string) {
	if !equalSAs(raw.ServiceAccounts, st.ServiceAccounts) {
		return "field=serviceAccounts/changed", fmt.Sprintf("serviceAccounts %v stored as %v", raw.ServiceAccounts, st.ServiceAccounts)
	}
	for _, f := range fields {
		x, rel := fieldVerdict(f.name, raw, q)
		y, _ := fieldVerdict(f.name, st, q)
		if !rel || x == y {
			continue
		}
		full := *f.get(raw)
		diverges := func(l []string) bool {
			ru := matchAllRule()
			*f.get(&ru) = l
			if f.name == "users" {
				ru.ServiceAccounts = raw.ServiceAccounts
			}
			uc := &proxyv1alpha1.UpstreamCluster{ObjectMeta: metav1.ObjectMeta{Name: "c17min"}}
			uc.Spec.DispatchPolicies = []proxyv1alpha1.DispatchPolicy{{Rules: []proxyv1alpha1.DispatchPolicyRule{ru}}}
			out, err, p := a.admit(uc, nil)
			if err != nil || p != nil || len(out.Spec.DispatchPolicies) != 1 || len(out.Spec.DispatchPolicies[0].Rules) != 1 {
				return false
			}
			m1, _ := fieldVerdict(f.name, &ru, q)
			m2, _ := fieldVerdict(f.name, &out.Spec.DispatchPolicies[0].Rules[0], q)
			return m1 == x && m2 == y
		}
		min := append([]string(nil), full...)
		if diverges(min) {
			for changed := true; changed; {
				changed = false
				for i := range min {
					c := append(append([]string(nil), min[:i]...), min[i+1:]...)
					if len(c) > 0 && diverges(c) {
						min, changed = c, true
						break
					}
				}
			}
		}
		return "field=" + f.name + "/" + listClass(min),
			fmt.Sprintf("%s list %q is stored as %q (smallest sub-list that still diverges on this request: %q)", f.name, full, *f.get(st), min)
	}
	return "combination", "no single field's verdict differs"
}

func equalSAs(a, b []proxyv1alpha1.ServiceAccountRef) bool {
	if len(a) != len(b) {
		return false
	}
	for i := range a {
		if a[i] != b[i] {
			return false
		}
	}
	return true
}

// storedForm is the serialised form of a rule: what "the stored rule" is. All eight fields are `omitempty`, so a nil
// and an empty list are the same stored rule; order and multiplicity of entries are part of the stored form.
func storedForm(ru *proxyv1alpha1.DispatchPolicyRule) string {
	b, _ := json.Marshal(ru)
	return string(b)
}

// ---------- the check ----------

func TestCheck(t *testing.T) {
	vkit.Run(t, "C17", "exploration", func(r *vkit.R) {
		r.Rule("(1) every list of length<=3 over a 14-entry alphabet ('*', positive, '-x', '', '-', globs, */sub, x/sub; incl. nil) placed in each of the 7 list fields " +
			"(users also next to 4 serviceAccount sets) of an otherwise match-all rule, admitted by the real plugin (create), probed with every value of a per-field request set that separates the alphabet; " +
			"(2) seeded random whole rules (all eight fields, duplicates, '*' in any position, mixed signs, empty strings, bare '-', nil vs empty lists, serviceAccounts with empty parts) in clusters of 1-4 policies, " +
			"admitted as create or as update, probed with request tuples built from the rule's own entries (entry, entry without '-', glob prefix + suffix, resource/sub splits) and from a background pool; " +
			"compared: clusters.RuleMatches(submitted rule) vs RuleMatches(stored rule) per rule and the policy index chosen by clusters.MatchPolicies before/after; " +
			"(3) idempotence: Admit(Admit(x)) vs Admit(x) on the stored (serialised) form of every rule. " +
			"Non-trivial = the rule has a list with an entry other than '*' ; distinct = hash of (rule, probe).")
		r.Assume("the stored form of a rule is its serialisation: every list field is `omitempty`, so nil and empty lists are the same stored rule (idempotence is judged on the JSON form, order and duplicates included)")
		r.Assume("an Admit that returns an error stores nothing and is not judged (counted; the run is inconclusive if any generated object is refused by Admit); a panic inside Admit is reported, since the statement quantifies over every rule")
		a, err := newAdmitter()
		if err != nil {
			r.Inconclusive("cannot set up the admission plugin: " + err.Error())
			return
		}
		selfTest(r, a)
		perField(r, a)
		wholeRules(r, a)
		concurrentAdmissions(r, a)
		r.Set("admissions_overlapping_another", atomic.LoadInt64(&a.overlapped))
		r.Require(atomic.LoadInt64(&a.overlapped) > 1000, "admissions hardly ever overlapped (the plugin instance is shared by all API requests)")
		r.Require(r.Counter("concurrent_same_object_admissions") >= 10000, "the concurrent-admission scenario did not run")
		r.Require(r.Counter("long_lists_30_to_150_entries") >= 100 && r.Counter("policies_without_rules") >= 100, "long lists / empty policies were not generated")
		r.Require(r.Counter("field_probe_cases") > 50000, "too few per-field cases")
		r.Require(r.Counter("rule_probe_cases") > 100000, "too few whole-rule cases")
		r.Require(r.Counter("rule_probe_matched") > 1000 && r.Counter("rule_probe_unmatched") > 1000, "probes do not exercise both outcomes")
		r.Require(r.Counter("rules_changed_by_admit") > 1000, "normalisation hardly ever changed a rule")
		r.Require(r.Counter("idempotence_cases") > 10000, "too few idempotence cases")
		r.Require(r.Counter("admit_errors") == 0, "Admit refused generated objects")
	})
}

// selfTest makes sure the harness really goes through the plugin: a rule known to be rewritten must come back rewritten,
// the defaulter must have run, and a status-subresource admission must be left alone (not judged, just sanity).
func selfTest(r *vkit.R, a *admitter) {
	uc := &proxyv1alpha1.UpstreamCluster{ObjectMeta: metav1.ObjectMeta{Name: "selftest"}}
	uc.Spec.DispatchPolicies = []proxyv1alpha1.DispatchPolicy{{Rules: []proxyv1alpha1.DispatchPolicyRule{{Verbs: []string{"get", "*", "-list"}, APIGroups: []string{"*"}, Resources: []string{"*"}}}}}
	out, err, p := a.admit(uc, nil)
	if err != nil || p != nil {
		r.Inconclusive(fmt.Sprintf("self test: Admit failed: err=%v panic=%v", err, p))
		return
	}
	if out.Spec.DispatchPolicies[0].Strategy == "" {
		r.Inconclusive("self test: the scheme defaulter did not run inside Admit (wrong scheme?)")
	}
	if storedForm(&out.Spec.DispatchPolicies[0].Rules[0]) == storedForm(&uc.Spec.DispatchPolicies[0].Rules[0]) {
		r.Inconclusive("self test: Admit did not normalise ['get','*','-list'] (is the plugin still normalising?)")
	}
}

var alphabet = []string{"*", "a", "b", "-a", "-b", "", "-", "a*", "-a*", "*/s", "-*/s", "a/s", "-a/s", "a/*"}

var urlAlphabet = []string{"*", "/logs/", "/logs", "//logs", "/a/./b", "/a/../logs", "/logs/*", "/logs*", "/", "",
	"-/logs/", "-/logs", "-//logs", "-/a/./b", "-/logs/*", "-/"}

var shapeAlphabet = []string{"a", "A", " a", "a ", "-A", "-a", "A*", "a*"}

// entries at the edge of the list syntax: inverted star, double dash, double star, leading star, non-ASCII, inner blank
var oddAlphabet = []string{"-*", "--a", "**", "*a", "a", "-a", "*", "é", "-é", "a b", "\xff", "-\xff"}

func enumLists(alpha []string, maxLen int, fn func([]string)) {
	fn(nil)
	var rec func(cur []string)
	rec = func(cur []string) {
		if len(cur) > 0 {
			c := make([]string, len(cur))
			copy(c, cur)
			fn(c)
		}
		if len(cur) == maxLen {
			return
		}
		for _, e := range alpha {
			rec(append(cur, e))
		}
	}
	rec(nil)
}

func nontrivialList(l []string) bool {
	for _, e := range l {
		if e != "*" {
			return true
		}
	}
	return false
}

func matchAllRule() proxyv1alpha1.DispatchPolicyRule {
	return proxyv1alpha1.DispatchPolicyRule{Verbs: []string{"*"}, APIGroups: []string{"*"}, Resources: []string{"*"}, NonResourceURLs: []string{"*"}}
}

type fieldWitness struct {
	Field     string                           `json:"field"`
	Submitted proxyv1alpha1.DispatchPolicyRule `json:"submittedRule"`
	Stored    proxyv1alpha1.DispatchPolicyRule `json:"storedRule"`
	Request   Req                              `json:"request"`
	RawMatch  bool                             `json:"submittedMatches"`
	StMatch   bool                             `json:"storedMatches"`
}

func perField(r *vkit.R, a *admitter) {
	const maxLen = 3
	var lists [][]string
	var only []string // "" = the list is placed in every field; otherwise in that field only
	enumLists(alphabet, maxLen, func(l []string) { lists, only = append(lists, l), append(only, "") })
	lists, only = append(lists, []string{}), append(only, "") // empty, non-nil
	// nonResourceURLs are paths: their own alphabet of slash-shaped entries (trailing slash, doubled slash, dot segments,
	// prefix globs, root, empty, and the '-' forms), exhaustive for length <= 3 as well
	enumLists(urlAlphabet, maxLen, func(l []string) {
		if len(l) > 0 {
			lists, only = append(lists, l), append(only, "nonResourceURLs")
		}
	})
	// letter case and surrounding blanks, every field, length <= 2 (a normaliser that folds or trims would change matching)
	enumLists(shapeAlphabet, 2, func(l []string) {
		if len(l) > 0 {
			lists, only = append(lists, l), append(only, "")
		}
	})
	nOdd := 0
	enumLists(oddAlphabet, maxLen, func(l []string) {
		if len(l) > 0 {
			lists, only = append(lists, l), append(only, "")
			nOdd++
		}
	})
	r.Set("per_field_odd_syntax_lists", nOdd)

	reqVals := []string{"a", "b", "c", "", "a1", "a/s", "b/s", "b/t", "-a", "-", "*", "A", " a", "a ", "é", "a b", "**", "*a", "xa", "--a", "\xff", "\xfe"}
	urlVals := []string{"/logs", "/logs/", "/logs//a", "/logs/a", "/a/./b", "/a/b", "/", "//logs", "/a/../logs", "/logsx", "/a"}
	groupSets := [][]string{nil, {"a"}, {"b"}, {"c"}, {"a", "b"}, {"a", "c"}, {"c", "d"}, {"a", "b", "c"}, {""}, {"a1"}, {"-a"}, {"A"}, {" a"}, {"a "}, {"é"}, {"a b"}, {"*"}, {"a", "a"}, {"xa", "é"}}
	type resReq struct{ res, sub string }
	resReqs := []resReq{{"a", ""}, {"b", ""}, {"c", ""}, {"a", "s"}, {"b", "s"}, {"b", "t"}, {"a1", ""}, {"", ""}, {"*", "s"}, {"a", "*"}, {"-a", ""}, {"A", ""}, {" a", ""}, {"a ", ""}, {"é", ""}, {"a b", ""}, {"**", ""}, {"*a", ""}, {"xa", ""}, {"é", "s"}}
	saSets := [][]proxyv1alpha1.ServiceAccountRef{nil, {{Namespace: "n", Name: "x"}}, {{Namespace: "", Name: "x"}}, {{Namespace: "n", Name: "x"}, {Namespace: "m", Name: "y"}}}
	userVals := []string{"a", "b", "c", "", "a1", "-a", "system:serviceaccount:n:x", "system:serviceaccount:m:y", "system:serviceaccount::x", "A", " a", "a ", "é", "a b", "**", "*a", "xa", "*"}

	// the probes of a field vary only that field's attribute; everything else is fixed and matched by the match-all rule
	base := Req{Verb: "get", User: "u", Groups: []string{"g"}, IsResource: true, Group: "apps", Resource: "pods", Name: "n1", Path: "/apis/apps/v1/pods"}
	probes := map[string][]Req{}
	for _, v := range reqVals {
		q := base
		q.Verb = v
		probes["verbs"] = append(probes["verbs"], q)
		q = base
		q.Group = v
		probes["apiGroups"] = append(probes["apiGroups"], q)
		q = base
		q.Name = v
		probes["resourceNames"] = append(probes["resourceNames"], q)
		q = base
		q.IsResource, q.Group, q.Resource, q.Name = false, "", "", ""
		q.Path = v
		probes["nonResourceURLs"] = append(probes["nonResourceURLs"], q)
	}
	for _, v := range urlVals {
		q := base
		q.IsResource, q.Group, q.Resource, q.Name = false, "", "", ""
		q.Path = v
		probes["nonResourceURLs"] = append(probes["nonResourceURLs"], q)
	}
	for _, rq := range resReqs {
		q := base
		q.Resource, q.Sub = rq.res, rq.sub
		probes["resources"] = append(probes["resources"], q)
	}
	for _, gs := range groupSets {
		q := base
		q.Groups = gs
		probes["userGroups"] = append(probes["userGroups"], q)
	}
	for _, u := range userVals {
		q := base
		q.User = u
		probes["users"] = append(probes["users"], q)
	}

	r.Parallel(len(lists), 16, func(i int, _ *vkit.Rand) {
		l := lists[i]
		nt := nontrivialList(l)
		key := strings.Join(l, "\x01")
		// one cluster per list: one rule per (field, serviceAccount set)
		type slot struct {
			field string
			sas   int
		}
		var slots []slot
		pol := proxyv1alpha1.DispatchPolicy{}
		for _, f := range fields {
			if only[i] != "" && only[i] != f.name {
				continue
			}
			n := 1
			if f.name == "users" {
				n = len(saSets)
			}
			for s := 0; s < n; s++ {
				ru := matchAllRule()
				c := append([]string(nil), l...)
				if l != nil && len(l) == 0 {
					c = []string{}
				}
				*f.get(&ru) = c
				if f.name == "users" {
					ru.ServiceAccounts = append([]proxyv1alpha1.ServiceAccountRef(nil), saSets[s]...)
				}
				pol.Rules = append(pol.Rules, ru)
				slots = append(slots, slot{f.name, s})
			}
		}
		uc := &proxyv1alpha1.UpstreamCluster{ObjectMeta: metav1.ObjectMeta{Name: "c17"}}
		uc.Spec.DispatchPolicies = []proxyv1alpha1.DispatchPolicy{pol}
		st, ok := admitJudged(r, a, uc, nil, "per-field")
		if !ok {
			return
		}
		n, changed, matched := 0, 0, 0
		var hs []uint64
		for k, sl := range slots {
			raw, stored := &uc.Spec.DispatchPolicies[0].Rules[k], &st.Spec.DispatchPolicies[0].Rules[k]
			if storedForm(raw) != storedForm(stored) {
				changed++
			}
			slotHash := vkit.Hash64("field", sl.field, key, fmt.Sprint(sl.sas))
			for pi := range probes[sl.field] {
				q := probes[sl.field][pi]
				rm, sm := clusters.RuleMatches(attrs(&q), raw), clusters.RuleMatches(attrs(&q), stored)
				n++
				if nt {
					hs = append(hs, vkit.Mix64(slotHash, uint64(pi)))
				}
				if rm {
					matched++
				}
				if rm != sm {
					d, detail := divergence(a, raw, stored, &q)
					sig := fmt.Sprintf("C17/match/%s/%s", d, direction(rm, sm))
					r.Violation(sig, fmt.Sprintf("%s; serviceAccounts %v; request %+v: submitted rule matches=%v, stored rule matches=%v (submitted rule %s, stored rule %s)",
						detail, raw.ServiceAccounts, q, rm, sm, storedForm(raw), storedForm(stored)),
						fieldWitness{Field: sl.field, Submitted: *raw, Stored: *stored, Request: q, RawMatch: rm, StMatch: sm})
				}
			}
		}
		r.Eval(n)
		r.Count("field_probe_cases", n)
		r.Count("field_probe_matched", matched)
		r.Count("rules_changed_by_admit", changed)
		r.DistinctBatch(hs)
		idempotence(r, a, st, "per-field")
		if i == 700 || i == 1500 {
			r.Sample(map[string]interface{}{"kind": "per-field", "list": l, "storedVerbs": st.Spec.DispatchPolicies[0].Rules[0].Verbs})
		}
	})
	r.Set("per_field_exhaustive_max_len", maxLen)
	r.Set("per_field_lists", len(lists))
}

// admitJudged runs Admit and applies the judgements that do not need probes: panic, error, structure preserved.
func admitJudged(r *vkit.R, a *admitter, uc, old *proxyv1alpha1.UpstreamCluster, class string) (*proxyv1alpha1.UpstreamCluster, bool) {
	st, err, p := a.admit(uc, old)
	r.Count("admit_calls", 1)
	if p != nil {
		r.Violation("C17/admit-panic/"+class, fmt.Sprintf("Admit panicked (%v) on %s", p, mustJSON(uc.Spec.DispatchPolicies)),
			map[string]interface{}{"object": uc, "panic": fmt.Sprint(p)})
		return nil, false
	}
	if err != nil {
		r.Count("admit_errors", 1)
		return nil, false
	}
	if len(st.Spec.DispatchPolicies) != len(uc.Spec.DispatchPolicies) {
		r.Violation("C17/structure/policy-count-changed", fmt.Sprintf("Admit changed the number of policies %d -> %d", len(uc.Spec.DispatchPolicies), len(st.Spec.DispatchPolicies)),
			map[string]interface{}{"submitted": uc, "stored": st})
		return nil, false
	}
	for i := range st.Spec.DispatchPolicies {
		if len(st.Spec.DispatchPolicies[i].Rules) != len(uc.Spec.DispatchPolicies[i].Rules) {
			r.Violation("C17/structure/rule-count-changed", fmt.Sprintf("Admit changed the number of rules of policy %d: %d -> %d", i, len(uc.Spec.DispatchPolicies[i].Rules), len(st.Spec.DispatchPolicies[i].Rules)),
				map[string]interface{}{"submitted": uc, "stored": st})
			return nil, false
		}
	}
	return st, true
}

func mustJSON(v interface{}) string {
	b, _ := json.Marshal(v)
	return string(b)
}

// idempotence: admitting the stored object again (as an update over itself, which is what a no-op write does; and as a
// create) must leave the stored form of every rule unchanged.
func idempotence(r *vkit.R, a *admitter, st *proxyv1alpha1.UpstreamCluster, class string) {
	for _, mode := range []string{"update", "create"} {
		var old *proxyv1alpha1.UpstreamCluster
		if mode == "update" {
			old = st
		}
		st2, err, p := a.admit(st, old)
		if p != nil {
			r.Violation("C17/admit-panic/second-pass", fmt.Sprintf("Admit panicked (%v) on an already normalised object %s", p, mustJSON(st.Spec.DispatchPolicies)),
				map[string]interface{}{"object": st, "panic": fmt.Sprint(p)})
			return
		}
		if err != nil {
			r.Count("admit_errors", 1)
			return
		}
		if len(st2.Spec.DispatchPolicies) != len(st.Spec.DispatchPolicies) {
			r.Violation("C17/idempotence/policy-count-changed", "second Admit changed the number of policies", map[string]interface{}{"once": st, "twice": st2})
			return
		}
		for i := range st.Spec.DispatchPolicies {
			p1, p2 := &st.Spec.DispatchPolicies[i], &st2.Spec.DispatchPolicies[i]
			if len(p1.Rules) != len(p2.Rules) {
				r.Violation("C17/idempotence/rule-count-changed", "second Admit changed the number of rules", map[string]interface{}{"once": st, "twice": st2})
				return
			}
			r.Count("idempotence_cases", len(p1.Rules))
			for j := range p1.Rules {
				if storedForm(&p1.Rules[j]) == storedForm(&p2.Rules[j]) {
					continue
				}
				what := "field=serviceAccounts"
				for _, f := range fields {
					l1, l2 := *f.get(&p1.Rules[j]), *f.get(&p2.Rules[j])
					if strings.Join(l1, "\x01") != strings.Join(l2, "\x01") || len(l1) != len(l2) {
						what = "field=" + f.name + "/" + strings.SplitN(listClass(l1), "+", 2)[0]
						break
					}
				}
				r.Violation("C17/idempotence/"+what, fmt.Sprintf("normalising an already normalised rule changed it (%s, %s): once %s, twice %s", class, mode, storedForm(&p1.Rules[j]), storedForm(&p2.Rules[j])),
					map[string]interface{}{"once": p1.Rules[j], "twice": p2.Rules[j], "mode": mode})
			}
		}
	}
}

// ---------- random whole rules ----------

var (
	verbs     = []string{"get", "list", "watch", "create", "update", "delete", "patch", "deletecollection", "GET", "proxy"}
	apiGroups = []string{"", "apps", "batch", "x.io"}
	resources = []string{"pods", "deployments", "nodes", "jobs", "events"}
	subs      = []string{"", "", "", "status", "log", "scale"}
	names     = []string{"", "n1", "n2", "nginx", "Nginx", "kube-root-ca.crt", "system:node:[::1]", strings.Repeat("n", 253)}
	users     = []string{"admin", "admin1", "bob", "alice", "system:serviceaccount:kube-system:sa1", "system:serviceaccount:default:sa2", "system:kube-scheduler",
		"Admin", "CN=Foo,O=Bar", "user@example.com", "system:node:[::1]", "héloïse", "a%2Fb", strings.Repeat("u", 253)}
	ugroups = []string{"system:authenticated", "system:masters", "dev", "ops", "system:serviceaccounts", "Dev", "system:serviceaccounts:kube-system", "oidc:team/a", ""}
	paths   = []string{"/healthz", "/healthz/etcd", "/version", "/metrics", "/apis", "/", "/readyz/x/y", "/logs/", "/logs", "//healthz", "/healthz//etcd", "/a/./b", "/a/../version", "/readyz/",
		"/a%2Fb", "/[::1]/x", "/Healthz", "/openapi/v2", "/" + strings.Repeat("p", 300)}
)

func genList(g *vkit.Rand, vals []string, allowGlob, allowStarSub bool) []string {
	switch g.Intn(14) {
	case 0:
		return nil
	case 1:
		return []string{"*"}
	case 2:
		return []string{}
	}
	n := g.Range(1, 4)
	if g.Chance(0.015) { // a long list: many entries, many duplicates, '*' possibly deep inside
		n = g.Range(30, 150)
	}
	mode := g.Intn(4) // 0 positive, 1 inverted, 2 mixed, 3 positive
	var out []string
	for i := 0; i < n; i++ {
		v := g.Pick(vals)
		if allowGlob && g.Chance(0.25) && len(v) > 2 {
			v = v[:g.Range(1, len(v)-1)] + "*"
		}
		if allowStarSub && g.Chance(0.25) {
			v = "*/" + g.Pick([]string{"status", "log", "scale"})
		} else if allowStarSub && g.Chance(0.3) {
			v = v + "/" + g.Pick([]string{"status", "log", "scale", "*"})
		}
		if g.Chance(0.04) {
			v = ""
		}
		neg := mode == 1 || (mode == 2 && g.Bool())
		if neg {
			v = "-" + v
		}
		out = append(out, v)
	}
	if g.Chance(0.12) { // '*' in any position
		p := g.Intn(len(out) + 1)
		out = append(out[:p], append([]string{"*"}, out[p:]...)...)
	}
	if g.Chance(0.1) { // duplicate
		out = append(out, out[g.Intn(len(out))])
	}
	return out
}

func genRule(g *vkit.Rand) proxyv1alpha1.DispatchPolicyRule {
	ru := proxyv1alpha1.DispatchPolicyRule{
		Verbs:           genList(g, verbs, false, false),
		APIGroups:       genList(g, apiGroups, false, false),
		Resources:       genList(g, resources, false, true),
		NonResourceURLs: genList(g, paths, true, false),
	}
	if g.Chance(0.5) {
		ru.ResourceNames = genList(g, names, false, false)
	}
	if g.Chance(0.6) {
		ru.Users = genList(g, users, true, false)
	}
	if g.Chance(0.5) {
		ru.UserGroups = genList(g, ugroups, false, false)
	}
	if g.Chance(0.3) {
		k := g.Range(1, 2)
		for i := 0; i < k; i++ {
			ru.ServiceAccounts = append(ru.ServiceAccounts, proxyv1alpha1.ServiceAccountRef{Namespace: g.Pick([]string{"kube-system", "default", ""}), Name: g.Pick([]string{"sa1", "sa2", ""})})
		}
	}
	// so that whole rules match reasonably often, some of the mandatory fields are wild
	if g.Chance(0.45) {
		ru.Verbs = []string{"*"}
	}
	if g.Chance(0.35) {
		ru.APIGroups = []string{"*"}
	}
	if g.Chance(0.25) {
		ru.Resources = []string{"*"}
	}
	return ru
}

// pools collects, per attribute, values that separate the entries of the rule: each entry itself, without its '-',
// a glob's prefix and prefix+suffix, resource / subresource halves.
type pools struct{ verb, group, res, sub, name, user, ugroup, path []string }

func strip(e string) string {
	if len(e) > 0 && e[0] == '-' {
		return e[1:]
	}
	return e
}

func (p *pools) addRule(ru *proxyv1alpha1.DispatchPolicyRule) {
	for _, e := range ru.Verbs {
		p.verb = append(p.verb, e, strip(e))
	}
	for _, e := range ru.APIGroups {
		p.group = append(p.group, e, strip(e))
	}
	for _, e := range ru.ResourceNames {
		p.name = append(p.name, e, strip(e))
	}
	for _, e := range ru.UserGroups {
		p.ugroup = append(p.ugroup, e, strip(e))
	}
	for _, e := range ru.Resources {
		v := strip(e)
		if i := strings.Index(v, "/"); i >= 0 {
			p.res = append(p.res, v[:i])
			p.sub = append(p.sub, v[i+1:])
		} else {
			p.res = append(p.res, v, e)
		}
	}
	for _, e := range ru.Users {
		v := strip(e)
		p.user = append(p.user, e, v)
		if strings.HasSuffix(v, "*") {
			t := strings.TrimRight(v, "*")
			p.user = append(p.user, t, t+"x")
		}
	}
	for _, sa := range ru.ServiceAccounts {
		p.user = append(p.user, proxyv1alpha1.MakeServiceAccountUsername(sa.Namespace, sa.Name))
	}
	for _, e := range ru.NonResourceURLs {
		v := strip(e)
		p.path = append(p.path, e, v)
		if strings.HasPrefix(v, "/") { // what a canonicalising normaliser would confuse it with
			p.path = append(p.path, path.Clean(v), strings.TrimSuffix(v, "/")+"/")
		}
		if strings.HasSuffix(v, "*") {
			t := strings.TrimRight(v, "*")
			p.path = append(p.path, t, t+"x")
		}
	}
}

func pick(g *vkit.Rand, own, background []string, pOwn float64) string {
	if len(own) > 0 && g.Chance(pOwn) {
		return g.Pick(own)
	}
	return g.Pick(background)
}

func genProbe(g *vkit.Rand, p *pools) *Req {
	const pOwn = 0.6
	q := &Req{Verb: pick(g, p.verb, verbs, pOwn), User: pick(g, p.user, users, pOwn)}
	ng := g.Intn(4)
	for i := 0; i < ng; i++ {
		q.Groups = append(q.Groups, pick(g, p.ugroup, ugroups, pOwn))
	}
	if g.Chance(0.75) {
		q.IsResource = true
		q.Group = pick(g, p.group, apiGroups, pOwn)
		q.Resource = pick(g, p.res, resources, pOwn)
		q.Sub = pick(g, p.sub, subs, 0.35)
		q.Name = pick(g, p.name, names, pOwn)
		q.Path = "/apis/" + q.Group + "/v1/" + q.Resource
	} else {
		q.Path = pick(g, p.path, paths, pOwn)
	}
	return q
}

func ruleNontrivial(ru *proxyv1alpha1.DispatchPolicyRule) bool {
	for _, f := range fields {
		if nontrivialList(*f.get(ru)) {
			return true
		}
	}
	return false
}

func wholeRules(r *vkit.R, a *admitter) {
	nClusters := r.N(20000, 1000000)
	nProbes := r.N(40, 100)
	r.Set("whole_rule_clusters", nClusters)
	r.Set("probes_per_cluster", nProbes)
	r.Parallel(nClusters, 16, func(i int, g *vkit.Rand) {
		uc := &proxyv1alpha1.UpstreamCluster{ObjectMeta: metav1.ObjectMeta{Name: "c17"}}
		np := g.Range(1, 4)
		pl := &pools{}
		nRules, emptyPolicies, longLists := 0, 0, 0
		for p := 0; p < np; p++ {
			pol := proxyv1alpha1.DispatchPolicy{FlowControlSchemaName: fmt.Sprintf("p%d", p)}
			if g.Bool() {
				pol.Strategy = proxyv1alpha1.RoundRobin
			}
			nr := g.Range(1, 3)
			if g.Chance(0.03) {
				nr = 0 // a policy without rules
				emptyPolicies++
			}
			for k := 0; k < nr; k++ {
				ru := genRule(g)
				if g.Chance(0.01) {
					ru = proxyv1alpha1.DispatchPolicyRule{} // a rule with every field nil
				}
				for _, f := range fields {
					if len(*f.get(&ru)) >= 30 {
						longLists++
					}
				}
				pl.addRule(&ru)
				pol.Rules = append(pol.Rules, ru)
				nRules++
			}
			uc.Spec.DispatchPolicies = append(uc.Spec.DispatchPolicies, pol)
		}
		// create, or update over an older version (whose rules are other raw rules)
		var old *proxyv1alpha1.UpstreamCluster
		class := "create"
		if g.Chance(0.4) {
			class = "update"
			old = uc.DeepCopy()
			old.Spec.DispatchPolicies = []proxyv1alpha1.DispatchPolicy{{Rules: []proxyv1alpha1.DispatchPolicyRule{genRule(g)}}}
		}
		st, ok := admitJudged(r, a, uc, old, class)
		if !ok {
			return
		}
		r.Count("rules_admitted_"+class, nRules)
		r.Count("policies_without_rules", emptyPolicies)
		r.Count("long_lists_30_to_150_entries", longLists)
		changed := 0
		full := r.DistinctFull()
		var ruleHash [][]uint64 // 0 = trivial rule (not counted as distinct)
		for pi := range uc.Spec.DispatchPolicies {
			ruleHash = append(ruleHash, make([]uint64, len(uc.Spec.DispatchPolicies[pi].Rules)))
			for ri := range uc.Spec.DispatchPolicies[pi].Rules {
				raw := &uc.Spec.DispatchPolicies[pi].Rules[ri]
				sf := storedForm(raw)
				if sf != storedForm(&st.Spec.DispatchPolicies[pi].Rules[ri]) {
					changed++
				}
				if !full && ruleNontrivial(raw) {
					ruleHash[pi][ri] = vkit.Hash64("rule", sf) | 1
				}
			}
		}
		r.Count("rules_changed_by_admit", changed)
		n, matched, unmatched := 0, 0, 0
		var hs []uint64
		for k := 0; k < nProbes; k++ {
			q := genProbe(g, pl)
			at := attrs(q)
			var qh uint64
			if !full {
				qh = vkit.Hash64(q.Verb, q.Group, q.Resource, q.Sub, q.Name, q.Path, q.User, strings.Join(q.Groups, "\x01"), fmt.Sprint(q.IsResource))
			}
			for pi := range uc.Spec.DispatchPolicies {
				for ri := range uc.Spec.DispatchPolicies[pi].Rules {
					raw, stored := &uc.Spec.DispatchPolicies[pi].Rules[ri], &st.Spec.DispatchPolicies[pi].Rules[ri]
					rm, sm := clusters.RuleMatches(at, raw), clusters.RuleMatches(at, stored)
					n++
					if ruleHash[pi][ri] != 0 {
						hs = append(hs, vkit.Mix64(ruleHash[pi][ri], qh))
					}
					if rm {
						matched++
					} else {
						unmatched++
					}
					if rm != sm {
						d, detail := divergence(a, raw, stored, q)
						sig := fmt.Sprintf("C17/match/%s/%s", d, direction(rm, sm))
						r.Violation(sig, fmt.Sprintf("%s; request %+v: submitted rule matches=%v, stored rule matches=%v (%s; submitted rule %s, stored rule %s)",
							detail, *q, rm, sm, class, storedForm(raw), storedForm(stored)),
							fieldWitness{Field: "rule", Submitted: *raw, Stored: *stored, Request: *q, RawMatch: rm, StMatch: sm})
					}
				}
			}
			// routing: the policy chosen for the request must be the same one
			pr, ps := policyIndex(clusters.MatchPolicies(at, uc.Spec.DispatchPolicies)), policyIndex(clusters.MatchPolicies(at, st.Spec.DispatchPolicies))
			if pr != ps {
				r.Violation("C17/routing/chosen-policy-differs", fmt.Sprintf("request %+v is routed by policy %d of the submitted object but by policy %d of the stored one; submitted %s stored %s",
					*q, pr, ps, mustJSON(uc.Spec.DispatchPolicies), mustJSON(st.Spec.DispatchPolicies)),
					map[string]interface{}{"submitted": uc.Spec.DispatchPolicies, "stored": st.Spec.DispatchPolicies, "request": q})
			}
		}
		r.Eval(n)
		r.Count("rule_probe_cases", n)
		r.Count("rule_probe_matched", matched)
		r.Count("rule_probe_unmatched", unmatched)
		r.Count("policy_probe_cases", nProbes)
		r.DistinctBatch(hs)
		idempotence(r, a, st, class)
		if i < 2 && len(uc.Spec.DispatchPolicies) > 0 && len(st.Spec.DispatchPolicies) > 0 && len(uc.Spec.DispatchPolicies[0].Rules) > 0 && len(st.Spec.DispatchPolicies[0].Rules) > 0 {
			// (the first objects of a run may have a policy without rules: nothing to sample then)
			r.Sample(map[string]interface{}{"kind": "whole-rule", "operation": class, "submitted": uc.Spec.DispatchPolicies[0].Rules[0], "stored": st.Spec.DispatchPolicies[0].Rules[0], "probe": genProbe(g, pl)})
		}
	})
}

// concurrentAdmissions: the API server calls the one plugin instance from many request goroutines. The same objects are
// admitted sequentially and then by 16 goroutines at once (each goroutine all objects, in its own order); every concurrent
// result must be the stored form the sequential admission produced. Objects are dominated by inverted-only and mixed lists
// (the paths of the normaliser that build intermediate lists).
func concurrentAdmissions(r *vkit.R, a *admitter) {
	g := r.Rng.Fork("concurrent")
	n := r.N(800, 5000)
	objs := make([]*proxyv1alpha1.UpstreamCluster, n)
	want := make([]string, n)
	for i := range objs {
		uc := &proxyv1alpha1.UpstreamCluster{ObjectMeta: metav1.ObjectMeta{Name: fmt.Sprintf("c17-%d", i)}}
		pol := proxyv1alpha1.DispatchPolicy{}
		for k, nr := 0, g.Range(1, 3); k < nr; k++ {
			ru := genRule(g)
			if g.Chance(0.7) { // inverted-only lists of different lengths in several fields
				for _, f := range fields[:g.Range(1, len(fields))] {
					var l []string
					for j, m := 0, g.Range(1, 6); j < m; j++ {
						l = append(l, fmt.Sprintf("-v%d", g.Intn(1000)))
					}
					*f.get(&ru) = l
				}
			}
			pol.Rules = append(pol.Rules, ru)
		}
		uc.Spec.DispatchPolicies = []proxyv1alpha1.DispatchPolicy{pol}
		objs[i] = uc
		st, err, p := a.admit(uc, nil)
		if err != nil || p != nil {
			r.Inconclusive(fmt.Sprintf("concurrent scenario: sequential Admit failed: %v %v", err, p))
			return
		}
		want[i] = mustJSON(st.Spec.DispatchPolicies)
	}
	var wg sync.WaitGroup
	for w := 0; w < 16; w++ {
		wg.Add(1)
		order := g.Perm(n)
		go func() {
			defer wg.Done()
			for _, i := range order {
				st, err, p := a.admit(objs[i], nil)
				r.Count("concurrent_same_object_admissions", 1)
				if p != nil {
					r.Violation("C17/admit-panic/concurrent", fmt.Sprintf("Admit panicked (%v) while other admissions were running, on %s", p, mustJSON(objs[i].Spec.DispatchPolicies)), map[string]interface{}{"object": objs[i]})
					continue
				}
				if err != nil {
					r.Count("admit_errors", 1)
					continue
				}
				if got := mustJSON(st.Spec.DispatchPolicies); got != want[i] {
					r.Violation("C17/concurrency/stored-form-differs-from-sequential-admission", fmt.Sprintf("submitted %s: admitted alone it is stored as %s, admitted while other admissions ran as %s", mustJSON(objs[i].Spec.DispatchPolicies), want[i], got),
						map[string]interface{}{"submitted": objs[i].Spec.DispatchPolicies, "sequential": want[i], "concurrent": got})
				}
			}
		}()
	}
	wg.Wait()
	r.Eval(16 * n)
}

func policyIndex(p *proxyv1alpha1.DispatchPolicy) int {
	if p == nil {
		return -1
	}
	i := -1
	fmt.Sscanf(p.FlowControlSchemaName, "p%d", &i)
	return i
}
