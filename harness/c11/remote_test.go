package c11

import (
	"fmt"
	"sync/atomic"
	"time"

	"k8s.io/apimachinery/pkg/runtime"
	clienttesting "k8s.io/client-go/testing"

	proxyv1alpha1 "github.com/kubewharf/kubegateway/pkg/apis/proxy/v1alpha1"
	gatewayclientset "github.com/kubewharf/kubegateway/pkg/client/kubernetes"
	gatewayfake "github.com/kubewharf/kubegateway/pkg/client/kubernetes/fake"
	"github.com/kubewharf/kubegateway/pkg/clusters"

	"verifharness/vkit"
)

// "Does this cluster's limiter currently follow the limiter server" as an observable of convergence: gateways created
// with the remote rate limiter and a stub limiter-server client whose allocate reply grants whatever the harness scripted
// last. Histories switch the GlobalRateLimiter feature gate on and off (and on again) while the server's grant changes.
// After the last version the grant is set to a value never used before; the fresh ClusterInfo (given only the latest
// object) is the control: once ITS effective limit has reached what is expected (the grant with the gate on, the local
// limit with the gate off), the ClusterInfo that lived through the history must reach the same within three reconcile
// periods (the real 2 s loop is used on purpose - stepping the reconcile by hand would hide a loop that is not running).

type limiterStub struct {
	id    string
	cs    *gatewayfake.Clientset
	grant int32
	calls int64
}

func newLimiterStub(id string) *limiterStub {
	s := &limiterStub{id: id, cs: gatewayfake.NewSimpleClientset()}
	s.cs.PrependReactor("update", "ratelimitconditions", func(a clienttesting.Action) (bool, runtime.Object, error) {
		ua, ok := a.(clienttesting.UpdateAction)
		if !ok || a.GetSubresource() != "status" {
			return false, nil, nil
		}
		req, _ := ua.GetObject().(*proxyv1alpha1.RateLimitCondition)
		atomic.AddInt64(&s.calls, 1)
		ret := req.DeepCopy()
		q := atomic.LoadInt32(&s.grant)
		for i := range ret.Spec.LimitItemConfigurations {
			ret.Spec.LimitItemConfigurations[i].LimitItemDetail = proxyv1alpha1.LimitItemDetail{
				MaxRequestsInflight: &proxyv1alpha1.MaxRequestsInflightFlowControlSchema{Max: q},
			}
		}
		return true, ret, nil
	})
	return s
}

func (s *limiterStub) GetAllClients() []gatewayclientset.Interface {
	return []gatewayclientset.Interface{s.cs}
}
func (s *limiterStub) ClientFor(string) (gatewayclientset.Interface, error) { return s.cs, nil }
func (s *limiterStub) ShardIDFor(string) (int, error)                       { return 0, nil }
func (s *limiterStub) IsReady(string) bool                                  { return true }
func (s *limiterStub) ClientID() string                                     { return s.id }

const (
	remoteSchema = "fs-g"
	remoteLocal  = 30
	remoteGlobal = 40
)

func remoteVer(gateOn bool) *Ver {
	v := &Ver{Cluster: "rl", Ann: "gates:GlobalRateLimiter=false", Servers: []Srv{{Idx: 0}},
		Schemas:  []Sch{{Name: remoteSchema, Kind: "max", A: remoteLocal, Strategy: "globalAllocate", GA: remoteGlobal}},
		Policies: []Pol{{Verbs: []string{"*"}, Resources: []string{"*"}, Schema: remoteSchema}}}
	if gateOn {
		v.Ann = "gates:GlobalRateLimiter=true"
	}
	return v
}

// measureSafe: between EnableRemoteFlowControl() and the first remoteWrapper.Sync() of a reconcile round the limiter hands
// out a remote wrapper without a limiter behind it, and TryAcquire on it is a nil dereference (a window of the code under
// test that is not this property's subject; counted in the evidence). Such a measurement is simply "not there yet".
func measureSafe(r *vkit.R, ci *clusters.ClusterInfo) (out string) {
	if p := vkit.Safely(func() { out = measure(ci, remoteSchema) }); p != nil {
		r.Count("remote_limiter_handed_out_before_first_sync_panics", 1)
		return "panic"
	}
	return out
}

func remoteHistories(r *vkit.R) {
	n := r.N(32, 400)
	const grace = 6 * time.Second
	r.Assume("remote limiter: a cluster whose effective limit has not reached the server's grant within 6 s (three reconcile periods) after the fresh gateway (the control, same process, same load) reached it, is not following the limiter server")
	r.Parallel(n, 16, func(i int, g *vkit.Rand) {
		hstub := newLimiterStub(fmt.Sprintf("gw-hist-%d", i))
		grants := []int32{3, 5, 8, 13}
		atomic.StoreInt32(&hstub.grant, grants[g.Intn(len(grants))])
		gate := g.Chance(0.7)
		type step struct {
			GateOn bool  `json:"globalRateLimiterGate"`
			Grant  int32 `json:"server_grant_when_applied"`
		}
		steps := []step{{gate, atomic.LoadInt32(&hstub.grant)}}
		info, err := clusters.CreateClusterInfo(remoteVer(gate).Build(mat), nil, "remote", hstub)
		if err != nil {
			r.Inconclusive(fmt.Sprintf("remote history %d: CreateClusterInfo failed: %v", i, err))
			return
		}
		defer info.Stop()
		settle := func() {
			// best effort, no verdict: give the loop a moment to apply the current grant
			want := fmt.Sprint(remoteLocal)
			if gate {
				want = fmt.Sprint(atomic.LoadInt32(&hstub.grant))
			}
			vkit.WaitFor(30*time.Millisecond, func() bool { return measureSafe(r, info) == want })
		}
		settle()
		phase, onOffOn := 0, false // 0: never on; 1: on; 2: off after on
		if gate {
			phase = 1
		}
		nv := g.Range(2, 6)
		for v := 0; v < nv; v++ {
			if g.Chance(0.7) {
				gate = !gate
			}
			switch {
			case gate && phase == 2:
				onOffOn = true
				phase = 1
			case gate:
				phase = 1
			case !gate && phase == 1:
				phase = 2
			}
			if g.Chance(0.6) {
				atomic.StoreInt32(&hstub.grant, grants[g.Intn(len(grants))])
			}
			steps = append(steps, step{gate, atomic.LoadInt32(&hstub.grant)})
			if err := info.Sync(remoteVer(gate).Build(mat)); err != nil {
				r.Inconclusive(fmt.Sprintf("remote history %d: Sync of a valid object failed: %v", i, err))
				return
			}
			settle()
		}
		// the final grant: a value the server never granted before
		final := int32(17 + i%7)
		atomic.StoreInt32(&hstub.grant, final)
		fstub := newLimiterStub(fmt.Sprintf("gw-fresh-%d", i))
		atomic.StoreInt32(&fstub.grant, final)
		finfo, err := clusters.CreateClusterInfo(remoteVer(gate).Build(mat), nil, "remote", fstub)
		if err != nil {
			r.Inconclusive(fmt.Sprintf("remote history %d: fresh CreateClusterInfo failed: %v", i, err))
			return
		}
		defer finfo.Stop()
		want := fmt.Sprint(remoteLocal)
		if gate {
			want = fmt.Sprint(final)
		}
		if !vkit.WaitFor(30*time.Second, func() bool { return measureSafe(r, finfo) == want }) {
			r.Inconclusive(fmt.Sprintf("remote: the fresh gateway (control) did not reach the expected effective limit %s within the 30s watchdog (has %s)", want, measureSafe(r, finfo)))
			return
		}
		r.Eval(1)
		r.Count("remote_histories", 1)
		class := "other-history"
		if onOffOn {
			class = "after-gate-on-off-on"
			r.Count("remote_histories_gate_on_off_on", 1)
		}
		if gate {
			r.Count("remote_histories_gate_on_at_the_end", 1)
		}
		callsBefore := atomic.LoadInt64(&hstub.calls)
		if !vkit.WaitFor(grace, func() bool { return measureSafe(r, info) == want }) {
			sig := "C11/remote-limiter/does-not-follow-server/" + class
			if !gate {
				sig = "C11/remote-limiter/limit-diverges-with-gate-off/" + class
			}
			r.Violation(sig, fmt.Sprintf("schema %s (local %d, global %d, globalAllocate), GlobalRateLimiter gate on=%v in the latest object, server grants %d: a fresh gateway has the effective limit %s, the gateway that processed the history has %s and made %d allocate calls while waiting",
				remoteSchema, remoteLocal, remoteGlobal, gate, final, measureSafe(r, finfo), measureSafe(r, info), atomic.LoadInt64(&hstub.calls)-callsBefore),
				map[string]interface{}{"history": i, "versions": steps, "final_server_grant": final})
		}
	})
	r.Require(r.Counter("remote_histories") >= int64(n*9/10), "remote: too few histories completed")
	r.Require(r.Counter("remote_histories_gate_on_off_on") >= int64(n/4), "remote: too few histories in which the GlobalRateLimiter gate went on, off and on again")
}
