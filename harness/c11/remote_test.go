package c11

import (
	"encoding/json"
	"fmt"
	"os"
	goruntime "runtime"
	"sync"
	"sync/atomic"
	"time"

	"k8s.io/apimachinery/pkg/runtime"
	clienttesting "k8s.io/client-go/testing"

	proxyv1alpha1 "github.com/kubewharf/kubegateway/pkg/apis/proxy/v1alpha1"
	gatewayclientset "github.com/kubewharf/kubegateway/pkg/client/kubernetes"
	gatewayfake "github.com/kubewharf/kubegateway/pkg/client/kubernetes/fake"
	"github.com/kubewharf/kubegateway/pkg/clusters"

	"verifharness/vkit"
)

// "Does this cluster's limiter currently follow the limiter server" as an observable of convergence: gateways created
// with the remote rate limiter and a stub limiter-server client whose allocate reply grants whatever the harness scripted
// last. Histories switch the GlobalRateLimiter feature gate on and off (and on again) while the server's grant changes.
// After the last version the grant is set to a value never used before; the fresh ClusterInfo (given only the latest
// object) is the control: once ITS effective limit has reached what is expected (the grant with the gate on, the local
// limit with the gate off), the ClusterInfo that lived through the history must reach the same within three reconcile
// periods (the real 2 s loop is used on purpose - stepping the reconcile by hand would hide a loop that is not running).

type limiterStub struct {
	id    string
	cs    *gatewayfake.Clientset
	grant int32
	tb    bool // grants are token buckets (qps = burst = grant)
	calls int64

	// what the server-side state is "now" changes in generations (a new grant, or a new object version whose global limit
	// the gateway reports): startedInGen counts the allocate calls that STARTED in the current generation - a call that was
	// already in flight when the generation began legitimately carries the previous state
	mu           sync.Mutex
	gen          int64
	startedInGen int64
}

func (s *limiterStub) setGrant(q int32) {
	s.mu.Lock()
	atomic.StoreInt32(&s.grant, q)
	s.gen++
	s.startedInGen = 0
	s.mu.Unlock()
}

// newGeneration: something the gateway must pick up has just changed (without a new grant)
func (s *limiterStub) newGeneration() {
	s.mu.Lock()
	s.gen++
	s.startedInGen = 0
	s.mu.Unlock()
}

func (s *limiterStub) startedSinceChange() int64 {
	s.mu.Lock()
	defer s.mu.Unlock()
	return s.startedInGen
}

func newLimiterStub(id string) *limiterStub {
	s := &limiterStub{id: id, cs: gatewayfake.NewSimpleClientset()}
	s.cs.PrependReactor("update", "ratelimitconditions", func(a clienttesting.Action) (bool, runtime.Object, error) {
		ua, ok := a.(clienttesting.UpdateAction)
		if !ok || a.GetSubresource() != "status" {
			return false, nil, nil
		}
		req, _ := ua.GetObject().(*proxyv1alpha1.RateLimitCondition)
		atomic.AddInt64(&s.calls, 1)
		ret := req.DeepCopy()
		s.mu.Lock()
		q := atomic.LoadInt32(&s.grant)
		s.startedInGen++
		s.mu.Unlock()
		for i := range ret.Spec.LimitItemConfigurations {
			if s.tb {
				ret.Spec.LimitItemConfigurations[i].LimitItemDetail = proxyv1alpha1.LimitItemDetail{
					TokenBucket: &proxyv1alpha1.TokenBucketFlowControlSchema{QPS: q, Burst: q},
				}
			} else {
				ret.Spec.LimitItemConfigurations[i].LimitItemDetail = proxyv1alpha1.LimitItemDetail{
					MaxRequestsInflight: &proxyv1alpha1.MaxRequestsInflightFlowControlSchema{Max: q},
				}
			}
		}
		return true, ret, nil
	})
	return s
}

func (s *limiterStub) GetAllClients() []gatewayclientset.Interface {
	return []gatewayclientset.Interface{s.cs}
}
func (s *limiterStub) ClientFor(string) (gatewayclientset.Interface, error) { return s.cs, nil }
func (s *limiterStub) ShardIDFor(string) (int, error)                       { return 0, nil }
func (s *limiterStub) IsReady(string) bool                                  { return true }
func (s *limiterStub) ClientID() string                                     { return s.id }

const (
	remoteSchema = "fs-g"
	remoteLocal  = 30
	remoteGlobal = 40
)

// schema kinds of the remote part: 0 = max in flight + globalAllocate (effective limit measured), 1 = token bucket +
// globalAllocate, 2 = max in flight + globalCount with a global limit that changes between versions. For 1 and 2 the
// observable is what the limiter holds as the schema's remote configuration (deterministic; measuring a token bucket or a
// count-strategy limiter would depend on refill / on asynchronous acquire answers).
func remoteVer(gateOn bool, kind int, ga int32) *Ver {
	sch := Sch{Name: remoteSchema, Kind: "max", A: remoteLocal, Strategy: "globalAllocate", GA: remoteGlobal}
	switch kind {
	case 1:
		sch = Sch{Name: remoteSchema, Kind: "tb", A: 5, B: 10, Strategy: "globalAllocate", GA: 40, GB: 80}
	case 2:
		sch = Sch{Name: remoteSchema, Kind: "max", A: remoteLocal, Strategy: "globalCount", GA: ga}
	}
	v := &Ver{Cluster: "rl", Ann: "gates:GlobalRateLimiter=false", Servers: []Srv{{Idx: 0}},
		Schemas:  []Sch{sch},
		Policies: []Pol{{Verbs: []string{"*"}, Resources: []string{"*"}, Schema: remoteSchema}}}
	if gateOn {
		v.Ann = "gates:GlobalRateLimiter=true"
	}
	return v
}

// measureSafe: between EnableRemoteFlowControl() and the first remoteWrapper.Sync() of a reconcile round the limiter hands
// out a remote wrapper without a limiter behind it, and TryAcquire on it is a nil dereference (a window of the code under
// test that is not this property's subject; counted in the evidence). Such a measurement is simply "not there yet".
func measureSafe(r *vkit.R, ci *clusters.ClusterInfo) (out string) {
	if p := vkit.Safely(func() { out = measure(ci, remoteSchema) }); p != nil {
		r.Count("remote_limiter_handed_out_before_first_sync_panics", 1)
		return "panic"
	}
	return out
}

// remoteObs: what requests of this schema are limited by right now. Kind 0: the measured limit. Kinds 1, 2: with the gate on,
// the remote configuration the limiter holds for the schema ("none" while there is none) - with the gate off, the limiter
// that GetFlowSchema hands out (the local one).
func remoteObs(r *vkit.R, ci *clusters.ClusterInfo, kind int, gateOn bool) string {
	if kind == 0 {
		return measureSafe(r, ci)
	}
	if !gateOn {
		out := "?"
		vkit.Safely(func() { out = "local:" + ci.GetFlowSchema(remoteSchema).String() })
		return out
	}
	fcc, ok := ci.VerifLimiter().AllFlowControls()[remoteSchema]
	if !ok {
		return "no such schema"
	}
	out := "none"
	vkit.Safely(func() {
		if rm := fcc.FlowControl(); rm != nil {
			b, _ := json.Marshal(rm.Config())
			out = string(b)
		}
	})
	return out
}

func remoteHistories(r *vkit.R) {
	n := r.N(48, 400)
	if v := os.Getenv("C11_REMOTE_N"); v != "" {
		fmt.Sscan(v, &n)
	}
	// The bound is counted in the CONTROL's progress, not in wall-clock time (a stall of the whole test process must not look
	// like a dead reconcile loop): the fresh gateway's own reconcile loop (same period, same process) must complete
	// see the comment at the waiting loop below.
	r.Assume("remote limiter: a cluster that still differs from the fresh gateway after 3 reconcile rounds of its own loop that started after the last change, or whose loop started no round at all while the loop of the fresh gateway (the control: same period, same process, same load) completed 6, is not following the limiter server; anything slower ends INCONCLUSIVE at the watchdog")
	r.Parallel(n, 16, func(i int, g *vkit.Rand) {
		kind := i % 3
		hstub := newLimiterStub(fmt.Sprintf("gw-hist-%d", i))
		hstub.tb = kind == 1
		grants := []int32{3, 5, 8, 13}
		if kind == 1 {
			grants = []int32{6, 9, 12, 15}
		}
		gas := []int32{40, 50, 60}
		ga := gas[g.Intn(len(gas))]
		hstub.setGrant(grants[g.Intn(len(grants))])
		gate := g.Chance(0.7)
		type step struct {
			GateOn bool  `json:"globalRateLimiterGate"`
			Grant  int32 `json:"server_grant_when_applied"`
		}
		steps := []step{{gate, atomic.LoadInt32(&hstub.grant)}}
		info, err := clusters.CreateClusterInfo(remoteVer(gate, kind, ga).Build(mat), nil, "remote", hstub)
		if err != nil {
			r.Inconclusive(fmt.Sprintf("remote history %d: CreateClusterInfo failed: %v", i, err))
			return
		}
		defer info.Stop()
		settle := func() {
			// best effort, no verdict: give the loop a moment to apply the current grant / global limit
			c0 := atomic.LoadInt64(&hstub.calls)
			vkit.WaitFor(30*time.Millisecond, func() bool { return !gate || atomic.LoadInt64(&hstub.calls) > c0 })
		}
		settle()
		phase, onOffOn := 0, false // 0: never on; 1: on; 2: off after on
		if gate {
			phase = 1
		}
		nv := g.Range(2, 6)
		for v := 0; v < nv; v++ {
			if g.Chance(0.7) {
				gate = !gate
			}
			switch {
			case gate && phase == 2:
				onOffOn = true
				phase = 1
			case gate:
				phase = 1
			case !gate && phase == 1:
				phase = 2
			}
			if g.Chance(0.6) {
				hstub.setGrant(grants[g.Intn(len(grants))])
			}
			if kind == 2 && g.Chance(0.6) {
				ga = gas[g.Intn(len(gas))]
			}
			steps = append(steps, step{gate, atomic.LoadInt32(&hstub.grant)})
			if err := info.Sync(remoteVer(gate, kind, ga).Build(mat)); err != nil {
				r.Inconclusive(fmt.Sprintf("remote history %d: Sync of a valid object failed: %v", i, err))
				return
			}
			settle()
		}
		// the final grant: a value the server never granted before; for the count strategy a last version with a global limit
		// never used before (only the global limit changes: the local limiter is not touched)
		final := int32(17 + i%7)
		hstub.setGrant(final)
		if kind == 2 {
			ga = int32(70 + i%5)
			steps = append(steps, step{gate, final})
			if err := info.Sync(remoteVer(gate, kind, ga).Build(mat)); err != nil {
				r.Inconclusive(fmt.Sprintf("remote history %d: Sync of a valid object failed: %v", i, err))
				return
			}
			hstub.newGeneration() // reconcile rounds that start from now on see the final global limit
		}
		fstub := newLimiterStub(fmt.Sprintf("gw-fresh-%d", i))
		fstub.tb = kind == 1
		fstub.setGrant(final)
		finfo, err := clusters.CreateClusterInfo(remoteVer(gate, kind, ga).Build(mat), nil, "remote", fstub)
		if err != nil {
			r.Inconclusive(fmt.Sprintf("remote history %d: fresh CreateClusterInfo failed: %v", i, err))
			return
		}
		defer finfo.Stop()
		// the control: what the fresh gateway arrives at. Kind 0 is predictable (the grant, or the local limit with the gate
		// off); for the other kinds it is whatever the fresh gateway holds once it has completed two reconcile rounds and
		// holds a remote configuration (gate on).
		want := ""
		okF := false
		if kind == 0 {
			want = fmt.Sprint(remoteLocal)
			if gate {
				want = fmt.Sprint(final)
			}
			okF = vkit.WaitFor(30*time.Second, func() bool { return remoteObs(r, finfo, kind, gate) == want })
		} else {
			okF = vkit.WaitFor(30*time.Second, func() bool {
				if gate && atomic.LoadInt64(&fstub.calls) < 2 {
					return false
				}
				want = remoteObs(r, finfo, kind, gate)
				return want != "none" && want != "?"
			})
		}
		if !okF {
			r.Inconclusive(fmt.Sprintf("remote: the fresh gateway (control) did not reach a settled state within the 30s watchdog (kind %d, has %s)", kind, remoteObs(r, finfo, kind, gate)))
			return
		}
		r.Eval(1)
		r.Count("remote_histories", 1)
		class := "other-history"
		if onOffOn {
			class = "after-gate-on-off-on"
			r.Count("remote_histories_gate_on_off_on", 1)
		}
		if gate {
			r.Count("remote_histories_gate_on_at_the_end", 1)
		}
		r.Count(fmt.Sprintf("remote_histories_schema_kind_%d", kind), 1)
		// Waiting ends when the history gateway shows what the fresh one shows, or when it has had its chance: `hotRounds`
		// reconcile rounds of ITS OWN loop that started after the last change (a round already in flight when the change
		// was made carries the old state; rounds run one after the other, so when the 3rd has started the first two have been
		// applied completely), or when its loop is evidently not running: no such round at all while the loop of the fresh
		// gateway (the control: same period, same process, same load) completed `deadRounds` rounds. Anything else - a slow
		// machine, a stalled process - ends at the watchdog as INCONCLUSIVE. The verdict is computed from ONE read of both
		// gateways taken after the waiting has ended, and the message prints exactly these values.
		const hotRounds, deadRounds = 3, 6
		reason := ""
		if gate {
			f0 := atomic.LoadInt64(&fstub.calls)
			if !vkit.WaitFor(180*time.Second, func() bool {
				if remoteObs(r, info, kind, gate) == remoteObs(r, finfo, kind, gate) {
					return true
				}
				hs := hstub.startedSinceChange()
				switch {
				case hs >= hotRounds:
					reason = fmt.Sprintf("its reconcile loop started %d rounds after the last change", hs)
					return true
				case hs == 0 && atomic.LoadInt64(&fstub.calls) >= f0+deadRounds:
					reason = fmt.Sprintf("its reconcile loop started no round after the last change while the loop of the fresh gateway completed %d", atomic.LoadInt64(&fstub.calls)-f0)
					return true
				}
				return false
			}) {
				r.Inconclusive(fmt.Sprintf("remote: the history gateway neither caught up nor had %d reconcile rounds of its own within the 180s watchdog (rounds since the last change: %d; control rounds: %d)",
					hotRounds, hstub.startedSinceChange(), atomic.LoadInt64(&fstub.calls)-f0))
				return
			}
		}
		// the one final read (with the gate off nothing asynchronous is involved: the local limiter is in effect as soon as
		// Sync has returned)
		hv, fv := remoteObs(r, info, kind, gate), remoteObs(r, finfo, kind, gate)
		if hv != fv {
			sig := "C11/remote-limiter/does-not-follow-server/" + class
			if !gate {
				sig = "C11/remote-limiter/limit-diverges-with-gate-off/" + class
				reason = "the gate is off: nothing to wait for"
			}
			if f := os.Getenv("C11_DEBUG_STACKS"); f != "" {
				buf := make([]byte, 64<<20)
				buf = buf[:goruntime.Stack(buf, true)]
				_ = os.WriteFile(fmt.Sprintf("%s.%d", f, i), buf, 0o644)
			}
			kinds := []string{"max in flight, globalAllocate: measured limit", "token bucket, globalAllocate: remote configuration held", "max in flight, globalCount: remote configuration held"}
			r.Violation(sig, fmt.Sprintf("schema %s (%s), GlobalRateLimiter gate on=%v in the latest object, server grants %d, global limit %d: a fresh gateway has %s, the gateway that processed the history has %s (%s)",
				remoteSchema, kinds[kind], gate, final, ga, fv, hv, reason),
				map[string]interface{}{"history": i, "versions": steps, "final_server_grant": final, "compared_fresh": fv, "compared_history": hv})
		}
	})
	r.Require(r.Counter("remote_histories") >= int64(n*9/10), "remote: too few histories completed")
	for k := 0; k < 3; k++ {
		r.Require(r.Counter(fmt.Sprintf("remote_histories_schema_kind_%d", k)) >= int64(n/4), fmt.Sprintf("remote: too few histories with schema kind %d", k))
	}
	r.Require(r.Counter("remote_histories_gate_on_off_on") >= int64(n/4), "remote: too few histories in which the GlobalRateLimiter gate went on, off and on again")
}
