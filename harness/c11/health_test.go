package c11

import (
	"fmt"
	"sync"
	"time"

	"github.com/kubewharf/kubegateway/pkg/clusters"

	"verifharness/vkit"
)

// Health checking as an observable of convergence. The controller histories above use unreachable endpoints and compare
// the disabled flags only; here the same differential (history vs. fresh, given only the latest object) is made with a
// scripted health-check function at the ClusterInfo level (CreateClusterInfo + Sync are exactly what the controller calls
// for in-order deliveries), for histories that switch `disabled` back and forth on the same endpoints while the scripted
// upstream health changes. Compared per enabled endpoint of the latest object: is it being probed at all, and is its
// readiness the one a fresh gateway arrives at.

type hcScript struct {
	mu      sync.Mutex
	healthy map[string]bool
	probes  map[string]int
}

func newHCScript() *hcScript { return &hcScript{healthy: map[string]bool{}, probes: map[string]int{}} }

func (h *hcScript) fn(e *clusters.EndpointInfo) bool {
	h.mu.Lock()
	h.probes[e.Endpoint]++
	ok := h.healthy[e.Endpoint]
	h.mu.Unlock()
	if ok {
		e.UpdateStatus(true, "", "")
	} else {
		e.UpdateStatus(false, "Scripted", "scripted unhealthy")
	}
	return false
}

func (h *hcScript) count(ep string) int {
	h.mu.Lock()
	defer h.mu.Unlock()
	return h.probes[ep]
}

func (h *hcScript) set(ep string, ok bool) {
	h.mu.Lock()
	h.healthy[ep] = ok
	h.mu.Unlock()
}

type hcStep struct {
	Servers []Srv           `json:"servers"`
	Health  map[string]bool `json:"upstream_health_when_applied"`
}

func waitAdvance(s *hcScript, ep string, from int, d time.Duration) bool {
	return vkit.WaitFor(d, func() bool { return s.count(ep) > from })
}

func healthHistories(r *vkit.R) {
	n := r.N(300, 5000)
	// The bound for "never probes" is counted in the CONTROL's progress, not in wall-clock time (a stall of the whole test
	// process must not look like a missing probe): 50 further trigger rounds, each answered by a probe of the fresh
	// gateway and followed by a 40 ms pause of this goroutine, i.e. 50 separate occasions on which the scheduler of this very
	// process ran the equivalent goroutine of the control.
	const controlRounds = 50
	r.Assume("endpoint health: a gateway whose endpoint is not probed once during 53 TriggerHealthCheck rounds, each of which the fresh gateway (the control, same process, same load) answered with a probe and which are 40 ms apart, is not probing that endpoint")
	r.Parallel(n, 16, func(i int, g *vkit.Rand) {
		// ---- history ----
		cur := []Srv{{Idx: 0}, {Idx: 1}}
		if g.Bool() {
			cur = append(cur, Srv{Idx: 2, Disabled: g.Chance(0.3)})
		}
		health := map[string]bool{}
		for _, e := range endpointPool {
			health[e] = g.Bool()
		}
		hist := newHCScript()
		for e, ok := range health {
			hist.set(e, ok)
		}
		build := func(srv []Srv) *Ver {
			return &Ver{Cluster: "hc", Ann: "nil", Servers: append([]Srv{}, srv...), Policies: []Pol{{Verbs: []string{"*"}, Resources: []string{"*"}}}}
		}
		snapshot := func() map[string]bool {
			m := map[string]bool{}
			for _, s := range cur {
				m[endpointPool[s.Idx]] = health[endpointPool[s.Idx]]
			}
			return m
		}
		steps := []hcStep{{Servers: append([]Srv{}, cur...), Health: snapshot()}}
		info, err := clusters.CreateClusterInfo(build(cur).Build(mat), hist.fn, "", nil)
		if err != nil {
			r.Inconclusive(fmt.Sprintf("health history %d: CreateClusterInfo failed: %v", i, err))
			return
		}
		defer info.Stop()
		// per endpoint: enabled -> disabled -> enabled seen since it was (last) added
		phase := map[int]int{} // 0 enabled so far, 1 disabled after enabled, 2 enabled again
		toggledBack := map[int]bool{}
		settle := func() {
			// best effort only (no verdict): let the checkers look at the current upstream health before the next change
			for _, s := range cur {
				if !s.Disabled {
					if ep, ok := info.Endpoints.Load(endpointPool[s.Idx]); ok {
						c := hist.count(ep.Endpoint)
						ep.TriggerHealthCheck()
						waitAdvance(hist, ep.Endpoint, c, 20*time.Millisecond)
					}
				}
			}
		}
		settle()
		nv := g.Range(3, 9)
		for v := 0; v < nv; v++ {
			if g.Chance(0.6) {
				e := endpointPool[g.Intn(len(endpointPool))]
				health[e] = !health[e]
				hist.set(e, health[e])
				if g.Bool() {
					settle()
				}
			}
			switch k := g.Intn(10); {
			case k < 7 || len(cur) == 0: // the disabled flag of one endpoint flips (the same endpoints again and again)
				j := g.Intn(len(cur))
				cur[j].Disabled = !cur[j].Disabled
				switch {
				case cur[j].Disabled && phase[cur[j].Idx] == 0:
					phase[cur[j].Idx] = 1
				case !cur[j].Disabled && phase[cur[j].Idx] == 3:
					phase[cur[j].Idx] = 0
				case !cur[j].Disabled && phase[cur[j].Idx] == 1:
					phase[cur[j].Idx] = 2
					toggledBack[cur[j].Idx] = true
				}
			case k < 9 && len(cur) < 3: // endpoint added
				used := map[int]bool{}
				for _, s := range cur {
					used[s.Idx] = true
				}
				for idx := range endpointPool {
					if !used[idx] {
						cur = append(cur, Srv{Idx: idx, Disabled: g.Chance(0.3)})
						delete(phase, idx)
						delete(toggledBack, idx)
						if cur[len(cur)-1].Disabled {
							phase[idx] = 3 // never enabled yet: enabling it later is a first start, not enable->disable->enable
						}
						break
					}
				}
			default: // endpoint removed (at least one stays)
				if len(cur) > 1 {
					j := g.Intn(len(cur))
					delete(phase, cur[j].Idx)
					delete(toggledBack, cur[j].Idx)
					cur = append(cur[:j], cur[j+1:]...)
				}
			}
			steps = append(steps, hcStep{Servers: append([]Srv{}, cur...), Health: snapshot()})
			if err := info.Sync(build(cur).Build(mat)); err != nil {
				r.Inconclusive(fmt.Sprintf("health history %d: Sync of a valid object failed: %v", i, err))
				return
			}
			settle()
		}
		// ---- final upstream health: differs from what the checkers saw last, for the endpoints enabled in the latest object ----
		final := map[string]bool{}
		for _, s := range cur {
			e := endpointPool[s.Idx]
			final[e] = !health[e]
			if g.Chance(0.3) {
				final[e] = health[e]
			}
			hist.set(e, final[e])
		}
		fresh := newHCScript()
		for e, ok := range final {
			fresh.set(e, ok)
		}
		finfo, err := clusters.CreateClusterInfo(build(cur).Build(mat), fresh.fn, "", nil)
		if err != nil {
			r.Inconclusive(fmt.Sprintf("health history %d: fresh CreateClusterInfo failed: %v", i, err))
			return
		}
		defer finfo.Stop()
		r.Eval(1)
		r.Count("health_histories", 1)
		wit := map[string]interface{}{"history": i, "versions": steps, "final_upstream_health": final}
		for _, s := range cur {
			e := endpointPool[s.Idx]
			he, ok1 := info.Endpoints.Load(e)
			fe, ok2 := finfo.Endpoints.Load(e)
			if !ok1 || !ok2 {
				continue // endpoint sets are compared by the main differential
			}
			if s.Disabled {
				if he.IsReady() != fe.IsReady() {
					r.Violation("C11/endpoint-health/disabled-endpoint-readiness-diverges", fmt.Sprintf("disabled endpoint %s: ready=%v in the gateway that processed the history, %v in a fresh one", e, he.IsReady(), fe.IsReady()), wit)
				}
				continue
			}
			r.Count("health_enabled_endpoints_compared", 1)
			class := "other-history"
			if toggledBack[s.Idx] {
				class = "after-disable-enable"
				r.Count("health_endpoints_enabled_again_after_disable", 1)
			}
			h0 := hist.count(e)
			for round := 0; round < 3; round++ {
				f0 := fresh.count(e)
				he.TriggerHealthCheck()
				fe.TriggerHealthCheck()
				if !waitAdvance(fresh, e, f0, 20*time.Second) {
					r.Inconclusive("health: the fresh gateway (control) did not probe within the 20s watchdog after a trigger")
					return
				}
			}
			for round := 0; round < controlRounds && hist.count(e) == h0; round++ {
				time.Sleep(40 * time.Millisecond)
				f0 := fresh.count(e)
				he.TriggerHealthCheck()
				fe.TriggerHealthCheck()
				if !waitAdvance(fresh, e, f0, 20*time.Second) {
					r.Inconclusive("health: the fresh gateway (control) did not probe within the 20s watchdog after a trigger")
					return
				}
			}
			if hist.count(e) == h0 {
				r.Violation("C11/endpoint-health/not-probed/"+class,
					fmt.Sprintf("endpoint %s is enabled in the latest object; after the upstream health changed and three TriggerHealthCheck calls the fresh gateway probed it %d times (one probe per trigger, 53 triggers on both), the gateway that processed the history never did (ready=%v, fresh ready=%v, upstream healthy=%v)",
						e, fresh.count(e), he.IsReady(), fe.IsReady(), final[e]), wit)
				continue
			}
			r.Count("health_probes_seen_in_history_gateway", 1)
			// both have probed after the final health was set; UpdateStatus follows the probe within the same call
			want := final[e]
			okF := vkit.WaitFor(20*time.Second, func() bool { return fe.IsReady() == want })
			if !okF {
				r.Inconclusive("health: the fresh gateway (control) did not reach the scripted readiness within the 20s watchdog")
				return
			}
			// the history gateway has probed after the final health was set (its counter advanced above); the status update is
			// part of the same probe call: a few more control rounds give it the time to finish
			for round := 0; round < controlRounds && he.IsReady() != want; round++ {
				time.Sleep(40 * time.Millisecond)
				f0 := fresh.count(e)
				he.TriggerHealthCheck()
				fe.TriggerHealthCheck()
				if !waitAdvance(fresh, e, f0, 20*time.Second) {
					r.Inconclusive("health: the fresh gateway (control) did not probe within the 20s watchdog after a trigger")
					return
				}
			}
			if he.IsReady() != want {
				r.Violation("C11/endpoint-health/readiness-diverges/"+class, fmt.Sprintf("endpoint %s: ready=%v in the gateway that processed the history, %v in a fresh one (upstream healthy=%v)", e, he.IsReady(), fe.IsReady(), want), wit)
			}
		}
	})
	r.Require(r.Counter("health_histories") >= int64(n*9/10), "health: too few histories completed")
	r.Require(r.Counter("health_endpoints_enabled_again_after_disable") >= int64(n/4), "health: too few endpoints that were enabled, disabled and enabled again")
	r.Require(r.Counter("health_enabled_endpoints_compared") >= int64(n*2/3), "health: too few enabled endpoints compared")
}
