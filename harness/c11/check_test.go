package c11

import (
	"bytes"
	"crypto/x509"
	"encoding/json"
	"fmt"
	"os"
	"regexp"
	"runtime"
	"sort"
	"strings"
	"sync"
	"sync/atomic"
	"testing"

	"k8s.io/apiserver/pkg/authentication/user"
	"k8s.io/apiserver/pkg/authorization/authorizer"
	"k8s.io/component-base/featuregate"

	proxyv1alpha1 "github.com/kubewharf/kubegateway/pkg/apis/proxy/v1alpha1"
	"github.com/kubewharf/kubegateway/pkg/clusters"

	"verifharness/bed"
	"verifharness/vkit"
)

var (
	clusterNames = []string{"ca", "cb", "cc"}
	aliasPool    = []string{"x.io", "Y.io", "z.example.com", "w.local"}
	schemaNames  = []string{"fs-a", "fs-b", "fs-c"}
	universe     = []string{"ca", "cb", "cc", "x.io", "y.io", "z.example.com", "w.local"}

	matOnce sync.Once
	mat     *material
)

func initMaterial() {
	matOnce.Do(func() {
		mat = &material{serving: map[string]*bed.KeyPair{}, ca: map[string]*bed.KeyPair{}}
		for _, v := range []string{"v1", "v2"} {
			mat.serving[v] = bed.NewServing("serving-"+v, []string{"gw"}, nil)
			mat.ca[v] = bed.NewCA("ca-" + v)
		}
	})
}

// ---- probes ----

type probe struct {
	name string
	rec  authorizer.AttributesRecord
}

var probes = []probe{
	{"get pods", authorizer.AttributesRecord{Verb: "get", Resource: "pods", APIVersion: "v1", Namespace: "ns", Name: "p", ResourceRequest: true}},
	{"list pods", authorizer.AttributesRecord{Verb: "list", Resource: "pods", APIVersion: "v1", Namespace: "ns", ResourceRequest: true}},
	{"get nodes", authorizer.AttributesRecord{Verb: "get", Resource: "nodes", APIVersion: "v1", Name: "n", ResourceRequest: true}},
	{"delete nodes", authorizer.AttributesRecord{Verb: "delete", Resource: "nodes", APIVersion: "v1", Name: "n", ResourceRequest: true}},
	{"watch configmaps", authorizer.AttributesRecord{Verb: "watch", Resource: "configmaps", APIVersion: "v1", Namespace: "ns", ResourceRequest: true}},
	{"get /healthz", authorizer.AttributesRecord{Verb: "get", Path: "/healthz"}},
	{"get /metrics", authorizer.AttributesRecord{Verb: "get", Path: "/metrics"}},
}

// ---- observation of one gateway ----

type CObs struct {
	Endpoints []string          `json:"endpoints"` // "url" or "url(disabled)"
	Names     []string          `json:"serverNames"`
	Gates     map[string]bool   `json:"featureGates"`
	Certs     string            `json:"servingCertificate"`
	ClientCA  string            `json:"clientCA"`
	Verify    string            `json:"verifyOptions"`
	Schemas   map[string]string `json:"flowSchemas"`
	Limits    map[string]string `json:"measuredLimits"`
	Routing   map[string]string `json:"routing"`
}

type Obs struct {
	Resolution map[string]string `json:"resolution"`
	Clusters   map[string]*CObs  `json:"clusters"`
}

var epRe = regexp.MustCompile(`endpoint="([^"]+)" is (disabled|unhealthy)`)

func certID(der []byte) string {
	for v, kp := range mat.serving {
		if bytes.Equal(kp.DER, der) {
			return v
		}
	}
	return "unknown"
}

func poolID(p *x509.CertPool) string {
	if p == nil {
		return "none"
	}
	var ids []string
	for _, s := range p.Subjects() { //nolint:staticcheck // pools are built with AddCert by the code under test
		id := "unknown"
		for v, kp := range mat.ca {
			if bytes.Equal(kp.Cert.RawSubject, s) {
				id = v
			}
		}
		ids = append(ids, id)
	}
	sort.Strings(ids)
	return "[" + strings.Join(ids, ",") + "]"
}

func measure(ci *clusters.ClusterInfo, name string) string {
	fc := ci.GetFlowSchema(name)
	n := 0
	for n < 64 && fc.TryAcquire() {
		n++
	}
	for i := 0; i < n; i++ {
		fc.Release()
	}
	if n >= 64 {
		return "unlimited"
	}
	return fmt.Sprint(n)
}

var cfgCompared, candidatesUnobservable, chainProbes, chainProbesDenied int64

func observe(gw *bed.Gateway) *Obs {
	o := &Obs{Resolution: map[string]string{}, Clusters: map[string]*CObs{}}
	for _, n := range universe {
		if ci, ok := gw.Cluster(n); ok {
			o.Resolution[n] = ci.Cluster
		} else {
			o.Resolution[n] = ""
		}
	}
	for _, c := range clusterNames {
		ci, ok := gw.Cluster(c)
		if !ok || ci.Cluster != c {
			continue
		}
		co := &CObs{Gates: map[string]bool{}, Schemas: map[string]string{}, Limits: map[string]string{}, Routing: map[string]string{}}
		for _, e := range ci.AllEndpoints() {
			s := e
			if ep, ok := ci.Endpoints.Load(e); ok && ep.IstDisabled() {
				s += "(disabled)"
			}
			co.Endpoints = append(co.Endpoints, s)
		}
		sort.Strings(co.Endpoints)
		seen := map[string]bool{}
		for _, n := range ci.LoadServerNames() {
			n = strings.ToLower(n)
			if !seen[n] {
				seen[n] = true
				co.Names = append(co.Names, n)
			}
		}
		sort.Strings(co.Names)
		for _, g := range gateNames {
			co.Gates[g] = ci.FeatureEnabled(featuregate.Feature(g))
		}
		co.Certs, co.ClientCA = "none", "none"
		if cfg, ok := ci.LoadTLSConfig(); ok {
			var ids []string
			for _, c := range cfg.Certificates {
				if len(c.Certificate) > 0 {
					ids = append(ids, certID(c.Certificate[0]))
				}
			}
			if len(ids) > 0 {
				co.Certs = strings.Join(ids, ",")
			}
			co.ClientCA = poolID(cfg.ClientCAs)
		}
		co.Verify = "none"
		if vo, ok := ci.LoadVerifyOptions(); ok {
			co.Verify = poolID(vo.Roots) + fmt.Sprint(vo.KeyUsages)
		}
		for _, n := range append([]string{"", "no-such-schema"}, schemaNames...) {
			co.Schemas[n] = ci.GetFlowSchema(n).String()
			co.Limits[n] = measure(ci, n)
		}
		// what the limiter recorded per schema: strategy, configuration (incl. the global limit), local limiter
		for name, fcc := range ci.VerifLimiter().AllFlowControls() {
			b, _ := json.Marshal(fcc.LocalFlowControl().Config())
			co.Schemas[name+" (recorded)"] = fmt.Sprintf("strategy=%q config=%s local=%s", fcc.Strategy(), b, fcc.LocalFlowControl().String())
			atomic.AddInt64(&cfgCompared, 1)
		}
		for _, p := range probes {
			rec := p.rec
			rec.User = &user.DefaultInfo{Name: "probe", Groups: []string{"system:authenticated"}}
			pk, err := ci.MatchAttributes(&rec)
			if err != nil {
				co.Routing[p.name] = "error: " + err.Error()
				continue
			}
			// Candidate endpoints of the matched policy (its upstream subset, else all endpoints), independent of
			// readiness: readiness comes from health probes, not from the object, and is not what this property compares
			// (health_test.go covers probing). Every endpoint is unreachable by construction, so marking all of them
			// unhealthy only anticipates what their probes report; Pop() then fails and names every candidate.
			var eps []string
			observed := false
			for try := 0; try < 3 && !observed; try++ {
				ci.Endpoints.Range(func(_ string, ep *clusters.EndpointInfo) bool {
					ep.UpdateStatus(false, "VerifObservation", "marked unhealthy to list the candidates")
					return true
				})
				if _, perr := pk.Pop(); perr != nil {
					for _, m := range epRe.FindAllStringSubmatch(perr.Error(), -1) {
						eps = append(eps, m[1])
					}
					observed = true
				}
			}
			if !observed {
				atomic.AddInt64(&candidatesUnobservable, 1)
				eps = []string{"<not observable>"}
			}
			sort.Strings(eps)
			co.Routing[p.name] = fmt.Sprintf("flowcontrol=%s log=%v candidates=%v limiter={%s}", pk.FlowControlName(), pk.EnableLog(), eps, pk.FlowControl().String())
		}
		// the EFFECT of the request-path feature gates, not only their values: a request through the real handler chain
		// (DenyAllRequests => 429, CloseConnectionWhenIdle => "Connection: close"); every endpoint is marked unhealthy above,
		// so an admitted request ends the same way in both gateways
		tok := gw.Tokens.Add(&user.DefaultInfo{Name: "probe", Groups: []string{"system:authenticated"}})
		rec := gw.Serve(bed.NewRequest("GET", c, "/api/v1/namespaces/ns/pods", tok, "", nil))
		co.Routing["request through the handler chain"] = fmt.Sprintf("status=%d connection=%q", rec.Code, rec.Header().Get("Connection"))
		atomic.AddInt64(&chainProbes, 1)
		if rec.Code == 429 {
			atomic.AddInt64(&chainProbesDenied, 1)
		}
		o.Clusters[c] = co
	}
	return o
}

// ---- history generation ----

type hgen struct {
	g      *vkit.Rand
	mode   string          // in-order | requeue | failed-sync
	latest map[string]*Ver // lister's latest (nil/Deleted = absent)
	nextID int
	ups    []*Ver
	feat   map[string]bool
}

func (h *hgen) othersClaim(c, name string) bool {
	for o, v := range h.latest {
		if o == c || v == nil || v.Deleted {
			continue
		}
		for _, n := range v.claimed() {
			if n == strings.ToLower(name) {
				return true
			}
		}
	}
	return false
}

func randGates(g *vkit.Rand) string {
	var parts []string
	for _, gn := range gateNames {
		switch g.Intn(4) {
		case 0:
			parts = append(parts, gn+"=true")
		case 1:
			if g.Chance(0.3) {
				parts = append(parts, gn+"=false")
			}
		}
	}
	return strings.Join(parts, ",")
}

func (h *hgen) randAnn() string {
	g := h.g
	switch g.Intn(6) {
	case 0:
		return "nil"
	case 1:
		return "empty"
	case 2:
		return "other"
	case 3:
		return "gates+other:" + randGates(g)
	}
	return "gates:" + randGates(g)
}

func randSchema(g *vkit.Rand, name string) Sch {
	var s Sch
	switch g.Intn(3) {
	case 0:
		return Sch{Name: name, Kind: "exempt"}
	case 1:
		s = Sch{Name: name, Kind: "max", A: g.PickI32([]int32{1, 2, 3, 5})}
	default:
		q := g.PickI32([]int32{1, 2})
		s = Sch{Name: name, Kind: "tb", A: q, B: q + g.PickI32([]int32{1, 3, 6})}
	}
	randGlobal(g, &s)
	return s
}

// randGlobal sets (or removes) the cluster-wide part of a schema: strategy and global limit >= local limit.
func randGlobal(g *vkit.Rand, s *Sch) {
	s.Strategy, s.GA, s.GB = "", 0, 0
	if s.Kind == "exempt" || g.Chance(0.35) {
		return
	}
	s.Strategy = g.Pick([]string{"", "local", "globalAllocate", "globalCount"})
	if g.Chance(0.8) {
		s.GA = s.A * g.PickI32([]int32{1, 2, 4, 10})
		if s.Kind == "tb" {
			s.GB = s.B * g.PickI32([]int32{1, 2, 4})
			if s.GB < s.GA {
				s.GB = s.GA
			}
		}
	}
}

func (h *hgen) randPolicies(v *Ver) {
	g := h.g
	v.Policies = nil
	n := g.Range(1, 3)
	for i := 0; i < n; i++ {
		p := Pol{}
		switch g.Intn(5) {
		case 0:
			p.Verbs, p.Resources = []string{"*"}, []string{"*"}
			if g.Bool() {
				p.NonRes = []string{"*"}
				p.Resources = nil
			}
		case 1:
			p.Verbs, p.Resources = []string{"get", "list"}, []string{"pods"}
		case 2:
			p.Verbs, p.Resources = []string{"*"}, []string{"nodes"}
		case 3:
			p.Verbs, p.NonRes = []string{"get"}, []string{"/healthz"}
		case 4:
			p.Verbs, p.Resources = []string{"get", "watch", "delete"}, []string{"*"}
		}
		if len(v.Schemas) > 0 && g.Chance(0.7) {
			p.Schema = v.Schemas[g.Intn(len(v.Schemas))].Name
		}
		if g.Chance(0.4) {
			for _, s := range v.Servers {
				if g.Bool() {
					p.Subset = append(p.Subset, s.Idx)
				}
			}
		}
		p.LogMode = g.Pick([]string{"", "", "on", "off"})
		v.Policies = append(v.Policies, p)
	}
}

// repair keeps the object valid after servers / schemas changed (validation: subset ⊆ servers, schema must exist)
func repair(v *Ver) {
	have := map[int]bool{}
	for _, s := range v.Servers {
		have[s.Idx] = true
	}
	sch := map[string]bool{}
	for _, s := range v.Schemas {
		sch[s.Name] = true
	}
	for i := range v.Policies {
		var keep []int
		for _, x := range v.Policies[i].Subset {
			if have[x] {
				keep = append(keep, x)
			}
		}
		v.Policies[i].Subset = keep
		if !sch[v.Policies[i].Schema] {
			v.Policies[i].Schema = ""
		}
	}
}

func (h *hgen) fresh(c string) *Ver {
	g := h.g
	v := &Ver{Cluster: c, Ann: h.randAnn(), Logging: g.Pick([]string{"", "on", "off"})}
	for _, i := range g.Perm(len(endpointPool))[:g.Range(1, 3)] {
		v.Servers = append(v.Servers, Srv{Idx: i, Disabled: g.Chance(0.2)})
	}
	for _, n := range schemaNames {
		if g.Chance(0.5) {
			v.Schemas = append(v.Schemas, randSchema(g, n))
		}
	}
	h.randPolicies(v)
	if g.Chance(0.5) {
		v.Cert = g.Pick([]string{"v1", "v2"})
	}
	if g.Chance(0.4) {
		v.CA = g.Pick([]string{"v1", "v2"})
	}
	if g.Chance(0.5) {
		h.addAlias(v, false)
	}
	if h.mode == "failed-sync" && g.Chance(0.3) {
		// create-path failure: the first version of the cluster cannot be applied
		h.makeFailing(v, nil)
	}
	return v
}

func (h *hgen) addAlias(v *Ver, conflictOK bool) {
	g := h.g
	for try := 0; try < 6; try++ {
		a := aliasPool[g.Intn(len(aliasPool))]
		taken := h.othersClaim(v.Cluster, a)
		if taken && !conflictOK {
			continue
		}
		if taken {
			h.feat["conflict"] = true
		}
		if g.Bool() {
			a = strings.ToUpper(a)
		}
		v.Names = append(v.Names, a)
		return
	}
}

func (h *hgen) push(v *Ver) {
	h.nextID++
	v.ID = h.nextID
	h.ups = append(h.ups, v)
	h.latest[v.Cluster] = v
}

func (h *hgen) mutate(c string) {
	g := h.g
	prev := h.latest[c]
	if prev == nil || prev.Deleted {
		if prev != nil {
			h.feat["recreate"] = true
		}
		h.push(h.fresh(c))
		return
	}
	v := prev.clone()
	v.Fail = ""
	if prev.Fail != "" && g.Chance(0.55) {
		// partial repair: only the failing field is repaired, every other change of the failed version stays as it is
		h.feat["partial-repair"] = true
		h.push(v)
		return
	}
	nm := g.Range(1, 3)
	for k := 0; k < nm; k++ {
		switch g.Intn(14) {
		case 0: // server added / removed
			if len(v.Servers) > 1 && g.Bool() {
				i := g.Intn(len(v.Servers))
				v.Servers = append(v.Servers[:i], v.Servers[i+1:]...)
			} else {
				used := map[int]bool{}
				for _, s := range v.Servers {
					used[s.Idx] = true
				}
				for _, i := range g.Perm(len(endpointPool)) {
					if !used[i] {
						v.Servers = append(v.Servers, Srv{Idx: i, Disabled: g.Chance(0.2)})
						break
					}
				}
			}
		case 1: // disabled flag flips
			i := g.Intn(len(v.Servers))
			v.Servers[i].Disabled = !v.Servers[i].Disabled
		case 2, 3: // annotations / gates
			v.Ann = h.randAnn()
			h.feat["gates"] = true
		case 4: // schema added / removed
			if len(v.Schemas) > 0 && g.Bool() {
				i := g.Intn(len(v.Schemas))
				v.Schemas = append(v.Schemas[:i], v.Schemas[i+1:]...)
			} else {
				n := schemaNames[g.Intn(len(schemaNames))]
				found := false
				for i := range v.Schemas {
					if v.Schemas[i].Name == n {
						v.Schemas[i] = randSchema(g, n)
						found = true
					}
				}
				if !found {
					v.Schemas = append(v.Schemas, randSchema(g, n))
				}
			}
			h.feat["schemas"] = true
		case 5: // schema resized / type changed, or ONLY its strategy / global limit changed (type and local limit stay)
			if len(v.Schemas) > 0 {
				i := g.Intn(len(v.Schemas))
				if v.Schemas[i].Kind != "exempt" && g.Bool() {
					old := v.Schemas[i]
					for try := 0; try < 8 && v.Schemas[i] == old; try++ {
						randGlobal(g, &v.Schemas[i])
					}
					if v.Schemas[i] != old {
						h.feat["global-only-change"] = true
					}
				} else {
					v.Schemas[i] = randSchema(g, v.Schemas[i].Name)
				}
			}
		case 6:
			h.randPolicies(v)
		case 7:
			v.Logging = g.Pick([]string{"", "on", "off"})
		case 8: // alias added (in requeue mode it may collide with another cluster's name) / removed
			if len(v.Names) > 0 && g.Bool() {
				i := g.Intn(len(v.Names))
				v.Names = append(v.Names[:i], v.Names[i+1:]...)
			} else {
				h.addAlias(v, h.mode != "in-order" && g.Chance(0.5))
			}
		case 9: // serving key pair swapped / removed / made incomplete
			v.Cert = g.Pick([]string{"", "v1", "v2", "v1", "v2", "cert-only-v1", "key-only-v1"})
			h.feat["cert"] = true
		case 10:
			v.CA = g.Pick([]string{"", "v1", "v2"})
		case 12: // client connection settings change (excepted from the comparison, must not disturb anything else)
			v.Client = g.Intn(6)
			h.feat["client-settings-change"] = true
		case 13: // boundary shapes: the same endpoint listed twice (with different disabled flags), a schema with limit 0
			if g.Bool() && len(v.Servers) > 0 {
				d := v.Servers[g.Intn(len(v.Servers))]
				d.Disabled = !d.Disabled
				v.Servers = append(v.Servers, d)
				h.feat["duplicate-server-entry"] = true
			} else if len(v.Schemas) > 0 {
				i := g.Intn(len(v.Schemas))
				if v.Schemas[i].Kind == "max" {
					v.Schemas[i].A = 0
					if v.Schemas[i].GA > 0 && g.Bool() {
						v.Schemas[i].GA = 0
						v.Schemas[i].Strategy = ""
					}
					h.feat["zero-limit-schema"] = true
				}
			}
		case 11: // restore an earlier value: go back to the first version's field
			for _, u := range h.ups {
				if u.Cluster == c && !u.Deleted {
					v.Ann, v.Cert, v.CA = u.Ann, u.Cert, u.CA
					break
				}
			}
		}
	}
	repair(v)
	if h.mode == "failed-sync" && g.Chance(0.25) {
		h.makeFailing(v, prev)
	}
	h.push(v)
}

// makeFailing turns v into a version whose sync fails at one sub-syncer, and makes sure that a field handled by the same or a
// later sub-syncer changes in the same version (the change that a partial repair must not lose).
func (h *hgen) makeFailing(v, prev *Ver) {
	g := h.g
	v.Fail = failKinds[g.Intn(len(failKinds))]
	otherCert := func(c string) string {
		for {
			if n := g.Pick([]string{"", "v1", "v2"}); n != c {
				return n
			}
		}
	}
	kind, _ := v.failKind()
	switch kind {
	case "ca":
		if g.Chance(0.7) {
			v.Cert = otherCert(v.Cert)
		}
		if g.Chance(0.4) {
			v.CA = otherCert(v.CA)
		}
	case "keypair":
		if g.Chance(0.6) {
			v.CA = otherCert(v.CA)
		}
		if g.Chance(0.4) {
			v.Cert = otherCert(v.Cert)
		}
	case "gates":
		if g.Chance(0.5) {
			v.Cert = otherCert(v.Cert)
		}
	default:
		if g.Chance(0.5) {
			h.randPolicies(v)
			repair(v)
		}
		if g.Chance(0.4) {
			v.Cert = otherCert(v.Cert)
		}
	}
	if g.Chance(0.3) {
		h.addAlias(v, false)
	}
	cl := v.failClass()
	if prev == nil || prev.Deleted {
		cl = "create"
	}
	h.feat["fail:"+cl] = true
}

// lastFailClass: the sub-syncer at which the most recent unappliable version of the cluster failed ("create" when that
// version was the first one the cluster ever had, or the first after a delete).
func lastFailClass(ups []*Ver, c string) string {
	out := ""
	var prev *Ver
	for _, u := range ups {
		if u.Cluster != c {
			continue
		}
		if u.Fail != "" {
			out = u.failClass()
			if prev == nil || prev.Deleted {
				out = "create"
			}
		}
		prev = u
	}
	return out
}

func (h *hgen) anyFail() bool {
	for _, u := range h.ups {
		if u.Fail != "" {
			return true
		}
	}
	return false
}

func (h *hgen) generate() {
	g := h.g
	nc := g.Range(1, 3)
	total := g.Range(3, 12) * nc
	if g.Chance(0.15) {
		total = g.Range(20, 30) * nc
	}
	for len(h.ups) < total {
		c := clusterNames[g.Intn(nc)]
		switch {
		case h.latest[c] != nil && !h.latest[c].Deleted && g.Chance(0.07):
			h.nextID++
			d := &Ver{ID: h.nextID, Cluster: c, Deleted: true, Ann: "nil"}
			h.ups = append(h.ups, d)
			h.latest[c] = d
			h.feat["delete"] = true
		case h.mode == "requeue" && nc > 1 && g.Chance(0.12):
			h.staleMacro(c, nc)
		default:
			h.mutate(c)
		}
	}
	// the final objects must be jointly appliable: resolve remaining name conflicts and unappliable versions
	for round := 0; round < 6; round++ {
		changed := false
		for _, c := range clusterNames {
			v := h.latest[c]
			if v == nil || v.Deleted {
				continue
			}
			nv := v.clone()
			var keep []string
			for _, n := range nv.Names {
				if !h.othersClaim(c, n) {
					keep = append(keep, n)
				}
			}
			if len(keep) != len(nv.Names) || nv.Fail != "" {
				nv.Names, nv.Fail = keep, ""
				h.push(nv)
				changed = true
			}
		}
		if !changed {
			break
		}
	}
}

// staleMacro scripts the shape in which a superseded version is re-delivered: b holds alias x; a's next version claims x
// (refused, requeued) and changes more; a's following version drops the claim; b releases x.
func (h *hgen) staleMacro(a string, nc int) {
	g := h.g
	b := clusterNames[(indexOf(clusterNames, a)+1+g.Intn(nc-1))%nc]
	if b == a {
		return
	}
	for _, c := range []string{a, b} {
		if h.latest[c] == nil || h.latest[c].Deleted {
			h.push(h.fresh(c))
		}
	}
	x := ""
	for _, n := range h.latest[b].Names {
		x = n
	}
	if x == "" {
		for _, n := range aliasPool {
			if !h.othersClaim(b, n) {
				x = n
				break
			}
		}
		if x == "" {
			return
		}
		vb := h.latest[b].clone()
		vb.Names = append(vb.Names, x)
		h.push(vb)
	}
	va := h.latest[a].clone()
	va.Names = append(va.Names, x)
	used := map[int]bool{}
	for _, s := range va.Servers {
		used[s.Idx] = true
	}
	for i := range endpointPool {
		if !used[i] {
			va.Servers = append(va.Servers, Srv{Idx: i})
			break
		}
	}
	va.Ann = h.randAnn()
	repair(va)
	h.push(va)
	va2 := va.clone()
	va2.Names = va2.Names[:len(va2.Names)-1]
	va2.Servers = va2.Servers[:1]
	va2.Logging = g.Pick([]string{"", "on", "off"})
	repair(va2)
	h.push(va2)
	vb := h.latest[b].clone()
	var keep []string
	for _, n := range vb.Names {
		if strings.ToLower(n) != strings.ToLower(x) {
			keep = append(keep, n)
		}
	}
	vb.Names = keep
	h.push(vb)
	h.feat["conflict"] = true
	h.feat["stale-macro"] = true
}

func indexOf(ss []string, s string) int {
	for i, x := range ss {
		if x == s {
			return i
		}
	}
	return 0
}

// ---- delivery: only orders the real informer + passthrough queue can produce ----
//
// The informer applies updates u1..un to its store in order and enqueues one event per update; the event's key is the
// object pointer, so events are never merged. One worker processes events in FIFO order; when it processes event i the
// store already holds update j for some j >= i (non-decreasing). A sync that asks for RequeueAfter is delivered again,
// with the same object, any time later (5 s in production), again and again while it keeps asking.

type pendingItem struct {
	ver *Ver
	obj *proxyv1alpha1.UpstreamCluster
	n   int
}

type delivery struct {
	Step     int    `json:"step"`
	What     string `json:"what"` // event | redelivery
	Ver      int    `json:"version"`
	Cluster  string `json:"cluster"`
	ListerAt int    `json:"lister_holds_version"` // id of the cluster's version in the lister at that moment (0 = absent)
	Outcome  string `json:"outcome"`
}

type runner struct {
	gw          *bed.Gateway
	ups         []*Ver
	objs        []*proxyv1alpha1.UpstreamCluster
	lister      map[string]*Ver
	L           int
	pending     []*pendingItem
	log         []delivery
	lastOK      map[string]int // cluster -> version id of the last delivery that was applied without requeue
	lastTouch   map[string]int // cluster -> version id of the last delivery whose object reached ClusterInfo.Sync (applied, or failed half-way)
	staleSeen   bool
	outcome     map[int]string // version id -> outcome of its last delivery
	failedSyncs int
	resyncs     int
	notFailing  []string
	panics      []string
	// emulate: deliver the lister's current object instead of the event's object (what a controller that always syncs
	// the latest version would do). Only used for the reference run that attributes a divergence, never for a verdict.
	emulate bool
}

func (rn *runner) advanceLister() {
	u := rn.ups[rn.L]
	if u.Deleted {
		rn.gw.RemoveFromLister(u.Cluster)
	} else {
		rn.objs[rn.L] = rn.gw.SetLister(rn.objs[rn.L])
	}
	rn.lister[u.Cluster] = u
	rn.L++
}

func (rn *runner) deliver(what string, v *Ver, obj *proxyv1alpha1.UpstreamCluster, it *pendingItem) {
	send := obj
	if rn.emulate {
		if cur, ok, _ := rn.gw.Indexer.GetByKey(v.Cluster); ok {
			send = cur.(*proxyv1alpha1.UpstreamCluster)
		}
	}
	sr := rn.gw.Deliver(send)
	d := delivery{Step: len(rn.log), What: what, Ver: v.ID, Cluster: v.Cluster}
	cur := rn.lister[v.Cluster]
	present := cur != nil && !cur.Deleted
	if present {
		d.ListerAt = cur.ID
	}
	switch {
	case sr.Panic != nil:
		d.Outcome = fmt.Sprintf("panic: %v", sr.Panic)
		rn.panics = append(rn.panics, d.Outcome)
	case sr.Err != nil:
		d.Outcome = "error: " + sr.Err.Error()
	case sr.Requeue:
		d.Outcome = "requeue"
		if it == nil {
			it = &pendingItem{ver: v, obj: obj}
		}
		it.n++
		rn.addPending(it)
		if present && (cur.Fail != "" || v.Fail != "") {
			// the sync of an unappliable version ran until the failing sub-syncer; what came before it is already applied
			rn.lastTouch[v.Cluster] = cur.ID
			f := cur
			if f.Fail == "" {
				f = v
			}
			d.Outcome = "requeue (sync failed at " + f.failClass() + ")"
			rn.failedSyncs++
		}
	case !present:
		d.Outcome = "not in lister: cluster removed"
		delete(rn.lastOK, v.Cluster)
		delete(rn.lastTouch, v.Cluster)
	default:
		d.Outcome = "applied"
		if cur.Fail != "" {
			// instrument check: a version meant to be unappliable was applied (counted, the run is then inconclusive)
			k, _ := cur.failKind()
			rn.notFailing = append(rn.notFailing, k)
		}
		rn.lastOK[v.Cluster] = v.ID
		rn.lastTouch[v.Cluster] = v.ID
		if v.ID != cur.ID {
			d.Outcome = "applied (superseded version)"
			rn.staleSeen = true
		}
	}
	rn.log = append(rn.log, d)
	if rn.outcome == nil {
		rn.outcome = map[int]string{}
	}
	rn.outcome[v.ID] = d.Outcome
}

func (rn *runner) addPending(it *pendingItem) {
	for _, p := range rn.pending {
		if p == it {
			return
		}
	}
	rn.pending = append(rn.pending, it)
}

func (rn *runner) redeliver(i int) {
	it := rn.pending[i]
	rn.pending = append(rn.pending[:i], rn.pending[i+1:]...)
	rn.deliver("redelivery", it.ver, it.obj, it)
}

func (rn *runner) run(g *vkit.Rand, lag bool) {
	n := len(rn.ups)
	for i := 0; i < n; {
		if lag && rn.L < n && g.Chance(0.4) {
			for k := g.Range(1, 3); k > 0 && rn.L < n; k-- {
				rn.advanceLister()
			}
		}
		if len(rn.pending) > 0 && g.Chance(0.25) {
			rn.redeliver(g.Intn(len(rn.pending)))
			continue
		}
		if rn.L > 0 && g.Chance(0.08) {
			// informer resync: the object the lister currently holds is delivered once more (UpdateFunc with old == new)
			u := rn.ups[g.Intn(rn.L)]
			if cur := rn.lister[u.Cluster]; cur != nil && !cur.Deleted {
				if o, ok, _ := rn.gw.Indexer.GetByKey(cur.Cluster); ok {
					rn.deliver("resync", cur, o.(*proxyv1alpha1.UpstreamCluster), nil)
					rn.resyncs++
				}
			}
		}
		for rn.L < i+1 {
			rn.advanceLister()
		}
		u := rn.ups[i]
		obj := rn.objs[i]
		if u.Deleted {
			// the delete event carries the last known state of the object
			for j := i - 1; j >= 0; j-- {
				if rn.ups[j].Cluster == u.Cluster && !rn.ups[j].Deleted {
					obj = rn.objs[j]
					break
				}
			}
			if obj == nil {
				obj = (&Ver{Cluster: u.Cluster, Ann: "nil"}).Build(mat)
			}
		}
		rn.deliver("event", u, obj, nil)
		i++
	}
	// drain: pending items are re-delivered until none is left or a whole round changes nothing (steady state)
	for round := 0; round < 6 && len(rn.pending) > 0; round++ {
		before := len(rn.pending)
		items := append([]*pendingItem{}, rn.pending...)
		rn.pending = nil
		for _, it := range items {
			rn.deliver("redelivery", it.ver, it.obj, it)
		}
		if len(rn.pending) == before && round >= 1 {
			break
		}
	}
}

// ---- comparison ----

type diff struct {
	Cluster, Observable, Detail, Hist, Fresh string
}

func compare(h, f *Obs) []diff {
	var out []diff
	for _, n := range universe {
		if h.Resolution[n] != f.Resolution[n] {
			out = append(out, diff{Cluster: pick(f.Resolution[n], h.Resolution[n]), Observable: "resolution", Detail: n, Hist: h.Resolution[n], Fresh: f.Resolution[n]})
		}
	}
	for _, c := range clusterNames {
		hc, fc := h.Clusters[c], f.Clusters[c]
		if (hc == nil) != (fc == nil) {
			out = append(out, diff{Cluster: c, Observable: "existence", Hist: fmt.Sprint(hc != nil), Fresh: fmt.Sprint(fc != nil)})
			continue
		}
		if hc == nil {
			continue
		}
		str := func(obs, detail, a, b string) {
			if a != b {
				out = append(out, diff{Cluster: c, Observable: obs, Detail: detail, Hist: a, Fresh: b})
			}
		}
		str("endpoints", "", fmt.Sprint(hc.Endpoints), fmt.Sprint(fc.Endpoints))
		str("server-names", "", fmt.Sprint(hc.Names), fmt.Sprint(fc.Names))
		for _, g := range gateNames {
			str("feature-gates", g, fmt.Sprint(hc.Gates[g]), fmt.Sprint(fc.Gates[g]))
		}
		str("tls-certificate", "", hc.Certs, fc.Certs)
		str("tls-client-ca", "", hc.ClientCA, fc.ClientCA)
		str("tls-verify-options", "", hc.Verify, fc.Verify)
		for _, n := range sortedKeys(fc.Schemas) {
			str("flow-schema", n, hc.Schemas[n], fc.Schemas[n])
			str("flow-limit", n, hc.Limits[n], fc.Limits[n])
		}
		for _, p := range sortedKeys(fc.Routing) {
			str("routing", p, hc.Routing[p], fc.Routing[p])
		}
	}
	return out
}

func sortedKeys(m map[string]string) []string {
	var ks []string
	for k := range m {
		ks = append(ks, k)
	}
	sort.Strings(ks)
	return ks
}

func pick(a, b string) string {
	if a != "" {
		return a
	}
	return b
}

func annClass(a string) string {
	switch {
	case a == "nil":
		return "annotations-absent"
	case a == "empty" || a == "other":
		return "annotation-key-absent"
	case strings.HasSuffix(a, ":"):
		return "annotation-value-empty"
	}
	return "gate-no-longer-listed"
}

func TestCheck(t *testing.T) {
	vkit.Run(t, "C11", "exploration", func(r *vkit.R) {
		initMaterial()
		r.Rule("seeded random histories: 1-3 clusters, 3-30 versions each (servers added/removed/disabled, feature-gate annotation set/changed/removed/annotations removed, " +
			"flow-control schemas added/removed/resized/type-changed and with cluster-wide variants (strategy local/globalAllocate/globalCount, global limit >= local) incl. updates that change ONLY strategy / global limit, dispatch policies regenerated, logging switched, aliases added/removed, serving key pair swapped/removed/made incomplete, " +
			"client CA swapped/removed, earlier values restored, client connection settings changed (excepted from the comparison), the same endpoint listed twice, a schema limit of 0, delete and re-create; informer resyncs re-deliver the current version). Three modes: in-order (every update delivered at once, no name conflicts), " +
			"requeue (aliases may collide with another cluster's, the refused version is requeued and re-delivered later - also after newer versions; the lister may run ahead of the events), " +
			"failed-sync (as requeue, plus versions that cannot be applied - whether or not admission would have let them through - one kind per sub-syncer of ClusterInfo.Sync: invalid feature-gate annotation, " +
			"unparsable client CA, mismatched / garbage key pair, unusable endpoint URL appended or first; also as the first version of a cluster = create-path failure; such a version changes other fields too, " +
			"is requeued and re-delivered, and is followed by a partial repair (only the failing field, every other change stays) or by further changes). Only delivery orders the real informer + passthrough queue " +
			"can produce. The final objects are always jointly appliable. G_hist = real controller that processed the history; G_fresh = real controller given only the latest objects. " +
			"Compared after quiescence: host resolution, endpoint set + disabled flags, server names, 4 feature gates, certificate / client CA / verify options, GetFlowSchema(n).String() and measured limits " +
			"for 5 schema names, MatchAttributes on 7 probes (flow-control name, log flag, candidate endpoints, limiter). Health part: 300 (thorough 5 000) ClusterInfo-level histories with a scripted health-check function that switch `disabled` back and forth on the same endpoints while the scripted upstream health changes; " +
			"per enabled endpoint of the latest object the history gateway must be probing (probe counter advances after TriggerHealthCheck, the fresh gateway is the control) and reach the fresh gateway's readiness. " +
			"Remote-limiter part: 32 (thorough 400) ClusterInfo-level histories with the remote rate limiter over a stub limiter server that switch the GlobalRateLimiter gate on/off/on while the server's grant changes; " +
			"the effective limit of the history gateway must follow the server like the fresh gateway's (real 2 s reconcile loop). Non-trivial = at least two versions of some cluster; distinct = hash of versions + delivery log.")
		r.Assume("client connection settings are excluded (the statement excepts them); endpoint health is excluded (all endpoints are unreachable in both gateways)")
		r.Assume("a pending requeue is re-delivered until it succeeds or a whole round of re-deliveries changes nothing")

		nh := r.N(8000, 30000)
		if os.Getenv("C11_REMOTE_N") != "" {
			nh = 40 // debugging aid: the remote part only
		}
		workers := runtime.GOMAXPROCS(0)
		if workers > 16 {
			workers = 16
		}
		var mu sync.Mutex
		feat := map[string]int{}
		modes := map[string]int{}
		r.Parallel(nh, workers, func(i int, g *vkit.Rand) {
			mode := []string{"in-order", "requeue", "requeue", "failed-sync"}[i%4]
			h := &hgen{g: g, mode: mode, latest: map[string]*Ver{}, feat: map[string]bool{}}
			h.generate()
			rn := &runner{gw: bed.NewGateway(bed.GatewayOptions{}), ups: h.ups, lister: map[string]*Ver{}, lastOK: map[string]int{}, lastTouch: map[string]int{}}
			defer rn.gw.Close()
			for _, u := range h.ups {
				if u.Deleted {
					rn.objs = append(rn.objs, nil)
				} else {
					rn.objs = append(rn.objs, u.Build(mat))
				}
			}
			lag := mode != "in-order" && g.Chance(0.5)
			gCopy := *g
			if p := vkit.Safely(func() { rn.run(g, lag) }); p != nil {
				r.Inconclusive(fmt.Sprintf("harness panic in history %d: %v", i, p))
				return
			}
			fresh := bed.NewGateway(bed.GatewayOptions{})
			defer fresh.Close()
			for _, c := range clusterNames {
				if v := h.latest[c]; v != nil && !v.Deleted {
					if sr := fresh.Apply(v.Build(mat)); sr.Requeue || sr.Err != nil || sr.Panic != nil {
						r.Inconclusive(fmt.Sprintf("fresh gateway could not apply the latest object of %s in history %d: %+v (generator bug)", c, i, sr))
						return
					}
				}
			}
			oh, of := observe(rn.gw), observe(fresh)
			diffs := compare(oh, of)
			// attribution only: the same history through a gateway that is always handed the lister's current object.
			// A divergence that disappears there is caused by syncing a superseded object; one that stays is not.
			alsoWithLatest := map[string]bool{}
			if len(diffs) > 0 && mode != "in-order" {
				ref := &runner{gw: bed.NewGateway(bed.GatewayOptions{}), ups: h.ups, lister: map[string]*Ver{}, lastOK: map[string]int{}, lastTouch: map[string]int{}, emulate: true}
				for _, u := range h.ups {
					if u.Deleted {
						ref.objs = append(ref.objs, nil)
					} else {
						ref.objs = append(ref.objs, u.Build(mat))
					}
				}
				if p := vkit.Safely(func() { ref.run(&gCopy, lag) }); p == nil {
					for _, d := range compare(observe(ref.gw), of) {
						alsoWithLatest[d.Cluster+"|"+d.Observable+"|"+d.Detail] = true
					}
				}
				ref.gw.Close()
				r.Count("attribution_reference_runs", 1)
			}
			r.Eval(1)
			r.Count("versions", len(h.ups))
			r.Count("deliveries", len(rn.log))
			nre, nstale := 0, 0
			for _, d := range rn.log {
				if d.What == "redelivery" {
					nre++
				}
				if strings.Contains(d.Outcome, "superseded") {
					nstale++
				}
				if strings.HasPrefix(d.Outcome, "requeue") {
					r.Count("requeues", 1)
				}
			}
			r.Count("redeliveries", nre)
			r.Count("failed_syncs", rn.failedSyncs)
			r.Count("resync_deliveries", rn.resyncs)
			for _, k := range rn.notFailing {
				r.Count("unappliable_version_was_applied:"+k, 1)
			}
			r.Count("unappliable_versions_applied", len(rn.notFailing))
			r.Count("superseded_versions_applied", nstale)
			if lag {
				r.Count("histories_with_lister_ahead", 1)
			}
			r.Count("clusters_compared", len(of.Clusters))
			if len(h.ups) >= 2 {
				r.Distinct(vkit.Hash64(fmt.Sprintf("%v|%v", h.ups, rn.log)))
			}
			mu.Lock()
			modes[mode]++
			for f := range h.feat {
				feat[f]++
			}
			mu.Unlock()
			wit := func(d diff) map[string]interface{} {
				return map[string]interface{}{"history": i, "mode": mode, "versions_in_lister_order": h.ups, "deliveries": rn.log,
					"diverging": d, "G_hist": oh.Clusters[d.Cluster], "G_fresh": of.Clusters[d.Cluster]}
			}
			// a panic of the controller is a failed delivery like any other (whether it may panic is C16's subject);
			// this property judges where the gateway ends up afterwards
			r.Count("controller_panics_during_delivery", len(rn.panics))
			reported := map[string]bool{}
			for _, d := range diffs {
				latest := h.latest[d.Cluster]
				stale := mode != "in-order" && !alsoWithLatest[d.Cluster+"|"+d.Observable+"|"+d.Detail]
				var sig string
				switch {
				case stale:
					// the divergence is gone when every delivery is given the lister's current object: a superseded object was synced
					sig = "C11/superseded-version-synced"
				case latest != nil && !latest.Deleted && rn.outcome[latest.ID] == "requeue":
					// steady state in which the controller keeps refusing the latest object although the latest objects are jointly
					// appliable (e.g. two clusters swapped aliases: each update both claims a name the other still holds and
					// releases the name the other waits for)
					sig = "C11/latest-version-refused-forever"
				case mode == "failed-sync" && h.anyFail():
					// attributed to the observable that diverges and to the sub-syncer at which the cluster's last unappliable version failed
					cl := lastFailClass(h.ups, d.Cluster)
					if cl == "" {
						cl = "of-other-cluster"
					}
					sig = "C11/" + d.Observable + "/after-failed-sync=" + cl
				case d.Observable == "feature-gates":
					sig = "C11/feature-gates/gate-stays-" + map[string]string{"true": "on", "false": "off"}[d.Hist] + "/latest-" + annClass(latest.Ann)
				case d.Observable == "tls-certificate" && latest != nil && strings.Contains(latest.Cert, "-only-"):
					sig = "C11/tls-certificate/incomplete-key-pair-keeps-previous-certificate"
				default:
					sig = "C11/" + d.Observable + "/diverges"
					if latest == nil || latest.Deleted {
						sig = "C11/" + d.Observable + "/deleted-cluster"
					}
				}
				if reported[sig] {
					continue
				}
				reported[sig] = true
				lv := "deleted"
				if latest != nil {
					lv = latest.String()
				}
				r.Violation(sig, fmt.Sprintf("cluster %q, %s %s: the gateway that processed the history has %q, a fresh gateway given only the latest objects has %q; latest object: %s; last version synced: #%d [history %d, mode %s, %d versions, %d deliveries]",
					d.Cluster, d.Observable, d.Detail, d.Hist, d.Fresh, lv, rn.lastTouch[d.Cluster], i, mode, len(h.ups), len(rn.log)), wit(d))
			}
			if i < 2 {
				r.Sample(map[string]interface{}{"history": i, "mode": mode, "versions": h.ups, "deliveries": rn.log, "diverging": diffs})
			}
		})
		healthHistories(r)
		remoteHistories(r)
		r.Set("schema_configs_compared", atomic.LoadInt64(&cfgCompared))
		r.Set("histories_by_feature", feat)
		r.Set("histories_by_mode", modes)
		r.Require(r.Counter("versions") >= int64(nh*5), "too few versions")
		r.Require(r.Counter("requeues") >= int64(nh/4), "too few requeues")
		r.Require(r.Counter("redeliveries") >= int64(nh/4), "too few re-deliveries")
		r.Require(r.Counter("clusters_compared") >= int64(nh), "too few clusters compared")
		r.Set("chain_probes", atomic.LoadInt64(&chainProbes))
		r.Set("chain_probes_denied_by_gate", atomic.LoadInt64(&chainProbesDenied))
		r.Require(atomic.LoadInt64(&chainProbes) >= int64(nh) && atomic.LoadInt64(&chainProbesDenied) >= int64(nh/20), "too few requests through the handler chain (effect of the feature gates)")
		r.Require(atomic.LoadInt64(&candidatesUnobservable) == 0, "the candidate endpoints of a policy could not be listed (an unreachable endpoint kept reporting ready)")
		r.Require(atomic.LoadInt64(&cfgCompared) >= int64(nh), "the recorded schema configuration (Config()) could not be read from the limiter")
		r.Require(r.Counter("resync_deliveries") >= int64(nh), "too few informer resync deliveries")
		for _, f := range []string{"client-settings-change", "duplicate-server-entry", "zero-limit-schema", "recreate", "gates", "schemas", "global-only-change", "cert", "delete", "conflict", "stale-macro"} {
			r.Require(feat[f] >= nh/20, "history feature "+f+" under-represented")
		}
		for _, f := range []string{"fail:feature-gates", "fail:client-ca", "fail:key-pair", "fail:endpoints", "fail:create", "partial-repair"} {
			r.Require(feat[f] >= nh/40, "history feature "+f+" under-represented")
		}
		r.Require(r.Counter("unappliable_versions_applied") == 0, "instrument broken: a version that is meant to be unappliable was applied by the controller")
		r.Require(r.Counter("failed_syncs") >= int64(nh/2), "too few syncs of unappliable versions actually failed")
	})
}
