// Package c11 checks that hot reload converges (property C11): a gateway that processed any history of UpstreamCluster
// versions ends up, per cluster, exactly where a freshly started gateway ends up that was given only the latest objects.
package c11

import (
	"fmt"
	"sort"
	"strings"

	metav1 "k8s.io/apimachinery/pkg/apis/meta/v1"

	proxyv1alpha1 "github.com/kubewharf/kubegateway/pkg/apis/proxy/v1alpha1"
	"github.com/kubewharf/kubegateway/pkg/clusters/features"

	"verifharness/bed"
)

// endpoints nothing listens on (the endpoints stay unhealthy; no traffic is needed for this property)
var endpointPool = []string{"http://127.0.0.1:9", "http://127.0.0.1:19", "http://127.0.0.2:9", "http://127.0.0.3:9"}

var gateNames = []string{"CloseConnectionWhenIdle", "DenyAllRequests", "GlobalRateLimiter", "Tracing"}

type Srv struct {
	Idx      int  `json:"endpoint"`
	Disabled bool `json:"disabled,omitempty"`
}

type Sch struct {
	Name string `json:"name"`
	Kind string `json:"kind"` // exempt | max | tb
	A    int32  `json:"a,omitempty"`
	B    int32  `json:"b,omitempty"`
	// cluster-wide variant: strategy "" | local | globalAllocate | globalCount, and the global limit
	// (global max in flight, or global qps / burst), always >= the local one. GA == 0: no global limit.
	Strategy string `json:"strategy,omitempty"`
	GA       int32  `json:"globalA,omitempty"`
	GB       int32  `json:"globalB,omitempty"`
}

type Pol struct {
	Verbs     []string `json:"verbs"`
	Resources []string `json:"resources,omitempty"`
	NonRes    []string `json:"nonResourceURLs,omitempty"`
	Schema    string   `json:"schema,omitempty"`
	Subset    []int    `json:"subset,omitempty"`
	LogMode   string   `json:"logMode,omitempty"`
}

// Ver is one version of a cluster object, in a compact form that is also the witness format.
type Ver struct {
	ID       int      `json:"id"`
	Cluster  string   `json:"cluster"`
	Deleted  bool     `json:"deleted,omitempty"`
	Servers  []Srv    `json:"servers,omitempty"`
	Ann      string   `json:"annotations"` // nil | empty | other | gates:<value> | gates+other:<value>
	Schemas  []Sch    `json:"schemas,omitempty"`
	Policies []Pol    `json:"policies,omitempty"`
	Logging  string   `json:"logging,omitempty"`
	Names    []string `json:"serverNames,omitempty"`
	Cert     string   `json:"cert,omitempty"` // "" | v1 | v2 | cert-only-v1 | key-only-v1
	CA       string   `json:"ca,omitempty"`   // "" | v1 | v2
	// Fail makes this version unappliable on top of its (valid) fields: "<sub-syncer>:<how>", see failKinds. The fields
	// underneath stay valid, so clearing Fail is "repair only the failing field, keep every other change".
	Fail string `json:"unappliable,omitempty"`
	// Client selects the client connection settings (gateway's own token, QPS/burst) of this version
	Client int `json:"clientSettings,omitempty"`
}

func (v *Ver) clone() *Ver {
	c := *v
	c.Servers = append([]Srv{}, v.Servers...)
	c.Schemas = append([]Sch{}, v.Schemas...)
	c.Policies = nil
	for _, p := range v.Policies {
		q := p
		q.Subset = append([]int{}, p.Subset...)
		c.Policies = append(c.Policies, q)
	}
	c.Names = append([]string{}, v.Names...)
	return &c
}

func (v *Ver) claimed() []string {
	out := []string{strings.ToLower(v.Cluster)}
	for _, n := range v.Names {
		out = append(out, strings.ToLower(n))
	}
	return out
}

func (v *Ver) String() string {
	if v.Deleted {
		return fmt.Sprintf("#%d %s DELETED", v.ID, v.Cluster)
	}
	f := ""
	if v.Fail != "" {
		f = " UNAPPLIABLE(" + v.Fail + ")"
	}
	return fmt.Sprintf("#%d %s servers=%v ann=%s schemas=%v policies=%d names=%v cert=%q ca=%q%s", v.ID, v.Cluster, v.Servers, v.Ann, v.Schemas, len(v.Policies), v.Names, v.Cert, v.CA, f)
}

type material struct {
	serving map[string]*bed.KeyPair
	ca      map[string]*bed.KeyPair
}

// Build turns a version into the API object.
func (v *Ver) Build(m *material) *proxyv1alpha1.UpstreamCluster {
	c := &proxyv1alpha1.UpstreamCluster{ObjectMeta: metav1.ObjectMeta{Name: v.Cluster}}
	for _, s := range v.Servers {
		srv := proxyv1alpha1.UpstreamClusterServer{Endpoint: endpointPool[s.Idx]}
		if s.Disabled {
			t := true
			srv.Disabled = &t
		}
		c.Spec.Servers = append(c.Spec.Servers, srv)
	}
	kind, how := v.failKind()
	switch kind {
	case "endpoint": // not a usable URL: syncEndpoints fails after gates, flow control and secure serving were applied
		c.Spec.Servers = append(c.Spec.Servers, proxyv1alpha1.UpstreamClusterServer{Endpoint: how})
	case "endpoint-first": // as above, and the create path already fails while building the REST config
		c.Spec.Servers = append([]proxyv1alpha1.UpstreamClusterServer{{Endpoint: how}}, c.Spec.Servers...)
	}
	// client connection settings: fixed when the cluster is first created and excepted from the comparison; versions
	// change them nevertheless - everything else must still converge
	c.Spec.ClientConfig.BearerToken = []byte(fmt.Sprintf("gw-token-%d", v.Client))
	if v.Client%3 == 1 {
		c.Spec.ClientConfig.QPS, c.Spec.ClientConfig.Burst = 50, 100
	} else if v.Client%3 == 2 {
		c.Spec.ClientConfig.QPS, c.Spec.ClientConfig.Burst, c.Spec.ClientConfig.QPSDivisor = 200, 400, 2
	}
	c.Spec.ClientConfig.Insecure = true
	switch {
	case v.Ann == "nil":
	case v.Ann == "empty":
		c.Annotations = map[string]string{}
	case v.Ann == "other":
		c.Annotations = map[string]string{"example.com/owner": "team-a"}
	case strings.HasPrefix(v.Ann, "gates:"):
		c.Annotations = map[string]string{features.FeatureGateAnnotationKey: strings.TrimPrefix(v.Ann, "gates:")}
	case strings.HasPrefix(v.Ann, "gates+other:"):
		c.Annotations = map[string]string{features.FeatureGateAnnotationKey: strings.TrimPrefix(v.Ann, "gates+other:"), "example.com/owner": "team-a"}
	}
	if kind == "gates" { // syncFeatureGate fails: nothing of this version is applied
		if c.Annotations == nil {
			c.Annotations = map[string]string{}
		}
		c.Annotations[features.FeatureGateAnnotationKey] = how
	}
	for _, s := range v.Schemas {
		fs := proxyv1alpha1.FlowControlSchema{Name: s.Name}
		switch s.Kind {
		case "exempt":
			fs.Exempt = &proxyv1alpha1.ExemptFlowControlSchema{}
		case "max":
			fs.MaxRequestsInflight = &proxyv1alpha1.MaxRequestsInflightFlowControlSchema{Max: s.A}
			if s.GA > 0 {
				fs.GlobalMaxRequestsInflight = &proxyv1alpha1.MaxRequestsInflightFlowControlSchema{Max: s.GA}
			}
		case "tb":
			fs.TokenBucket = &proxyv1alpha1.TokenBucketFlowControlSchema{QPS: s.A, Burst: s.B}
			if s.GA > 0 {
				fs.GlobalTokenBucket = &proxyv1alpha1.TokenBucketFlowControlSchema{QPS: s.GA, Burst: s.GB}
			}
		}
		fs.Strategy = proxyv1alpha1.LimitStrategy(s.Strategy)
		c.Spec.FlowControl.Schemas = append(c.Spec.FlowControl.Schemas, fs)
	}
	for _, p := range v.Policies {
		dp := proxyv1alpha1.DispatchPolicy{Strategy: proxyv1alpha1.RoundRobin, FlowControlSchemaName: p.Schema, LogMode: proxyv1alpha1.LogMode(p.LogMode)}
		for _, i := range p.Subset {
			dp.UpstreamSubset = append(dp.UpstreamSubset, endpointPool[i])
		}
		rule := proxyv1alpha1.DispatchPolicyRule{Verbs: p.Verbs}
		if len(p.NonRes) > 0 {
			rule.NonResourceURLs = p.NonRes
		} else {
			rule.APIGroups = []string{"*"}
			rule.Resources = p.Resources
		}
		dp.Rules = []proxyv1alpha1.DispatchPolicyRule{rule}
		c.Spec.DispatchPolicies = append(c.Spec.DispatchPolicies, dp)
	}
	c.Spec.Logging.Mode = proxyv1alpha1.LogMode(v.Logging)
	c.Spec.SecureServing.ServerNames = append([]string{}, v.Names...)
	switch v.Cert {
	case "v1", "v2":
		c.Spec.SecureServing.CertData = m.serving[v.Cert].CertPEM
		c.Spec.SecureServing.KeyData = m.serving[v.Cert].KeyPEM
	case "cert-only-v1":
		c.Spec.SecureServing.CertData = m.serving["v1"].CertPEM
	case "key-only-v1":
		c.Spec.SecureServing.KeyData = m.serving["v1"].KeyPEM
	}
	if v.CA != "" {
		c.Spec.SecureServing.ClientCAData = m.ca[v.CA].CertPEM
	}
	switch kind {
	case "ca": // the secure-serving sync fails at the client CA, before the key pair is looked at
		if how == "garbage" {
			c.Spec.SecureServing.ClientCAData = []byte("this is not a certificate")
		} else {
			c.Spec.SecureServing.ClientCAData = []byte("-----BEGIN CERTIFICATE-----\nbm90IGEgY2VydGlmaWNhdGU=\n-----END CERTIFICATE-----\n")
		}
	case "keypair": // the secure-serving sync fails at the key pair, after the client CA was processed
		if how == "mismatch" {
			c.Spec.SecureServing.CertData = m.serving["v1"].CertPEM
			c.Spec.SecureServing.KeyData = m.serving["v2"].KeyPEM
		} else {
			c.Spec.SecureServing.CertData = []byte("garbage")
			c.Spec.SecureServing.KeyData = []byte("garbage")
		}
	}
	return c
}

var failKinds = []string{
	"gates:NoSuchGate=true", "gates:Tracing=maybe",
	"ca:garbage", "ca:bad-pem",
	"keypair:mismatch", "keypair:garbage",
	"endpoint:http://%zz", "endpoint:http://[::1", "endpoint-first:http://%zz",
}

func (v *Ver) failKind() (kind, how string) {
	if v.Fail == "" {
		return "", ""
	}
	i := strings.IndexByte(v.Fail, ':')
	return v.Fail[:i], v.Fail[i+1:]
}

// failClass names the sub-syncer of ClusterInfo.Sync at which this version fails.
func (v *Ver) failClass() string {
	k, _ := v.failKind()
	return map[string]string{"gates": "feature-gates", "ca": "client-ca", "keypair": "key-pair", "endpoint": "endpoints", "endpoint-first": "endpoints"}[k]
}

func sortedCopy(s []string) []string {
	c := append([]string{}, s...)
	sort.Strings(c)
	return c
}
