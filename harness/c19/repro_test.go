package c19

import (
	"encoding/json"
	"fmt"
	"io"
	"net/http"
	"strings"
	"sync"
	"testing"
	"time"
	"verifharness/bed"

	"k8s.io/client-go/rest"

	proxyv1alpha1 "github.com/kubewharf/kubegateway/pkg/apis/proxy/v1alpha1"
	gatewayclientset "github.com/kubewharf/kubegateway/pkg/client/kubernetes"
	"github.com/kubewharf/kubegateway/pkg/ratelimiter/store/k8s"

	"verifharness/vkit"
)

// TestReproFlushRace is the minimal reproduction of C19/flush-not-atomic with nothing faked: the real typed client against
// an in-memory REST stub, the real constructor, real goroutines. (Not part of the check; run it with
//
//	go test -tags verif -vet=off -run TestReproFlushRace ./c19
//
// It FAILS on a tree that has the defect and passes with out/proposed-fixes/C19-flush-not-atomic.diff.)
//
// Periodic store, two cached conditions. Flush() lists both, then writes them one by one. While its first write is on the
// wire another goroutine deletes the OTHER condition (acknowledged: nil error). The flush then writes that condition from
// its stale list: it is back in the API, the store no longer knows it, the next holder of the shard loads it.
func TestReproFlushRace(t *testing.T) {
	vkit.SilenceKlog()
	var mu sync.Mutex
	objs := map[string]string{}
	firstWrite := make(chan string, 1)
	gate := make(chan struct{})
	var once sync.Once
	status := func(w http.ResponseWriter, code int, reason string) {
		w.Header().Set("Content-Type", "application/json")
		w.WriteHeader(code)
		fmt.Fprintf(w, `{"kind":"Status","apiVersion":"v1","status":"Failure","reason":%q,"code":%d}`, reason, code)
	}
	srv := bed.NewServer(http.HandlerFunc(func(w http.ResponseWriter, r *http.Request) {
		name := ""
		if i := strings.Index(r.URL.Path, "/ratelimitconditions/"); i >= 0 {
			name = r.URL.Path[i+len("/ratelimitconditions/"):]
		}
		body, _ := io.ReadAll(r.Body)
		switch r.Method {
		case "PUT":
			mu.Lock()
			_, ok := objs[name]
			if ok {
				objs[name] = string(body)
			}
			mu.Unlock()
			if !ok {
				status(w, 404, "NotFound")
				return
			}
			w.Header().Set("Content-Type", "application/json")
			w.Write(body)
		case "POST":
			var c proxyv1alpha1.RateLimitCondition
			_ = json.Unmarshal(body, &c)
			once.Do(func() { // the flush's first write is on the wire: hold it until the concurrent delete is done
				firstWrite <- c.Name
				<-gate
			})
			mu.Lock()
			objs[c.Name] = string(body)
			mu.Unlock()
			w.Header().Set("Content-Type", "application/json")
			w.WriteHeader(201)
			w.Write(body)
		case "DELETE":
			mu.Lock()
			_, ok := objs[name]
			delete(objs, name)
			mu.Unlock()
			if !ok {
				status(w, 404, "NotFound")
				return
			}
			status(w, 200, "")
		default:
			status(w, 500, "InternalError")
		}
	}))
	defer srv.Close()
	cs, err := gatewayclientset.NewForConfig(&rest.Config{Host: srv.URL})
	if err != nil {
		t.Fatal(err)
	}
	store := k8s.NewK8sCacheStore(cs, time.Hour, 0, 1)
	for _, n := range []string{"up.inst-a", "up.inst-b"} {
		if err := store.Save("up", newCondition("up", n, 1)); err != nil {
			t.Fatal(err)
		}
	}
	flushed := make(chan error, 1)
	go func() { flushed <- store.Flush() }()
	var first string
	select {
	case first = <-firstWrite:
	case <-time.After(20 * time.Second):
		t.Skip("flush did not start writing within the watchdog")
	}
	other := "up.inst-a"
	if first == other {
		other = "up.inst-b"
	}
	deleted := make(chan error, 1)
	go func() { deleted <- store.Delete("up", other) }()
	var delErr error
	delDone := false
	select {
	case delErr = <-deleted: // defective tree: the delete runs to completion while the flush is in progress
		delDone = true
	case <-time.After(300 * time.Millisecond): // fixed tree: the delete waits for the flush
	}
	close(gate)
	if err := <-flushed; err != nil {
		t.Fatalf("flush: %v", err)
	}
	if !delDone {
		delErr = <-deleted
	}
	if delErr != nil {
		t.Fatalf("delete: %v", delErr)
	}
	mu.Lock()
	_, back := objs[other]
	mu.Unlock()
	if back {
		t.Fatalf("Delete(%s) was acknowledged while Flush was writing %s; the flush then wrote %s from its stale list: it is in the API again, the store does not know it any more", other, first, other)
	}
}
