package c19

import (
	"errors"
	"fmt"
	"sort"
	"sync"

	apierrors "k8s.io/apimachinery/pkg/api/errors"
	metav1 "k8s.io/apimachinery/pkg/apis/meta/v1"
	"k8s.io/apimachinery/pkg/runtime"
	"k8s.io/apimachinery/pkg/runtime/schema"
	"k8s.io/apimachinery/pkg/runtime/serializer"
	k8stesting "k8s.io/client-go/testing"

	proxyv1alpha1 "github.com/kubewharf/kubegateway/pkg/apis/proxy/v1alpha1"
	gatewayfake "github.com/kubewharf/kubegateway/pkg/client/kubernetes/fake"
)

var (
	apiScheme = runtime.NewScheme()
	apiCodecs = serializer.NewCodecFactory(apiScheme)
	condGVR   = schema.GroupVersionResource{Group: "proxy.kubegateway.io", Version: "v1alpha1", Resource: "ratelimitconditions"}
)

func init() {
	if err := gatewayfake.AddToScheme(apiScheme); err != nil {
		panic(err)
	}
}

// val identifies the content of a condition: the version number the harness wrote into its spec and into its status.
// The zero val means "absent".
type val struct {
	Spec   int32 `json:"spec"`
	Status int32 `json:"status"`
}

var absent = val{}

func (v val) String() string {
	if v == absent {
		return "absent"
	}
	if v.Spec == v.Status {
		return fmt.Sprintf("v%d", v.Spec)
	}
	return fmt.Sprintf("spec v%d/status v%d", v.Spec, v.Status)
}

func newCondition(upstream, name string, ver int32) *proxyv1alpha1.RateLimitCondition {
	return &proxyv1alpha1.RateLimitCondition{
		ObjectMeta: metav1.ObjectMeta{Name: name},
		Spec: proxyv1alpha1.RateLimitSpec{
			UpstreamCluster: upstream,
			Instance:        "inst",
			LimitItemConfigurations: []proxyv1alpha1.RateLimitItemConfiguration{{Name: "fc",
				LimitItemDetail: proxyv1alpha1.LimitItemDetail{MaxRequestsInflight: &proxyv1alpha1.MaxRequestsInflightFlowControlSchema{Max: ver}}}},
		},
		Status: proxyv1alpha1.RateLimitStatus{
			LimitItemStatuses: []proxyv1alpha1.RateLimitItemStatus{{Name: "fc", RequestLevel: ver}},
		},
	}
}

func valOf(c *proxyv1alpha1.RateLimitCondition) val {
	var v val
	if len(c.Spec.LimitItemConfigurations) == 1 && c.Spec.LimitItemConfigurations[0].MaxRequestsInflight != nil {
		v.Spec = c.Spec.LimitItemConfigurations[0].MaxRequestsInflight.Max
	} else {
		v.Spec = -1
	}
	if len(c.Status.LimitItemStatuses) == 1 {
		v.Status = c.Status.LimitItemStatuses[0].RequestLevel
	} else {
		v.Status = -1
	}
	return v
}

// api is the one shared API server of a run: an ObjectTracker plus the log of everything that was ever persisted.
type api struct {
	tracker k8stesting.ObjectTracker
	mu      sync.Mutex
	history map[string]map[val]bool // name -> every value the API has ever held
}

func newAPI() *api {
	return &api{tracker: k8stesting.NewObjectTracker(apiScheme, apiCodecs.UniversalDecoder()), history: map[string]map[val]bool{}}
}

func (a *api) remember(name string, v val) {
	a.mu.Lock()
	if a.history[name] == nil {
		a.history[name] = map[val]bool{}
	}
	a.history[name][v] = true
	a.mu.Unlock()
}

func (a *api) everHeld(name string, v val) bool {
	a.mu.Lock()
	defer a.mu.Unlock()
	return a.history[name][v]
}

// put writes an object straight into the API (seed state, third-party writers).
func (a *api) put(c *proxyv1alpha1.RateLimitCondition) {
	if err := a.tracker.Create(condGVR, c, ""); err != nil {
		if err2 := a.tracker.Update(condGVR, c, ""); err2 != nil {
			panic(fmt.Sprintf("harness: cannot write to the tracker: %v / %v", err, err2))
		}
	}
	a.remember(c.Name, valOf(c))
}

func (a *api) remove(name string) { _ = a.tracker.Delete(condGVR, "", name) }

type stored struct {
	Upstream string
	Val      val
}

// snapshot returns what the API holds now.
func (a *api) snapshot() map[string]stored {
	out := map[string]stored{}
	obj, err := a.tracker.List(condGVR, condGVR.GroupVersion().WithKind("RateLimitCondition"), "")
	if err != nil {
		panic("harness: tracker list: " + err.Error())
	}
	for _, it := range obj.(*proxyv1alpha1.RateLimitConditionList).Items {
		c := it
		out[c.Name] = stored{Upstream: c.Spec.UpstreamCluster, Val: valOf(&c)}
	}
	return out
}

// ---- fault injection ----

type faultKind int

const (
	noFault       faultKind = iota
	notFound                // a third party deletes the target right before the call; the call then proceeds (natural NotFound)
	conflict                // update/delete: Conflict without effect (a third party bumped the version); create: a third party creates the object first (natural AlreadyExists)
	transient               // 503 without effect
	lostResponse            // the call takes effect, the client sees a timeout
	crashBefore             // process dies right before the call
	crashAfter              // process dies right after the call took effect
	conflictStorm           // this Update and the next 5 Updates of the client answer Conflict: more than the store's retry budget (5 steps)
	numFaultKinds
)

var faultNames = map[faultKind]string{noFault: "none", notFound: "not-found", conflict: "conflict", transient: "transient", lostResponse: "lost-response", crashBefore: "crash-before", crashAfter: "crash-after", conflictStorm: "conflict-storm"}

func (k faultKind) String() string { return faultNames[k] }

// applicable: which faults the real API can produce for which verb.
func applicable(k faultKind, verb string) bool {
	switch k {
	case notFound:
		return verb == "update" || verb == "delete" || verb == "get"
	case conflict:
		return verb == "update" || verb == "delete" || verb == "create"
	case conflictStorm:
		return verb == "update"
	}
	return true
}

// fault: hit the at-th API call (1-based) of the store's client with kind.
type fault struct {
	at   int
	kind faultKind
}

type crashSentinel struct{ when string }

var errDead = errors.New("connection refused (process is dead)")

// injector is the first reactor of a store's private clientset: kill switch, fault injector, call counter.
type injector struct {
	api *api

	mu        sync.Mutex
	calls     int
	killed    bool
	faults    []fault  // at most one fault per position
	verbs     []string // verb of every call seen
	hitVerb   string   // verb of the call hit by the LAST fault of the list (the one a run is classified by)
	hitName   string
	stormLeft int // Updates that still answer Conflict
	// failLists: the next failLists LIST calls of the client fail (failListsLost: with a timeout instead of a 503)
	failLists     int
	failListsLost bool
	listsFailed   int
	// listWindow: run once while the next LIST is in flight, with every lock of the client released (what other goroutines of
	// the same process do meanwhile). listStale: the LIST's answer was computed BEFORE the window (the response was on the
	// wire while the window's writes happened); otherwise it is computed after.
	listWindow func()
	listStale  bool
	skipped    bool // that fault was not applicable to the verb of the call at its position
	// onThirdParty tells the run's model that the API state of name was changed by the injected third party
	onThirdParty func(name string, now val)
	// interleave: run once, between two API calls of the operation in progress (right before the interleaveAt-th call
	// from now is performed), with every lock of the client released: what a concurrent goroutine of the same process
	// can do at that moment.
	interleave   func()
	interleaveIn int
	fake         *gatewayfake.Clientset
	// emulateNilDeref: the real typed client dereferences the object it is handed (…Name(obj.Name)…); the fake one does
	// not. When set (after the real client has been observed to panic, see confirmNilObjectPanics) a nil object panics here too.
	emulateNilDeref bool
}

func actionName(a k8stesting.Action) string {
	switch a.GetVerb() {
	case "get", "delete":
		if x, ok := a.(interface{ GetName() string }); ok {
			return x.GetName()
		}
	case "create", "update":
		if x, ok := a.(interface{ GetObject() runtime.Object }); ok {
			if o, ok := x.GetObject().(*proxyv1alpha1.RateLimitCondition); ok && o != nil {
				return o.Name
			}
		}
	}
	return ""
}

func actionObjectNil(a k8stesting.Action) bool {
	if x, ok := a.(interface{ GetObject() runtime.Object }); ok {
		o, isCond := x.GetObject().(*proxyv1alpha1.RateLimitCondition)
		return x.GetObject() == nil || (isCond && o == nil)
	}
	return false
}

func (in *injector) react(a k8stesting.Action) (bool, runtime.Object, error) {
	in.mu.Lock()
	defer in.mu.Unlock()
	if in.killed {
		return true, nil, errDead
	}
	verb := a.GetVerb()
	if (verb == "update" || verb == "create") && actionObjectNil(a) && in.emulateNilDeref {
		panic("runtime error: invalid memory address or nil pointer dereference (nil *RateLimitCondition handed to the typed client's " + verb + ")")
	}
	if in.interleave != nil {
		in.interleaveIn--
		if in.interleaveIn <= 0 {
			f := in.interleave
			in.interleave = nil
			in.mu.Unlock()
			in.fake.Unlock() // Fake.Invokes holds the clientset's lock around the reaction chain
			func() {
				defer func() {
					in.fake.Lock()
					in.mu.Lock()
				}()
				f()
			}()
			if in.killed {
				return true, nil, errDead
			}
		}
	}
	if in.listWindow != nil && verb == "list" && in.failLists == 0 {
		f := in.listWindow
		in.listWindow = nil
		in.calls++
		in.verbs = append(in.verbs, verb)
		var h bool
		var obj runtime.Object
		var err error
		if in.listStale {
			h, obj, err = in.apply(a)
		}
		in.mu.Unlock()
		in.fake.Unlock()
		func() {
			defer func() {
				in.fake.Lock()
				in.mu.Lock()
			}()
			f()
		}()
		if !in.listStale {
			h, obj, err = in.apply(a)
		}
		return h, obj, err
	}
	if in.failLists > 0 && verb == "list" {
		in.failLists--
		in.listsFailed++
		in.calls++
		in.verbs = append(in.verbs, verb)
		if in.failListsLost {
			return true, nil, apierrors.NewTimeoutError("injected: LIST timed out", 1)
		}
		return true, nil, apierrors.NewServiceUnavailable("injected: apiserver unavailable")
	}
	if in.stormLeft > 0 && verb == "update" {
		in.stormLeft--
		in.calls++
		in.verbs = append(in.verbs, verb)
		return true, nil, apierrors.NewConflict(condGVR.GroupResource(), actionName(a), errors.New("injected: the object has been modified (again)"))
	}
	in.calls++
	in.verbs = append(in.verbs, verb)
	kind := noFault
	last := false
	for i, f := range in.faults {
		if f.at == in.calls {
			kind, last = f.kind, i == len(in.faults)-1
		}
	}
	if kind == noFault {
		return false, nil, nil
	}
	in.hitName = actionName(a)
	if last {
		in.hitVerb = verb
	}
	if !applicable(kind, verb) {
		if last {
			in.skipped = true
		}
		return false, nil, nil
	}
	gr := condGVR.GroupResource()
	switch kind {
	case notFound:
		if in.hitName != "" {
			in.api.remove(in.hitName)
			if in.onThirdParty != nil {
				in.onThirdParty(in.hitName, absent)
			}
		}
		return false, nil, nil
	case conflict:
		if verb == "create" {
			if in.hitName != "" {
				third := newCondition(a.(interface{ GetObject() runtime.Object }).GetObject().(*proxyv1alpha1.RateLimitCondition).Spec.UpstreamCluster, in.hitName, 9000+int32(in.calls))
				in.api.put(third)
				if in.onThirdParty != nil {
					in.onThirdParty(in.hitName, valOf(third))
				}
			}
			return false, nil, nil
		}
		return true, nil, apierrors.NewConflict(gr, in.hitName, errors.New("injected: the object has been modified"))
	case conflictStorm:
		in.stormLeft = 5
		return true, nil, apierrors.NewConflict(gr, in.hitName, errors.New("injected: the object has been modified"))
	case transient:
		return true, nil, apierrors.NewServiceUnavailable("injected: apiserver unavailable")
	case lostResponse:
		_, _, _ = in.apply(a)
		return true, nil, apierrors.NewTimeoutError("injected: response lost", 1)
	case crashBefore:
		in.killed = true
		panic(crashSentinel{"before " + verb})
	case crashAfter:
		_, _, _ = in.apply(a)
		in.killed = true
		panic(crashSentinel{"after " + verb})
	}
	return false, nil, nil
}

// apply performs the action on the shared tracker and logs what got persisted.
func (in *injector) apply(a k8stesting.Action) (bool, runtime.Object, error) {
	handled, obj, err := k8stesting.ObjectReaction(in.api.tracker)(a)
	if err == nil && (a.GetVerb() == "create" || a.GetVerb() == "update") {
		if c, ok := obj.(*proxyv1alpha1.RateLimitCondition); ok && c != nil {
			in.api.remember(c.Name, valOf(c))
		}
	}
	return handled, obj, err
}

// newClient builds a store's private clientset over the shared API.
func newClient(a *api) (*gatewayfake.Clientset, *injector) {
	in := &injector{api: a}
	cs := &gatewayfake.Clientset{}
	in.fake = cs
	cs.AddReactor("*", "*", in.react)
	cs.AddReactor("*", "*", func(act k8stesting.Action) (bool, runtime.Object, error) { return in.apply(act) })
	return cs, in
}

func sortedKeys(m map[string]stored) []string {
	var ks []string
	for k := range m {
		ks = append(ks, k)
	}
	sort.Strings(ks)
	return ks
}
