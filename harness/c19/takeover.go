package c19

import (
	"fmt"
	"sort"
	"strings"
	"sync"
	"time"

	apiequality "k8s.io/apimachinery/pkg/api/equality"
	"k8s.io/apimachinery/pkg/labels"

	proxyv1alpha1 "github.com/kubewharf/kubegateway/pkg/apis/proxy/v1alpha1"
	"github.com/kubewharf/kubegateway/pkg/ratelimiter/limiter"
	"github.com/kubewharf/kubegateway/pkg/ratelimiter/options"
	"github.com/kubewharf/kubegateway/pkg/ratelimiter/store/k8s"
	"github.com/kubewharf/kubegateway/pkg/ratelimiter/util"

	"verifharness/bed"
	"verifharness/vkit"
)

// ---- take-over through the real limiter server ----
//
// "A server that gains a shard loads exactly the persisted conditions of that shard" is the limiter's doing as much as the
// store's: rateLimiter.startLeading builds the store, loads it, syncs the upstream clusters of the shard into it and rolls
// everything back when that fails; leaderCheck tries again later. Here the REAL rateLimiter (limiter.VerifNewRateLimiter,
// store "k8s" over the shared tracker through a fake clientset with the fault injector, scripted elector, stub cluster
// lister holding the upstream clusters) gains a shard while the API misbehaves:
//   plan A: the first N LIST calls fail (503 or timeout), N = 0..5;
//   plan B: one fault of every kind the API can produce at EVERY API call position of a fault-free take-over.
// Then leaderCheck runs (as the periodic sync does) until the faults are used up. Oracle at that point: IF the server
// serves the shard (it has a store for it), that store holds exactly what the API holds for the shard: every persisted
// condition by name, instance conditions with their persisted content, the upstream state conditions with their persisted
// status (the cluster sync rewrites their spec from the cluster object), and nothing of the other shard.

type takeoverCase struct {
	Mode      string `json:"store_mode"`
	Shard     int    `json:"shard"`
	FailLists int    `json:"first_lists_fail,omitempty"`
	Timeout   bool   `json:"lists_time_out,omitempty"`
	At        int    `json:"fault_at_call,omitempty"`
	Kind      string `json:"fault_kind,omitempty"`
	// During: what other goroutines of the server do WHILE the LIST of the take-over is in flight (the store is already
	// in the limiter's map): "cluster-event:<upstream>" = the upstream controller delivers an event for a cluster of the
	// shard; "report:<upstream>" = a gateway instance reports (UpdateRateLimitConditionStatus); "acquire:<upstream>".
	// StaleList: the LIST answer was computed before these (it was on the wire meanwhile), else after.
	During    []string `json:"while_the_list_is_in_flight,omitempty"`
	StaleList bool     `json:"list_answer_computed_before,omitempty"`
	Persisted []op     `json:"persisted_conditions"`
	Clusters  []string `json:"upstream_clusters_in_the_lister"`
}

func (c takeoverCase) String() string {
	f := "no fault"
	switch {
	case c.FailLists > 0 && c.Timeout:
		f = fmt.Sprintf("the first %d LISTs time out", c.FailLists)
	case c.FailLists > 0:
		f = fmt.Sprintf("the first %d LISTs answer 503", c.FailLists)
	case c.At > 0:
		f = fmt.Sprintf("%s at API call %d", c.Kind, c.At)
	}
	if len(c.During) > 0 {
		f += fmt.Sprintf("; while the LIST is in flight (answer computed %s): %s", map[bool]string{true: "before", false: "after"}[c.StaleList], strings.Join(c.During, ", "))
	}
	var ps []string
	for _, p := range c.Persisted {
		ps = append(ps, fmt.Sprintf("%s=v%d", p.Name, p.Ver))
	}
	return fmt.Sprintf("%s store, shard %d, %s; persisted: %s; clusters: %s", c.Mode, c.Shard, f, strings.Join(ps, " "), strings.Join(c.Clusters, " "))
}

type takeoverResult struct {
	Calls       int
	Verbs       []string
	HitVerb     string
	Attempts    int
	Serving     bool
	ListsFailed int
	Findings    []finding
	Log         []string
	Harness     string
	// AckedDuringLoad: operations acknowledged while the LIST was in flight
	AckedDuringLoad int
	// WindowOutlivedList: the work started while the LIST was in flight could only finish after the LIST had returned
	WindowOutlivedList bool
	TriedDuringLoad    int
}

func clusterObject(name string) *proxyv1alpha1.UpstreamCluster {
	return bed.BuildCluster(bed.ClusterSpec{Name: name, Servers: []string{"https://127.0.0.1:1"},
		Schemas: []proxyv1alpha1.FlowControlSchema{{Name: "fc", Strategy: proxyv1alpha1.GlobalAllocateLimit,
			FlowControlSchemaConfiguration: proxyv1alpha1.FlowControlSchemaConfiguration{
				MaxRequestsInflight:       &proxyv1alpha1.MaxRequestsInflightFlowControlSchema{Max: 10},
				GlobalMaxRequestsInflight: &proxyv1alpha1.MaxRequestsInflightFlowControlSchema{Max: 100}}}}})
}

func statusLevel(c *proxyv1alpha1.RateLimitCondition) int32 {
	for _, s := range c.Status.LimitItemStatuses {
		if s.Name == "fc" {
			return s.RequestLevel
		}
	}
	return -1
}

func runTakeover(tc takeoverCase) (res takeoverResult) {
	a := newAPI()
	for _, p := range tc.Persisted {
		a.put(newCondition(p.Upstream, p.Name, p.Ver))
	}
	persisted := map[string]*proxyv1alpha1.RateLimitCondition{}
	{
		obj, _ := a.tracker.List(condGVR, condGVR.GroupVersion().WithKind("RateLimitCondition"), "")
		for _, it := range obj.(*proxyv1alpha1.RateLimitConditionList).Items {
			c := it
			persisted[c.Name] = &c
		}
	}
	cs, inj := newClient(a)
	inj.failLists, inj.failListsLost = tc.FailLists, tc.Timeout
	if tc.At > 0 {
		for k := notFound; k < numFaultKinds; k++ {
			if k.String() == tc.Kind {
				inj.faults = []fault{{tc.At, k}}
			}
		}
	}
	period := time.Duration(0)
	if tc.Mode == "periodic" {
		period = time.Hour
	}
	el := bed.NewScriptedElector("server-1")
	uc := bed.NewStubUpstreamController()
	for _, n := range tc.Clusters {
		_ = uc.Indexer.Add(clusterObject(n))
	}
	rl, h := limiter.VerifNewRateLimiter(cs, options.RateLimitOptions{ShardingCount: shardCount, LimitStore: "k8s", Identity: "server-1", K8sStoreSyncPeriod: period}, el, uc)
	defer func() {
		// release the store (and the periodic goroutine of a periodic store) whatever happened
		inj.mu.Lock()
		inj.failLists, inj.faults = 0, nil
		inj.mu.Unlock()
		if h.Store(tc.Shard) != nil {
			_, _, _ = callOp(func() error { h.StopLeading(tc.Shard); return nil })
		}
	}()

	const reporter = "GW-Upper.Example"
	type ackedReport struct {
		name string
		ret  *proxyv1alpha1.RateLimitCondition
	}
	var acks []ackedReport
	var windowDone chan struct{}
	var windowOps func()
	eventDuringLoad := map[string]bool{}
	reportedUpstream := map[string]bool{}
	if len(tc.During) > 0 {
		inj.listStale = tc.StaleList
		inj.listWindow = func() {
			// The work runs on its own goroutine (it IS other goroutines' work). Normally it finishes while the LIST is
			// held; if something in the code under test makes it wait for the LIST itself (a lock held across the API
			// call), the LIST is released after a grace period and the work finishes afterwards. The grace period selects
			// the schedule only; the oracles compare with what the API holds at the end.
			windowDone = make(chan struct{})
			go func() {
				defer close(windowDone)
				windowOps()
			}()
			t := time.NewTimer(2 * time.Second)
			defer t.Stop()
			select {
			case <-windowDone:
			case <-t.C:
				res.WindowOutlivedList = true
			}
		}
		windowOps = func() {
			for _, d := range tc.During {
				kind, u := d[:strings.Index(d, ":")], d[strings.Index(d, ":")+1:]
				var err error
				var ret *proxyv1alpha1.RateLimitCondition
				out, _, pi := callOp(func() error {
					switch kind {
					case "cluster-event":
						err = h.UpstreamConditionHandler(clusterObject(u))
					case "report":
						_ = rl.Heartbeat(reporter)
						cond := &proxyv1alpha1.RateLimitCondition{
							Spec: proxyv1alpha1.RateLimitSpec{UpstreamCluster: u, Instance: reporter, LimitItemConfigurations: []proxyv1alpha1.RateLimitItemConfiguration{{Name: "fc", Strategy: proxyv1alpha1.GlobalAllocateLimit,
								LimitItemDetail: proxyv1alpha1.LimitItemDetail{MaxRequestsInflight: &proxyv1alpha1.MaxRequestsInflightFlowControlSchema{Max: 7}}}}},
							Status: proxyv1alpha1.RateLimitStatus{LimitItemStatuses: []proxyv1alpha1.RateLimitItemStatus{{Name: "fc", RequestLevel: 40,
								LimitItemDetail: proxyv1alpha1.LimitItemDetail{MaxRequestsInflight: &proxyv1alpha1.MaxRequestsInflightFlowControlSchema{Max: 3}}}}},
						}
						cond.Name = util.GenerateRateLimitConditionName(u, reporter)
						ret, err = rl.UpdateRateLimitConditionStatus(u, cond)
					case "lose": // the lease is lost: the elector fires OnStoppedLeading
						el.Lose(tc.Shard, "server-2")
					case "regain":
						el.Gain(tc.Shard)
					case "interim-save": // the interim holder of the shard (another server, its own client) acknowledges a new condition
						csI, _ := newClient(a)
						si, _ := k8s.VerifNewK8sCacheStore(csI, 0, tc.Shard, shardCount)
						err = si.Save(u, newCondition(u, u+".GW-Interim", 900))
					case "interim-delete": // … and deletes a persisted one
						csI, _ := newClient(a)
						si, _ := k8s.VerifNewK8sCacheStore(csI, 0, tc.Shard, shardCount)
						if err = si.Load(); err == nil {
							err = si.Delete(u, u+".10.0.0.1-443")
						}
					case "acquire":
						_, err = rl.DoAcquire(u, &proxyv1alpha1.RateLimitAcquire{Spec: proxyv1alpha1.RateLimitAcquireSpec{Instance: reporter, RequestID: 1,
							Requests: []proxyv1alpha1.RateLimitAcquireRequest{{FlowControl: "fc", Tokens: 1}}}})
					}
					return nil
				})
				res.TriedDuringLoad++
				switch {
				case out == panicked:
					res.Findings = append(res.Findings, finding{Oracle: "takeover-panics", What: fmt.Sprintf("%s while the LIST is in flight panics: %s in %s", d, pi.Value, pi.Frame)})
					res.Log = append(res.Log, d+" (LIST in flight) -> PANIC "+pi.Value)
				case err != nil:
					res.Log = append(res.Log, d+" (LIST in flight) -> error: "+err.Error())
				default:
					res.Log = append(res.Log, d+" (LIST in flight) -> ok")
					res.AckedDuringLoad++
					switch kind {
					case "cluster-event":
						eventDuringLoad[u] = true
					case "report":
						reportedUpstream[u] = true
						acks = append(acks, ackedReport{util.GenerateRateLimitConditionName(u, reporter), ret.DeepCopy()})
					}
				}
			}
		}
	}

	step := func(what string, fn func()) bool {
		out, _, pi := callOp(func() error { fn(); return nil })
		res.Attempts++
		line := what
		if out == panicked {
			res.Findings = append(res.Findings, finding{Oracle: "takeover-panics", What: fmt.Sprintf("%s panics: %s in %s", what, pi.Value, pi.Frame)})
			res.Log = append(res.Log, line+" -> PANIC "+pi.Value)
			return false
		}
		st := "no store for the shard (rolled back)"
		if h.Store(tc.Shard) != nil {
			st = "serves the shard"
		}
		res.Log = append(res.Log, line+" -> "+st)
		return true
	}
	// the election result arrives: OnStartedLeading -> startLeading
	if !step("gains the shard (startLeading)", func() { el.Gain(tc.Shard) }) {
		return res
	}
	if windowDone != nil {
		t := time.NewTimer(30 * time.Second)
		select {
		case <-windowDone:
		case <-t.C:
			res.Harness = "the work started while the LIST was in flight did not finish within the 30s watchdog"
			t.Stop()
			return res
		}
		t.Stop()
	}
	// the periodic leader check starts a led shard that has no store; it runs until the injected faults are used up
	pending := func() bool {
		inj.mu.Lock()
		defer inj.mu.Unlock()
		if inj.failLists > 0 {
			return true
		}
		for _, f := range inj.faults {
			if f.at > inj.calls {
				return true
			}
		}
		return false
	}
	for i := 0; i < 12 && (h.Store(tc.Shard) == nil || pending()); i++ {
		if h.Store(tc.Shard) != nil {
			break // it serves the shard: what it holds now is what its callers get
		}
		if !step("leader check", h.LeaderCheck) {
			return res
		}
	}
	inj.mu.Lock()
	res.Calls, res.Verbs, res.HitVerb, res.ListsFailed = inj.calls, append([]string{}, inj.verbs...), inj.hitVerb, inj.listsFailed
	inj.mu.Unlock()
	st := h.Store(tc.Shard)
	res.Serving = st != nil
	if st == nil {
		if !pending() && el.IsLeader(tc.Shard) {
			res.Harness = "the server never served the shard although it leads it and the faults were used up"
		}
		return res
	}
	if !el.IsLeader(tc.Shard) {
		res.Findings = append(res.Findings, finding{Oracle: "serves-shard-it-does-not-lead", What: fmt.Sprintf("the server has a store for shard %d although it lost the shard while that store was loading", tc.Shard)})
	}
	lostWhileLoading := false
	for _, d := range tc.During {
		if strings.HasPrefix(d, "lose:") {
			lostWhileLoading = true
		}
	}
	// ---- oracle ----
	snap := a.snapshot()
	held := map[string]*proxyv1alpha1.RateLimitCondition{}
	for _, c := range st.List(labels.Everything()) {
		held[c.Name] = c
		if util.GetShardID(c.Spec.UpstreamCluster, shardCount) != tc.Shard {
			res.Findings = append(res.Findings, finding{Oracle: "load-foreign-shard", Name: c.Name, What: fmt.Sprintf("the server serves shard %d with %s of upstream %s (other shard)", tc.Shard, c.Name, c.Spec.UpstreamCluster)})
		}
	}
	var names []string
	for n := range persisted {
		names = append(names, n)
	}
	sort.Strings(names)
	for _, n := range names {
		p := persisted[n]
		if util.GetShardID(p.Spec.UpstreamCluster, shardCount) != tc.Shard {
			continue
		}
		if _, still := snap[n]; !still {
			continue // (nothing in a take-over deletes conditions; kept for soundness)
		}
		c, ok := held[n]
		isState := strings.HasSuffix(n, ".state")
		// conditions of an upstream that was worked on while the LIST was in flight may legitimately have changed since
		// they were persisted: only their presence is judged here, their content by the during-load oracles below
		touched := lostWhileLoading // (judged against what the API holds NOW, below: an interim holder has written meanwhile)
		for _, d := range tc.During {
			if d[strings.Index(d, ":")+1:] == p.Spec.UpstreamCluster {
				touched = true
			}
		}
		switch {
		case !ok:
			res.Findings = append(res.Findings, finding{Oracle: "serves-shard-without-persisted-condition", Name: n,
				What: fmt.Sprintf("the server serves shard %d but its store does not hold the persisted condition %s=%s", tc.Shard, n, valOf(p))})
		case touched:
		case isState && statusLevel(c) != statusLevel(p):
			res.Findings = append(res.Findings, finding{Oracle: "persisted-upstream-state-rebuilt-from-scratch", Name: n,
				What: fmt.Sprintf("the server serves shard %d with %s status level %d; the persisted state had level %d (the state was rebuilt instead of loaded)", tc.Shard, n, statusLevel(c), statusLevel(p))})
		case !isState && valOf(c) != valOf(p):
			res.Findings = append(res.Findings, finding{Oracle: "load-value-differs", Name: n,
				What: fmt.Sprintf("the server serves shard %d with %s=%s, persisted was %s", tc.Shard, n, valOf(c), valOf(p))})
		}
	}
	if lostWhileLoading {
		// the shard was lost and regained while the first load was in flight: what is served after the regain must be what
		// the API holds now (the interim holder's acknowledged saves and deletes included), not what a LIST from before says
		snapNow := a.snapshot()
		for n, stNow := range snapNow {
			if util.GetShardID(stNow.Upstream, shardCount) != tc.Shard {
				continue
			}
			c, ok := held[n]
			switch {
			case !ok:
				res.Findings = append(res.Findings, finding{Oracle: "serves-shard-without-persisted-condition", Name: n,
					What: fmt.Sprintf("after losing and regaining shard %d during its load the server serves it without %s=%s, which the API holds (acknowledged by the interim holder)", tc.Shard, n, stNow.Val)})
			case !strings.HasSuffix(n, ".state") && valOf(c) != stNow.Val:
				res.Findings = append(res.Findings, finding{Oracle: "load-value-differs", Name: n, What: fmt.Sprintf("the server serves %s=%s, the API holds %s", n, valOf(c), stNow.Val)})
			}
		}
		for n, c := range held {
			if _, ok := snapNow[n]; !ok {
				res.Findings = append(res.Findings, finding{Oracle: "serves-condition-the-api-does-not-hold", Name: n,
					What: fmt.Sprintf("after losing and regaining shard %d during its load the server serves %s=%s, which the interim holder deleted (the store was loaded from a LIST taken before)", tc.Shard, n, valOf(c))})
			}
		}
	}
	if len(tc.During) > 0 {
		apiNow := map[string]*proxyv1alpha1.RateLimitCondition{}
		obj, _ := a.tracker.List(condGVR, condGVR.GroupVersion().WithKind("RateLimitCondition"), "")
		for _, it := range obj.(*proxyv1alpha1.RateLimitConditionList).Items {
			c := it
			apiNow[c.Name] = &c
		}
		// acknowledged => persisted (write-through), and the store does not contradict what it acknowledged
		if tc.Mode == "write-through" {
			for _, ack := range acks {
				p, ok := apiNow[ack.name]
				if !ok || !apiequality.Semantic.DeepEqual(p.Spec, ack.ret.Spec) || !apiequality.Semantic.DeepEqual(p.Status, ack.ret.Status) {
					res.Findings = append(res.Findings, finding{Oracle: "acknowledged-during-load-not-persisted", Name: ack.name,
						What: fmt.Sprintf("the report for %s was acknowledged while the LIST was in flight, the API does not hold what was acknowledged afterwards", ack.name)})
				}
			}
		}
		for _, ack := range acks {
			c, ok := held[ack.name]
			if !ok || !apiequality.Semantic.DeepEqual(c.Spec, ack.ret.Spec) || !apiequality.Semantic.DeepEqual(c.Status, ack.ret.Status) {
				holds := "nothing"
				if ok {
					holds = fmt.Sprintf("quota %s", valOf(c))
				}
				res.Findings = append(res.Findings, finding{Oracle: "acknowledged-during-load-lost-from-the-store", Name: ack.name,
					What: fmt.Sprintf("the report for %s was acknowledged (quota %s) while the LIST was in flight; after the load the store holds %s for it (Load put the older listed copy over it)", ack.name, valOf(ack.ret), holds)})
			}
		}
		// a persisted upstream state must not be replaced by one built from scratch (no report recomputed it legitimately)
		for u := range eventDuringLoad {
			n := u + ".state"
			p, was := persisted[n]
			now, is := apiNow[n]
			if was && is && !reportedUpstream[u] && tc.Mode == "write-through" && statusLevel(now) != statusLevel(p) {
				res.Findings = append(res.Findings, finding{Oracle: "persisted-upstream-state-overwritten-by-a-fresh-one", Name: n,
					What: fmt.Sprintf("a cluster event for %s was handled while the LIST was in flight: the store was still empty, so a state built from scratch was written over the persisted %s (status level %d -> %d in the API)", u, n, statusLevel(p), statusLevel(now))})
			}
		}
	}
	return res
}

// takeover enumerates the cases and judges them.
func takeover(r *vkit.R) {
	type job struct{ tc takeoverCase }
	var jobs []takeoverCase
	g := r.Rng.Fork("takeover")
	nLayouts := r.N(6, 60)
	ver := int32(0)
	for l := 0; l < nLayouts; l++ {
		shard := l % shardCount
		own := upstreamsOf[shard][:g.Range(1, 3)]
		other := upstreamsOf[1-shard][:1]
		var persisted []op
		var clusters []string
		for i, u := range own {
			inLister := i == 0 || g.Chance(0.7)
			if inLister {
				clusters = append(clusters, u)
			}
			for _, n := range condNames(u) {
				if strings.HasSuffix(n, ".state") || g.Chance(0.7) {
					ver++
					persisted = append(persisted, op{Kind: "seed", Upstream: u, Name: n, Ver: ver})
				}
			}
		}
		for _, u := range other {
			clusters = append(clusters, u)
			ver++
			persisted = append(persisted, op{Kind: "seed", Upstream: u, Name: u + ".state", Ver: ver})
		}
		for _, mode := range []string{"write-through", "periodic"} {
			base := takeoverCase{Mode: mode, Shard: shard, Persisted: persisted, Clusters: clusters}
			for n := 0; n <= 5; n++ {
				for _, to := range []bool{false, true} {
					if n == 0 && to {
						continue
					}
					tc := base
					tc.FailLists, tc.Timeout = n, to
					jobs = append(jobs, tc)
				}
			}
		}
		// plan C: other goroutines of the server work on the shard while the LIST of the take-over is in flight
		if len(clusters) > 0 {
			u := own[0] // always in the lister, always has a persisted state
			for _, mode := range []string{"write-through", "periodic"} {
				for _, during := range [][]string{{"cluster-event:" + u}, {"report:" + u}, {"cluster-event:" + u, "report:" + u}, {"acquire:" + u, "cluster-event:" + u, "acquire:" + u}} {
					for _, stale := range []bool{false, true} {
						tc := takeoverCase{Mode: mode, Shard: shard, Persisted: persisted, Clusters: clusters, During: during, StaleList: stale}
						jobs = append(jobs, tc)
						tc.FailLists = 1 // (the first LIST fails, the window opens on the second)
						jobs = append(jobs, tc)
					}
				}
			}
		}
		// plan D: the shard is lost WHILE its store is loading (OnStoppedLeading finds nothing to stop); an interim holder
		// acknowledges a save and a delete; the shard may be regained before the first load has finished
		{
			u := own[0]
			for _, mode := range []string{"write-through", "periodic"} {
				for _, during := range [][]string{{"lose:"}, {"lose:", "interim-save:" + u, "interim-delete:" + u}, {"lose:", "interim-save:" + u, "interim-delete:" + u, "regain:"}, {"lose:", "regain:"}} {
					for _, stale := range []bool{false, true} {
						tc := takeoverCase{Mode: mode, Shard: shard, Persisted: persisted, Clusters: clusters, During: during, StaleList: stale}
						jobs = append(jobs, tc)
						tc.FailLists = 1
						jobs = append(jobs, tc)
					}
				}
			}
		}
		// plan B: every position of the fault-free write-through take-over (positions are deterministic there: no goroutine)
		base := takeoverCase{Mode: "write-through", Shard: shard, Persisted: persisted, Clusters: clusters}
		free := runTakeover(base)
		for p := 1; p <= free.Calls; p++ {
			for _, k := range []faultKind{notFound, conflict, transient, lostResponse, conflictStorm} {
				if !applicable(k, free.Verbs[p-1]) {
					continue
				}
				tc := base
				tc.At, tc.Kind = p, k.String()
				jobs = append(jobs, tc)
			}
		}
	}
	var mu sync.Mutex
	byPlan := map[string]int{}
	r.Parallel(len(jobs), 16, func(i int, _ *vkit.Rand) {
		tc := jobs[i]
		res := runTakeover(tc)
		r.Eval(1)
		r.Count("takeover_runs", 1)
		r.Distinct(vkit.Hash64("takeover", tc.String()))
		if res.Harness != "" {
			r.Inconclusive("harness (take-over): " + res.Harness + " in " + tc.String())
			return
		}
		plan := "no-fault"
		if len(tc.During) > 0 {
			var ks []string
			for _, d := range tc.During {
				k := d[:strings.Index(d, ":")]
				if len(ks) == 0 || ks[len(ks)-1] != k {
					ks = append(ks, k)
				}
			}
			plan = "during-load=" + strings.Join(ks, "+") + "/list-answer-computed-" + map[bool]string{true: "before", false: "after"}[tc.StaleList]
			mu.Lock()
			if strings.HasPrefix(tc.During[0], "lose:") {
				byPlan["(runs with the shard lost while its store was loading)"]++
				if strings.HasPrefix(tc.During[len(tc.During)-1], "regain:") {
					byPlan["(… and regained before the load had finished)"]++
					if res.Serving {
						byPlan["(… and serving after the regain)"]++
					}
				}
			}
			byPlan["(runs with work while the LIST is in flight)"]++
			byPlan["(operations acknowledged while the LIST was in flight)"] += res.AckedDuringLoad
			byPlan["(operations performed while the LIST was in flight)"] += res.TriedDuringLoad
			mu.Unlock()
		}
		switch {
		case len(tc.During) > 0:
		case tc.FailLists == 1:
			plan = "list-fails-once"
		case tc.FailLists > 1:
			plan = "list-fails-repeatedly"
		case tc.At > 0:
			plan = "fault=" + tc.Kind + "@" + res.HitVerb
		}
		mu.Lock()
		byPlan[plan]++
		if res.Serving {
			byPlan["(server served the shard at the end)"]++
		}
		if res.Attempts > 1 {
			byPlan["(take-over needed more than one attempt)"]++
		}
		mu.Unlock()
		if tc.FailLists > 0 && res.ListsFailed != tc.FailLists {
			// the server stopped trying before the failing LISTs were used up; it must then not be serving (checked above)
			r.Count("takeover_runs_with_unused_list_failures", 1)
		}
		seen := map[string]bool{}
		for _, f := range res.Findings {
			sig := "C19/limiter-takeover/" + f.Oracle + "/" + plan
			if len(tc.During) > 0 {
				// which operations and which LIST order: in the text and the witness (one cause: the store is visible before it is loaded)
				sig = "C19/limiter-takeover/" + f.Oracle + "/work-while-list-in-flight"
				if strings.HasPrefix(tc.During[0], "lose:") {
					sig = "C19/limiter-takeover/" + f.Oracle + "/leadership-lost-while-loading"
					if strings.HasPrefix(tc.During[len(tc.During)-1], "regain:") {
						sig += "-and-regained"
					}
				}
			}
			if seen[sig] {
				continue
			}
			seen[sig] = true
			r.Violation(sig, fmt.Sprintf("%s; case: %s; history: %s", f.What, tc, strings.Join(res.Log, "; ")),
				map[string]interface{}{"case": tc, "history": res.Log, "findings": res.Findings, "api_calls": res.Verbs})
		}
	})
	r.Set("takeover_runs_by_plan", byPlan)
	r.Require(byPlan["list-fails-repeatedly"] >= r.N(80, 800) && byPlan["list-fails-once"] >= r.N(20, 200), "take-over with failing LISTs hardly exercised")
	r.Require(byPlan["(take-over needed more than one attempt)"] >= r.N(100, 1000), "the roll-back / retry path of the take-over was hardly taken")
	r.Require(byPlan["(server served the shard at the end)"] >= r.N(150, 1500), "the server hardly ever ended up serving the shard")
	n := 0
	for k, v := range byPlan {
		if strings.HasPrefix(k, "fault=") {
			n += v
		}
	}
	r.Require(n >= r.N(40, 400), "too few single faults at the positions of a take-over")
	r.Require(byPlan["(runs with the shard lost while its store was loading)"] >= r.N(150, 1500) && byPlan["(… and serving after the regain)"] >= r.N(60, 600),
		"losing (and regaining) a shard while its store is loading hardly exercised")
	r.Require(byPlan["(runs with work while the LIST is in flight)"] >= r.N(150, 1500) && byPlan["(operations performed while the LIST was in flight)"] >= r.N(200, 2000),
		"work while the LIST of a take-over is in flight hardly exercised") // (a server that refuses such work until it has loaded acknowledges none of it: that is fine)
}
