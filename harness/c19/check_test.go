package c19

import (
	"fmt"
	"net/http"
	"sort"
	"strings"
	"sync"
	"testing"
	"verifharness/bed"

	"k8s.io/client-go/rest"

	gatewayclientset "github.com/kubewharf/kubegateway/pkg/client/kubernetes"
	"github.com/kubewharf/kubegateway/pkg/ratelimiter/store/k8s"

	"verifharness/vkit"
)

// confirmNilObjectPanics: the fake clientset tolerates a nil object, the real typed client dereferences it. Before the
// injector emulates that, the harness observes it on the REAL client: an API stub answers PUT with 404 and POST with 500;
// a write-through Save then goes Update->NotFound, Create->error (createOrUpdate keeps the nil result as its item) and the
// retry hands nil to Update.
func confirmNilObjectPanics() (panics bool, how string) {
	var log []string
	var mu sync.Mutex
	srv := bed.NewServer(http.HandlerFunc(func(w http.ResponseWriter, r *http.Request) {
		mu.Lock()
		log = append(log, r.Method)
		mu.Unlock()
		w.Header().Set("Content-Type", "application/json")
		switch r.Method {
		case "PUT":
			w.WriteHeader(404)
			fmt.Fprint(w, `{"kind":"Status","apiVersion":"v1","status":"Failure","reason":"NotFound","code":404,"message":"not found"}`)
		default:
			w.WriteHeader(500)
			fmt.Fprint(w, `{"kind":"Status","apiVersion":"v1","status":"Failure","reason":"InternalError","code":500,"message":"boom"}`)
		}
	}))
	defer srv.Close()
	cs, err := gatewayclientset.NewForConfig(&rest.Config{Host: srv.URL})
	if err != nil {
		return false, "cannot build the real clientset: " + err.Error()
	}
	store := k8s.NewK8sCacheStore(cs, 0, 0, 1)
	out, e, pi := callOp(func() error { return store.Save("up", newCondition("up", "up.state", 1)) })
	mu.Lock()
	defer mu.Unlock()
	if out == panicked && strings.Contains(pi.Value, "nil pointer") {
		return true, fmt.Sprintf("real client, API answers %v: Save panics: %s in %s", log, pi.Value, pi.Frame)
	}
	return false, fmt.Sprintf("real client, API answers %v: Save returned %v (no panic)", log, e)
}

type witness struct {
	Sequence sequence          `json:"sequence"`
	Fault    string            `json:"fault"`
	Position int               `json:"position"`
	HitVerb  string            `json:"hit_verb,omitempty"`
	Log      []string          `json:"log"`
	API      map[string]string `json:"api_at_the_end"`
	Allowed  map[string]string `json:"permitted_at_the_end"`
	Findings []string          `json:"findings"`
}

func TestCheck(t *testing.T) {
	vkit.Run(t, "C19", "fault_enumeration", func(r *vkit.R) {
		r.Rule("sequences: initial Load, then 3..12 of save (fresh object; Get + modify the returned object in place + Save of that pointer; modify an object handed to an earlier Save + Save it again) / delete / delete-upstream / flush / periodic tick / stop (a stop or flush that returns an error is called again up to 3 times, as the limiter does) over 1..3 upstreams of the store's shard and 1..2 of the other shard " +
			"(3 condition names per upstream so that operations collide; saves of other-shard conditions handed to this store; saves through the other shard's own store), on top of 0..4 pre-existing conditions; a quarter of the sequences run with 3..8 shards, one in 40 is a bulk sequence (20..60 persisted conditions of the shard, every API call of its flushes is a fault position, first-order faults only); in a third of the sequences the server that takes the shard over at the end gains the other shard first, during the history, and loads both through one client; " +
			"both store modes (write-through = syncPeriod 0; periodic = syncPeriod 1h, flush goroutine replaced by explicit ticks). " +
			"Each sequence runs once without fault to count its API calls c, then once for EVERY position p<=c and EVERY fault kind the API can produce for the verb at p: " +
			"not-found (third party deleted the target), conflict (update/delete: version bumped; create: third party created first), transient 503 (no effect), lost response (effect + timeout), crash before, crash after. " +
			"After each run new stores for both shards Load() from the shared ObjectTracker. Separately the REAL limiter server (startLeading / leaderCheck over the k8s store) gains a shard while the first N LISTs fail or one fault hits any call of the take-over (see takeover.go). Oracle = set of API states the statement permits per condition name (see run.go model). " +
			"distinct = (sequence, position, kind); non-trivial = every faulted run plus baselines that made at least one API call.")
		r.Assume("one shared client-go ObjectTracker is the API; every store instance has a private fake clientset (reactor 1 = kill switch + fault injector + call counter, reactor 2 = ObjectReaction on the shared tracker)")
		r.Assume("a crash = the reactor flips the kill switch (every later call of that client fails) and panics with a sentinel; the store object is abandoned")
		r.Assume("a not-found / already-exists answer is only injected consistently: the third party really deletes / creates the object, and the model follows")
		r.Assume("periodic mode: pkg/ratelimiter/store/k8s VerifNewK8sCacheStore = NewK8sCacheStore without the goroutine; the goroutine's function is fired as the explicit 'tick' operation")
		r.Assume("'acknowledged to a caller' includes what the store hands out through Get/List in write-through mode (the limiter answers gateways from it): such a value must have been persisted at some time")

		emulate, how := confirmNilObjectPanics()
		r.Set("real_client_nil_object", how)

		nSeq := r.N(160, 5000)
		var mu sync.Mutex
		kinds := map[string]int{}
		hitVerbs := map[string]int{}
		storePanics := map[string]int{}
		storePanicSample := map[string]interface{}{}
		var positions, maxCalls, maxSeeds int
		sampled := 0

		r.Parallel(nSeq, 16, func(i int, g *vkit.Rand) {
			mode := "write-through"
			if i%2 == 1 {
				mode = "periodic"
			}
			// one sequence in 40 is a bulk one (20..60 persisted conditions of the shard, 3..8 shards, few operations)
			bulk := i%40 == 39
			if bulk {
				mode = []string{"write-through", "periodic"}[(i/40)%2]
			}
			seq := genSequence(g, mode, bulk, i%12 == 5)
			if seq.shards() > 2 {
				r.Count("sequences_with_3_to_8_shards", 1)
			}
			if seq.shards() == 1 {
				r.Count("sequences_with_a_single_shard", 1)
			}
			if bulk {
				r.Count("bulk_sequences", 1)
				mu.Lock()
				if n := len(seq.Seeds); n > maxSeeds {
					maxSeeds = n
				}
				mu.Unlock()
			}
			base := execute(seq, nil, emulate)
			if base.Harness != "" {
				r.Inconclusive("harness: " + base.Harness + " in " + seq.String())
				return
			}
			{
				for _, o := range seq.Ops {
					if o.During != nil {
						r.Count("sequences_with_operation_concurrent_with_flush", 1)
					}
				}
			}
			r.Eval(1)
			r.Count("sequences", 1)
			r.Count("baseline_runs", 1)
			countRun(r, base)
			judge(r, seq, nil, base, nil)
			// what already goes wrong without any fault is not attributed to a fault in the faulted runs of the sequence
			inBaseline := map[string]bool{}
			for _, f := range base.Findings {
				inBaseline[f.Oracle+"|"+f.Name] = true
			}
			if base.Calls > 0 {
				r.Distinct(vkit.Hash64(seq.String(), "baseline"))
			}
			mu.Lock()
			positions += base.Calls
			if base.Calls > maxCalls {
				maxCalls = base.Calls
			}
			mu.Unlock()

			// one faulted run; returns the result when the fault was delivered
			run := func(fs []fault, order string) *runResult {
				last := fs[len(fs)-1]
				res := execute(seq, fs, emulate)
				r.Eval(1)
				if res.Harness != "" {
					r.Inconclusive("harness: " + res.Harness + " in " + seq.String())
					return nil
				}
				if res.HitVerb == "" {
					// the flush order over the store's sync.Map differs from run to run, so a run can be shorter than the baseline
					r.Count("fault_position_not_reached", 1)
					return nil
				}
				if res.Skipped {
					r.Count("fault_not_applicable_to_verb", 1)
					return nil
				}
				r.Count("fault_runs", 1)
				r.Count("fault_runs_"+order, 1)
				countRun(r, res)
				r.Distinct(vkit.Hash64(seq.String(), fmt.Sprint(fs)))
				judge(r, seq, fs, res, inBaseline)
				k := last.kind
				mu.Lock()
				kinds[k.String()]++
				hitVerbs[k.String()+"@"+res.HitVerb]++
				if res.Crashed {
					kinds["(runs that ended in the injected crash)"]++
				}
				if res.StorePanic != nil {
					key := fmt.Sprintf("%s@%s during %s: %s", k, res.HitVerb, res.StorePanic.Op, res.StorePanic.Frame)
					storePanics[key]++
					if len(storePanicSample) == 0 {
						storePanicSample["sequence"] = seq.String()
						storePanicSample["fault"] = describeFaults(fs, res.HitVerb)
						storePanicSample["log"] = res.Log
						storePanicSample["panic"] = res.StorePanic
					}
				}
				want := sampled < 3 && len(res.Findings) == 0 && (res.Crashed || k == notFound) && last.at > 1
				if want {
					sampled++
				}
				mu.Unlock()
				if want {
					r.Sample(map[string]interface{}{"sequence": seq.String(), "fault": describeFaults(fs, res.HitVerb), "log": res.Log, "api_at_the_end": res.Final, "permitted": res.Allowed})
				}
				return &res
			}

			for p := 1; p <= base.Calls; p++ {
				for k := notFound; k < numFaultKinds; k++ {
					res := run([]fault{{p, k}}, "first_order")
					// second order: a conflict on Update opens calls no fault-free run makes (Get of the latest version, the
					// retried Update): every kind at each of the two calls that follow
					if k == conflict && res != nil && res.HitVerb == "update" && !bulk {
						for d := 1; d <= 2; d++ {
							for k2 := notFound; k2 < numFaultKinds; k2++ {
								run([]fault{{p, conflict}, {p + d, k2}}, "second_order")
							}
						}
					}
				}
			}
		})

		takeover(r)

		r.Set("fault_runs_by_kind", kinds)
		r.Set("fault_runs_by_kind_and_verb", hitVerbs)
		r.Set("fault_positions", positions)
		r.Set("max_api_calls_in_a_sequence", maxCalls)
		r.Set("max_persisted_conditions_in_a_bulk_sequence", maxSeeds)
		r.Require(r.Counter("sequences_with_3_to_8_shards") >= int64(r.N(25, 800)), "too few sequences with 3..8 shards")
		r.Require(r.Counter("sequences_with_a_single_shard") >= int64(r.N(5, 150)), "too few sequences with a single shard")
		r.Require(r.Counter("crashes_inside_a_flush_stop_or_tick") >= int64(r.N(1000, 30000)) && r.Counter("crashes_inside_a_save_or_delete") >= int64(r.N(1000, 30000)) && r.Counter("crashes_inside_a_delete_upstream") >= int64(r.N(100, 3000)),
			"crash points inside flushes / saves / delete-upstreams hardly exercised")
		r.Require(r.Counter("bulk_sequences") >= int64(r.N(4, 100)) && maxSeeds >= 30 && maxCalls >= 40, "bulk sequences (dozens of conditions per shard) hardly exercised")
		r.Set("store_panics_under_non_crash_faults", storePanics)
		if len(storePanicSample) > 0 {
			r.Set("store_panic_example", storePanicSample)
		}
		var missing []string
		for k := notFound; k < numFaultKinds; k++ {
			if kinds[k.String()] < r.N(100, 3000) {
				missing = append(missing, k.String())
			}
		}
		sort.Strings(missing)
		r.Require(len(missing) == 0, "fault kinds hardly exercised: "+strings.Join(missing, ","))
		r.Require(r.Counter("fault_runs") >= int64(r.N(5000, 150000)), "too few fault runs")
		r.Require(r.Counter("runs_with_next_holder_working_and_third_holder_loading") >= int64(r.N(3000, 90000)), "the next holder hardly ever worked on what it loaded")
		r.Require(r.Counter("conditions_saved_again_after_acknowledged_delete") >= int64(r.N(1000, 30000)), "too few conditions saved again under the same name after their deletion")
		r.Require(r.Counter("saves_of_an_object_shared_with_the_caller") >= int64(r.N(10000, 300000)), "aliased saves (Get + change in place + Save; change + re-Save) hardly exercised")
		r.Require(r.Counter("stop_called_again_after_success") >= int64(r.N(1000, 30000)), "Stop() after a successful Stop() hardly exercised")
		r.Require(r.Counter("runs_with_stop_or_flush_retried_after_error") >= int64(r.N(200, 6000)), "too few stop/flush retries after an error")
		r.Require(r.Counter("runs_with_same_server_gaining_both_shards") >= int64(r.N(2000, 60000)), "too few runs with one server gaining both shards")
		r.Require(kinds["conflict-storm"] >= r.N(300, 9000), "retry budget exhaustion (conflict storm) hardly exercised")
		for _, v := range []string{"update", "create", "delete", "list", "get"} {
			n := 0
			for kv, c := range hitVerbs {
				if strings.HasSuffix(kv, "@"+v) {
					n += c
				}
			}
			r.Require(n >= r.N(20, 500), "API verb "+v+" hardly hit by faults")
		}
	})
}

// judge turns the findings of one run into violations. Signature = mode / oracle / fault kind @ verb / operation hit.
// faultClass: none | api-error (503, lost response, version conflict) | third-party-change (target deleted / created by
// someone else right before the call) | crash.
func faultClass(k faultKind, verb string) string {
	switch k {
	case noFault:
		return "none"
	case notFound:
		return "third-party-change"
	case conflict:
		if verb == "create" {
			return "third-party-change"
		}
		return "api-error"
	case crashBefore, crashAfter:
		return "crash"
	}
	return "api-error"
}

// countRun: what a run actually exercised beyond the fault itself.
func countRun(r *vkit.R, res runResult) {
	r.Count("next_holder_operations_after_load", res.TakeoverOps)
	if res.TakeoverOps > 0 {
		r.Count("runs_with_next_holder_working_and_third_holder_loading", 1)
	}
	r.Count("conditions_saved_again_after_acknowledged_delete", res.Recreated)
	r.Count("stop_called_again_after_success", res.StopAgain)
	r.Count("saves_of_an_object_shared_with_the_caller", res.AliasedSaves)
	if res.Retried {
		r.Count("runs_with_stop_or_flush_retried_after_error", 1)
	}
	if res.Crashed {
		// crash points INSIDE an operation: between the API write and the cache update of a write-through save / delete
		// (crash-after at its last call), or between two writes of a flush / stop / tick / delete-upstream
		switch res.HitOp {
		case "flush", "stop", "tick":
			r.Count("crashes_inside_a_flush_stop_or_tick", 1)
		case "save", "get-mutate-save", "mutate-resave", "delete":
			r.Count("crashes_inside_a_save_or_delete", 1)
		case "delete-upstream":
			r.Count("crashes_inside_a_delete_upstream", 1)
		case "load":
			r.Count("crashes_inside_the_load", 1)
		}
	}
	if res.RanBetween {
		r.Count("runs_where_concurrent_operation_ran_between_flush_calls", 1)
	}
	if res.NewServerFirst {
		r.Count("runs_with_same_server_gaining_both_shards", 1)
	}
}

func describeFaults(fs []fault, hitVerb string) string {
	var ss []string
	for i, f := range fs {
		s := fmt.Sprintf("%s at API call %d", f.kind, f.at)
		if i == len(fs)-1 {
			s += " (" + hitVerb + ")"
		} else {
			s += " (update), then"
		}
		ss = append(ss, s)
	}
	if len(ss) == 0 {
		return "none"
	}
	return strings.Join(ss, " ")
}

func judge(r *vkit.R, seq sequence, fs []fault, res runResult, inBaseline map[string]bool) {
	if len(res.Findings) == 0 {
		return
	}
	k, p := noFault, 0
	if len(fs) > 0 {
		k, p = fs[len(fs)-1].kind, fs[len(fs)-1].at
	}
	var texts []string
	for _, f := range res.Findings {
		texts = append(texts, f.Oracle+": "+f.What)
	}
	w := witness{Sequence: seq, Fault: describeFaults(fs, res.HitVerb), Position: p, HitVerb: res.HitVerb, Log: res.Log, API: res.Final, Allowed: res.Allowed, Findings: texts}
	seen := map[string]bool{}
	for _, f := range res.Findings {
		// minimal discriminating features: store mode, which guarantee broke, during which store operation the fault hit,
		// and the class of the fault (position, verb and exact kind stay in the text and the witness). A finding on a
		// condition that an operation concurrent with a flush touched is attributed to that concurrency, whatever fault
		// was injected elsewhere in the run.
		retried := false
		sig := fmt.Sprintf("C19/%s/%s/", seq.Mode, f.Oracle)
		if _, inner, ok := seq.concurrentOn(f.Name); ok && res.RanBetween && (f.Oracle == "deleted-condition-persists" || f.Oracle == "acknowledged-condition-not-persisted") {
			// flush, periodic tick and stop share the flush code, in both modes
			// (the oracle that notices it depends on what else happens to the condition afterwards: not part of the signature)
			sig = fmt.Sprintf("C19/flush-not-atomic/%s-concurrent-with-flush", inner)
		} else if strings.HasPrefix(f.Oracle, "load-") {
			// what a NEW store loads is compared with what the API holds at that moment: the faults of the old holder's
			// history are not part of the cause
			sig += "fault=none"
		} else if k == noFault || inBaseline[f.Oracle+"|"+f.Name] || (f.Oracle == "acknowledged-save-not-persisted-at-ack" && !res.hitSaveOf(f.Name)) {
			// (found at the acknowledgement itself: a fault that hit some other operation is not part of the cause)
			sig += "fault=none"
		} else {
			sig += "fault=" + faultClass(k, res.HitVerb)
			if res.hitTouches(f.Name) {
				sig += "/op=" + res.HitOp
			} else {
				sig += "/op=on-another-condition" // e.g. a crash anywhere after the acknowledgement concerned
			}
			if res.Retried && (res.HitOp == "stop" || res.HitOp == "flush") {
				sig += "/retried-after-failure"
				retried = true
			}
		}
		if res.StorePanic != nil {
			sig += "/store-panicked"
		}
		if f.Phase != "" {
			sig += "/" + f.Phase
		}
		if res.NewServerFirst && strings.HasPrefix(f.Oracle, "load-") && f.Phase == "" {
			sig += "/same-server-gained-other-shard-first"
		}
		if f.Shape != "" && f.Shape != "save" && (f.Oracle == "acknowledged-condition-not-persisted" || f.Oracle == "acknowledged-save-not-persisted-at-ack") && !retried {
			sig += "/last-save=" + f.Shape // the acknowledged save handed the store an object it shares with the caller
		}
		if seen[sig] {
			continue
		}
		seen[sig] = true
		r.Violation(sig, fmt.Sprintf("%s store, %s; fault: %s; history: %s", seq.Mode, f.What, describeFaults(fs, res.HitVerb), strings.Join(res.Log, "; ")), w)
	}
}
