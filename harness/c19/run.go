package c19

import (
	"fmt"
	"runtime/debug"
	"sort"
	"strings"
	"sync"
	"time"

	"k8s.io/apimachinery/pkg/labels"

	proxyv1alpha1 "github.com/kubewharf/kubegateway/pkg/apis/proxy/v1alpha1"
	gatewayfake "github.com/kubewharf/kubegateway/pkg/client/kubernetes/fake"
	_interface "github.com/kubewharf/kubegateway/pkg/ratelimiter/store/interface"
	"github.com/kubewharf/kubegateway/pkg/ratelimiter/store/k8s"
	"github.com/kubewharf/kubegateway/pkg/ratelimiter/util"

	"verifharness/vkit"
)

const shardCount = 2

// upstream names per shard (found by the real sharding function). Upstream names are DNS subdomains; the pool prefers the
// boundary ones: one name that is a dotted prefix of another ("a.b" / "a.b.c": the condition "a.b.c.state" starts with
// "a.b."), an IP-like name, a punycode name, a 63-character label, a 253-character name; plain names fill up.
var upstreamsOf = upstreamPool(shardCount, 3)

var (
	poolMu sync.Mutex
	pools  = map[string][][]string{}
)

// upstreamPool: per upstreams names for every shard of an n-shard limiter (memoised).
func upstreamPool(n, per int) [][]string {
	poolMu.Lock()
	defer poolMu.Unlock()
	key := fmt.Sprintf("%d/%d", n, per)
	if p, ok := pools[key]; ok {
		return p
	}
	p := buildPool(n, per)
	pools[key] = p
	return p
}

func buildPool(shards, per int) [][]string {
	l63 := strings.Repeat("u", 63)
	cands := []string{"a.b", "a.b.c", "1.2.3.4", "xn--bcher-kva.example", l63, l63 + "." + l63 + "." + l63 + "." + strings.Repeat("v", 61)}
	for i := 0; i < 40; i++ {
		cands = append(cands, fmt.Sprintf("up-%d", i))
	}
	for i := 40; i < 40+200*shards; i++ {
		cands = append(cands, fmt.Sprintf("up-%d", i))
	}
	out := make([][]string, shards)
	for _, n := range cands {
		s := util.GetShardID(n, shards)
		if len(out[s]) < per {
			out[s] = append(out[s], n)
		}
	}
	return out
}

type op struct {
	Kind     string `json:"op"` // load | save | delete | delete-upstream | flush | tick | stop | other-shard-store-save
	Upstream string `json:"upstream,omitempty"`
	Name     string `json:"name,omitempty"`
	Ver      int32  `json:"version,omitempty"`
	// Part (get-mutate-save / mutate-resave): which part of the aliased object is modified in place: both | spec | status
	Part string `json:"part,omitempty"`
	// During: an operation another goroutine of the limiter performs while this flush / tick / stop is between two of
	// its API calls (right before its AtCall-th call); if the flush makes fewer calls, During runs right after it.
	During *op `json:"concurrently,omitempty"`
	AtCall int `json:"before_api_call,omitempty"`
}

func (o op) String() string {
	switch o.Kind {
	case "save", "other-shard-store-save", "seed":
		return fmt.Sprintf("%s(%s=v%d)", o.Kind, o.Name, o.Ver)
	case "get-mutate-save", "mutate-resave":
		return fmt.Sprintf("%s(%s.%s=v%d)", o.Kind, o.Name, o.Part, o.Ver)
	case "delete":
		return fmt.Sprintf("delete(%s)", o.Name)
	case "delete-upstream":
		return fmt.Sprintf("delete-upstream(%s)", o.Upstream)
	}
	if o.During != nil {
		return fmt.Sprintf("%s[|| %s before its API call %d]", o.Kind, o.During, o.AtCall)
	}
	return o.Kind
}

// concurrentOn: the flush-like operation and the operation running concurrently with it, if that one touches name.
func (s sequence) concurrentOn(name string) (outer, inner string, ok bool) {
	for _, o := range s.Ops {
		if o.During == nil {
			continue
		}
		d := o.During
		if d.Name == name || (d.Kind == "delete-upstream" && isCondOf(name, d.Upstream)) {
			return o.Kind, d.Kind, true
		}
	}
	return "", "", false
}

type sequence struct {
	Mode  string `json:"mode"` // write-through | periodic
	Shard int    `json:"shard"`
	Seeds []op   `json:"seeds"`
	Ops   []op   `json:"ops"`
	// Takeover: what the NEXT holder of the shard does after it loaded (no faults): its operations work on what Load put
	// into its cache; then it stops and a third holder loads.
	Takeover []op `json:"next_holder_ops,omitempty"`
	// Shards: number of shards of the limiter (0 = 2). Bulk: many conditions per shard, few operations.
	Shards int  `json:"shards,omitempty"`
	Bulk   bool `json:"bulk,omitempty"`
}

func (s sequence) shards() int {
	if s.Shards == 0 {
		return shardCount
	}
	return s.Shards
}

// otherShard: the shard whose store plays "the other shard" in a sequence.
func (s sequence) otherShard() int { return (s.Shard + 1) % s.shards() }

func (s sequence) String() string {
	var ss []string
	for _, o := range s.Seeds {
		ss = append(ss, o.String())
	}
	ss = append(ss, "|")
	for _, o := range s.Ops {
		ss = append(ss, o.String())
	}
	if len(s.Takeover) > 0 {
		ss = append(ss, "| next holder:")
		for _, o := range s.Takeover {
			ss = append(ss, o.String())
		}
	}
	return fmt.Sprintf("%s shard=%d %s", s.Mode, s.Shard, strings.Join(ss, " "))
}

// genBulk: 20..60 conditions of the own shard already persisted (7..20 upstreams with 3 conditions each), a few of other
// shards, and only a few operations: every flush / stop / delete-upstream then makes dozens of API calls, and every one of
// them is a fault position.
func genBulk(g *vkit.Rand, s sequence) sequence {
	nUp := g.Range(7, 20)
	pool := upstreamPool(s.shards(), 20)
	own := pool[s.Shard][:nUp]
	ver := int32(0)
	next := func() int32 { ver++; return ver }
	for _, u := range own {
		for _, n := range condNames(u) {
			s.Seeds = append(s.Seeds, op{Kind: "seed", Upstream: u, Name: n, Ver: next()})
		}
	}
	for sh := 0; sh < s.shards(); sh++ {
		if sh != s.Shard {
			u := pool[sh][0]
			s.Seeds = append(s.Seeds, op{Kind: "seed", Upstream: u, Name: u + ".state", Ver: next()})
		}
	}
	pickName := func(us []string) (string, string) {
		u := us[g.Intn(len(us))]
		return u, condNames(u)[g.Intn(3)]
	}
	s.Ops = append(s.Ops, op{Kind: "load"})
	for i, n := 0, g.Range(2, 4); i < n; i++ {
		switch x := g.Intn(10); {
		case x < 5:
			s.Ops = append(s.Ops, genSave(g, own, pickName, next))
		case x < 7:
			u, name := pickName(own)
			s.Ops = append(s.Ops, op{Kind: "delete", Upstream: u, Name: name})
		case x < 9:
			s.Ops = append(s.Ops, op{Kind: "delete-upstream", Upstream: own[g.Intn(len(own))]})
		default:
			s.Ops = append(s.Ops, op{Kind: "flush"})
		}
	}
	s.Ops = append(s.Ops, op{Kind: "stop"})
	if g.Bool() {
		s.Takeover = []op{genSave(g, own, pickName, next), {Kind: "delete-upstream", Upstream: own[g.Intn(len(own))]}, {Kind: "stop"}}
	}
	return s
}

// genSave: a save of a fresh object (what a direct user of the store does), or one of the two aliasing shapes the limiter
// itself uses: Get, modify the returned object in place, Save that same pointer (how <upstream>.state is maintained);
// modify an object that was handed to an earlier Save and Save it again.
func genSave(g *vkit.Rand, own []string, pickName func([]string) (string, string), next func() int32) op {
	u, name := pickName(own)
	o := op{Kind: "save", Upstream: u, Name: name, Ver: next()}
	switch x := g.Intn(100); {
	case x < 30:
		o.Kind = "get-mutate-save"
	case x < 45:
		o.Kind = "mutate-resave"
	}
	if o.Kind != "save" {
		o.Part = g.Pick([]string{"both", "spec", "status"})
	}
	return o
}

// condNames: the upstream's state condition and two instance conditions (instance identities as the limiter's naming
// helper leaves them: ':' replaced, upper case and dots kept).
func condNames(u string) []string {
	return []string{u + ".state", u + ".GW-Upper.Example", u + ".10.0.0.1-443"}
}

func isCondOf(name, upstream string) bool {
	for _, n := range condNames(upstream) {
		if n == name {
			return true
		}
	}
	return false
}

// genSequence: save / delete / delete-upstream / flush / tick / stop over 1..3 upstreams of the own shard and 1..2 of the
// other shard, 3..12 operations after the initial Load, on top of 0..4 conditions that already exist in the API.
func genSequence(g *vkit.Rand, mode string, bulk, single1 bool) sequence {
	s := sequence{Mode: mode, Bulk: bulk}
	if single1 && !bulk {
		s.Shards = 1 // constructed by the caller (every 12th sequence), not drawn: a minimum count must not depend on luck
	} else if bulk || g.Chance(0.25) {
		s.Shards = g.Range(3, 8) // a quarter of the sequences (and the bulk ones): 3..8 shards
	} else if g.Chance(0.1) {
		s.Shards = 1 // a single shard: every upstream is the store's own, there is no other shard
	}
	s.Shard = g.Intn(s.shards())
	pool := upstreamPool(s.shards(), 3)
	own := pool[s.Shard][:g.Range(1, 3)]
	other := pool[s.otherShard()][:g.Range(1, 2)]
	single := s.shards() == 1
	if bulk {
		return genBulk(g, s)
	}
	ver := int32(0)
	next := func() int32 { ver++; return ver }
	pickName := func(us []string) (string, string) {
		u := us[g.Intn(len(us))]
		// few names, so that operations collide on them
		return u, condNames(u)[g.Intn(3)]
	}
	seen := map[string]bool{}
	for i, n := 0, g.Intn(5); i < n; i++ {
		us := own
		if g.Chance(0.3) && !single {
			us = other
		}
		u, name := pickName(us)
		if seen[name] {
			continue
		}
		seen[name] = true
		s.Seeds = append(s.Seeds, op{Kind: "seed", Upstream: u, Name: name, Ver: next()})
	}
	s.Ops = append(s.Ops, op{Kind: "load"})
	n := g.Range(3, 12)
	for i := 0; i < n; i++ {
		x := g.Intn(100)
		switch {
		case x < 52:
			s.Ops = append(s.Ops, genSave(g, own, pickName, next))
		case x < 56 && single:
			s.Ops = append(s.Ops, genSave(g, own, pickName, next))
		case x < 56: // a condition of the other shard handed to this store (must be refused)
			u, name := pickName(other)
			s.Ops = append(s.Ops, op{Kind: "save", Upstream: u, Name: name, Ver: next()})
		case x < 70:
			u, name := pickName(own)
			s.Ops = append(s.Ops, op{Kind: "delete", Upstream: u, Name: name})
		case x < 78:
			us := own
			if g.Chance(0.15) && !single {
				us = other
			}
			s.Ops = append(s.Ops, op{Kind: "delete-upstream", Upstream: us[g.Intn(len(us))]})
		case x < 86:
			s.Ops = append(s.Ops, op{Kind: "flush"})
		case x < 93 && single:
			s.Ops = append(s.Ops, op{Kind: "flush"})
		case x < 93:
			u, name := pickName(other)
			s.Ops = append(s.Ops, op{Kind: "other-shard-store-save", Upstream: u, Name: name, Ver: next()})
		default:
			if mode == "periodic" {
				s.Ops = append(s.Ops, op{Kind: "tick"})
			} else {
				s.Ops = append(s.Ops, genSave(g, own, pickName, next))
			}
		}
	}
	stopP := 0.5
	if mode == "periodic" {
		stopP = 0.8
	}
	if g.Chance(stopP) {
		s.Ops = append(s.Ops, op{Kind: "stop"})
	}
	// half of the sequences: the next holder goes on working after its Load (2..4 operations, then a graceful stop)
	if g.Chance(0.5) {
		n := g.Range(2, 4)
		for i := 0; i < n; i++ {
			switch x := g.Intn(10); {
			case x < 5:
				s.Takeover = append(s.Takeover, genSave(g, own, pickName, next))
			case x < 7:
				u, name := pickName(own)
				s.Takeover = append(s.Takeover, op{Kind: "delete", Upstream: u, Name: name})
			case x < 9:
				s.Takeover = append(s.Takeover, op{Kind: "delete-upstream", Upstream: own[g.Intn(len(own))]})
			default:
				s.Takeover = append(s.Takeover, op{Kind: "flush"})
			}
		}
		s.Takeover = append(s.Takeover, op{Kind: "stop"})
	}
	// a third of the sequences: the server that will take this shard over gains the OTHER shard first, at some point while
	// the store under test is still running and acknowledging; it gains this shard right after the end of the history,
	// in the same process, through the same client
	if g.Chance(0.35) && !single {
		last := len(s.Ops)
		if s.Ops[last-1].Kind == "stop" {
			last--
		}
		at := g.Range(1, last)
		s.Ops = append(s.Ops[:at], append([]op{{Kind: "new-server-gains-other-shard"}}, s.Ops[at:]...)...)
	}
	// a third of the sequences: one save / delete / delete-upstream runs WHILE a flush, tick or stop is in progress
	if g.Chance(0.34) {
		var cands []int
		for i := 1; i < len(s.Ops); i++ {
			if k := s.Ops[i].Kind; k == "flush" || k == "tick" || k == "stop" {
				cands = append(cands, i)
			}
		}
		if len(cands) > 0 {
			i := cands[g.Intn(len(cands))]
			var inner op
			u, name := pickName(own)
			switch g.Intn(4) {
			case 0, 1:
				inner = op{Kind: "delete", Upstream: u, Name: name}
			case 2:
				inner = op{Kind: "delete-upstream", Upstream: u}
			default:
				inner = op{Kind: "save", Upstream: u, Name: name, Ver: next()}
			}
			s.Ops[i].During = &inner
			s.Ops[i].AtCall = g.Range(1, 4)
		}
	}
	return s
}

// ---- reference model: which API states are permitted at the end ----

type valset map[val]bool

func (s valset) String() string {
	var ss []string
	for v := range s {
		ss = append(ss, v.String())
	}
	sort.Strings(ss)
	return "{" + strings.Join(ss, ",") + "}"
}

type model struct {
	mode   string
	shard  int
	shards int
	// allowed[name]: the API states the statement permits at this point.
	//  acknowledged save (write-through) / acknowledged flush or stop (periodic) / acknowledged delete: exactly that state;
	//  an unacknowledged attempt (error, crash, panic) may or may not have taken effect: its state is added;
	//  an injected third-party change: exactly the third party's state.
	allowed map[string]valset
	// local[name]: values the store's cache may hold (only ever used to WIDEN allowed when a flush may have rewritten them)
	local map[string]valset
	// known[name]: the store certainly holds name locally (so an acknowledged delete-upstream must have deleted it)
	known map[string]bool
	// pend[name]: periodic mode, the value a graceful stop must flush (only while certain)
	pend       map[string]val
	upstreamOf map[string]string
	// lastSave[name]: shape of the last acknowledged save of name (save | get-mutate-save | mutate-resave)
	lastSave  map[string]string
	recreated int
	// deletedAck[name]: the last thing acknowledged about name is its deletion (no save attempted since)
	deletedAck map[string]bool
	// localWasKnown: known[] as it was when the flush in progress started (for delete-upstream concurrent with it)
	localWasKnown map[string]bool
}

func newModel(seq sequence, snap map[string]stored) *model {
	m := &model{mode: seq.Mode, shard: seq.Shard, shards: seq.shards(), allowed: map[string]valset{}, local: map[string]valset{}, known: map[string]bool{}, pend: map[string]val{}, upstreamOf: map[string]string{}, deletedAck: map[string]bool{}, lastSave: map[string]string{}}
	for n, st := range snap {
		m.allowed[n] = valset{st.Val: true}
		m.upstreamOf[n] = st.Upstream
	}
	note := func(o op) {
		if o.Name != "" {
			m.upstreamOf[o.Name] = o.Upstream
			if m.allowed[o.Name] == nil {
				m.allowed[o.Name] = valset{absent: true}
			}
		}
	}
	for _, o := range seq.Ops {
		note(o)
		if o.During != nil {
			note(*o.During)
		}
	}
	for _, o := range seq.Takeover {
		note(o)
	}
	return m
}

func (m *model) allow(n string) valset {
	if m.allowed[n] == nil {
		m.allowed[n] = valset{absent: true}
	}
	return m.allowed[n]
}

func (m *model) loc(n string) valset {
	if m.local[n] == nil {
		m.local[n] = valset{absent: true}
	}
	return m.local[n]
}

func (m *model) thirdParty(name string, now val) { m.allowed[name] = valset{now: true} }

func (m *model) afterLoad(snap map[string]stored) {
	for n, st := range snap {
		if util.GetShardID(st.Upstream, m.shards) == m.shard {
			m.local[n] = valset{st.Val: true}
			m.known[n] = true
			m.pend[n] = st.Val
		}
	}
}

func (m *model) afterSave(o op, v val, acked bool) {
	if acked && m.deletedAck[o.Name] {
		m.recreated++
	}
	delete(m.deletedAck, o.Name)
	if acked {
		m.lastSave[o.Name] = o.Kind
	}
	switch {
	case acked && m.mode == "write-through":
		m.allowed[o.Name] = valset{v: true}
		m.local[o.Name] = valset{v: true}
		m.known[o.Name] = true
	case acked: // periodic: acknowledged means cached, not yet persisted
		m.allow(o.Name)[v] = true
		m.local[o.Name] = valset{v: true}
		m.known[o.Name] = true
		m.pend[o.Name] = v
	default:
		// refused or failed: the caller was told so; what it was told before still stands (known / pend unchanged)
		m.allow(o.Name)[v] = true
		m.loc(o.Name)[v] = true
	}
}

func (m *model) afterDeleteName(n string, acked, mustHaveDeleted bool) {
	if acked && mustHaveDeleted {
		m.allowed[n] = valset{absent: true}
	} else {
		m.allow(n)[absent] = true
	}
	if acked {
		if mustHaveDeleted {
			m.deletedAck[n] = true
		}
		m.local[n] = valset{absent: true}
		m.known[n] = false
		delete(m.pend, n)
	} else {
		// a failed delete was reported as failed: for its callers the condition still exists (so a later acknowledged
		// delete-upstream must remove it and a later graceful stop must flush it); the store keeps it because it deletes
		// in the API first
		m.loc(n)[absent] = true
	}
}

func (m *model) afterDeleteUpstream(u string, acked bool) {
	for n, up := range m.upstreamOf {
		if up == u {
			m.afterDeleteName(n, acked, m.known[n])
		}
	}
}

// afterFlush: flush / stop / tick. Only an acknowledged flush or stop in periodic mode obliges the API to hold the pending values.
// touched: conditions an operation touched WHILE this flush was between two of its API calls (value: that operation was
// an acknowledged delete). The flush is not atomic, so for those the flush's write may precede or follow the operation:
// nothing is demanded of them beyond what the operation itself acknowledged; what the flush may have written (the value
// pending before, the values cached now) is added to the permitted states, except after an acknowledged delete, where a
// write of the deleted condition is exactly the resurrection the statement forbids.
func (m *model) afterFlush(acked bool, touched map[string]bool, pendBefore map[string]val) {
	for n, ls := range m.local {
		if ackedDelete, ok := touched[n]; ok {
			if ackedDelete {
				continue
			}
			if p, ok := pendBefore[n]; ok && m.mode == "periodic" {
				m.allow(n)[p] = true
			}
		} else if p, ok := m.pend[n]; ok && acked && m.mode == "periodic" {
			m.allowed[n] = valset{p: true}
			continue
		}
		for v := range ls {
			if v != absent {
				m.allow(n)[v] = true
			}
		}
	}
}

// touchedBy: the conditions an operation touches.
func (m *model) touchedBy(o op, ackedDelete bool, into map[string]bool) {
	switch o.Kind {
	case "save":
		into[o.Name] = false
	case "delete":
		into[o.Name] = ackedDelete
	case "delete-upstream":
		for n, up := range m.upstreamOf {
			if up == o.Upstream {
				into[n] = ackedDelete && m.localWasKnown[n]
			}
		}
	}
}

// ---- one run ----

type finding struct {
	Oracle string // acknowledged-condition-not-persisted | deleted-condition-persists | load-* | visible-but-never-persisted
	What   string
	Name   string // the condition concerned
	Shape  string // shape of the last acknowledged save of that condition
	Phase  string // "" = the store under test; "next-holder" = found while / after the next holder worked on what it loaded
}

type panicInfo struct {
	Value string `json:"value"`
	Frame string `json:"frame"`
	Op    string `json:"during"`
}

type runResult struct {
	Calls          int
	Verbs          []string
	HitVerb        string
	HitOp          string
	hitOp          op
	Skipped        bool
	Crashed        bool
	StorePanic     *panicInfo
	Log            []string
	Findings       []finding
	Final          map[string]string
	Allowed        map[string]string
	Sleeps         time.Duration
	RanBetween     bool   // the concurrent operation ran to completion between two API calls of a flush (the store did not make it wait)
	NewServerFirst bool   // the server that loads this shard at the end had gained the other shard before, during the history
	Retried        bool   // a failed stop / flush was called again by the caller
	Recreated      int    // acknowledged saves of a condition whose deletion had been acknowledged before (same name again)
	AliasedSaves   int    // saves that handed the store an object it (may) already share with the caller
	StopAgain      int    // Stop() called once more after it had returned nil
	TakeoverOps    int    // operations the next holder performed on what it had loaded
	Harness        string // set when the harness itself could not complete the run (=> inconclusive)
}

// interleaveWindow: how long a flush waits, between two of its API calls, for a concurrent operation to finish.
const interleaveWindow = 20 * time.Millisecond

type opOutcome int

const (
	acked opOutcome = iota
	failed
	crashed
	panicked
)

func repoFrame(stack string) string {
	for _, ln := range strings.Split(stack, "\n") {
		if strings.HasPrefix(ln, "github.com/kubewharf/kubegateway/pkg/ratelimiter/store/") {
			f := ln
			if i := strings.LastIndex(f, "("); i > 0 {
				f = f[:i]
			}
			if i := strings.LastIndex(f, "/"); i >= 0 {
				f = f[i+1:]
			}
			return f
		}
	}
	return "?"
}

func callOp(fn func() error) (out opOutcome, err error, pi *panicInfo) {
	defer func() {
		if x := recover(); x != nil {
			if _, ok := x.(crashSentinel); ok {
				out = crashed
				return
			}
			out = panicked
			pi = &panicInfo{Value: fmt.Sprint(x), Frame: repoFrame(string(debug.Stack()))}
		}
	}()
	if err := fn(); err != nil {
		return failed, err, nil
	}
	return acked, nil, nil
}

func execute(seq sequence, faults []fault, emulateNilDeref bool) runResult {
	at := 0
	if len(faults) > 0 {
		at = faults[len(faults)-1].at
	}
	a := newAPI()
	for _, s := range seq.Seeds {
		a.put(newCondition(s.Upstream, s.Name, s.Ver))
	}
	cs, inj := newClient(a)
	inj.faults, inj.emulateNilDeref = faults, emulateNilDeref
	m := newModel(seq, a.snapshot())
	inj.onThirdParty = m.thirdParty
	period := time.Duration(0)
	if seq.Mode == "periodic" {
		period = time.Hour
	}
	nShards := seq.shards()
	store, tick := k8s.VerifNewK8sCacheStore(cs, period, seq.Shard, nShards)
	csOther, _ := newClient(a)
	otherStore, _ := k8s.VerifNewK8sCacheStore(csOther, 0, seq.otherShard(), nShards)

	var res runResult
	cur := ""
	phase := ""
	add := func(oracle, what string) {
		res.Findings = append(res.Findings, finding{oracle, what, cur, m.lastSave[cur], phase})
	}

	// runOnly performs a save / delete / delete-upstream on the store; account applies its acknowledgement to the model.
	var aliasMu sync.Mutex
	passed := map[string]*proxyv1alpha1.RateLimitCondition{} // the object handed to the latest Save of a name
	savedVal := map[int32]val{}                              // op version -> the value that Save was handed
	inPlace := map[string]valset{}                           // values the harness wrote IN PLACE into objects the store may hold
	runOnly := func(o op) (opOutcome, error, *panicInfo) {
		switch o.Kind {
		case "save", "get-mutate-save", "mutate-resave":
			aliasMu.Lock()
			var c *proxyv1alpha1.RateLimitCondition
			switch o.Kind {
			case "get-mutate-save":
				if got, err := store.Get(o.Upstream, o.Name); err == nil {
					c = got
				}
			case "mutate-resave":
				c = passed[o.Name]
			}
			if c != nil {
				mutateInPlace(c, o.Part, o.Ver)
				if inPlace[o.Name] == nil {
					inPlace[o.Name] = valset{}
				}
				inPlace[o.Name][valOf(c)] = true
				res.AliasedSaves++
			} else {
				c = newCondition(o.Upstream, o.Name, o.Ver) // nothing to alias (unknown or deleted condition): a fresh object
			}
			passed[o.Name] = c
			savedVal[o.Ver] = valOf(c)
			aliasMu.Unlock()
			return callOp(func() error { return store.Save(o.Upstream, c) })
		case "delete":
			return callOp(func() error { return store.Delete(o.Upstream, o.Name) })
		case "delete-upstream":
			return callOp(func() error { return store.DeleteUpstream(o.Upstream) })
		}
		panic("harness: runOnly " + o.Kind)
	}
	account := func(o op, out opOutcome) {
		switch o.Kind {
		case "save", "get-mutate-save", "mutate-resave":
			aliasMu.Lock()
			v := savedVal[o.Ver]
			aliasMu.Unlock()
			m.afterSave(o, v, out == acked)
		case "delete":
			m.afterDeleteName(o.Name, out == acked, true)
		case "delete-upstream":
			m.afterDeleteUpstream(o.Upstream, out == acked)
		}
	}
	type innerResult struct {
		out opOutcome
		err error
		pi  *panicInfo
	}

	// checkLoad: a new store for shard sh over client loads; it must hold exactly what the API holds for that shard now.
	var newServer *gatewayfake.Clientset
	checkLoad := func(client *gatewayfake.Clientset, sh int, who string, snap map[string]stored) (_interface.LimitStore, func()) {
		ns, nsTick := k8s.VerifNewK8sCacheStore(client, period, sh, nShards)
		out, err, pi := callOp(ns.Load)
		if out != acked {
			add("load-fails", fmt.Sprintf("%s: Load() without any fault: %v %v", who, err, pi))
			return nil, nil
		}
		got := map[string]val{}
		for _, c := range listAll(ns) {
			cur = c.name
			got[c.name] = c.v
			st, inAPI := snap[c.name]
			switch {
			case util.GetShardID(c.upstream, nShards) != sh:
				add("load-foreign-shard", fmt.Sprintf("%s (shard %d) loaded %s of upstream %s (shard %d)", who, sh, c.name, c.upstream, util.GetShardID(c.upstream, nShards)))
			case !inAPI:
				add("load-not-persisted", fmt.Sprintf("%s loaded %s=%s which the API does not hold", who, c.name, c.v))
			case st.Val != c.v:
				add("load-value-differs", fmt.Sprintf("%s loaded %s=%s, the API holds %s", who, c.name, c.v, st.Val))
			}
		}
		for n, st := range snap {
			cur = n
			if util.GetShardID(st.Upstream, nShards) == sh {
				if _, ok := got[n]; !ok {
					add("load-misses-persisted", fmt.Sprintf("%s did not load %s=%s which the API holds for its shard", who, n, st.Val))
				}
			}
		}
		return ns, nsTick
	}

	reportedAtAck := map[string]bool{} // conditions whose loss was already reported at the acknowledgement
	lineOverride := ""
	// perform runs one store operation and applies its acknowledgement to the model
	perform := func(o op) (out opOutcome, err error, pi *panicInfo) {
		switch o.Kind {
		case "load":
			out, err, pi = callOp(store.Load)
			if out == acked {
				m.afterLoad(a.snapshot())
			}
		case "save", "get-mutate-save", "mutate-resave", "delete", "delete-upstream":
			out, err, pi = runOnly(o)
			account(o, out)
			// "every condition acknowledged to a caller is ALREADY persisted": the moment a write-through Save of an
			// own-shard condition returns nil, the API holds exactly what was handed in (its last API call succeeded and
			// wrote it; nothing else runs in between on this path: the concurrent operations go through runOnly directly)
			if out == acked && o.Kind != "delete" && o.Kind != "delete-upstream" && seq.Mode == "write-through" {
				aliasMu.Lock()
				v := savedVal[o.Ver]
				aliasMu.Unlock()
				if st, ok := a.snapshot()[o.Name]; !ok || st.Val != v {
					holds := "nothing"
					if ok {
						holds = st.Val.String()
					}
					cur = o.Name
					add("acknowledged-save-not-persisted-at-ack", fmt.Sprintf("%s returned nil but the API holds %s for %s at that moment", o, holds, o.Name))
					reportedAtAck[o.Name] = true
				}
			}
		case "flush", "tick", "stop":
			fn := store.Flush
			switch o.Kind {
			case "tick": // what the periodic goroutine runs; reports nothing to anybody
				fn = func() error { tick(); return nil }
			case "stop":
				fn = store.Stop
			}
			done := make(chan innerResult, 1)
			started, accounted := false, false
			touched := map[string]bool{}
			pendBefore := map[string]val{}
			for n, p := range m.pend {
				pendBefore[n] = p
			}
			m.localWasKnown = map[string]bool{}
			for n, k := range m.known {
				m.localWasKnown[n] = k
			}
			if o.During != nil {
				// The concurrent operation runs on its own goroutine, started while the flush sits between two of its API
				// calls. If it finishes there (nothing in the store makes it wait), its acknowledgement precedes the
				// flush's remaining writes and the model is updated at once. If it does not finish within the window (the
				// store makes it wait for the flush, or it is in a retry back-off) the flush goes on and the
				// acknowledgement is accounted after the flush. The window only selects the schedule, never the verdict.
				inj.mu.Lock()
				inj.interleaveIn = o.AtCall
				inj.interleave = func() {
					started = true
					go func() {
						io, ierr, ipi := runOnly(*o.During)
						done <- innerResult{io, ierr, ipi}
					}()
					t := time.NewTimer(interleaveWindow)
					defer t.Stop()
					select {
					case ir := <-done:
						accounted = true
						res.RanBetween = true
						account(*o.During, ir.out)
						m.touchedBy(*o.During, ir.out == acked, touched)
						res.Log = append(res.Log, describeOutcome(*o.During, ir.out, ir.err, ir.pi)+" (by another goroutine, while "+o.Kind+" was between two of its API calls)")
						if ir.out == crashed || ir.out == panicked {
							if ir.out == panicked {
								ir.pi.Op = o.During.Kind
								res.StorePanic = ir.pi
							}
							panic(crashSentinel{"concurrent operation took the process down"})
						}
					case <-t.C:
					}
				}
				inj.mu.Unlock()
			}
			out, err, pi = callOp(fn)
			inj.mu.Lock()
			inj.interleave = nil
			inj.mu.Unlock()
			if started && !accounted {
				// still running: it overlaps the rest of the flush in an unknown order
				m.touchedBy(*o.During, false, touched)
			}
			m.afterFlush(out == acked && o.Kind != "tick", touched, pendBefore)
			switch {
			case o.During == nil:
			case started && !accounted:
				t := time.NewTimer(20 * time.Second)
				select {
				case ir := <-done:
					account(*o.During, ir.out)
					res.Log = append(res.Log, describeOutcome(*o.During, ir.out, ir.err, ir.pi)+" (by another goroutine, started while "+o.Kind+" was in progress, finished after it)")
					if ir.out == crashed || ir.out == panicked {
						out, pi = ir.out, ir.pi
					}
				case <-t.C:
					res.Harness = "a concurrent " + o.During.Kind + " started during " + o.Kind + " did not return within the 20s watchdog"
					out = crashed
				}
				t.Stop()
			case !started && out != crashed && out != panicked:
				io, ierr, ipi := runOnly(*o.During)
				account(*o.During, io)
				res.Log = append(res.Log, describeOutcome(*o.During, io, ierr, ipi)+" (after "+o.Kind+", which made too few API calls to interleave)")
				if io == crashed || io == panicked {
					out, pi = io, ipi
				}
			}
			// The caller retries: the limiter calls Stop() again until it returns nil (stopLimitStoreWithRetry); the mirror
			// for an explicit Flush(). The injected fault is gone by then (later positions may carry the second-order
			// fault). A later attempt that returns nil acknowledges the flush like a first one would.
			if out == failed && o.Kind != "tick" {
				res.Log = append(res.Log, describeOutcome(o, out, err, pi))
				for attempt := 2; attempt <= 4 && out == failed; attempt++ {
					res.Retried = true
					out, err, pi = callOp(fn)
					m.afterFlush(out == acked, nil, nil)
					line := describeOutcome(op{Kind: fmt.Sprintf("%s (retried by the caller, attempt %d)", o.Kind, attempt)}, out, err, pi)
					if out == failed && attempt < 4 {
						res.Log = append(res.Log, line)
					} else {
						lineOverride = line
					}
				}
			}
		}
		return out, err, pi
	}

	runOps := func(ops []op) {
		for _, o := range ops {
			o := o
			before := inj.calls
			var out opOutcome
			var err error
			var pi *panicInfo
			if o.Kind == "other-shard-store-save" {
				// the other shard's leader, a different process with its own client: no faults there
				e := otherStore.Save(o.Upstream, newCondition(o.Upstream, o.Name, o.Ver))
				if e != nil {
					res.Log = append(res.Log, o.String()+" -> harness error "+e.Error())
				}
				m.allowed[o.Name] = valset{val{o.Ver, o.Ver}: true}
				continue
			}
			if o.Kind == "new-server-gains-other-shard" {
				newServer, _ = newClient(a)
				res.NewServerFirst = true
				n0 := len(res.Findings)
				checkLoad(newServer, seq.otherShard(), "the next server (gaining the other shard while this store is still running)", a.snapshot())
				res.Log = append(res.Log, fmt.Sprintf("%s -> %d finding(s)", o.Kind, len(res.Findings)-n0))
				continue
			}
			out, err, pi = perform(o)
			if inj.calls >= at && before < at && at > 0 && res.HitOp == "" {
				res.HitOp = o.Kind
				res.hitOp = o
			}
			line := describeOutcome(o, out, err, pi)
			if lineOverride != "" {
				line, lineOverride = lineOverride, ""
			}
			if out == crashed {
				res.Crashed = true
			}
			if out == panicked && pi != nil {
				pi.Op = o.Kind
				res.StorePanic = pi
			}
			if phase != "" {
				line = "[next holder] " + line
			}
			res.Log = append(res.Log, line)
			if out == crashed || out == panicked {
				break // the process is gone, the store object is abandoned
			}
			if o.Kind == "load" && out != acked {
				break // a store that could not load is discarded by the limiter
			}
			// write-through: whatever the store shows to its callers has been persisted at some time
			if seq.Mode == "write-through" {
				for _, c := range store.List(labels.Everything()) {
					cur = c.Name
					aliasMu.Lock()
					excused := inPlace[c.Name][valOf(c)] // the caller itself wrote it into the object it shares with the store
					aliasMu.Unlock()
					if v := valOf(c); !a.everHeld(c.Name, v) && !excused {
						add("visible-but-never-persisted", fmt.Sprintf("after %s the store hands out %s=%s, a value the API has never held", o, c.Name, v))
					}
				}
			}
			if o.Kind == "stop" {
				if out == acked {
					// the leader check may stop a store that is already stopped: nothing may be written by that
					o2, e2, p2 := callOp(store.Stop)
					res.StopAgain++
					if o2 != acked {
						res.Log = append(res.Log, describeOutcome(op{Kind: "stop (called again after it returned nil)"}, o2, e2, p2))
					}
				}
				break
			}
		}
	}
	runOps(seq.Ops)
	res.Calls, res.Verbs, res.HitVerb, res.Skipped = inj.calls, inj.verbs, inj.hitVerb, inj.skipped

	// ---- end of the history: what the API holds vs. what the statement permits ----
	inj.mu.Lock()
	inj.killed = true // the old process is gone in every case (crashed, panicked, stopped or simply replaced)
	inj.mu.Unlock()
	var snap map[string]stored
	judgeAPI := func() {
		snap = a.snapshot()
		res.Final, res.Allowed = map[string]string{}, map[string]string{}
		names := map[string]bool{}
		for n := range snap {
			names[n] = true
		}
		for n := range m.allowed {
			names[n] = true
		}
		for n := range names {
			cur = n
			actual := absent
			if st, ok := snap[n]; ok {
				actual = st.Val
				res.Final[n] = st.Val.String()
			}
			al := m.allow(n)
			res.Allowed[n] = al.String()
			if al[actual] {
				continue
			}
			switch {
			case actual == absent:
				add("acknowledged-condition-not-persisted", fmt.Sprintf("%s is absent from the API; permitted: %s", n, al))
			case (len(al) == 1 && al[absent]) || (m.deletedAck[n] && actual.Spec < 9000):
				add("deleted-condition-persists", fmt.Sprintf("%s=%s is still in the API after its acknowledged deletion", n, actual))
			case reportedAtAck[n]:
				// same loss, already reported where it happened
			default:
				add("acknowledged-condition-not-persisted", fmt.Sprintf("the API holds %s=%s; permitted: %s", n, actual, al))
			}
		}
	}
	judgeAPI()

	// ---- the next holders load ----
	var nextStore _interface.LimitStore
	var nextTick func()
	var nextClient *gatewayfake.Clientset
	for sh := 0; sh < nShards; sh++ {
		who := "new holder of the same shard"
		if sh != seq.Shard {
			who = "holder of the other shard"
		}
		csN, _ := newClient(a)
		if sh == seq.Shard && newServer != nil {
			// the same process that gained the other shard earlier, through the same client, right after the old holder
			// is gone (no timing involved: it simply follows immediately)
			csN = newServer
			who = "the next server (gaining this shard right after the old holder is gone; it gained the other shard earlier)"
		}
		ns, nsTick := checkLoad(csN, sh, who, snap)
		if sh == seq.Shard {
			nextStore, nextTick, nextClient = ns, nsTick, csN
		}
	}

	// ---- the next holder works on what it loaded, stops; a third holder loads ----
	res.Recreated = m.recreated
	if len(seq.Takeover) > 0 && nextStore != nil {
		phase = "next-holder"
		store, tick = nextStore, nextTick
		inj = &injector{api: a} // (no faults in this phase; the interleaving hooks of the first phase are not used)
		_ = nextClient
		m = newModel(sequence{Mode: seq.Mode, Shard: seq.Shard, Shards: seq.Shards, Ops: seq.Takeover}, snap)
		m.afterLoad(snap)
		for k := range reportedAtAck {
			delete(reportedAtAck, k)
		}
		n0 := len(res.Log)
		runOps(seq.Takeover)
		res.TakeoverOps = len(res.Log) - n0
		res.Recreated += m.recreated
		judgeAPI()
		csT, _ := newClient(a)
		checkLoad(csT, seq.Shard, "the third holder of the shard (after the second one worked and stopped)", snap)
	}
	return res
}

func describeOutcome(o op, out opOutcome, err error, pi *panicInfo) string {
	line := o.String()
	switch out {
	case acked:
		line += " -> ok"
	case failed:
		line += " -> error: " + err.Error()
	case crashed:
		line += " -> CRASH (injected)"
	case panicked:
		line += " -> PANIC of the store"
		if pi != nil {
			line += ": " + pi.Value + " in " + pi.Frame
		}
	}
	return line
}

// hitTouches: the store operation during which the fault hit works on the named condition (flush-like operations and the
// initial load work on all of them).
func (res *runResult) hitTouches(name string) bool {
	o := res.hitOp
	switch o.Kind {
	case "save", "get-mutate-save", "mutate-resave", "delete":
		return o.Name == name
	case "delete-upstream":
		return isCondOf(name, o.Upstream)
	}
	if o.During != nil && (o.During.Name == name || (o.During.Kind == "delete-upstream" && isCondOf(name, o.During.Upstream))) {
		return true
	}
	return true
}

// hitSaveOf: the fault hit a save of the named condition.
func (res *runResult) hitSaveOf(name string) bool {
	switch res.hitOp.Kind {
	case "save", "get-mutate-save", "mutate-resave":
		return res.hitOp.Name == name
	}
	return false
}

// mutateInPlace modifies the version carried by the spec and/or the status of an object the store may also hold.
func mutateInPlace(c *proxyv1alpha1.RateLimitCondition, part string, ver int32) {
	if part != "status" {
		if len(c.Spec.LimitItemConfigurations) != 1 || c.Spec.LimitItemConfigurations[0].MaxRequestsInflight == nil {
			c.Spec.LimitItemConfigurations = newCondition("", "", ver).Spec.LimitItemConfigurations
		}
		c.Spec.LimitItemConfigurations[0].MaxRequestsInflight.Max = ver
	}
	if part != "spec" {
		if len(c.Status.LimitItemStatuses) != 1 {
			c.Status.LimitItemStatuses = newCondition("", "", ver).Status.LimitItemStatuses
		}
		c.Status.LimitItemStatuses[0].RequestLevel = ver
	}
}

type loaded struct {
	name, upstream string
	v              val
}

func listAll(s _interface.LimitStore) []loaded {
	var out []loaded
	for _, c := range s.List(labels.Everything()) {
		out = append(out, loaded{c.Name, c.Spec.UpstreamCluster, valOf(c)})
	}
	return out
}
