package c13

import (
	"bytes"
	"context"
	"fmt"
	"strconv"
	"strings"
	"sync"
	"sync/atomic"
	"time"

	"k8s.io/klog"

	coordinationv1 "k8s.io/api/coordination/v1"
	apierrors "k8s.io/apimachinery/pkg/api/errors"
	metav1 "k8s.io/apimachinery/pkg/apis/meta/v1"
	"k8s.io/apimachinery/pkg/runtime"
	k8sfake "k8s.io/client-go/kubernetes/fake"
	clienttesting "k8s.io/client-go/testing"
	componentbaseconfig "k8s.io/component-base/config"

	gatewayfake "github.com/kubewharf/kubegateway/pkg/client/kubernetes/fake"
	"github.com/kubewharf/kubegateway/pkg/ratelimiter/limiter"
	"github.com/kubewharf/kubegateway/pkg/ratelimiter/limiter/elector"
	"github.com/kubewharf/kubegateway/pkg/ratelimiter/options"

	"verifharness/bed"
	"verifharness/vkit"
)

// realTakeoverScenario: one real elector with MANY shards (= many real client-go elections running side by side on leases
// of a fake clientset), all led by this server; then another identity takes ALL leases at once while this server still
// believes it leads. client-go reports the new holder (OnNewLeader, in a goroutine of its own) and the end of the term
// (OnStoppedLeading) in an order that depends on scheduling; with many elections giving up at the same moment both orders
// occur. Whatever the order, once the term has ended and the lease is the other identity's, the server must know and tell:
// leader table, refusals and ServerInfo().Endpoints name the lease holder.
//
// When is a shard judged? Not after a delay: after (1) the elector delivered OnStoppedLeading for it (seen by a wrapper
// around the rateLimiter's own callback) - client-go only gives up because it has SEEN the other holder and it has already
// started the OnNewLeader report at that point - and (2) that same election has polled its lease three more times since
// (counted by a reactor), i.e. has been through a one-second restart and several timer rounds while the one-line report
// goroutine was runnable. The lease is checked to be the other identity's before and after every judgement. No upstream is
// registered and no instance heartbeats are sent, which keeps the run clear of the rateLimiter's unsynchronised maps.
func realTakeoverScenario(r *vkit.R, g *vkit.Rand, N int) {
	const (
		ns            = "kube-system"
		lockName      = "verif-takeover"
		leaseDuration = 10 * time.Second // only bounds how long a silent holder is trusted; the new holder renews every 0.5 s
		renewDeadline = 1 * time.Second
		retryPeriod   = 200 * time.Millisecond
	)
	identity := fmt.Sprintf("http://limiter-tk-%d", g.Intn(1000))
	other := "http://limiter-other-" + fmt.Sprint(g.Intn(1000))
	kube := k8sfake.NewSimpleClientset()
	var mu sync.Mutex
	gets := map[string]int{} // lease name -> GETs seen
	kube.PrependReactor("get", "leases", func(a clienttesting.Action) (bool, runtime.Object, error) {
		if ga, ok := a.(clienttesting.GetAction); ok {
			mu.Lock()
			gets[ga.GetName()]++
			mu.Unlock()
		}
		return false, nil, nil
	})
	// The fake object tracker has no optimistic concurrency: a renewal the old holder had in flight when the lease was taken
	// would silently overwrite the new holder (a real API server answers 409, the update carries a stale resourceVersion),
	// and that election would then go on leading. Emulated here: an update that names this server while the lease names the
	// other identity is a conflict.
	leaseGVR0 := coordinationv1.SchemeGroupVersion.WithResource("leases")
	kube.PrependReactor("update", "leases", func(a clienttesting.Action) (bool, runtime.Object, error) {
		ua, ok := a.(clienttesting.UpdateAction)
		if !ok {
			return false, nil, nil
		}
		l, ok := ua.GetObject().(*coordinationv1.Lease)
		if !ok || l.Spec.HolderIdentity == nil || *l.Spec.HolderIdentity != identity {
			return false, nil, nil
		}
		if cur, err := kube.Tracker().Get(leaseGVR0, ns, l.Name); err == nil {
			if cl, ok := cur.(*coordinationv1.Lease); ok && cl.Spec.HolderIdentity != nil && *cl.Spec.HolderIdentity == other {
				return true, nil, apierrors.NewConflict(leaseGVR0.GroupResource(), l.Name, fmt.Errorf("the object has been modified"))
			}
		}
		return false, nil, nil
	})
	cfg := componentbaseconfig.LeaderElectionConfiguration{LeaderElect: true, ResourceLock: "leases", ResourceNamespace: ns, ResourceName: lockName,
		LeaseDuration: metav1.Duration{Duration: leaseDuration}, RenewDeadline: metav1.Duration{Duration: renewDeadline}, RetryPeriod: metav1.Duration{Duration: retryPeriod}}
	el, err := elector.NewLeaderElector(cfg, kube, identity, N)
	if err != nil {
		r.Inconclusive("real takeover: NewLeaderElector failed: " + err.Error())
		return
	}
	rl, h := limiter.VerifNewRateLimiter(gatewayfake.NewSimpleClientset(), options.RateLimitOptions{ShardingCount: N, LimitStore: "local", Identity: identity, LeaderElectionConfiguration: cfg}, el, bed.NewStubUpstreamController())
	// the rateLimiter's own callbacks, with a recorder around the stop callback
	type stopRec struct {
		getsAtStop    int
		namedAtStop   string // what the leader table said about the shard when the term ended
		presentAtStop bool
	}
	stops := map[int]*stopRec{}
	leaseName := func(s int) string { return fmt.Sprintf("%s-%d", lockName, s) }
	el.SetCallbacks(elector.LeaderCallbacks{
		OnStartedLeading: h.StartLeading,
		OnStoppedLeading: func(s int) {
			l, ok := el.GetLeaders()[s]
			mu.Lock()
			stops[s] = &stopRec{getsAtStop: gets[leaseName(s)], namedAtStop: l.Leader, presentAtStop: ok}
			mu.Unlock()
			h.StopLeading(s)
		},
	})
	// Only the elector runs, not rateLimiter.Run: Run also starts cleanupUnknownCondition, which iterates limitStoreMap
	// without the lock while the start-up elections insert their stores ("fatal error: concurrent map iteration and map
	// write" with many shards - seen once here; a start-up crash of the real server, but not this property's subject).
	ectx, ecancel := context.WithCancel(context.Background())
	defer ecancel()
	go el.Run(ectx)

	if !vkit.WaitFor(40*time.Second, func() bool {
		for s := 0; s < N; s++ {
			if !el.IsLeader(s) || h.Store(s) == nil {
				time.Sleep(20 * time.Millisecond)
				return false
			}
		}
		return true
	}) {
		r.Inconclusive("real takeover: the server did not gain all shards within the watchdog")
		return
	}
	// one upstream name per shard (not registered anywhere: only refusals are looked at)
	ups := make([]string, N)
	for k, found := 0, 0; found < N; k++ {
		u := fmt.Sprintf("tk-%d.example.com", k)
		if s := refShard(u, N); ups[s] == "" {
			ups[s] = u
			found++
		}
	}
	// From here on the log sink delays "Stop leading <odd shard>" (see stopLeadingDelay): for odd shards the report of the new
	// leader gets ahead of the end of the term, for even shards client-go's usual order is left alone.
	atomic.AddInt32(&delayStopLeading, 1)
	defer atomic.AddInt32(&delayStopLeading, -1)
	// the other identity takes every lease at once
	// the harness reads and writes the leases through the object tracker, not through the clientset: its own accesses must
	// not be counted by the reactor that counts the elections' polls
	leaseGVR := coordinationv1.SchemeGroupVersion.WithResource("leases")
	getLease := func(s int) (*coordinationv1.Lease, error) {
		o, err := kube.Tracker().Get(leaseGVR, ns, leaseName(s))
		if err != nil {
			return nil, err
		}
		l, ok := o.(*coordinationv1.Lease)
		if !ok {
			return nil, fmt.Errorf("not a lease")
		}
		return l.DeepCopy(), nil
	}
	// writes go through the clientset: the fake serialises whole calls (reactor chain included), so a renewal of the old holder
	// is either entirely before a write of the harness or meets the conflict reactor; a write straight into the tracker could
	// slip between that reactor's check and the renewal's own write
	putLease := func(l *coordinationv1.Lease) error {
		_, err := kube.CoordinationV1().Leases(ns).Update(context.Background(), l, metav1.UpdateOptions{})
		return err
	}
	holder := func(s int) string {
		l, err := getLease(s)
		if err != nil || l.Spec.HolderIdentity == nil {
			return ""
		}
		return *l.Spec.HolderIdentity
	}
	var wg sync.WaitGroup
	for s := 0; s < N; s++ {
		wg.Add(1)
		go func(s int) {
			defer wg.Done()
			for try := 0; try < 20; try++ { // the holder renews concurrently: retry on conflict
				l, err := getLease(s)
				if err != nil {
					continue
				}
				now, dur := metav1.NowMicro(), int32(3600)
				o := other
				l.Spec = coordinationv1.LeaseSpec{HolderIdentity: &o, RenewTime: &now, AcquireTime: &now, LeaseDurationSeconds: &dur, LeaseTransitions: l.Spec.LeaseTransitions}
				if err := putLease(l); err == nil {
					return
				}
			}
		}(s)
	}
	wg.Wait()
	// the fake tracker has no optimistic locking: a renew of the old holder may have overwritten a takeover. Re-take until
	// every lease stays the other's (the old holder stops writing once it has seen the other holder).
	if !vkit.WaitFor(20*time.Second, func() bool {
		all := true
		for s := 0; s < N; s++ {
			if holder(s) != other {
				all = false
				if l, err := getLease(s); err == nil {
					now, dur := metav1.NowMicro(), int32(3600)
					o := other
					l.Spec.HolderIdentity, l.Spec.RenewTime, l.Spec.LeaseDurationSeconds = &o, &now, &dur
					_ = putLease(l)
				}
			}
		}
		if !all {
			time.Sleep(30 * time.Millisecond)
		}
		return all
	}) {
		r.Inconclusive("real takeover: could not hand all leases to the other identity")
		return
	}
	r.Count("real_takeover_leases_taken", N)
	// the new holder keeps renewing, as a live leader does: otherwise this server would consider the leases expired after its
	// own lease duration (3 s after it last saw them change) and take them back in the middle of the judgement
	renewCtx, renewCancel := context.WithCancel(context.Background())
	defer renewCancel()
	go func() {
		t := time.NewTicker(500 * time.Millisecond)
		defer t.Stop()
		for {
			select {
			case <-renewCtx.Done():
				return
			case <-t.C:
				for s := 0; s < N; s++ {
					if l, err := getLease(s); err == nil && l.Spec.HolderIdentity != nil && *l.Spec.HolderIdentity == other {
						now := metav1.NowMicro()
						l.Spec.RenewTime = &now
						_ = putLease(l)
					}
				}
			}
		}
	}()

	// wait (watchdog) until every election has ended its term and polled its lease three more times
	if !vkit.WaitFor(60*time.Second, func() bool {
		mu.Lock()
		defer mu.Unlock()
		for s := 0; s < N; s++ {
			st := stops[s]
			if st == nil || gets[leaseName(s)] < st.getsAtStop+3 {
				return false
			}
		}
		return true
	}) {
		mu.Lock()
		noStop, fewPolls, stillLeader, notOther := 0, 0, 0, 0
		for s := 0; s < N; s++ {
			switch st := stops[s]; {
			case st == nil:
				noStop++
			case gets[leaseName(s)] < st.getsAtStop+3:
				fewPolls++
			}
		}
		mu.Unlock()
		for s := 0; s < N; s++ {
			if el.IsLeader(s) {
				stillLeader++
			}
			if holder(s) != other {
				notOther++
			}
		}
		r.Inconclusive(fmt.Sprintf("real takeover: not every election ended its term and resumed polling within the watchdog (of %d: %d never delivered OnStoppedLeading, %d polled fewer than 3 times since, %d still IsLeader, %d leases not the other identity's)", N, noStop, fewPolls, stillLeader, notOther))
		return
	}
	info, ierr := rl.ServerInfo()
	leaders := rl.GetLeaders()
	for s := 0; s < N; s++ {
		if holder(s) != other {
			r.Inconclusive("real takeover: a lease changed hands again during the judgement")
			return
		}
		mu.Lock()
		st := *stops[s]
		mu.Unlock()
		order := "term ended first"
		if st.presentAtStop && st.namedAtStop == other {
			order = "new leader reported before the term ended"
			r.Count("real_takeover_newleader_before_stop", 1)
		} else {
			r.Count("real_takeover_stop_before_newleader", 1)
		}
		r.Count("real_takeover_shards_judged", 1)
		r.Eval(1)
		wit := map[string]interface{}{"identity": identity, "leaseHolder": other, "shard": s, "shards": N, "leaderTableEntry": fmt.Sprintf("%+v", leaders[s]), "tableAtEndOfTerm": fmt.Sprintf("present=%v leader=%q", st.presentAtStop, st.namedAtStop),
			"how": "real elector.NewLeaderElector with N leases on a k8s fake clientset inside limiter.VerifNewRateLimiter + Run; all leases overwritten with another holder at once; judged after OnStoppedLeading + 3 further lease polls of the same election"}
		_ = order
		ctx := fmt.Sprintf("shard %d of %d, lease held by %q (leader table when OnStoppedLeading was delivered: entry=%v leader=%q)", s, N, other, st.presentAtStop, st.namedAtStop)
		if el.IsLeader(s) || h.Store(s) != nil {
			r.Violation("C13/real-elector/takeover/still-leading", fmt.Sprintf("%s: IsLeader=%v store present=%v after the term ended", ctx, el.IsLeader(s), h.Store(s) != nil), wit)
		}
		if l, ok := leaders[s]; !ok || l.Leader != other {
			r.Violation("C13/real-elector/takeover/leader-table-lacks-new-leader", fmt.Sprintf("%s: GetLeaders() has entry=%v leader=%q for the shard", ctx, ok, l.Leader), wit)
		}
		_, aerr := rl.DoAcquire(ups[s], newAcquire(ups[s], "gw-1", int64(s+1), 1))
		_, uerr := rl.UpdateRateLimitConditionStatus(ups[s], newCondition(ups[s], "gw-1", 1))
		for op, e := range map[string]error{"acquire": aerr, "allocate": uerr} {
			switch {
			case e == nil:
				r.Violation("C13/real-elector/takeover/"+op+"-served", fmt.Sprintf("%s: %s was served", ctx, op), wit)
			case !strings.Contains(e.Error(), other):
				r.Violation("C13/real-elector/takeover/refusal-does-not-name-leader", fmt.Sprintf("%s: %s for upstream %q refused with %q, which does not name the lease holder", ctx, op, ups[s], e.Error()), wit)
			}
		}
		if ierr == nil {
			found := false
			for _, ep := range info.Endpoints {
				if int(ep.ShardID) == s && ep.Leader == other {
					found = true
				}
			}
			if !found {
				r.Violation("C13/real-elector/takeover/server-info-lacks-endpoint", fmt.Sprintf("%s: ServerInfo().Endpoints has no entry {shard %d, leader %q} (%d endpoints listed)", ctx, s, other, len(info.Endpoints)), wit)
			}
		}
	}
	r.Count("real_takeover_scenarios", 1)
	r.Distinct(vkit.Hash64("real-takeover", identity, fmt.Sprint(N)))
}

// Schedule perturbation without touching the code under test: the elector's stopLeading (the function client-go calls as
// OnStoppedLeading) starts with klog.Infof("Stop leading %v", shard). client-go has started the goroutine that reports the
// new leader (OnNewLeader) immediately before; which of the two gets to the leader table first is a matter of scheduling
// (on an idle machine both orders occur, on a saturated one almost only "term ended first"). The harness owns the log sink
// (the logs are discarded anyway): while a takeover scenario runs, the line "Stop leading <odd shard>" is held back for
// 20 ms, which lets the report goroutine run first. Nothing is judged by this; it only makes both orders occur in every run.
var delayStopLeading int32

type perturbingSink struct{}

func (perturbingSink) Write(p []byte) (int, error) {
	sinkObserve(p)
	if atomic.LoadInt32(&delayStopLeading) > 0 {
		if i := bytes.Index(p, []byte("Stop leading ")); i >= 0 {
			f := bytes.Fields(p[i+len("Stop leading "):])
			if len(f) > 0 {
				if n, err := strconv.Atoi(string(f[0])); err == nil && n%2 == 1 {
					time.Sleep(20 * time.Millisecond)
				}
			}
		}
	}
	return len(p), nil
}

func installPerturbingSink() { klog.SetOutput(perturbingSink{}) }
