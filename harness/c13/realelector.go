package c13

import (
	"context"
	"errors"
	"fmt"
	"sort"
	"strings"
	"sync/atomic"
	"time"

	coordinationv1 "k8s.io/api/coordination/v1"
	metav1 "k8s.io/apimachinery/pkg/apis/meta/v1"
	"k8s.io/apimachinery/pkg/runtime"
	k8sfake "k8s.io/client-go/kubernetes/fake"
	clienttesting "k8s.io/client-go/testing"
	componentbaseconfig "k8s.io/component-base/config"

	gatewayfake "github.com/kubewharf/kubegateway/pkg/client/kubernetes/fake"
	"github.com/kubewharf/kubegateway/pkg/ratelimiter/limiter"
	"github.com/kubewharf/kubegateway/pkg/ratelimiter/limiter/elector"
	"github.com/kubewharf/kubegateway/pkg/ratelimiter/options"

	"verifharness/bed"
	"verifharness/vkit"
)

// realElectorScenario runs the real rateLimiter with the REAL elector (client-go leader election on lease objects of a
// fake kube clientset) and the periodic leaderCheck (every second, as rateLimiter.sync does). The server gains the shard and
// serves; then its lease renewals start failing (the process stays alive) and nobody takes over for a while; later another
// identity takes the lease.
//
// When does the server certainly NOT hold the shard? Not by the clock (on a saturated machine a correct holder may need
// seconds to notice that its renewals fail; an earlier version judged from "the lease object has expired" and raised a false
// alarm under load). Instead: (1) the elector itself has ended the term - client-go delivered OnStoppedLeading, seen by a
// recorder wrapped around the rateLimiter's own stop callback - and (2) no new term can have begun: a term starts with a
// successful write of the lease, and the reactor refuses every lease write of this identity from the moment renewals were cut.
// From that observation on: the server must not name itself leader of the shard
// (IsLeader / GetLeaders / ServerInfo), must refuse allocate and acquire, and must hold no store for the shard - also not a
// second later (leaderCheck runs every second): 30 observations, 100 ms apart.
// One shard per scenario and no instance heartbeats: that keeps the run clear of the unsynchronised maps of the rateLimiter
// (upstreamLock, limitStoreMap iteration in cleanupTimeoutClient), which are not this property's subject.
func realElectorScenario(r *vkit.R, g *vkit.Rand) {
	const (
		ns            = "kube-system"
		lockName      = "verif-ratelimiter"
		leaseDuration = 4 * time.Second
		renewDeadline = 600 * time.Millisecond
		retryPeriod   = 150 * time.Millisecond
		margin        = 300 * time.Millisecond
		shard         = 0
	)
	identity := fmt.Sprintf("http://limiter-real-%d", g.Intn(1000))
	kube := k8sfake.NewSimpleClientset()
	var partitioned int32
	kube.PrependReactor("update", "leases", func(a clienttesting.Action) (bool, runtime.Object, error) {
		if atomic.LoadInt32(&partitioned) == 1 {
			if ua, ok := a.(clienttesting.UpdateAction); ok {
				if l, ok := ua.GetObject().(*coordinationv1.Lease); ok && l.Spec.HolderIdentity != nil && *l.Spec.HolderIdentity == identity {
					return true, nil, errors.New("injected fault: connection refused")
				}
			}
		}
		return false, nil, nil
	})
	cfg := componentbaseconfig.LeaderElectionConfiguration{LeaderElect: true, ResourceLock: "leases", ResourceNamespace: ns, ResourceName: lockName,
		LeaseDuration: metav1.Duration{Duration: leaseDuration}, RenewDeadline: metav1.Duration{Duration: renewDeadline}, RetryPeriod: metav1.Duration{Duration: retryPeriod}}
	el, err := elector.NewLeaderElector(cfg, kube, identity, 1)
	if err != nil {
		r.Inconclusive("real elector: NewLeaderElector failed: " + err.Error())
		return
	}
	up := bed.NewStubUpstreamController()
	ups := []string{fmt.Sprintf("real-%d-a.example.com", g.Intn(1000)), fmt.Sprintf("real-%d-b.example.com", g.Intn(1000))}
	for _, u := range ups {
		_ = up.Indexer.Add(buildUpstream(u, 100))
	}
	rl, h := limiter.VerifNewRateLimiter(gatewayfake.NewSimpleClientset(), options.RateLimitOptions{ShardingCount: 1, LimitStore: "local", Identity: identity, LeaderElectionConfiguration: cfg}, el, up)
	var termsEnded int32
	el.SetCallbacks(elector.LeaderCallbacks{ // the rateLimiter's own callbacks, with a recorder around the stop callback
		OnStartedLeading: h.StartLeading,
		OnStoppedLeading: func(s int) {
			h.StopLeading(s)
			atomic.AddInt32(&termsEnded, 1)
		},
	})
	// The real election plus the periodic leaderCheck exactly as rateLimiter.sync runs it (every second). rateLimiter.Run
	// itself is not used: it also starts cleanupUnknownCondition at t=0, which iterates limitStoreMap without the lock while
	// the first election inserts its store (a "concurrent map iteration and map write" crash of the process, not this
	// property's subject).
	ectx, ecancel := context.WithCancel(context.Background())
	defer ecancel()
	go el.Run(ectx)
	go func() {
		t := time.NewTicker(time.Second)
		defer t.Stop()
		for {
			select {
			case <-ectx.Done():
				return
			case <-t.C:
				h.LeaderCheck()
			}
		}
	}()

	var trace []string
	logf := func(f string, a ...interface{}) { trace = append(trace, fmt.Sprintf(f, a...)) }
	wit := func(extra map[string]interface{}) map[string]interface{} {
		w := map[string]interface{}{"identity": identity, "upstreams": ups, "trace": trace, "leaseDuration": leaseDuration.String(), "renewDeadline": renewDeadline.String(), "retryPeriod": retryPeriod.String(),
			"how": "limiter.VerifNewRateLimiter with the real elector.NewLeaderElector (leases on k8s fake clientset), elector.Run + leaderCheck every second; a reactor fails this identity's lease updates while 'partitioned'"}
		for k, v := range extra {
			w[k] = v
		}
		return w
	}
	var reqID int64
	acquire := func(u string) error {
		reqID++
		res, err := rl.DoAcquire(u, newAcquire(u, "gw-1", reqID, 1))
		if err == nil && (res == nil || len(res.Status.Results) != 1 || !res.Status.Results[0].Accept) {
			return fmt.Errorf("not accepted")
		}
		return err
	}
	// phase 1: gains the shard through the real election and serves every upstream
	if !vkit.WaitFor(30*time.Second, func() bool {
		for _, u := range ups {
			if acquire(u) != nil {
				time.Sleep(20 * time.Millisecond)
				return false
			}
		}
		return true
	}) {
		r.Inconclusive("real elector: the server never served as leader within the watchdog")
		return
	}
	served := 0
	for _, u := range ups {
		if _, err := rl.UpdateRateLimitConditionStatus(u, newCondition(u, "gw-1", 4)); err == nil {
			served++
		}
	}
	logf("leader of shard 0 by election; acquire served for %v, %d allocate calls served", ups, served)
	if !el.IsLeader(shard) || h.Store(shard) == nil {
		r.Inconclusive("real elector: serving but IsLeader/store disagree during the leading phase")
		return
	}

	leases := kube.CoordinationV1().Leases(ns)
	leaseName := fmt.Sprintf("%s-%d", lockName, shard)
	// leaseState: who the lease names and whether it has expired by the observer's clock
	leaseState := func() (holder string, expired bool, ok bool) {
		l, err := leases.Get(context.Background(), leaseName, metav1.GetOptions{})
		if err != nil || l.Spec.HolderIdentity == nil || l.Spec.RenewTime == nil {
			return "", false, false
		}
		return *l.Spec.HolderIdentity, time.Since(l.Spec.RenewTime.Time) > leaseDuration+margin, true
	}

	// phase 2: renewals fail; wait until the elector has ended its term
	ended0 := atomic.LoadInt32(&termsEnded)
	atomic.StoreInt32(&partitioned, 1)
	logf("lease updates of %s start failing", identity)
	if !vkit.WaitFor(90*time.Second, func() bool {
		if atomic.LoadInt32(&termsEnded) > ended0 {
			return true
		}
		time.Sleep(20 * time.Millisecond)
		return false
	}) {
		r.Inconclusive("real elector: the elector did not end its term within the watchdog after renewals started failing")
		return
	}
	logf("the elector delivered OnStoppedLeading; its lease writes keep failing, so no new term can begin")

	observe := func(phase, class string, rounds int, wantLeader string) {
		for k := 0; k < rounds; k++ {
			holder, expired, ok := leaseState()
			_ = expired
			if !ok || (wantLeader == "" && holder != identity) || (wantLeader != "" && holder != wantLeader) {
				r.Inconclusive("real elector: the lease changed unexpectedly during the observation (" + phase + ")")
				return
			}
			r.Count("real_elector_checks_"+class, 1)
			ctx := fmt.Sprintf("%s, observation %d", phase, k+1)
			// 1. what the server says about leadership
			var claims []string
			if el.IsLeader(shard) {
				claims = append(claims, "IsLeader(0)=true")
			}
			if l, ok := rl.GetLeaders()[shard]; ok && l.Leader == identity {
				claims = append(claims, "GetLeaders()[0]="+l.Leader)
			}
			if info, err := rl.ServerInfo(); err == nil {
				for _, s := range info.ManagedShards {
					if int(s) == shard {
						claims = append(claims, "ServerInfo.ManagedShards contains 0")
					}
				}
			}
			if len(claims) > 0 {
				r.Violation("C13/real-elector/"+class+"/still-claims-leadership", fmt.Sprintf("%s: the server still names itself leader of shard 0: %s", ctx, strings.Join(claims, ", ")), wit(nil))
			}
			// 2. calls must be refused (naming the leader when there is one)
			u := ups[k%len(ups)]
			reqID++
			_, aerr := rl.DoAcquire(u, newAcquire(u, "gw-1", reqID, 1))
			_, uerr := rl.UpdateRateLimitConditionStatus(u, newCondition(u, "gw-2", 1))
			for op, e := range map[string]error{"acquire": aerr, "allocate": uerr} {
				switch {
				case e == nil:
					r.Violation("C13/real-elector/"+class+"/"+op+"-served", fmt.Sprintf("%s: %s for upstream %q was served (no error) although the server does not hold the lease of shard 0", ctx, op, u), wit(nil))
				case wantLeader != "" && !strings.Contains(e.Error(), wantLeader):
					r.Violation("C13/real-elector/"+class+"/"+op+"-refusal-does-not-name-leader", fmt.Sprintf("%s: %s refused with %q, which does not name the lease holder %q", ctx, op, e.Error(), wantLeader), wit(nil))
				}
			}
			// 3. the shard's in-memory state must be gone and stay gone
			if h.Store(shard) != nil {
				r.Violation("C13/real-elector/"+class+"/store-present", fmt.Sprintf("%s: the server holds a store for shard 0 although it does not hold the lease (stores: %v)", ctx, sortedShards(h.Shards())), wit(nil))
			}
			time.Sleep(100 * time.Millisecond)
		}
	}
	observe("term ended (renewals failing), nobody took over yet", "term-ended", 30, "")

	// phase 3: another identity takes the lease (its writes pass); wait until the server has heard of it
	other := "http://limiter-other"
	if l, err := leases.Get(context.Background(), leaseName, metav1.GetOptions{}); err == nil {
		l = l.DeepCopy()
		now := metav1.NowMicro()
		dur := int32(3600)
		l.Spec.HolderIdentity, l.Spec.RenewTime, l.Spec.AcquireTime, l.Spec.LeaseDurationSeconds = &other, &now, &now, &dur
		if _, err := leases.Update(context.Background(), l, metav1.UpdateOptions{}); err != nil {
			r.Inconclusive("real elector: could not write the other identity into the lease: " + err.Error())
			return
		}
	}
	logf("%s takes the lease", other)
	if !vkit.WaitFor(30*time.Second, func() bool {
		if l, ok := rl.GetLeaders()[shard]; ok && l.Leader == other {
			return true
		}
		time.Sleep(20 * time.Millisecond)
		return false
	}) {
		r.Inconclusive("real elector: the server did not learn about the new lease holder within the watchdog")
		return
	}
	observe("lease held by another identity", "lease-held-by-other", 15, other)
	r.Eval(1)
	r.Count("real_elector_scenarios", 1)
	r.Distinct(vkit.Hash64("real-elector", identity, strings.Join(ups, ",")))
}

func sortedShards(s []int) []int {
	sort.Ints(s)
	return s
}
