package c13

import (
	"bytes"
	"context"
	"fmt"
	"sync/atomic"
	"time"

	apierrors "k8s.io/apimachinery/pkg/api/errors"
	metav1 "k8s.io/apimachinery/pkg/apis/meta/v1"

	gatewayfake "github.com/kubewharf/kubegateway/pkg/client/kubernetes/fake"

	"verifharness/bed"
	"verifharness/vkit"
)

// The log sink also counts the lines a scenario waits for (the asynchronous part of cleanupTimeoutClient ends each store
// with "Clean up flowcontrol state for unknown client <instance>").
var (
	sinkWatchPattern atomic.Value // []byte
	sinkWatchCount   int64
)

func sinkObserve(p []byte) {
	if pat, _ := sinkWatchPattern.Load().([]byte); len(pat) > 0 && bytes.Contains(p, pat) {
		atomic.AddInt64(&sinkWatchCount, 1)
	}
}

// cleanupInTheWindow: the periodic cleanups running between an election loss and the leaderCheck that discards the shard's
// store ("any history", the cleanups are part of what the server does in it), with the API-backed store: whatever the
// ex-leader does to its own memory is covered by the discard clause, but the PERSISTED conditions of the shard now belong to
// the new leader - a server that does not lead the shard must change nothing there.
//  (1) cleanupTimeoutClient (asynchronous: one goroutine per timed-out instance; awaited through the log sink, which sees the
//      last line of every store's turn) must not delete the lost shard's conditions of that instance from the API;
//  (2) cleanupUnknownCondition with an upstream that is no longer in the lister must not delete that upstream's conditions
//      from the API when the upstream's shard is not led.
func cleanupInTheWindow(r *vkit.R, g *vkit.Rand) {
	cs := gatewayfake.NewSimpleClientset()
	srv := bed.NewLimiterServer(bed.LimiterOptions{Identity: me, Shards: 2, Store: "k8s", GatewayClient: cs})
	var uA, uB string
	for k := 0; uA == "" || uB == ""; k++ {
		u := fmt.Sprintf("window-%d-%d.example.com", g.Intn(1000), k)
		if refShard(u, 2) == 0 && uA == "" {
			uA = u
		} else if refShard(u, 2) == 1 && uB == "" {
			uB = u
		}
	}
	for _, u := range []string{uA, uB} {
		_ = srv.Upstream.Indexer.Add(buildUpstream(u, 100))
	}
	srv.Elector.Gain(0)
	srv.Elector.Gain(1)
	gone := fmt.Sprintf("gw-window-%d", g.Intn(100000)) // will time out
	live := "gw-live"
	api := cs.ProxyV1alpha1().RateLimitConditions()
	ctx := context.Background()
	var trace []string
	logf := func(f string, a ...interface{}) { trace = append(trace, fmt.Sprintf(f, a...)) }
	wit := func() map[string]interface{} {
		return map[string]interface{}{"trace": trace, "upstreamOfLostShard": uA, "upstreamOfLedShard": uB, "how": "bed.NewLimiterServer(Store k8s, fake gateway clientset), ScriptedElector; table-only loss of shard 0 (no callback, leaderCheck not yet run), then the cleanup pass"}
	}
	inAPI := func(name string) bool {
		_, err := api.Get(ctx, name, metav1.GetOptions{})
		return err == nil || !apierrors.IsNotFound(err)
	}
	for _, inst := range []string{gone, live} {
		_ = srv.Limiter.Heartbeat(inst)
		for _, u := range []string{uA, uB} {
			for k := 0; k < 2; k++ { // the instance label of a condition is only right from the second report on
				if _, err := srv.Limiter.UpdateRateLimitConditionStatus(u, newCondition(u, inst, 3)); err != nil {
					r.Inconclusive("cleanup window: could not build the leading term on the k8s store: " + err.Error())
					return
				}
			}
		}
	}
	cond := func(u, inst string) string { return newCondition(u, inst, 0).Name }
	for _, n := range []string{cond(uA, gone), cond(uB, gone), cond(uA, live), cond(uB, live)} {
		if !inAPI(n) {
			r.Inconclusive("cleanup window: a reported condition is not in the API")
			return
		}
	}
	logf("leads shards 0 and 1; %s and %s reported twice for %q (shard 0) and %q (shard 1): 4 conditions in the API", gone, live, uA, uB)

	// (1) the instance times out; shard 0 is lost (table only); the timeout pass runs
	srv.Handle.SetHeartbeat(gone, time.Now().Add(-time.Hour))
	srv.Elector.SetLeader(0, "limiter-B")
	sinkWatchPattern.Store([]byte("Clean up flowcontrol state for unknown client " + gone))
	c0 := atomic.LoadInt64(&sinkWatchCount)
	stores := len(srv.Handle.Shards())
	srv.Handle.CleanupTimeoutClient()
	if !vkit.WaitFor(30*time.Second, func() bool { return atomic.LoadInt64(&sinkWatchCount) >= c0+int64(stores) }) {
		r.Inconclusive("cleanup window: the asynchronous timeout cleanup did not finish within the watchdog")
		return
	}
	sinkWatchPattern.Store([]byte(nil))
	logf("heartbeat of %s is an hour old; shard 0 now led by limiter-B (store not yet discarded, %d stores); cleanupTimeoutClient ran to its end", gone, stores)
	r.Count("async_cleanup_timeout_passes_in_window", 1)
	if !inAPI(cond(uA, gone)) {
		r.Violation("C13/server/not-leader/cleanup-timeout/condition-deleted-from-api", fmt.Sprintf("the timeout cleanup of a server that no longer leads shard 0 deleted condition %q (upstream %q, shard 0) from the API, where it now belongs to the new leader", cond(uA, gone), uA), wit())
	}
	if !inAPI(cond(uB, gone)) {
		r.Count("async_cleanup_deleted_in_led_shard", 1)
	}
	if !inAPI(cond(uA, live)) || !inAPI(cond(uB, live)) {
		r.Count("async_cleanup_live_instance_condition_gone", 1) // C18's subject; counted here
	}

	// (2) the store of shard 0 is discarded, the shard regained (loads what the API holds), the cluster of shard 0 disappears
	// from the lister, the shard is lost again (table only) and the slow pass runs
	srv.Handle.LeaderCheck()
	srv.Elector.Gain(0)
	if o, ok, _ := srv.Upstream.Indexer.GetByKey(uA); ok {
		_ = srv.Upstream.Indexer.Delete(o)
	}
	srv.Elector.SetLeader(0, "limiter-B")
	before := map[string]bool{}
	for _, n := range []string{cond(uA, live), cond(uA, gone), uA + ".state"} {
		before[n] = inAPI(n)
	}
	p := vkit.Safely(func() { srv.Handle.CleanupUnknownCondition() })
	logf("shard 0 regained (loaded from the API), cluster %q removed from the lister, shard 0 lost again (table only); cleanupUnknownCondition panic=%v", uA, p)
	r.Count("async_cleanup_unknown_passes_in_window", 1)
	for n, was := range before {
		if was && !inAPI(n) {
			r.Violation("C13/server/not-leader/cleanup-unknown/upstream-conditions-deleted-from-api", fmt.Sprintf("the slow cleanup of a server that no longer leads shard 0 deleted condition %q of upstream %q (shard 0, cluster gone from its lister) from the API", n, uA), wit())
			break
		}
	}
	srv.Handle.LeaderCheck()
	for _, s := range srv.Handle.Shards() {
		srv.Handle.StopLeading(s)
	}
	r.Eval(1)
	r.Count("async_cleanup_scenarios", 1)
	r.Distinct(vkit.Hash64("cleanup-window", uA, uB, gone))
}
