package c13

import (
	"bytes"
	"context"
	"fmt"
	"net/http"
	"net/http/httptest"
	"strings"
	"sync"
	"sync/atomic"
	"time"

	metav1 "k8s.io/apimachinery/pkg/apis/meta/v1"
	"k8s.io/client-go/rest"

	"github.com/kubewharf/kubegateway/pkg/ratelimiter/clientsets"
	"github.com/kubewharf/kubegateway/pkg/ratelimiter/endpoints/dispather"
	"github.com/kubewharf/kubegateway/pkg/ratelimiter/endpoints/filters"
	limitutil "github.com/kubewharf/kubegateway/pkg/ratelimiter/util"

	"verifharness/bed"
	"verifharness/vkit"
)

// arrivals records, per limiter server, how often each (method, path) of the condition API arrived.
type arrivals struct {
	mu sync.Mutex
	n  []map[string]int
}

func (a *arrivals) wrap(i int, h http.Handler) http.Handler {
	return http.HandlerFunc(func(w http.ResponseWriter, q *http.Request) {
		if strings.Contains(q.URL.Path, "/ratelimitconditions/") {
			a.mu.Lock()
			a.n[i][q.Method+" "+q.URL.Path]++
			a.mu.Unlock()
		}
		h.ServeHTTP(w, q)
	})
}

func (a *arrivals) snapshot(key string) []int {
	a.mu.Lock()
	defer a.mu.Unlock()
	out := make([]int, len(a.n))
	for i := range a.n {
		out[i] = a.n[i][key]
	}
	return out
}

type gwBed struct {
	r        *vkit.R
	N, K     int
	urls     []string
	srvs     []*bed.LimiterServer
	https    []*httptest.Server
	handlers []*atomic.Value // the deployment currently answering at each URL (swapped by a re-deployment)
	arr      *arrivals
	table    []int // shard -> server index
	cs       clientsets.ClientSets
	infoGets map[string]int // User-Agent of a gateway -> server-info requests that have arrived
}

// deploy (re-)deploys the limiter fleet behind the same URLs with shard count N and a fresh random leader table: new real
// rateLimiter per URL, all upstreams in its lister, the table scripted into every elector, then the handlers are swapped.
func (b *gwBed) deploy(g *vkit.Rand, N int, names []string) {
	srvs := make([]*bed.LimiterServer, b.K)
	table := make([]int, N)
	for s := range table {
		table[s] = g.Intn(b.K)
	}
	for i := 0; i < b.K; i++ {
		srvs[i] = bed.NewLimiterServer(bed.LimiterOptions{Identity: b.urls[i], Shards: N, Store: "local"})
		for _, n := range names {
			_ = srvs[i].ApplyUpstream(buildUpstream(n, 1000000))
		}
		for s, l := range table {
			if l != i {
				srvs[i].Elector.SetLeader(s, b.urls[l])
			}
		}
	}
	for s, l := range table {
		srvs[l].Elector.Gain(s)
	}
	for i := 0; i < b.K; i++ {
		d := dispather.NewLimiterDispatcher(http.NotFoundHandler(), srvs[i].Limiter)
		b.handlers[i].Store(b.arr.wrap(i, filters.WithExtraRequestInfo(http.HandlerFunc(d.Dispatch))))
	}
	b.srvs, b.table, b.N = srvs, table, N
}

func (b *gwBed) close() {
	for _, s := range b.https {
		s.Close()
	}
}

func genHTTPName(g *vkit.Rand) string {
	const al = "abcdefghijklmnopqrstuvwxyzABCDEFGHIJKLMNOPQRSTUVWXYZ0123456789-_."
	for {
		n := g.Range(1, 40)
		b := make([]byte, n)
		for i := range b {
			b[i] = al[g.Intn(len(al))]
		}
		s := string(b)
		if s != "." && s != ".." {
			return s
		}
	}
}

// call issues one allocate or acquire exactly as the gateway does (ClientFor(upstream), then the generated client) and
// returns the servers at which the request arrived.
func (b *gwBed) call(op, upstream string, seq int64) (arrived []int, err error, resolveErr error) {
	client, cerr := b.cs.ClientFor(upstream)
	if cerr != nil {
		return nil, nil, cerr
	}
	inst := b.cs.ClientID()
	var key string
	ctx, cancel := context.WithTimeout(context.Background(), 10*time.Second)
	defer cancel()
	switch op {
	case "allocate":
		cond := newCondition(upstream, inst, 3)
		key = "PUT /apis/proxy.kubegateway.io/v1alpha1/ratelimitconditions/" + cond.Name + "/status"
		before := b.arr.snapshot(key)
		_, err = client.ProxyV1alpha1().RateLimitConditions().UpdateStatus(ctx, cond, metav1.UpdateOptions{})
		after := b.arr.snapshot(key)
		for i := range after {
			if after[i] > before[i] {
				arrived = append(arrived, i)
			}
		}
	case "acquire":
		key = "POST /apis/proxy.kubegateway.io/v1alpha1/ratelimitconditions/" + upstream + "/acquire"
		before := b.arr.snapshot(key)
		_, err = client.ProxyV1alpha1().RateLimitConditions().Acquire(ctx, upstream, newAcquire(upstream, inst, seq, 1), metav1.CreateOptions{})
		after := b.arr.snapshot(key)
		for i := range after {
			if after[i] > before[i] {
				arrived = append(arrived, i)
			}
		}
	}
	return
}

func gatewaySide(r *vkit.R, g *vkit.Rand) {
	b := &gwBed{r: r, K: 3, infoGets: map[string]int{}}
	b.arr = &arrivals{}
	defer b.close()
	for i := 0; i < b.K; i++ {
		ts := httptest.NewUnstartedServer(nil)
		hv := &atomic.Value{}
		b.arr.n = append(b.arr.n, map[string]int{})
		ts.Config.Handler = http.HandlerFunc(func(w http.ResponseWriter, q *http.Request) {
			if q.URL.Path == clientsets.ServerInfoUrl { // a sync of the gateway with this User-Agent has started
				b.arr.mu.Lock()
				b.infoGets[q.UserAgent()]++
				b.arr.mu.Unlock()
			}
			if h, ok := hv.Load().(http.Handler); ok {
				h.ServeHTTP(w, q)
				return
			}
			http.Error(w, "not deployed", http.StatusServiceUnavailable)
		})
		b.urls, b.https, b.handlers = append(b.urls, "http://"+ts.Listener.Addr().String()), append(b.https, ts), append(b.handlers, hv)
	}
	// upstream names: enough per shard
	nNames := r.N(60, 400)
	var names []string
	seen := map[string]bool{}
	for len(names) < nNames {
		n := genHTTPName(g)
		if !seen[n] {
			seen[n] = true
			names = append(names, n)
		}
	}
	// names as they occur for real upstreams and at the edge of what a path segment may be: upper case, host:port, an IPv6
	// literal with port, 253 characters, non-ASCII, a single character, dots and dashes only
	odd := map[string]bool{}
	for _, n := range []string{"Cluster-A.Example.COM", "cluster-a.example.com", "cluster-a.example.com:6443", "[2001:db8::1]:6443", strings.Repeat("a", 253), "集群-1.example.com", "x", "a:b:c", "-.-", "UPPER_lower.1"} {
		if !seen[n] {
			seen[n], odd[n] = true, true
			names = append(names, n)
		}
	}
	// the election's table: every shard led by one of the servers; all servers publish the same table
	b.deploy(g, g.Range(3, 5), names)
	for _, ts := range b.https {
		ts.Start()
	}

	ctx, cancel := context.WithCancel(context.Background())
	defer cancel()
	// two gateways (two instances of the real client sets, each with its own instance id) against the same fleet
	gws := []clientsets.ClientSets{
		clientsets.NewClientSetsWithRestConfig(ctx, strings.Join(b.urls, ","), "verif", &rest.Config{Host: b.urls[0], QPS: 10000, Burst: 10000, UserAgent: "verif-gateway-1"}),
		clientsets.NewClientSetsWithRestConfig(ctx, strings.Join(b.urls, ","), "verif-second", &rest.Config{Host: b.urls[1], QPS: 10000, Burst: 10000, UserAgent: "verif-gateway-2"}),
	}
	b.cs = gws[0]
	r.Set("gw_gateways", len(gws))
	uas := []string{"verif-gateway-1", "verif-gateway-2"}
	// syncedSince waits until EVERY gateway has certainly completed a sync that started after the call: a gateway syncs
	// sequentially, so when its second server-info request since then has arrived, the sync of the first one is over - and that
	// one was answered from the fleet's present state. Observed, not timed; it does not look at what is judged afterwards.
	// While waiting, during() is called (probe traffic with the tolerance of a transition).
	syncedSince := func(during func()) bool {
		b.arr.mu.Lock()
		c0 := map[string]int{}
		for _, ua := range uas {
			c0[ua] = b.infoGets[ua]
		}
		b.arr.mu.Unlock()
		return vkit.WaitFor(40*time.Second, func() bool {
			b.arr.mu.Lock()
			all := true
			for _, ua := range uas {
				if b.infoGets[ua] < c0[ua]+2 {
					all = false
				}
			}
			b.arr.mu.Unlock()
			if !all {
				if during != nil {
					during()
				}
				time.Sleep(50 * time.Millisecond)
			}
			return all
		})
	}
	ok := vkit.WaitFor(20*time.Second, func() bool {
		for _, gw := range gws {
			if _, err := gw.ShardIDFor("x"); err != nil {
				return false
			}
			for _, n := range names {
				if _, err := gw.ClientFor(n); err != nil {
					return false
				}
			}
		}
		return true
	})
	if !ok {
		r.Inconclusive("gateway side: the client sets did not sync the leader table within the watchdog")
		return
	}
	r.Set("gw_servers", b.K)
	var shardCounts []int
	shardCounts = append(shardCounts, b.N)
	var seq int64
	// round judges every name (all of them have been looked up before, under whatever shard counts were announced earlier)
	round := func(phase, label string) {
		defer func() { b.cs = gws[0] }()
		for gi, gw := range gws {
			b.cs = gw
			for ni, n := range names {
				if gi > 0 && ni%3 != 0 && !odd[n] {
					continue // the second gateway: every third name and all odd ones
				}
				if odd[n] {
					r.Count("gw_odd_names_judged", 1)
				}
				if gi > 0 {
					r.Count("gw_second_gateway_names_judged", 1)
				}
				ref := refShard(n, b.N)
				sid, err := b.cs.ShardIDFor(n)
				r.Eval(1)
				if err != nil || sid != ref {
					r.Violation("C13/gateway/shard-id-differs/"+phase, fmt.Sprintf("ClientSets.ShardIDFor(%q) = %d (err %v) while the limiter fleet announces %d shards (%s; shard counts announced so far %v), FNV-1a/32 mod N = %d", n, sid, err, b.N, label, shardCounts, ref),
						map[string]interface{}{"name": n, "N": b.N, "ShardIDFor": sid, "reference": ref, "phase": label, "shardCountsAnnounced": shardCounts})
				}
				want := b.table[ref]
				for _, op := range []string{"allocate", "acquire"} {
					seq++
					arrived, err, rerr := b.call(op, n, seq)
					if rerr != nil {
						r.Count("gw_client_unresolved", 1)
						continue
					}
					r.Count("gw_requests_judged", 1)
					r.Distinct(vkit.Hash64("gw", label, n, op))
					if len(arrived) != 1 || arrived[0] != want {
						r.Violation("C13/gateway/request-at-wrong-server/"+phase+"/"+op, fmt.Sprintf("%s for upstream %q (shard %d of %d, %s): the leader table names server %d (%s), the request arrived at %v (call error: %v)",
							op, n, ref, b.N, label, want, b.urls[want], arrived, err),
							map[string]interface{}{"upstream": n, "shard": ref, "N": b.N, "table": b.table, "servers": b.urls, "arrivedAt": arrived, "phase": label, "shardCountsAnnounced": shardCounts})
						continue
					}
					if err != nil {
						// the addressed server is the one the table names; if it refuses, the two sides disagree on the shard
						if strings.Contains(err.Error(), "leader is") {
							r.Violation("C13/agreement/named-leader-refuses/"+op, fmt.Sprintf("%s for upstream %q (shard %d of %d by FNV-1a/32) was addressed to the server the table names (%s) and that server refused: %v", op, n, ref, b.N, b.urls[want], err),
								map[string]interface{}{"upstream": n, "shard": ref, "N": b.N, "error": err.Error()})
						} else {
							r.Count("gw_call_errors_other", 1)
						}
					} else {
						r.Count("gw_calls_served_by_leader", 1)
					}
				}
			}
		}
	}
	round("initial", "initial table")
	// How do names that are not valid UTF-8 reach a limiter server at all? Only inside a JSON body (acquire: metadata.name,
	// allocate: spec.upstreamCluster), and the decoder replaces invalid bytes by U+FFFD before the name gets to the
	// rateLimiter: observed here with raw requests to every server (answered = the handler did not panic; net/http would drop
	// the connection otherwise). The panic of a DIRECT Go call with such a name while leading (srv_leader_call_panicked, a
	// metrics label) is therefore not reachable from a request.
	for i, u := range b.urls {
		body := []byte("{\"kind\":\"RateLimitAcquire\",\"apiVersion\":\"proxy.kubegateway.io/v1alpha1\",\"metadata\":{\"name\":\"up-\xff\xfe-" + fmt.Sprint(i) + "\"},\"spec\":{\"instance\":\"gw-raw\",\"requestID\":1,\"requests\":[{\"flowControl\":\"fc-count\",\"tokens\":1}]}}")
		resp, err := http.Post(u+"/apis/proxy.kubegateway.io/v1alpha1/ratelimitconditions/x/acquire", "application/json", bytes.NewReader(body))
		if err != nil {
			r.Count("gw_raw_non_utf8_name_connection_dropped", 1)
			continue
		}
		resp.Body.Close()
		r.Count("gw_raw_non_utf8_name_requests_answered", 1)
	}

	moves := r.N(2, 5)
	for m := 0; m < moves; m++ {
		// move one shard that has upstreams to another server
		var s int
		var probe string
		for try := 0; try < 100 && probe == ""; try++ {
			s = g.Intn(b.N)
			for _, n := range names {
				if refShard(n, b.N) == s {
					probe = n
					break
				}
			}
		}
		if probe == "" {
			r.Inconclusive("gateway side: no upstream name falls into any shard picked for the move")
			return
		}
		from := b.table[s]
		to := (from + 1 + g.Intn(b.K-1)) % b.K
		b.srvs[from].Elector.Lose(s, b.urls[to])
		for j, srv := range b.srvs {
			if j != from && j != to {
				srv.Elector.SetLeader(s, b.urls[to])
			}
		}
		b.srvs[to].Elector.Gain(s)
		b.table[s] = to
		r.Count("gw_moves", 1)
		// until a gateway has fetched the new table it knows the old leader: both are acceptable, nothing else is. The strict
		// judgement (round) starts once every gateway has completed a sync after the move - whether or not its requests have
		// been seen at the new leader (a gateway that never follows the move is a violation, not a reason to wait longer).
		converged := syncedSince(func() {
			defer func() { b.cs = gws[0] }()
			for _, gw := range gws {
				b.cs = gw
				seq++
				arrived, err, rerr := b.call("allocate", probe, seq)
				if rerr != nil {
					continue
				}
				r.Count("gw_requests_during_move", 1)
				for _, a := range arrived {
					if a != from && a != to {
						r.Violation("C13/gateway/request-at-wrong-server/during-move", fmt.Sprintf("while shard %d moved from server %d to %d a request for upstream %q arrived at server %d", s, from, to, probe, a),
							map[string]interface{}{"upstream": probe, "shard": s, "from": from, "to": to, "arrivedAt": arrived})
					}
					if a == from && err != nil && strings.Contains(err.Error(), b.urls[to]) {
						r.Count("gw_old_leader_refusal_names_new_leader", 1)
					}
				}
			}
		})
		if !converged {
			r.Inconclusive("gateway side: the gateways did not sync twice within the watchdog after a leadership move")
			return
		}
		r.Count("gw_moves_converged", 1)
		round("after-leader-move", fmt.Sprintf("after move %d (shard %d: server %d -> %d)", m+1, s, from, to))
	}

	// the fleet is re-deployed with another shard count (grow, then shrink; thorough: more). Every name above was looked
	// up under the earlier count(s); once the gateway has synced the new server info the mapping must depend on the
	// name and the NEW N only.
	changes := r.N(4, 7)
	probeNo := 0
	fresh := func(want func(string) bool) string { // a name never looked up before
		for {
			probeNo++
			n := fmt.Sprintf("probe-%d", probeNo)
			if want(n) {
				return n
			}
		}
	}
	for c := 0; c < changes; c++ {
		oldN := b.N
		var newN int
		switch {
		case c == 0:
			newN = oldN + g.Range(1, 3)
		case c == 1:
			newN = g.Range(2, oldN-1)
		case c == 2:
			newN = 1 // a single shard: every name maps to shard 0
			r.Count("gw_shard_count_one", 1)
		case c == 3:
			newN = g.Range(2, 4)
		default:
			for newN = g.Range(2, 8); newN == oldN; newN = g.Range(2, 8) {
			}
		}
		b.deploy(g, newN, names)
		shardCounts = append(shardCounts, newN)
		r.Count("gw_shard_count_changes", 1)
		if newN > oldN {
			r.Count("gw_shard_count_grows", 1)
		} else {
			r.Count("gw_shard_count_shrinks", 1)
		}
		// Judged once every gateway has completed a sync that started after the re-deployment (all servers answer with the new
		// shard count and table by then). Until then requests may go by the old or the new table (not judged); a few are made
		// with never-seen names, to keep the transition window populated.
		converged := syncedSince(func() {
			defer func() { b.cs = gws[0] }()
			for _, gw := range gws {
				b.cs = gw
				n := fresh(func(x string) bool { return true })
				seq++
				_, _, _ = b.call("allocate", n, seq)
				r.Count("gw_requests_during_shard_count_change", 1)
			}
		})
		if !converged {
			r.Inconclusive(fmt.Sprintf("gateway side: the gateways did not sync twice within the watchdog after the shard count changed %d -> %d", oldN, newN))
			return
		}
		r.Count("gw_shard_count_changes_converged", 1)
		round("after-shard-count-change", fmt.Sprintf("after the fleet's shard count changed %d -> %d", oldN, newN))
	}
	r.Set("gw_shard_counts", shardCounts)
	_ = limitutil.GetShardID
}
