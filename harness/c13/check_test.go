// Package c13 checks C13 (sharding: one shard per upstream on both sides; only its leader serves it) by running the real
// util.GetShardID, the real gateway-side clientsets.ClientSets against real limiter servers behind the real HTTP
// dispatcher, the real rateLimiter under scripted leadership histories, and the real API-backed store.
package c13

import (
	"fmt"
	"sort"
	"strings"
	"sync"
	"testing"

	"verifharness/vkit"
)

// refShard is an independent FNV-1a/32 (written out, not hash/fnv) reduced modulo n.
func refShard(name string, n int) int {
	h := uint32(2166136261)
	for i := 0; i < len(name); i++ {
		h ^= uint32(name[i])
		h *= 16777619
	}
	return int(uint64(h) % uint64(n)) // in 64 bits: N may exceed 2^32
}

func TestCheck(t *testing.T) {
	vkit.Run(t, "C13", "exploration", func(r *vkit.R) {
		r.Rule("(1) util.GetShardID vs a written-out FNV-1a/32 on random byte strings (empty, NUL, UTF-8, up to 4 KiB, near-collisions) x N in [1,65536] (small N over-sampled): in range, repeatable, equal; " +
			"(2) gateway side: the real clientsets.NewClientSetsWithRestConfig against K real limiter servers (real rateLimiter + real HTTP dispatcher, scripted leader tables naming the servers' URLs): " +
			"ShardIDFor == (1) and every allocate (PUT .../status) / acquire (POST .../acquire) for random upstream names arrives at the server the table names for the shard; then one (thorough: several) leadership move(s), " +
			"requests may reach the old or the new leader until every gateway has completed a sync that started after the move (second server-info request since then has arrived), afterwards only the new one; then the fleet is re-deployed behind the same URLs with a larger and then a smaller shard count " +
			"(thorough: more): once every gateway has completed a sync after the re-deployment, every name looked up under the old N must map by FNV-1a/32 mod the NEW N and arrive at that shard's leader; " +
			"(2b) a second gateway against a fleet whose published leader table is sparse, as the real ServerInfo() builds it (only shards with an elector entry, sorted by ShardID; entries with an empty leader): at start-up, after a move with all shards led, " +
			"and during a fail-over gap; judged once two further server-info requests have arrived: a published shard's calls arrive exactly at its leader, a leaderless shard's calls fail, go nowhere or go to a server once published for that same shard; " +
			"(3) server side: random histories of gain / loss (callback and table-only + leaderCheck) per shard interleaved with UpdateRateLimitConditionStatus / DoAcquire / cluster add-update-delete / cleanupUnknownCondition " +
			"for random upstream names (arbitrary bytes): while not leader the call must fail naming the table's leader (handler: silently) and the contents of every shard store (conditions + per-instance counts) must be unchanged; " +
			"after a loss the shard has no store; after a regain nothing of the earlier epoch is visible; ServerInfo().ManagedShards == shards led; " +
			"(3b) one (thorough: three) fault scenario on the k8s store: API writes fail exactly while the shard is lost (final flush fails, ~20 s of retries), an interim leader rewrites/deletes conditions in the API, the shard is regained: no store after the loss, and afterwards only what the API holds is visible (no in-flight count, no condition absent from or different from the API); " +
			"(3c) one (thorough: three) scenario with the REAL elector (client-go leader election on leases of a fake kube clientset, 4 s lease / 0.6 s renew deadline) and the periodic leaderCheck: the server gains the shard and serves; " +
			"its lease updates start failing while the process stays alive; once the elector has delivered OnStoppedLeading (and cannot start a new term: its lease writes keep failing) 30 observations 100 ms apart: it must not name itself leader " +
			"(IsLeader/GetLeaders/ServerInfo), must refuse allocate and acquire, must hold no store (leaderCheck runs every second); then another identity takes the lease: refusals must name it, still no store; " +
			"(3d) two (thorough: four) real electors with 60 shards each (60 client-go elections side by side), all leases overwritten with another holder at once; per shard, after OnStoppedLeading and three further lease polls of that election: " +
			"leader table, refusals and ServerInfo().Endpoints must name the lease holder, in whichever order client-go delivered OnNewLeader and OnStoppedLeading (both orders are counted); " +
			"(3e) leadership changes (callback and table+leaderCheck) from one goroutine while six others call allocate / acquire / the cluster handler: calls that saw the same stable per-shard state word before and after are judged " +
			"(inside a gap: refused, naming the leader), overlapping ones are counted; at quiescence a shard that is not led has no store; " +
			"(3f) k8s store, cleanups in the window between a table-only loss and leaderCheck: the asynchronous timeout pass (awaited through the log sink) and the slow pass with a cluster gone from the lister must not delete the lost shard's conditions from the API; " +
			"(4) k8s store over the generated fake clientset: Save of a foreign-shard condition refused (nothing written to the API or kept locally), Load keeps only own-shard conditions. " +
			"Non-trivial = names/histories that exercise a refusal or a leadership change; distinct = hash of the name+N resp. of the history trace.")
		r.Assume("between an election loss and the next leaderCheck the lost shard's store still exists; removing things from it (cleanup passes) is conforming (the statement demands the discard), writing into it is not")
		installPerturbingSink() // the log sink of this process (logs are discarded) doubles as a schedule point, see takeover.go
		var wg sync.WaitGroup
		wg.Add(1)
		gwRng := r.Rng.Fork("gateway")
		go func() { // part 2 needs wall time for sync rounds (2 s period); it runs next to the CPU-bound parts
			defer wg.Done()
			gatewaySide(r, gwRng)
		}()
		// one leadership loss whose final flush fails costs ~20 s of wall time in the real code (10 x 2 s retries): it runs
		// next to everything else (thorough: both loss paths plus one more)
		nFlush := r.N(1, 3)
		for k := 0; k < nFlush; k++ {
			wg.Add(1)
			fr := r.Rng.Fork(fmt.Sprintf("flushfail-%d", k))
			viaLeaderCheck := k%2 == 1
			go func() {
				defer wg.Done()
				flushFailScenario(r, fr, viaLeaderCheck)
			}()
		}
		// the REAL elector (client-go leases on a fake clientset) and the rateLimiter's real periodic loops; ~9 s of wall time
		nReal := r.N(1, 3)
		for k := 0; k < nReal; k++ {
			wg.Add(1)
			rr := r.Rng.Fork(fmt.Sprintf("real-elector-%d", k))
			go func() {
				defer wg.Done()
				realElectorScenario(r, rr)
			}()
		}
		// many real elections side by side, all leases taken over at once (both client-go callback orders occur)
		nTk := r.N(3, 5)
		for k := 0; k < nTk; k++ {
			wg.Add(1)
			tr := r.Rng.Fork(fmt.Sprintf("real-takeover-%d", k))
			go func() {
				defer wg.Done()
				realTakeoverScenario(r, tr, 60)
			}()
		}
		nWin := r.N(3, 20)
		winRng := r.Rng.Fork("cleanup-window")
		wg.Add(1)
		go func() { // part 3f: the periodic cleanups between an election loss and the discard of the store (k8s store)
			defer wg.Done()
			for k := 0; k < nWin; k++ { // one after the other: they share the log sink's watch
				cleanupInTheWindow(r, winRng.Fork(fmt.Sprint(k)))
			}
		}()
		wg.Add(1)
		ccRng := r.Rng.Fork("concurrent-server")
		go func() { // part 3e: leadership changes concurrent with calls
			defer wg.Done()
			concurrentServerSide(r, ccRng)
		}()
		wg.Add(1)
		spRng := r.Rng.Fork("sparse")
		go func() { // part 2b: sparse leader tables (needs ~3 x 2 sync rounds of wall time)
			defer wg.Done()
			sparseTables(r, spRng)
		}()
		shardFn(r)
		serverSide(r)
		k8sStore(r)
		wg.Wait()
		// Which of client-go's two callback orders a takeover shows depends on scheduling. If none of the elections above showed
		// "new leader reported before the end of the term", more takeovers are run (a fixed maximum), so that a HELD run has
		// always exercised that order; only if it still never occurred is the run inconclusive.
		for extra := 0; extra < 6 && r.Counter("real_takeover_newleader_before_stop") == 0 && r.Violations() == 0; extra++ {
			var wg2 sync.WaitGroup
			for k := 0; k < 4; k++ {
				wg2.Add(1)
				tr := r.Rng.Fork(fmt.Sprintf("real-takeover-extra-%d-%d", extra, k))
				go func() {
					defer wg2.Done()
					realTakeoverScenario(r, tr, 60)
				}()
			}
			wg2.Wait()
			r.Count("real_takeover_extra_rounds", 1)
		}
		r.Require(r.Counter("shardfn_cases") >= 100000 && r.Counter("shardfn_cases_N_beyond_31_bits") >= 1000, "too few shard-function cases")
		r.Require(r.Counter("gw_requests_judged") >= 100, "gateway side judged too few requests")
		r.Require(r.Counter("gw_moves_converged") >= 1, "gateway side saw no leadership move converge")
		r.Require(r.Counter("gw_odd_names_judged") >= 50 && r.Counter("gw_second_gateway_names_judged") >= 100 && r.Counter("gw_shard_count_one") >= 1, "gateway side: odd names / second gateway / single-shard fleet were not exercised")
		r.Require(r.Counter("gw_shard_count_grows") >= 1 && r.Counter("gw_shard_count_shrinks") >= 1 && r.Counter("gw_shard_count_changes_converged") >= 2, "gateway side did not see the fleet's shard count grow and shrink")
		r.Require(r.Counter("gw_sparse_handover_of_known_shard") >= 1, "gateway side (sparse tables): no hand-over of a shard with a known leader")
		r.Require(r.Counter("gw_sparse_calls_for_unreachable_leader") >= 10, "gateway side: no call was made for a shard whose leader is unreachable")
		r.Require(r.Counter("gw_sparse_phases") >= 4 && r.Counter("gw_sparse_published_judged") >= 100 && r.Counter("gw_sparse_unpublished_judged") >= 10, "gateway side: sparse leader tables were not exercised")
		r.Require(r.Counter("real_elector_scenarios") >= 1 && r.Counter("real_elector_checks_term-ended") >= 20 && r.Counter("real_elector_checks_lease-held-by-other") >= 10, "the real-elector scenario did not complete")
		r.Require(r.Counter("real_takeover_scenarios") >= 1 && r.Counter("real_takeover_shards_judged") >= 60, "the real-elector takeover scenario did not complete")
		r.Require(r.Violations() > 0 || r.Counter("real_takeover_newleader_before_stop") >= 1, "no takeover showed client-go reporting the new leader before the end of the term (the order that matters was not exercised)")
		r.Require(r.Counter("conc_scenarios") >= 1 && r.Counter("conc_leadership_changes") >= 400 && r.Counter("conc_calls_judged_inside_a_gap") >= 200 && r.Counter("conc_calls_served_inside_a_term") >= 200 && r.Counter("conc_calls_overlapping_a_change") >= 1,
			"the concurrent server-side scenario judged too few calls / saw too few overlaps")
		r.Require(r.Counter("srv_regain_load_failed_store_dropped") >= 1 && r.Counter("srv_regain_after_load_failure") >= 1, "the regain-with-failing-Load path was not exercised")
		r.Require(r.Violations() > 0 || (r.Counter("async_cleanup_scenarios") >= 3 && r.Counter("async_cleanup_deleted_in_led_shard") >= 3), "the cleanup-in-the-window scenario (k8s store) did not complete / did not see the led shard cleaned")
		r.Require(r.Counter("srv_flushfail_scenarios") >= 1 && r.Counter("srv_flushfail_conditions_compared_with_api") >= 1, "the flush-failure scenario (k8s store) did not complete")
		r.Require(r.Counter("srv_refusals_judged") >= 1000, "server side judged too few not-leader calls")
		r.Require(r.Counter("srv_served_allocate") >= 300 && r.Counter("srv_served_acquire_accepted") >= 300, "server side served too few calls while leading")
		r.Require(r.Counter("srv_regain_after_dirty_epoch") >= 50, "too few regains after an epoch with state")
		r.Require(r.Counter("k8s_foreign_save_judged") >= 100 && r.Counter("k8s_own_loaded") >= 100, "k8s store part observed too little")
	})
}

// ---------- (1) the shard function ----------

func genName(g *vkit.Rand) string {
	switch g.Intn(12) {
	case 0:
		return ""
	case 1:
		return string(g.Bytes(g.Range(1, 4)))
	case 2:
		return string(g.Bytes(4096))
	case 3:
		return strings.Repeat("\x00", g.Range(1, 9))
	case 4:
		return "集群-" + fmt.Sprint(g.Intn(1000))
	case 5: // near-collisions: same length, one byte differs
		b := []byte("cluster-aaaaaaaa.example.com")
		b[g.Intn(len(b))] = byte(g.Intn(256))
		return string(b)
	case 6:
		return strings.Repeat("a", g.Range(1, 300))
	}
	const al = "abcdefghijklmnopqrstuvwxyz0123456789-."
	n := g.Range(1, 40)
	b := make([]byte, n)
	for i := range b {
		b[i] = al[g.Intn(len(al))]
	}
	return string(b)
}

func genN(g *vkit.Rand) int {
	if g.Chance(0.03) { // "every shard count N >= 1": also counts that do not fit 32 bits (an int flag on a 64-bit machine)
		return []int{1 << 31, 1<<32 - 1, 1 << 32, 1<<32 + 5, 1 << 40, 1<<63 - 1}[g.Intn(6)]
	}
	switch g.Intn(4) {
	case 0:
		return g.Range(1, 8)
	case 1:
		return g.PickInt([]int{1, 2, 3, 16, 255, 256, 257, 1000, 65535, 65536})
	}
	return g.Range(1, 65536)
}

func shardFn(r *vkit.R) {
	n := r.N(200000, 20000000)
	r.Parallel(64, 16, func(w int, g *vkit.Rand) {
		var hs []uint64
		per := n / 64
		for i := 0; i < per; i++ {
			name, N := genName(g), genN(g)
			var a, b int
			p := vkit.Safely(func() { a = shardOf(name, N); b = shardOf(name, N) })
			ref := refShard(name, N)
			if len(hs) < 2000 {
				hs = append(hs, vkit.Hash64(name, fmt.Sprint(N)))
			}
			wit := map[string]interface{}{"name": fmt.Sprintf("%q", trunc(name)), "nameLen": len(name), "N": N, "GetShardID": a, "again": b, "fnv1a32modN": ref}
			if N >= 1<<31 {
				r.Count("shardfn_cases_N_beyond_31_bits", 1)
			}
			switch {
			case p != nil:
				r.Violation("C13/shard-fn/panic", fmt.Sprintf("GetShardID(%q, %d) panicked: %v", trunc(name), N, p), wit)
			case a < 0 || a >= N:
				r.Violation("C13/shard-fn/out-of-range", fmt.Sprintf("GetShardID(%q, %d) = %d, outside [0,%d)", trunc(name), N, a, N), wit)
			case a != b:
				r.Violation("C13/shard-fn/not-repeatable", fmt.Sprintf("GetShardID(%q, %d) = %d, then %d", trunc(name), N, a, b), wit)
			case a != ref:
				r.Violation("C13/shard-fn/differs-from-fnv1a32", fmt.Sprintf("GetShardID(%q, %d) = %d, FNV-1a/32 mod N = %d", trunc(name), N, a, ref), wit)
			}
		}
		r.Eval(per)
		r.Count("shardfn_cases", per)
		r.DistinctBatch(hs)
	})
	r.Sample(map[string]interface{}{"kind": "shard-fn", "name": "cluster-a.example.com", "N": 7, "GetShardID": shardOf("cluster-a.example.com", 7), "reference": refShard("cluster-a.example.com", 7)})
}

func trunc(s string) string {
	if len(s) > 60 {
		return s[:60] + "..."
	}
	return s
}

func sortedInts(m map[int]bool) []int {
	var out []int
	for k, v := range m {
		if v {
			out = append(out, k)
		}
	}
	sort.Ints(out)
	return out
}
