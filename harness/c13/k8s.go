package c13

import (
	"context"
	"fmt"
	"time"

	apierrors "k8s.io/apimachinery/pkg/api/errors"
	metav1 "k8s.io/apimachinery/pkg/apis/meta/v1"
	"k8s.io/apimachinery/pkg/labels"

	gatewayfake "github.com/kubewharf/kubegateway/pkg/client/kubernetes/fake"
	"github.com/kubewharf/kubegateway/pkg/ratelimiter/store/k8s"

	"verifharness/vkit"
)

// (4) the API-backed store of one shard never takes or writes a condition of another shard.
func k8sStore(r *vkit.R) {
	n := r.N(1000, 10000)
	r.Parallel(n, 16, func(i int, g *vkit.Rand) {
		N := g.PickInt([]int{2, 2, 3, 4, 5, 8, 16})
		shard := g.Intn(N)
		cs := gatewayfake.NewSimpleClientset()
		api := cs.ProxyV1alpha1().RateLimitConditions()
		ctx := context.Background()
		// conditions already in the API, of all shards
		seeded := map[string]int{} // name -> shard
		ownSeeded := 0
		for k, m := 0, g.Range(4, 16); k < m; k++ {
			u := genName(g)
			if len(u) > 64 {
				u = u[:64]
			}
			c := newCondition(u, fmt.Sprintf("gw-%d", g.Intn(3)), 1)
			if _, dup := seeded[c.Name]; dup {
				continue
			}
			if _, err := api.Create(ctx, c, metav1.CreateOptions{}); err != nil {
				continue
			}
			seeded[c.Name] = refShard(u, N)
			if seeded[c.Name] == shard {
				ownSeeded++
			}
		}
		period := time.Duration(0) // write-through
		if g.Chance(0.3) {
			period = time.Hour // write-behind: Save only touches the local copy, Flush/Stop write to the API
		}
		st := k8s.NewK8sCacheStore(cs, period, shard, N)
		defer func() { _ = st.Stop() }()
		if err := st.Load(); err != nil {
			r.Inconclusive("k8s store Load failed on the fake clientset: " + err.Error())
			return
		}
		r.Eval(1)
		loadedOwn := 0
		for _, c := range st.List(labels.Everything()) {
			if s := refShard(c.Spec.UpstreamCluster, N); s != shard {
				r.Violation("C13/k8s-store/load-took-foreign-shard", fmt.Sprintf("store of shard %d/%d loaded condition %q of upstream %q, which belongs to shard %d", shard, N, c.Name, c.Spec.UpstreamCluster, s),
					map[string]interface{}{"shard": shard, "N": N, "condition": c.Name, "upstream": c.Spec.UpstreamCluster, "belongsTo": s})
			} else {
				loadedOwn++
			}
		}
		r.Count("k8s_own_loaded", loadedOwn)
		r.Count("k8s_own_seeded", ownSeeded)
		r.Count("k8s_foreign_seeded", len(seeded)-ownSeeded)
		// saves of new conditions, own and foreign
		for k := 0; k < 6; k++ {
			u := genName(g)
			if len(u) > 64 {
				u = u[:64]
			}
			c := newCondition(u, "gw-new", 2)
			if _, dup := seeded[c.Name]; dup {
				continue
			}
			s := refShard(u, N)
			err := st.Save(u, c)
			if s == shard {
				if err == nil {
					r.Count("k8s_own_save_accepted", 1)
				} else {
					r.Count("k8s_own_save_failed", 1)
				}
				continue
			}
			r.Count("k8s_foreign_save_judged", 1)
			r.Distinct(vkit.Hash64("k8s", u, fmt.Sprint(N), fmt.Sprint(shard)))
			_ = st.Flush()
			_, lerr := st.Get(u, c.Name)
			_, aerr := api.Get(ctx, c.Name, metav1.GetOptions{})
			wit := map[string]interface{}{"shard": shard, "N": N, "upstream": u, "belongsTo": s, "syncPeriod": period.String(), "saveError": fmt.Sprint(err)}
			switch {
			case err == nil:
				r.Violation("C13/k8s-store/foreign-shard-save-accepted", fmt.Sprintf("store of shard %d/%d accepted Save of condition %q of upstream %q (shard %d)", shard, N, c.Name, u, s), wit)
			case lerr == nil:
				r.Violation("C13/k8s-store/foreign-shard-save-refused-but-kept-locally", fmt.Sprintf("store of shard %d/%d refused Save of %q (shard %d) but holds it locally", shard, N, c.Name, s), wit)
			case aerr == nil || !apierrors.IsNotFound(aerr):
				r.Violation("C13/k8s-store/foreign-shard-save-refused-but-written-to-api", fmt.Sprintf("store of shard %d/%d refused Save of %q (shard %d) but the API has it (get: %v)", shard, N, c.Name, s, aerr), wit)
			}
		}
	})
}
