package c13

import (
	"context"
	"encoding/json"
	"errors"
	"fmt"
	"strings"
	"sync/atomic"

	apierrors "k8s.io/apimachinery/pkg/api/errors"
	metav1 "k8s.io/apimachinery/pkg/apis/meta/v1"
	"k8s.io/apimachinery/pkg/runtime"
	clienttesting "k8s.io/client-go/testing"

	proxyv1alpha1 "github.com/kubewharf/kubegateway/pkg/apis/proxy/v1alpha1"
	gatewayfake "github.com/kubewharf/kubegateway/pkg/client/kubernetes/fake"

	"verifharness/bed"
	"verifharness/vkit"
)

// flushFailScenario: API-backed (k8s) store; the control plane refuses writes exactly while the shard is lost, so the
// final flush of the shard store fails (the real code retries Stop() 10 x 2 s: the loss call blocks ~20 s on every tree,
// which is why one scenario runs next to the other parts). After the loss call has returned the shard must have no store;
// after the regain the store may show only what the API holds (what was persisted is re-loaded - conforming), nothing that
// exists only in the previous term's memory: no condition absent from the API, no condition that differs from the API's
// copy (an interim leader rewrote one and deleted one in between), and no per-instance in-flight count.
func flushFailScenario(r *vkit.R, g *vkit.Rand, viaLeaderCheck bool) {
	how := "callback"
	if viaLeaderCheck {
		how = "leaderCheck"
	}
	var down, readsDown int32
	cs := gatewayfake.NewSimpleClientset()
	cs.PrependReactor("*", "ratelimitconditions", func(a clienttesting.Action) (bool, runtime.Object, error) {
		if atomic.LoadInt32(&down) == 1 {
			switch a.GetVerb() {
			case "create", "update", "patch", "delete":
				return true, nil, errors.New("injected fault: control plane unreachable for writes")
			}
		}
		if atomic.LoadInt32(&readsDown) == 1 && a.GetVerb() == "list" {
			return true, nil, errors.New("injected fault: control plane unreachable for reads")
		}
		return false, nil, nil
	})
	N := g.PickInt([]int{1, 2, 3})
	srv := bed.NewLimiterServer(bed.LimiterOptions{Identity: me, Shards: N, Store: "k8s", GatewayClient: cs})
	// upstreams of one shard
	shard := g.Intn(N)
	var ups []string
	for k := 0; len(ups) < 3; k++ {
		u := fmt.Sprintf("flush-%d-%d.example.com", g.Intn(1000), k)
		if refShard(u, N) == shard {
			ups = append(ups, u)
		}
	}
	var trace []string
	logf := func(f string, a ...interface{}) { trace = append(trace, fmt.Sprintf(f, a...)) }
	wit := func(extra map[string]interface{}) map[string]interface{} {
		w := map[string]interface{}{"shards": N, "shard": shard, "upstreams": ups, "trace": trace,
			"how": "bed.NewLimiterServer(Store k8s, fake gateway clientset with a reactor failing create/update/patch/delete of ratelimitconditions while 'down'), bed.ScriptedElector; loss via " + how}
		for k, v := range extra {
			w[k] = v
		}
		return w
	}
	for _, u := range ups {
		_ = srv.Upstream.Indexer.Add(buildUpstream(u, 100))
	}
	srv.Elector.Gain(shard)
	insts := []string{"gw-1", "gw-2"}
	var reqID int64
	served := 0
	for _, inst := range insts {
		_ = srv.Limiter.Heartbeat(inst)
	}
	for _, u := range ups {
		for _, inst := range insts {
			if _, err := srv.Limiter.UpdateRateLimitConditionStatus(u, newCondition(u, inst, 5)); err == nil {
				served++
			}
			reqID++
			if res, err := srv.Limiter.DoAcquire(u, newAcquire(u, inst, reqID, int32(g.Range(2, 9)))); err == nil && len(res.Status.Results) == 1 && res.Status.Results[0].Accept {
				served++
			}
		}
	}
	logf("lead shard %d, allocate + acquire for %v x %v: %d calls served", shard, ups, insts, served)
	h := &srvHist{r: r, g: g, srv: srv, N: N, ups: ups}
	before, ok := h.view(shard)
	dirty := false
	if ok {
		for _, c := range before.Conditions {
			if c.Instance != "" {
				dirty = true
			}
		}
	}
	if !ok || !dirty || served < 2*len(ups)*len(insts) {
		r.Inconclusive("flush-failure scenario: could not build a leadership term with conditions and counts on the k8s store")
		return
	}
	api := cs.ProxyV1alpha1().RateLimitConditions()
	ctx := context.Background()

	// the control plane goes down for writes, then the shard is lost
	atomic.StoreInt32(&down, 1)
	logf("control plane refuses writes")
	p := vkit.Safely(func() {
		if viaLeaderCheck {
			srv.Elector.SetLeader(shard, "limiter-B")
			srv.Handle.LeaderCheck()
		} else {
			srv.Elector.Lose(shard, "limiter-B")
		}
	})
	logf("shard %d lost to limiter-B (%s) panic=%v", shard, how, p)
	r.Count("srv_flushfail_losses", 1)
	if srv.Handle.Store(shard) != nil {
		r.Violation("C13/server/loss/store-kept/flush-failed", fmt.Sprintf("after losing leadership of shard %d (%s) while the final flush of its k8s store failed, the server still holds the shard's store", shard, how), wit(nil))
	}
	// while not leader: refusal naming the leader
	if _, err := srv.Limiter.DoAcquire(ups[0], newAcquire(ups[0], "gw-1", reqID+1, 1)); err == nil || !strings.Contains(err.Error(), "limiter-B") {
		r.Violation("C13/server/not-leader/acquire/served", fmt.Sprintf("acquire after the loss of shard %d (flush failed) was not refused with the leader's name: err=%v", shard, err), wit(nil))
	}

	// control plane back; the interim leader rewrites one condition and deletes another
	atomic.StoreInt32(&down, 0)
	rewritten := newCondition(ups[0], "gw-1", 5).Name
	deleted := newCondition(ups[0], "gw-2", 5).Name
	if c, err := api.Get(ctx, rewritten, metav1.GetOptions{}); err == nil {
		c = c.DeepCopy()
		c.Spec.LimitItemConfigurations = []proxyv1alpha1.RateLimitItemConfiguration{{Name: fcAlloc, Strategy: proxyv1alpha1.GlobalAllocateLimit,
			LimitItemDetail: proxyv1alpha1.LimitItemDetail{MaxRequestsInflight: &proxyv1alpha1.MaxRequestsInflightFlowControlSchema{Max: 777}}}}
		if _, err := api.Update(ctx, c, metav1.UpdateOptions{}); err != nil {
			r.Inconclusive("flush-failure scenario: interim leader's update failed on the fake clientset")
			return
		}
	} else {
		r.Count("srv_flushfail_condition_was_not_persisted", 1)
	}
	_ = api.Delete(ctx, deleted, metav1.DeleteOptions{})
	logf("control plane back; interim leader persisted max=777 for %q and deleted %q", rewritten, deleted)

	p = vkit.Safely(func() {
		if viaLeaderCheck {
			srv.Elector.SetLeader(shard, me)
			srv.Handle.LeaderCheck()
		} else {
			srv.Elector.Gain(shard)
		}
	})
	logf("shard %d regained (%s) panic=%v", shard, how, p)
	r.Count("srv_flushfail_regains", 1)
	judgeRegain := func(how string) {
		after, ok := h.view(shard)
		if !ok {
			r.Count("srv_gain_without_store", 1)
		}
		specOf := func(c *proxyv1alpha1.RateLimitCondition) string {
			b, _ := json.Marshal(map[string]interface{}{"spec": c.Spec, "status": c.Status})
			return string(b)
		}
		st := srv.Handle.Store(shard)
		for _, c := range after.Conditions {
			if c.Instance == "" {
				continue
			}
			r.Count("srv_flushfail_conditions_compared_with_api", 1)
			inAPI, err := api.Get(ctx, c.Name, metav1.GetOptions{})
			switch {
			case apierrors.IsNotFound(err):
				r.Violation("C13/server/regain/earlier-conditions-visible/k8s-store-absent-from-api", fmt.Sprintf("after regaining shard %d (%s; the flush at the loss had failed) the store serves condition %q of instance %q, which is not in the API: it can only come from the previous leadership term's memory", shard, how, c.Name, c.Instance),
					wit(map[string]interface{}{"store": after.String()}))
			case err == nil && st != nil:
				if mem, gerr := st.Get(inAPI.Spec.UpstreamCluster, c.Name); gerr == nil && specOf(mem) != specOf(inAPI) {
					r.Violation("C13/server/regain/earlier-conditions-visible/k8s-store-differs-from-api", fmt.Sprintf("after regaining shard %d (%s; the flush at the loss had failed) condition %q is served as %s while the API (what a new term loads) holds %s", shard, how, c.Name, specOf(mem), specOf(inAPI)),
						wit(map[string]interface{}{"store": after.String()}))
				}
			}
		}
		for _, c := range after.Counts {
			if !strings.Contains(c, " count=0 ") || !strings.HasSuffix(c, " details=") {
				r.Violation("C13/server/regain/earlier-counts-visible/k8s-store", fmt.Sprintf("after regaining shard %d (%s; the flush at the loss had failed) in-flight counts of the previous leadership term are still there: %s", shard, how, c), wit(map[string]interface{}{"store": after.String()}))
				break
			}
		}
	}
	judgeRegain(how)

	// second cycle - the regain itself hits an error path: an ordinary loss (the flush succeeds), then the shard comes back
	// while the API cannot be READ: startLeading's Load fails and the half-built store is dropped; once the API is readable
	// the periodic leaderCheck builds the store. Whatever is visible then must again be what the API holds, and no count of
	// the second term may be left.
	for _, u := range ups {
		reqID++
		_, _ = srv.Limiter.DoAcquire(u, newAcquire(u, "gw-1", reqID, 3))
		_, _ = srv.Limiter.UpdateRateLimitConditionStatus(u, newCondition(u, "gw-1", 6))
	}
	srv.Elector.Lose(shard, "limiter-B")
	if srv.Handle.Store(shard) != nil {
		r.Violation("C13/server/loss/store-kept/callback", fmt.Sprintf("after losing leadership of shard %d (second term, flush succeeded) the server still holds the shard's store", shard), wit(nil))
	}
	atomic.StoreInt32(&readsDown, 1)
	p = vkit.Safely(func() { srv.Elector.Gain(shard) })
	logf("shard %d regained while the API cannot be read panic=%v store present=%v", shard, p, srv.Handle.Store(shard) != nil)
	if srv.Handle.Store(shard) == nil {
		r.Count("srv_regain_load_failed_store_dropped", 1)
	}
	atomic.StoreInt32(&readsDown, 0)
	p = vkit.Safely(func() { srv.Handle.LeaderCheck() })
	logf("API readable again, leaderCheck panic=%v store present=%v", p, srv.Handle.Store(shard) != nil)
	if srv.Handle.Store(shard) != nil {
		r.Count("srv_regain_after_load_failure", 1)
	}
	judgeRegain("after a failed Load, by leaderCheck")
	r.Eval(1)
	r.Count("srv_flushfail_scenarios", 1)
	r.Distinct(vkit.Hash64("flushfail", how, fmt.Sprint(N), strings.Join(ups, ",")))
	// leave nothing running
	if srv.Handle.Store(shard) != nil {
		srv.Handle.StopLeading(shard)
	}
}
