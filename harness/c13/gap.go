package c13

import (
	"context"
	"fmt"
	"net/http"
	"net/http/httptest"
	"strings"
	"sync"
	"sync/atomic"
	"time"

	metav1 "k8s.io/apimachinery/pkg/apis/meta/v1"
	"k8s.io/client-go/rest"

	proxyv1alpha1 "github.com/kubewharf/kubegateway/pkg/apis/proxy/v1alpha1"
	gatewayfake "github.com/kubewharf/kubegateway/pkg/client/kubernetes/fake"
	"github.com/kubewharf/kubegateway/pkg/ratelimiter/clientsets"
	"github.com/kubewharf/kubegateway/pkg/ratelimiter/endpoints/dispather"
	"github.com/kubewharf/kubegateway/pkg/ratelimiter/endpoints/filters"
	"github.com/kubewharf/kubegateway/pkg/ratelimiter/limiter"
	"github.com/kubewharf/kubegateway/pkg/ratelimiter/limiter/elector"
	"github.com/kubewharf/kubegateway/pkg/ratelimiter/options"

	"verifharness/bed"
	"verifharness/vkit"
)

// gapElector is a scripted elector that can also publish what the real elector publishes while an election is open:
// no entry for a shard (nothing heard yet / own lease just dropped) or an entry whose Leader is empty (lease released).
type gapElector struct {
	mu       sync.RWMutex
	identity string
	entries  map[int]string // shard -> leader; a missing key = no entry, "" = entry with empty leader
	cb       elector.LeaderCallbacks
}

func (e *gapElector) Run(ctx context.Context) {}
func (e *gapElector) IsLeader(s int) bool {
	e.mu.RLock()
	defer e.mu.RUnlock()
	l, ok := e.entries[s]
	return ok && l == e.identity
}
func (e *gapElector) GetLeaders() map[int]proxyv1alpha1.EndpointInfo {
	e.mu.RLock()
	defer e.mu.RUnlock()
	out := map[int]proxyv1alpha1.EndpointInfo{}
	for s, l := range e.entries {
		out[s] = proxyv1alpha1.EndpointInfo{ShardID: int32(s), Leader: l, LastChange: metav1.Now()}
	}
	return out
}
func (e *gapElector) SetCallbacks(cb elector.LeaderCallbacks) { e.cb = cb }

// set scripts one shard's entry (leader nil = no entry) and fires the callbacks the real elector would fire.
func (e *gapElector) set(s int, leader *string) {
	was := e.IsLeader(s)
	e.mu.Lock()
	if leader == nil {
		delete(e.entries, s)
	} else {
		e.entries[s] = *leader
	}
	e.mu.Unlock()
	now := e.IsLeader(s)
	if was && !now && e.cb.OnStoppedLeading != nil {
		e.cb.OnStoppedLeading(s)
	}
	if !was && now && e.cb.OnStartedLeading != nil {
		e.cb.OnStartedLeading(s)
	}
}

type gapServer struct {
	lim limiter.RateLimiter
	h   *limiter.VerifHandle
	el  *gapElector
	up  *bed.StubUpstreamController
}

type gapBed struct {
	r     *vkit.R
	N, K  int
	urls  []string
	srvs  []*gapServer
	https []*httptest.Server
	arr   *arrivals
	infoN int     // number of server-info GETs that have arrived (at any server)
	down  []int32 // per server: 1 = answers 503 to everything
	// what the fleet publishes now: shard -> server index, -1 = no entry, -2 = entry with empty leader
	table []int
	ever  []map[int]bool // shard -> servers ever published as its leader (what a gateway may still remember)
	cs    clientsets.ClientSets
}

func (b *gapBed) infoGets() int {
	b.arr.mu.Lock()
	defer b.arr.mu.Unlock()
	return b.infoN
}

func (b *gapBed) publish(table []int) {
	for _, srv := range b.srvs {
		for s, l := range table {
			switch {
			case l == -1:
				srv.el.set(s, nil)
			case l == -2:
				empty := ""
				srv.el.set(s, &empty)
			default:
				u := b.urls[l]
				srv.el.set(s, &u)
			}
		}
	}
	b.table = append([]int(nil), table...)
	for s, l := range table {
		if l >= 0 {
			b.ever[s][l] = true
		}
	}
}

// waitSynced returns once a complete sync of the gateway has certainly used the tables as they are now: the gateway syncs
// sequentially, so when the second server-info GET issued after this call has ARRIVED, the sync of the first one (which saw
// the current tables) has finished. Observed, not timed; watchdog expiry = inconclusive.
func (b *gapBed) waitSynced() bool {
	c0 := b.infoGets()
	return vkit.WaitFor(30*time.Second, func() bool {
		if b.infoGets() >= c0+2 {
			return true
		}
		time.Sleep(20 * time.Millisecond)
		return false
	})
}

func tableString(t []int) string {
	var ps []string
	for s, l := range t {
		switch l {
		case -1:
			ps = append(ps, fmt.Sprintf("%d:<no entry>", s))
		case -2:
			ps = append(ps, fmt.Sprintf("%d:<empty leader>", s))
		default:
			ps = append(ps, fmt.Sprintf("%d:server%d", s, l))
		}
	}
	return strings.Join(ps, " ")
}

// sparseTables: leader tables with gaps, as the real server publishes them (ServerInfo().Endpoints holds only the shards
// the elector has an entry for, sorted by ShardID), at start-up, after a move and during a fail-over gap. For a shard with a
// published leader the calls must arrive at exactly that server; for a shard without one they may fail, go nowhere or go
// to a server that WAS published as leader of that same shard earlier (stale knowledge) - never anywhere else.
func sparseTables(r *vkit.R, g *vkit.Rand) {
	b := &gapBed{r: r, K: 4, N: r.N(5, 5) + g.Intn(3)}
	b.arr = &arrivals{}
	b.down = make([]int32, b.K)
	for s := 0; s < b.N; s++ {
		b.ever = append(b.ever, map[int]bool{})
	}
	defer func() {
		for _, ts := range b.https {
			ts.Close()
		}
	}()
	var names []string
	perShard := map[int]int{}
	// every shard gets at least 6 upstream names, so that whichever leader is made unreachable (and whichever shard is left
	// without a leader) has calls made for it in every run - not left to the draw
	enough := func() bool {
		for s := 0; s < b.N; s++ {
			if perShard[s] < 6 {
				return false
			}
		}
		return true
	}
	for k := 0; len(names) < r.N(40, 200) || !enough(); k++ {
		n := genHTTPName(g)
		names = append(names, n)
		perShard[refShard(n, b.N)]++
	}
	for i := 0; i < b.K; i++ {
		ts := httptest.NewUnstartedServer(nil)
		url := "http://" + ts.Listener.Addr().String()
		el := &gapElector{identity: url, entries: map[int]string{}}
		up := bed.NewStubUpstreamController()
		lim, h := limiter.VerifNewRateLimiter(gatewayfake.NewSimpleClientset(), options.RateLimitOptions{ShardingCount: b.N, LimitStore: "local", Identity: url}, el, up)
		for _, n := range names {
			_ = up.Indexer.Add(buildUpstream(n, 1000000))
		}
		d := dispather.NewLimiterDispatcher(http.NotFoundHandler(), lim)
		i := i
		real := filters.WithExtraRequestInfo(http.HandlerFunc(d.Dispatch))
		inner := b.arr.wrap(i, http.HandlerFunc(func(w http.ResponseWriter, q *http.Request) {
			if atomic.LoadInt32(&b.down[i]) == 1 { // the server is "down": it answers nothing useful (the arrival was recorded)
				http.Error(w, "service unavailable", http.StatusServiceUnavailable)
				return
			}
			real.ServeHTTP(w, q)
		}))
		b.arr.n = append(b.arr.n, map[string]int{})
		ts.Config.Handler = http.HandlerFunc(func(w http.ResponseWriter, q *http.Request) {
			if q.URL.Path == clientsets.ServerInfoUrl && atomic.LoadInt32(&b.down[i]) == 0 { // only server-info requests that get an answer lead to a sync
				b.arr.mu.Lock()
				b.infoN++
				b.arr.mu.Unlock()
			}
			inner.ServeHTTP(w, q)
		})
		b.urls, b.https = append(b.urls, url), append(b.https, ts)
		b.srvs = append(b.srvs, &gapServer{lim: lim, h: h, el: el, up: up})
	}
	// neighbouring shards always have different leaders, so that a table shifted by one position is visible
	off := g.Intn(b.K)
	full := make([]int, b.N)
	for s := range full {
		full[s] = (s + off) % b.K
	}
	var seq int64
	gw := &gwBed{r: r, arr: b.arr}
	judge := func(phase string) {
		for _, n := range names {
			ref := refShard(n, b.N)
			sid, err := b.cs.ShardIDFor(n)
			r.Eval(1)
			if err != nil || sid != ref {
				r.Violation("C13/gateway/shard-id-differs/sparse-leader-table", fmt.Sprintf("ClientSets.ShardIDFor(%q) = %d (err %v) with %d shards, FNV-1a/32 mod N = %d", n, sid, err, b.N, ref), map[string]interface{}{"name": n, "N": b.N})
				continue
			}
			for _, op := range []string{"allocate", "acquire"} {
				seq++
				arrived, cerr, rerr := gw.call(op, n, seq)
				wit := map[string]interface{}{"upstream": n, "shard": ref, "N": b.N, "published": tableString(b.table), "servers": b.urls, "arrivedAt": arrived, "phase": phase,
					"how": "real clientsets.ClientSets against 4 real limiter servers (real dispatcher + rateLimiter.ServerInfo) whose electors publish this table; judged after two further server-info GETs have arrived"}
				want := b.table[ref]
				if want >= 0 {
					r.Count("gw_sparse_published_judged", 1)
					r.Distinct(vkit.Hash64("sparse", phase, n, op))
					if atomic.LoadInt32(&b.down[want]) == 1 {
						r.Count("gw_sparse_calls_for_unreachable_leader", 1)
					}
					if rerr != nil || len(arrived) != 1 || arrived[0] != want {
						r.Violation("C13/gateway/sparse-leader-table/published-shard/request-at-wrong-server", fmt.Sprintf("%s for upstream %q (shard %d of %d, %s): the published table is [%s], so the leader is server %d; the request arrived at %v (resolve error: %v, call error: %v)",
							op, n, ref, b.N, phase, tableString(b.table), want, arrived, rerr, cerr), wit)
					}
					continue
				}
				r.Count("gw_sparse_unpublished_judged", 1)
				r.Distinct(vkit.Hash64("sparse", phase, n, op))
				if rerr != nil {
					r.Count("gw_sparse_unpublished_not_sent", 1)
					continue
				}
				for _, a := range arrived {
					if !b.ever[ref][a] {
						r.Violation("C13/gateway/sparse-leader-table/unpublished-shard/request-sent-to-another-shards-leader", fmt.Sprintf("%s for upstream %q (shard %d of %d, %s): the published table is [%s] - no leader for shard %d, and server %d was never published as its leader - yet the request arrived at server %d",
							op, n, ref, b.N, phase, tableString(b.table), ref, a, a), wit)
					}
				}
				if len(arrived) == 0 {
					r.Count("gw_sparse_unpublished_went_nowhere", 1)
				} else {
					r.Count("gw_sparse_unpublished_went_to_stale_leader", 1)
				}
			}
		}
	}

	// phase 1, start-up: some shard has no entry yet (one before published ones), another has an empty leader
	t1 := append([]int(nil), full...)
	t1[g.Intn(2)] = -1
	t1[2+g.Intn(b.N-2)] = []int{-1, -2}[g.Intn(2)]
	b.publish(t1)
	for _, ts := range b.https {
		ts.Start()
	}
	ctx, cancel := context.WithCancel(context.Background())
	defer cancel()
	b.cs = clientsets.NewClientSetsWithRestConfig(ctx, strings.Join(b.urls, ","), "verif-sparse", &rest.Config{Host: b.urls[0], QPS: 10000, Burst: 10000})
	gw.cs = b.cs
	phases := []struct {
		name string
		next func() []int
	}{
		{"start-up with leaderless shards", nil},
		{"all shards led, one moved", func() []int {
			t := append([]int(nil), full...)
			// the moved shard is one the gateway already knows a leader of (published in the phase before), so that the move
			// is a hand-over between two live servers in every run, not a first appearance
			var known []int
			for sh, l := range b.table {
				if l >= 0 {
					known = append(known, sh)
				}
			}
			m := known[g.Intn(len(known))]
			t[m] = (t[m] + 2) % b.K
			full = t
			r.Count("gw_sparse_handover_of_known_shard", 1)
			return t
		}},
		{"fail-over gap", func() []int {
			t := append([]int(nil), full...)
			t[g.Intn(b.N-1)] = -1 // a gap that has published shards after it
			if g.Bool() {
				t[b.N-1] = -2
			}
			return t
		}},
		// every shard led again, but one leader is unreachable (answers 503 to everything, server info included) while the table
		// still names it: its shards' calls must still be addressed to it (and fail) - a gateway must not fall back to a
		// server that leads another shard. Another, non-leading role is not needed: with K=4 and N>=5 every server leads.
		{"all shards led, one leader unreachable", func() []int {
			for i := range b.down {
				atomic.StoreInt32(&b.down[i], 0)
			}
			d := full[g.Intn(b.N)] // a server that leads at least one shard
			atomic.StoreInt32(&b.down[d], 1)
			r.Count("gw_sparse_leader_unreachable_phases", 1)
			return append([]int(nil), full...)
		}},
	}
	defer func() {
		for i := range b.down {
			atomic.StoreInt32(&b.down[i], 0)
		}
	}()
	rounds := r.N(1, 3)
	for round := 0; round < rounds; round++ {
		for pi, ph := range phases {
			if pi != len(phases)-1 {
				for i := range b.down {
					atomic.StoreInt32(&b.down[i], 0)
				}
			}
			if ph.next != nil {
				b.publish(ph.next())
			} else if round > 0 {
				continue
			}
			if !b.waitSynced() {
				r.Inconclusive("gateway side (sparse tables): the gateway did not sync twice within the watchdog")
				return
			}
			if _, err := b.cs.ShardIDFor("x"); err != nil {
				r.Inconclusive("gateway side (sparse tables): shard count not synced after two server-info requests")
				return
			}
			judge(fmt.Sprintf("%s (round %d, phase %d)", ph.name, round+1, pi+1))
			r.Count("gw_sparse_phases", 1)
		}
	}
	r.Set("gw_sparse_shards", b.N)
}
