package c13

import (
	"fmt"
	"strings"
	"sync"
	"sync/atomic"
	"time"

	proxyv1alpha1 "github.com/kubewharf/kubegateway/pkg/apis/proxy/v1alpha1"

	"verifharness/bed"
	"verifharness/vkit"
)

// concurrentServerSide: leadership changes WHILE allocate / acquire / cluster-update calls are running (the quantifier's
// "every history ... interleaved with" includes interleavings in time). Every shard has a state word
// epoch*4 + 2*(change in progress) + (this server leads); the goroutine that changes leadership sets the in-progress bit
// before it touches the elector and publishes the new stable word afterwards. A call reads the word before and after; only
// calls that saw the SAME stable word on both sides are judged (they ran entirely inside one term or one gap): inside a
// gap the call must be refused with an error naming the table's leader. Everything that overlapped a change is counted,
// not judged. At the end (quiescent) a shard that is not led must have no store.
func concurrentServerSide(r *vkit.R, g *vkit.Rand) {
	const N = 3
	srv := bed.NewLimiterServer(bed.LimiterOptions{Identity: me, Shards: N, Store: "local"})
	var ups []string
	perShard := map[int]int{}
	for k := 0; len(ups) < 9 || len(perShard) < N; k++ {
		u := fmt.Sprintf("conc-%d.example.com", k)
		ups = append(ups, u)
		perShard[refShard(u, N)]++
	}
	for _, u := range ups {
		_ = srv.ApplyUpstream(buildUpstream(u, 1000000))
	}
	var words [N]int64
	var leaderName [N]atomic.Value // the table's leader while this server does not lead
	for s := 0; s < N; s++ {
		srv.Elector.Gain(s)
		atomic.StoreInt64(&words[s], 1)
		leaderName[s].Store("")
	}
	flips := r.N(400, 4000)
	var stop int32
	var completed int64 // calls that have returned
	var wg sync.WaitGroup
	// traffic
	for w := 0; w < 6; w++ {
		wg.Add(1)
		tg := g.Fork(fmt.Sprintf("traffic-%d", w))
		inst := fmt.Sprintf("gw-%d", w)
		go func() {
			defer wg.Done()
			var reqID int64
			for atomic.LoadInt32(&stop) == 0 {
				u := tg.Pick(ups)
				s := refShard(u, N)
				op := []string{"allocate", "acquire", "cluster-update"}[tg.Intn(3)]
				w0 := atomic.LoadInt64(&words[s])
				leader, _ := leaderName[s].Load().(string)
				var err error
				var served bool
				p := vkit.Safely(func() {
					switch op {
					case "allocate":
						var res *proxyv1alpha1.RateLimitCondition
						res, err = srv.Limiter.UpdateRateLimitConditionStatus(u, newCondition(u, inst, 2))
						served = err == nil && res != nil
					case "acquire":
						reqID++
						var res *proxyv1alpha1.RateLimitAcquire
						res, err = srv.Limiter.DoAcquire(u, newAcquire(u, inst, time.Now().UnixNano()+reqID, 1))
						served = err == nil && res != nil
					case "cluster-update":
						err = srv.Handle.UpstreamConditionHandler(buildUpstream(u, 1000000))
					}
				})
				w1 := atomic.LoadInt64(&words[s])
				atomic.AddInt64(&completed, 1)
				if w0 != w1 || w0&2 != 0 {
					r.Count("conc_calls_overlapping_a_change", 1)
					continue
				}
				if w0&1 == 1 {
					if served {
						r.Count("conc_calls_served_inside_a_term", 1)
					}
					continue
				}
				r.Count("conc_calls_judged_inside_a_gap", 1)
				ctx := fmt.Sprintf("shard %d, epoch %d, table names %q, %d leadership changes so far run concurrently with 6 callers", s, w0/4, leader, w0/4)
				switch {
				case p != nil:
					r.Violation("C13/server/not-leader/"+op+"/panic", fmt.Sprintf("%s while not leader panicked: %v (%s)", op, p, ctx), map[string]interface{}{"upstream": u})
				case op == "cluster-update":
					// the handler is silent; its effect is checked at quiescence (no store for a shard that is not led)
				case served || err == nil:
					r.Violation("C13/server/not-leader/"+op+"/served", fmt.Sprintf("%s was served (no error) while not leader (%s; concurrent scenario)", op, ctx), map[string]interface{}{"upstream": u, "how": "bed.NewLimiterServer + ScriptedElector.Gain/Lose from one goroutine, calls from six others; the call saw the same stable state word before and after"})
				case leader != "" && !strings.Contains(err.Error(), leader):
					r.Violation("C13/server/not-leader/"+op+"/error-does-not-name-leader", fmt.Sprintf("%s refused with %q, which does not name the leader %q (%s; concurrent scenario)", op, err.Error(), leader, ctx), map[string]interface{}{"upstream": u})
				}
			}
		}()
	}
	// leadership changes
	others := []string{"limiter-B", "limiter-C:8443"}
	for k := 0; k < flips; k++ {
		s := g.Intn(N)
		w := atomic.LoadInt64(&words[s])
		atomic.StoreInt64(&words[s], w|2)
		leads := w&1 == 1
		viaCheck := g.Chance(0.3)
		if leads {
			o := g.Pick(others)
			leaderName[s].Store(o)
			if viaCheck {
				srv.Elector.SetLeader(s, o)
				srv.Handle.LeaderCheck()
			} else {
				srv.Elector.Lose(s, o)
			}
			atomic.StoreInt64(&words[s], (w/4+1)*4)
		} else {
			if viaCheck {
				srv.Elector.SetLeader(s, me)
				srv.Handle.LeaderCheck()
			} else {
				srv.Elector.Gain(s)
			}
			atomic.StoreInt64(&words[s], (w/4+1)*4+1)
		}
		r.Count("conc_leadership_changes", 1)
		// Progress, not time: the next change waits until 8 more calls have returned. At most 6 of them (one per caller) can have
		// started before this change was published, so at least 2 calls ran entirely inside the new state - on any machine load.
		c0 := atomic.LoadInt64(&completed)
		if !vkit.WaitFor(30*time.Second, func() bool { return atomic.LoadInt64(&completed) >= c0+8 }) {
			r.Inconclusive("concurrent server side: callers made no progress within the watchdog")
			break
		}
		if g.Chance(0.5) {
			time.Sleep(time.Duration(g.Intn(300)) * time.Microsecond) // varies how many calls a state sees; not a verdict
		}
	}
	atomic.StoreInt32(&stop, 1)
	wg.Wait()
	for s := 0; s < N; s++ {
		leads := atomic.LoadInt64(&words[s])&1 == 1
		if !leads && srv.Handle.Store(s) != nil {
			r.Violation("C13/server/loss/store-kept/concurrent", fmt.Sprintf("after %d leadership changes under concurrent calls shard %d is not led but still has a store", flips, s), nil)
		}
		if srv.Handle.Store(s) != nil {
			srv.Handle.StopLeading(s)
		}
	}
	r.Eval(1)
	r.Count("conc_scenarios", 1)
	r.Distinct(vkit.Hash64("concurrent-server", fmt.Sprint(flips)))
}
