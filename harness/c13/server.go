package c13

import (
	"encoding/json"
	"fmt"
	"sort"
	"strings"
	"time"

	metav1 "k8s.io/apimachinery/pkg/apis/meta/v1"
	"k8s.io/apimachinery/pkg/labels"

	proxyv1alpha1 "github.com/kubewharf/kubegateway/pkg/apis/proxy/v1alpha1"
	limitutil "github.com/kubewharf/kubegateway/pkg/ratelimiter/util"

	"verifharness/bed"
	"verifharness/vkit"
)

func shardOf(name string, n int) int { return limitutil.GetShardID(name, n) }

const (
	fcCount = "fc-count" // global max-in-flight counted by acquire (exact, time-independent per-instance counts)
	fcAlloc = "fc-alloc" // global max-in-flight divided by allocate
	me      = "limiter-me"
)

var otherLeaders = []string{"limiter-B", "limiter-C:8443"}

func buildUpstream(name string, max int32) *proxyv1alpha1.UpstreamCluster {
	uc := &proxyv1alpha1.UpstreamCluster{ObjectMeta: metav1.ObjectMeta{Name: name}}
	uc.Spec.FlowControl.Schemas = []proxyv1alpha1.FlowControlSchema{
		{Name: fcCount, Strategy: proxyv1alpha1.GlobalCountLimit, FlowControlSchemaConfiguration: proxyv1alpha1.FlowControlSchemaConfiguration{
			GlobalMaxRequestsInflight: &proxyv1alpha1.MaxRequestsInflightFlowControlSchema{Max: max}}},
		{Name: fcAlloc, Strategy: proxyv1alpha1.GlobalAllocateLimit, FlowControlSchemaConfiguration: proxyv1alpha1.FlowControlSchemaConfiguration{
			GlobalMaxRequestsInflight: &proxyv1alpha1.MaxRequestsInflightFlowControlSchema{Max: max}}},
	}
	return uc
}

func newCondition(upstream, instance string, used int32) *proxyv1alpha1.RateLimitCondition {
	return &proxyv1alpha1.RateLimitCondition{
		ObjectMeta: metav1.ObjectMeta{Name: limitutil.GenerateRateLimitConditionName(upstream, instance)},
		Spec: proxyv1alpha1.RateLimitSpec{UpstreamCluster: upstream, Instance: instance,
			LimitItemConfigurations: []proxyv1alpha1.RateLimitItemConfiguration{{Name: fcAlloc, Strategy: proxyv1alpha1.GlobalAllocateLimit,
				LimitItemDetail: proxyv1alpha1.LimitItemDetail{MaxRequestsInflight: &proxyv1alpha1.MaxRequestsInflightFlowControlSchema{Max: 10}}}}},
		Status: proxyv1alpha1.RateLimitStatus{LimitItemStatuses: []proxyv1alpha1.RateLimitItemStatus{{Name: fcAlloc, RequestLevel: 50,
			LimitItemDetail: proxyv1alpha1.LimitItemDetail{MaxRequestsInflight: &proxyv1alpha1.MaxRequestsInflightFlowControlSchema{Max: used}}}}},
	}
}

func newAcquire(upstream, instance string, id int64, tokens int32) *proxyv1alpha1.RateLimitAcquire {
	return &proxyv1alpha1.RateLimitAcquire{ObjectMeta: metav1.ObjectMeta{Name: upstream},
		Spec: proxyv1alpha1.RateLimitAcquireSpec{Instance: instance, RequestID: id, Requests: []proxyv1alpha1.RateLimitAcquireRequest{{FlowControl: fcCount, Tokens: tokens}}}}
}

// storeView is everything observable about one shard store: its conditions and the per-instance counts of its flow controls.
type condLine struct{ Name, Instance, Body string }

type storeView struct {
	Conditions []condLine // sorted by name
	Counts     []string   // "upstream/fc: normalised DebugInfo" sorted
}

func (v storeView) String() string {
	var b strings.Builder
	for _, c := range v.Conditions {
		fmt.Fprintf(&b, "%q instance=%q %s\n", c.Name, c.Instance, c.Body)
	}
	return b.String() + "--\n" + strings.Join(v.Counts, "\n")
}

func normDebug(s string) string {
	i := strings.Index(s, " details=")
	if i < 0 {
		return s
	}
	parts := strings.Split(s[i+len(" details="):], ",")
	sort.Strings(parts)
	return s[:i] + " details=" + strings.Join(parts, ",")
}

type srvHist struct {
	r     *vkit.R
	g     *vkit.Rand
	srv   *bed.LimiterServer
	N     int
	ups   []string
	insts []string
	table map[int]string // the election's table as scripted: shard -> identity ("" = nobody)
	// model of what happened, for non-vacuity counters and the regain check
	epochDirty map[int]bool // some allocate/acquire was served in the current leadership epoch of the shard
	lostDirty  map[int]bool // the last epoch that ended was dirty
	window     map[int]bool // table changed without callback and leaderCheck has not run yet
	reqID      int64
	trace      []string
	nontrivial bool
}

func (h *srvHist) logf(f string, a ...interface{}) { h.trace = append(h.trace, fmt.Sprintf(f, a...)) }

func (h *srvHist) view(shard int) (storeView, bool) {
	st := h.srv.Handle.Store(shard)
	if st == nil {
		return storeView{}, false
	}
	var v storeView
	for _, c := range st.List(labels.Everything()) {
		b, _ := json.Marshal(map[string]interface{}{"spec": c.Spec, "status": c.Status, "labels": c.Labels})
		v.Conditions = append(v.Conditions, condLine{c.Name, c.Spec.Instance, string(b)})
	}
	sort.Slice(v.Conditions, func(i, j int) bool { return v.Conditions[i].Name < v.Conditions[j].Name })
	for _, u := range h.ups {
		for _, fc := range []string{fcCount, fcAlloc} {
			if f, err := st.GetFlowControl(u, fc); err == nil && f != nil {
				v.Counts = append(v.Counts, fmt.Sprintf("%q/%s: %s", u, fc, normDebug(f.DebugInfo())))
			}
		}
	}
	sort.Strings(v.Counts)
	return v, true
}

func (h *srvHist) viewAll() map[int]string {
	out := map[int]string{}
	for s := 0; s < h.N; s++ {
		if v, ok := h.view(s); ok {
			out[s] = v.String()
		}
	}
	return out
}

// lineDiff names the first store line that disappeared and the first that appeared.
func lineDiff(a, b string) string {
	as, bs := strings.Split(a, "\n"), strings.Split(b, "\n")
	in := func(x string, l []string) bool {
		for _, y := range l {
			if x == y {
				return true
			}
		}
		return false
	}
	cut := func(s string) string {
		if len(s) > 260 {
			return s[:260] + "..."
		}
		return s
	}
	gone, came := "", ""
	for _, x := range as {
		if x != "" && x != "--" && !in(x, bs) {
			gone = x
			break
		}
	}
	for _, x := range bs {
		if x != "" && x != "--" && !in(x, as) {
			came = x
			break
		}
	}
	return fmt.Sprintf("line gone: %s; line new: %s", cut(gone), cut(came))
}

func diffShards(a, b map[int]string) []int {
	set := map[int]bool{}
	for s, v := range a {
		if b[s] != v {
			set[s] = true
		}
	}
	for s, v := range b {
		if a[s] != v {
			set[s] = true
		}
	}
	return sortedInts(set)
}

func (h *srvHist) witness(extra map[string]interface{}) map[string]interface{} {
	tr := h.trace
	if len(tr) > 80 {
		tr = append([]string{fmt.Sprintf("... %d earlier steps omitted", len(tr)-80)}, tr[len(tr)-80:]...)
	}
	ups := []string{}
	for _, u := range h.ups {
		ups = append(ups, fmt.Sprintf("%q (shard %d)", u, refShard(u, h.N)))
	}
	w := map[string]interface{}{"shards": h.N, "identity": me, "upstreams": ups, "trace": tr,
		"how": "bed.NewLimiterServer(Identity limiter-me, local store) with bed.ScriptedElector; each trace line is one call on the real rateLimiter"}
	for k, v := range extra {
		w[k] = v
	}
	return w
}

func (h *srvHist) storeState(shard int) string {
	if h.srv.Handle.Store(shard) != nil {
		return "store-present"
	}
	return "no-store"
}

// judgeRefusal applies the statement to a call made while the table does not name this server for the shard.
func (h *srvHist) judgeRefusal(op string, shard int, leader string, err error, panicked interface{}, errExpected bool, before, after map[int]string) {
	h.r.Count("srv_refusals_judged", 1)
	h.r.Count("srv_refusals_"+op, 1)
	h.nontrivial = true
	ctx := fmt.Sprintf("shard %d of %d, table names %q as leader, this server is %q, %s", shard, h.N, leader, me, h.storeState(shard))
	if panicked != nil {
		h.r.Violation("C13/server/not-leader/"+op+"/panic", fmt.Sprintf("%s while not leader panicked: %v (%s)", op, panicked, ctx), h.witness(map[string]interface{}{"panic": fmt.Sprint(panicked)}))
		return
	}
	if errExpected {
		switch {
		case err == nil:
			h.r.Violation("C13/server/not-leader/"+op+"/served", fmt.Sprintf("%s was served (no error) while not leader (%s)", op, ctx), h.witness(nil))
		case leader != "" && !strings.Contains(err.Error(), leader):
			h.r.Violation("C13/server/not-leader/"+op+"/error-does-not-name-leader", fmt.Sprintf("%s refused with %q, which does not name the leader %q (%s)", op, err.Error(), leader, ctx), h.witness(nil))
		}
	}
	if d := diffShards(before, after); len(d) > 0 {
		where := "other-shard"
		for _, s := range d {
			if s == shard {
				where = "own-shard-store-not-yet-discarded"
			}
		}
		h.r.Violation("C13/server/not-leader/"+op+"/state-changed/"+where, fmt.Sprintf("%s while not leader changed the contents of shard store(s) %v (%s): %s", op, d, ctx, lineDiff(before[d[0]], after[d[0]])),
			h.witness(map[string]interface{}{"changedShards": d, "before": before, "after": after}))
	}
}

func (h *srvHist) checkManaged(when string) {
	info, err := h.srv.Limiter.ServerInfo()
	if err != nil || info == nil {
		h.r.Violation("C13/server/server-info/error", fmt.Sprintf("ServerInfo failed: %v", err), h.witness(nil))
		return
	}
	led := map[int]bool{}
	for s, l := range h.table {
		if l == me {
			led[s] = true
		}
	}
	var got []int
	for _, s := range info.ManagedShards {
		got = append(got, int(s))
	}
	sort.Ints(got)
	want := sortedInts(led)
	h.r.Count("srv_managed_shards_checks", 1)
	if fmt.Sprint(got) != fmt.Sprint(want) || int(info.ShardCount) != h.N {
		h.r.Violation("C13/server/server-info/managed-shards-wrong", fmt.Sprintf("%s: ServerInfo reports ManagedShards %v ShardCount %d, the election table makes this server leader of %v out of %d", when, got, info.ShardCount, want, h.N), h.witness(nil))
	}
}

// afterLoss: the shard's in-memory state must be gone.
func (h *srvHist) afterLoss(shard int, how string) {
	h.r.Count("srv_losses", 1)
	if h.srv.Handle.Store(shard) != nil {
		h.r.Violation("C13/server/loss/store-kept/"+how, fmt.Sprintf("after losing leadership of shard %d (%s) the server still holds the shard's store", shard, how), h.witness(nil))
	}
	h.lostDirty[shard] = h.epochDirty[shard]
	h.epochDirty[shard] = false
}

// afterGain: nothing of an earlier epoch may be visible (local store: nothing is reloaded from anywhere).
func (h *srvHist) afterGain(shard int, how string) {
	h.r.Count("srv_gains", 1)
	v, ok := h.view(shard)
	if !ok {
		h.r.Count("srv_gain_without_store", 1)
		return
	}
	if h.lostDirty[shard] {
		h.r.Count("srv_regain_after_dirty_epoch", 1)
		h.nontrivial = true
	}
	for _, c := range v.Conditions {
		if c.Instance != "" {
			h.r.Violation("C13/server/regain/earlier-conditions-visible/"+how, fmt.Sprintf("after regaining shard %d (%s) the condition %q of instance %q from an earlier leadership epoch is still in the store", shard, how, c.Name, c.Instance), h.witness(map[string]interface{}{"store": v.String()}))
			break
		}
	}
	for _, c := range v.Counts {
		if !strings.Contains(c, " count=0 ") || !strings.HasSuffix(c, " details=") {
			h.r.Violation("C13/server/regain/earlier-counts-visible/"+how, fmt.Sprintf("after regaining shard %d (%s) per-instance counts from an earlier leadership epoch are still there: %s", shard, how, c), h.witness(map[string]interface{}{"store": v.String()}))
			break
		}
	}
	h.lostDirty[shard] = false
}

func (h *srvHist) step() {
	g := h.g
	switch k := g.Intn(100); {
	case k < 30: // allocate
		u, inst := g.Pick(h.ups), g.Pick(h.insts)
		shard := refShard(u, h.N)
		leader := h.table[shard]
		before := h.viewAll()
		var err error
		var res *proxyv1alpha1.RateLimitCondition
		p := vkit.Safely(func() {
			res, err = h.srv.Limiter.UpdateRateLimitConditionStatus(u, newCondition(u, inst, int32(g.Intn(20))))
		})
		h.logf("allocate upstream=%q(shard %d) instance=%s -> err=%v", u, shard, inst, err)
		if leader != me {
			h.judgeRefusal("allocate", shard, leader, err, p, true, before, h.viewAll())
			return
		}
		if p == nil && err == nil && res != nil {
			h.r.Count("srv_served_allocate", 1)
			h.epochDirty[shard] = true
		} else {
			h.r.Count("srv_leader_allocate_failed", 1)
			if p != nil {
				h.r.Count("srv_leader_call_panicked", 1) // not a C13 matter (e.g. metrics label of a non-UTF-8 upstream name)
			}
		}
	case k < 60: // acquire
		u, inst := g.Pick(h.ups), g.Pick(h.insts)
		shard := refShard(u, h.N)
		leader := h.table[shard]
		before := h.viewAll()
		h.reqID++
		var err error
		var res *proxyv1alpha1.RateLimitAcquire
		tokens := int32(g.Range(1, 9))
		p := vkit.Safely(func() { res, err = h.srv.Limiter.DoAcquire(u, newAcquire(u, inst, h.reqID, tokens)) })
		h.logf("acquire upstream=%q(shard %d) instance=%s tokens=%d -> err=%v", u, shard, inst, tokens, err)
		if leader != me {
			h.judgeRefusal("acquire", shard, leader, err, p, true, before, h.viewAll())
			if p == nil && err != nil && res != nil {
				h.r.Count("srv_refusal_with_result", 1)
			}
			return
		}
		if p == nil && err == nil && res != nil && len(res.Status.Results) == 1 && res.Status.Results[0].Accept {
			h.r.Count("srv_served_acquire_accepted", 1)
			h.epochDirty[shard] = true
		} else {
			h.r.Count("srv_leader_acquire_not_accepted", 1)
			if p != nil {
				h.r.Count("srv_leader_call_panicked", 1)
			}
		}
	case k < 70: // cluster add / update / delete event
		u := g.Pick(h.ups)
		shard := refShard(u, h.N)
		leader := h.table[shard]
		before := h.viewAll()
		var err error
		del := g.Chance(0.25)
		p := vkit.Safely(func() {
			if del {
				err = h.srv.DeleteUpstream(u)
			} else {
				err = h.srv.ApplyUpstream(buildUpstream(u, int32(g.PickInt([]int{50, 100, 200}))))
			}
		})
		h.logf("cluster-event upstream=%q(shard %d) delete=%v -> err=%v", u, shard, del, err)
		if leader != me {
			h.judgeRefusal("cluster-update", shard, leader, err, p, false, before, h.viewAll())
		} else {
			h.r.Count("srv_leader_cluster_events", 1)
		}
	case k < 76: // cleanup pass; some instances are known (heartbeat), the others unknown
		for _, inst := range h.insts {
			if g.Bool() {
				_ = h.srv.Limiter.Heartbeat(inst)
			}
		}
		beforeC := map[int]map[string]string{}
		for s := range h.window {
			if v, ok := h.view(s); ok && h.window[s] && h.table[s] != me {
				beforeC[s] = map[string]string{}
				for _, c := range v.Conditions {
					beforeC[s][c.Name] = c.Body
				}
			}
		}
		p := vkit.Safely(func() { h.srv.Handle.CleanupUnknownCondition() })
		h.logf("cleanupUnknownCondition (known instances %v) panic=%v", keys(h.srv.Handle.Heartbeats()), p)
		h.r.Count("srv_cleanup_passes", 1)
		// Judged only for shards this server no longer leads but whose store is not yet discarded (leaderCheck pending).
		// Widening: the statement itself makes the server discard such a shard's state, so a cleanup pass that REMOVES
		// conditions or counts there is conforming; only a condition added or rewritten there is a change "while not leader".
		for s, bc := range beforeC {
			h.r.Count("srv_cleanup_in_window_judged", 1)
			if v, ok := h.view(s); ok {
				for _, c := range v.Conditions {
					if old, had := bc[c.Name]; !had || old != c.Body {
						h.r.Violation("C13/server/not-leader/cleanup/condition-written", fmt.Sprintf("a cleanup pass wrote condition %q into the store of shard %d, which this server no longer leads (leader %q)", c.Name, s, h.table[s]), h.witness(nil))
					}
				}
			}
		}
	case k < 84: // gain through the election callback
		s := g.Intn(h.N)
		if h.table[s] == me || h.window[s] {
			return
		}
		h.table[s] = me
		p := vkit.Safely(func() { h.srv.Elector.Gain(s) })
		h.logf("gain shard %d (callback) panic=%v", s, p)
		h.afterGain(s, "callback")
		h.checkManaged("after gain")
	case k < 91: // loss through the election callback
		s := g.Intn(h.N)
		if h.table[s] != me || h.window[s] {
			return
		}
		other := g.Pick(append([]string{""}, otherLeaders...))
		h.table[s] = other
		p := vkit.Safely(func() { h.srv.Elector.Lose(s, other) })
		h.logf("lose shard %d to %q (callback) panic=%v", s, other, p)
		h.afterLoss(s, "callback")
		h.checkManaged("after loss")
	case k < 96: // the table changes, the callback does not come (yet): the periodic leaderCheck has to catch up
		s := g.Intn(h.N)
		if h.window[s] {
			return
		}
		if h.table[s] == me {
			h.table[s] = g.Pick(otherLeaders)
		} else {
			h.table[s] = me
		}
		h.srv.Elector.SetLeader(s, h.table[s])
		h.window[s] = true
		h.logf("table-only: shard %d now led by %q (no callback)", s, h.table[s])
		h.checkManaged("after table change")
	default: // periodic leaderCheck
		p := vkit.Safely(func() { h.srv.Handle.LeaderCheck() })
		h.logf("leaderCheck panic=%v", p)
		for s, w := range h.window {
			if !w {
				continue
			}
			h.window[s] = false
			if h.table[s] == me {
				h.afterGain(s, "leaderCheck")
			} else {
				h.afterLoss(s, "leaderCheck")
			}
		}
		// quiescent: a store may exist only for shards this server leads
		for _, s := range h.srv.Handle.Shards() {
			if h.table[s] != me {
				h.r.Violation("C13/server/loss/store-kept/leaderCheck", fmt.Sprintf("after leaderCheck the server still holds the store of shard %d, led by %q", s, h.table[s]), h.witness(nil))
			}
		}
		h.checkManaged("after leaderCheck")
	}
}

func keys(m map[string]time.Time) []string {
	var out []string
	for k := range m {
		out = append(out, k)
	}
	sort.Strings(out)
	return out
}

func serverSide(r *vkit.R) {
	n := r.N(1500, 20000)
	r.Parallel(n, 16, func(i int, g *vkit.Rand) {
		h := &srvHist{r: r, g: g, N: g.PickInt([]int{1, 2, 2, 3, 3, 4, 5, 8}), table: map[int]string{},
			epochDirty: map[int]bool{}, lostDirty: map[int]bool{}, window: map[int]bool{}, insts: []string{"gw-1", "gw-2", "gw-3"}}
		h.srv = bed.NewLimiterServer(bed.LimiterOptions{Identity: me, Shards: h.N, Store: "local"})
		seen := map[string]bool{}
		for len(h.ups) < 6 {
			u := genName(g)
			if seen[u] { // any bytes: the empty name and 4 KiB names included
				continue
			}
			if u == "" {
				r.Count("srv_histories_with_empty_upstream_name", 1)
			}
			if len(u) >= 4096 {
				r.Count("srv_histories_with_4KiB_upstream_name", 1)
			}
			seen[u] = true
			h.ups = append(h.ups, u)
		}
		// every upstream is in the lister from the start (what the server's informer would hold); leadership starts empty
		for s := 0; s < h.N; s++ {
			h.table[s] = ""
		}
		for _, u := range h.ups {
			// nobody leads anything yet: the handler has nothing to do (an error return is not judged, a state change would be:
			// there is no store at all at this point, so any store appearing is caught by the first refusal's snapshot)
			if err := h.srv.ApplyUpstream(buildUpstream(u, 100)); err != nil {
				r.Count("srv_initial_cluster_event_errors", 1)
			}
		}
		for _, inst := range h.insts {
			_ = h.srv.Limiter.Heartbeat(inst)
		}
		steps := g.Range(40, 120)
		for k := 0; k < steps; k++ {
			h.step()
		}
		// leave no store behind
		for s := 0; s < h.N; s++ {
			if h.srv.Handle.Store(s) != nil {
				h.srv.Handle.StopLeading(s)
			}
		}
		r.Eval(1)
		r.Count("srv_histories", 1)
		r.Count("srv_steps", steps)
		if h.nontrivial {
			r.Distinct(vkit.Hash64(strings.Join(h.trace, "\n")))
		}
		if i == 0 {
			tr := h.trace
			if len(tr) > 30 {
				tr = tr[:30]
			}
			r.Sample(map[string]interface{}{"kind": "server-history", "shards": h.N, "first_steps": tr})
		}
	})
}
