// Package c01 checks C01 (routing: first matching dispatch policy, documented rule semantics) by differential monitoring of
// the real matchers against a reference model written from the property statement and docs/en/design.md.
package c01

import (
	"strings"

	proxyv1alpha1 "github.com/kubewharf/kubegateway/pkg/apis/proxy/v1alpha1"
)

// Req is the attribute tuple of a request.
type Req struct {
	Verb, Group, Resource, Sub, Name, Path, User string
	Groups                                       []string
	IsResource                                   bool
}

type posFn func(entry string) bool

// listMatch implements the documented list semantics. emptyMatches says what an empty list means for this field.
func listMatch(list []string, pos posFn, emptyMatches bool) bool {
	var P, N []string
	for _, e := range list {
		if e == "*" {
			return true
		}
	}
	for _, e := range list {
		if len(e) > 0 && e[0] == '-' {
			N = append(N, e[1:])
		} else {
			P = append(P, e)
		}
	}
	if len(P) > 0 {
		for _, p := range P {
			if pos(p) {
				return true
			}
		}
		return false
	}
	if len(N) > 0 {
		for _, n := range N {
			if pos(n) {
				return false
			}
		}
		return true
	}
	return emptyMatches
}

func refVerb(list []string, verb string) bool {
	return listMatch(list, func(e string) bool { return e == verb }, false)
}

func refGroup(list []string, g string) bool {
	return listMatch(list, func(e string) bool { return e == g }, false)
}

func refResource(list []string, resource, sub string) bool {
	combined := resource
	if sub != "" {
		combined = resource + "/" + sub
	}
	return listMatch(list, func(e string) bool {
		if e == combined {
			return true
		}
		return sub != "" && e == "*/"+sub
	}, false)
}

func refName(list []string, name string) bool {
	return listMatch(list, func(e string) bool { return e == name }, true)
}

func globPos(e, s string) bool {
	if e == s {
		return true
	}
	if strings.HasSuffix(e, "*") && strings.HasPrefix(s, strings.TrimRight(e, "*")) {
		return true
	}
	return false
}

func refUser(users []string, sas []proxyv1alpha1.ServiceAccountRef, user string) bool {
	if len(users) == 0 && len(sas) == 0 {
		return true
	}
	if listMatch(users, func(e string) bool { return globPos(e, user) }, false) {
		return true
	}
	for _, sa := range sas {
		if sa.Namespace == "" || sa.Name == "" {
			continue
		}
		if "system:serviceaccount:"+sa.Namespace+":"+sa.Name == user {
			return true
		}
	}
	return false
}

func refUserGroups(list []string, groups []string) bool {
	return listMatch(list, func(e string) bool {
		for _, g := range groups {
			if g == e {
				return true
			}
		}
		return false
	}, true)
}

func refNonResource(list []string, path string) bool {
	for _, e := range list {
		if e == "*" {
			return true
		}
	}
	// with a positive entry present dash entries are ignored; a list of dash entries only cannot invert (documented:
	// "NonResourceURLs can not use invert matching") and matches nothing
	for _, e := range list {
		if len(e) > 0 && e[0] == '-' {
			continue
		}
		if globPos(e, path) {
			return true
		}
	}
	return false
}

func refRule(r *proxyv1alpha1.DispatchPolicyRule, q *Req) bool {
	if !refVerb(r.Verbs, q.Verb) || !refUser(r.Users, r.ServiceAccounts, q.User) || !refUserGroups(r.UserGroups, q.Groups) {
		return false
	}
	if q.IsResource {
		return refGroup(r.APIGroups, q.Group) && refResource(r.Resources, q.Resource, q.Sub) && refName(r.ResourceNames, q.Name)
	}
	return refNonResource(r.NonResourceURLs, q.Path)
}

// refPolicies returns the index of the first matching policy or -1.
func refPolicies(ps []proxyv1alpha1.DispatchPolicy, q *Req) int {
	for i := range ps {
		for j := range ps[i].Rules {
			if refRule(&ps[i].Rules[j], q) {
				return i
			}
		}
	}
	return -1
}

// listClass describes the shape of a list for violation signatures.
func listClass(list []string) string {
	star, pos, neg, glob, starsub := false, 0, 0, false, false
	for _, e := range list {
		if e == "*" {
			star = true
			continue
		}
		v := e
		if len(e) > 0 && e[0] == '-' {
			neg++
			v = e[1:]
		} else {
			pos++
		}
		if strings.HasSuffix(v, "*") {
			glob = true
		}
		if strings.HasPrefix(v, "*/") {
			starsub = true
		}
	}
	var c string
	switch {
	case star:
		c = "star"
	case pos > 0 && neg > 0:
		c = "mixed"
	case pos > 0:
		c = "positive"
	case neg > 1:
		c = "inverted-multi"
	case neg == 1:
		c = "inverted-single"
	default:
		c = "empty"
	}
	if glob {
		c += "+glob"
	}
	if starsub {
		c += "+starsub"
	}
	return c
}
