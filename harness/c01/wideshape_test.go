package c01

import (
	"net/http"
	"strings"

	"k8s.io/apimachinery/pkg/util/sets"
	apirequest "k8s.io/apiserver/pkg/endpoints/request"

	"verifharness/vkit"
)

// wideShape generates request lines well outside the handful of templates of httpShape: cluster-scoped resources, the
// namespaces resource and its subresources, the legacy /watch/ prefix, ?watch=1, a field selector on metadata.name, proxy
// subresources with trailing path parts, discovery paths, HEAD / POST / PUT on non-resource paths, trailing slashes.
// The attributes the gateway must route on are those the Kubernetes request-info convention derives from the request line;
// they are computed here by the upstream library (k8s.io/apiserver RequestInfoFactory — not kubegateway code), so that the
// oracle stays "reference list semantics over the attributes of THIS request".
var wideFactory = &apirequest.RequestInfoFactory{APIPrefixes: sets.NewString("api", "apis"), GrouplessAPIPrefixes: sets.NewString("api")}

func wideShape(g *vkit.Rand) (method, path, kind string, q *Req) {
	q = &Req{User: g.Pick(users)}
	ng := g.Intn(4)
	for i := 0; i < ng; i++ {
		q.Groups = append(q.Groups, g.Pick(ugroups))
	}
	group := g.Pick(apiGroups)
	prefix := "/api/v1"
	if group != "" {
		prefix = "/apis/" + group + "/v1"
	}
	res := g.Pick(resources)
	name := g.Pick([]string{"n1", "n2", "nginx"})
	method = "GET"
	switch g.Intn(12) {
	case 0:
		kind = "cluster-scoped-collection"
		path = prefix + "/" + res
		method = g.Pick([]string{"GET", "POST", "DELETE"})
	case 1:
		kind = "cluster-scoped-object"
		path = prefix + "/" + res + "/" + name
		method = g.Pick([]string{"GET", "PUT", "PATCH", "DELETE", "HEAD"})
	case 2:
		kind = "namespaces-resource"
		path = "/api/v1/namespaces/" + g.Pick([]string{"ns1", "nginx"})
		if g.Chance(0.5) {
			path += "/" + g.Pick([]string{"status", "finalize"})
			method = "PUT"
		} else {
			method = g.Pick([]string{"GET", "DELETE", "PATCH"})
		}
	case 3:
		kind = "legacy-watch-prefix"
		path = prefix + "/watch/namespaces/ns1/" + res
		if g.Chance(0.5) {
			path += "/" + name
		}
	case 4:
		kind = "watch-query-variants"
		path = prefix + "/namespaces/ns1/" + res + "?" + g.Pick([]string{"watch=1", "watch=true&resourceVersion=5", "watch=false", "watch", "watch=TRUE"})
	case 5:
		kind = "field-selector-name"
		path = prefix + "/namespaces/ns1/" + res + "?fieldSelector=metadata.name%3D" + name
		if g.Chance(0.5) {
			path += "&watch=true"
		}
		if g.Chance(0.2) {
			method = "DELETE"
		}
	case 6:
		kind = "proxy-subresource-with-tail"
		path = prefix + "/namespaces/ns1/" + res + "/" + name + "/" + g.Pick([]string{"proxy", "log", "exec"}) + g.Pick([]string{"", "/a/b", "/metrics"})
		method = g.Pick([]string{"GET", "POST"})
	case 7:
		kind = "discovery"
		path = g.Pick([]string{"/api", "/api/v1", "/apis", "/apis/apps", "/apis/apps/v1", "/apis/x.io/v1", "/openapi/v2", "/api/", "/apis/"})
	case 8:
		kind = "non-resource-other-method"
		path = g.Pick(paths)
		method = g.Pick([]string{"POST", "PUT", "DELETE", "HEAD", "PATCH"})
	case 9:
		kind = "trailing-slash"
		path = prefix + "/namespaces/ns1/" + res + "/"
		if g.Chance(0.5) {
			path = prefix + "/namespaces/ns1/" + res + "/" + name + "/"
		}
		method = g.Pick([]string{"GET", "DELETE"})
	case 10:
		kind = "head-on-resource"
		path = prefix + "/namespaces/ns1/" + res + "/" + name
		method = "HEAD"
	default:
		kind = "unknown-prefix-or-short"
		path = g.Pick([]string{"/apiz/v1/pods", "/api/v2", "/apis/apps", "/api/v1/namespaces", "/apis/x.io/v1/namespaces/ns1", "/logs/kubelet.log", "/healthz/"})
	}
	hr, err := http.NewRequest(method, "http://c01.e2e"+path, nil)
	if err != nil {
		return "", "", "", nil
	}
	info, err := wideFactory.NewRequestInfo(hr)
	if err != nil {
		return "", "", "", nil
	}
	q.IsResource = info.IsResourceRequest
	q.Verb = info.Verb
	q.Path = info.Path
	if info.IsResourceRequest {
		q.Group, q.Resource, q.Sub, q.Name = info.APIGroup, info.Resource, info.Subresource, info.Name
	}
	_ = strings.TrimSpace
	return method, path, kind, q
}
