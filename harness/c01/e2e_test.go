package c01

import (
	"bytes"
	"fmt"
	"strings"
	"time"

	"k8s.io/apiserver/pkg/authentication/user"

	proxyv1alpha1 "github.com/kubewharf/kubegateway/pkg/apis/proxy/v1alpha1"

	"verifharness/bed"
	"verifharness/vkit"
)

// httpShape turns an attribute tuple into a real request and returns the attributes the gateway must derive from it.
func httpShape(g *vkit.Rand) (method, path string, q *Req) {
	q = &Req{User: g.Pick(users)}
	ng := g.Intn(4)
	for i := 0; i < ng; i++ {
		q.Groups = append(q.Groups, g.Pick(ugroups))
	}
	if g.Chance(0.2) {
		q.Path = g.Pick(paths)
		q.Verb = "get"
		return "GET", q.Path, q
	}
	q.IsResource = true
	q.Group = g.Pick(apiGroups)
	q.Resource = g.Pick(resources)
	prefix := "/api/v1"
	if q.Group != "" {
		prefix = "/apis/" + q.Group + "/v1"
	}
	path = prefix + "/namespaces/ns1/" + q.Resource
	kind := g.Intn(8)
	switch kind {
	case 0:
		method, q.Verb = "GET", "list"
	case 1:
		method, q.Verb = "GET", "watch"
		path += "?watch=true"
	case 2:
		method, q.Verb = "POST", "create"
	case 3:
		method, q.Verb = "DELETE", "deletecollection"
	default:
		q.Name = g.Pick([]string{"n1", "n2", "nginx"})
		path += "/" + q.Name
		if g.Chance(0.35) {
			q.Sub = g.Pick([]string{"status", "log", "scale"})
			path += "/" + q.Sub
		}
		switch kind {
		case 4:
			method, q.Verb = "GET", "get"
		case 5:
			method, q.Verb = "PUT", "update"
		case 6:
			method, q.Verb = "PATCH", "patch"
		default:
			method, q.Verb = "DELETE", "delete"
		}
	}
	q.Path = strings.SplitN(path, "?", 2)[0]
	return method, path, q
}

func endToEnd(r *vkit.R) {
	n := r.N(1200, 20000)
	const K = 5
	var stubs []*bed.Stub
	var eps []string
	for i := 0; i < K; i++ {
		s := bed.NewStub(fmt.Sprintf("p%d", i))
		defer s.Close()
		stubs = append(stubs, s)
		eps = append(eps, s.URL)
	}
	gw := bed.NewGateway(bed.GatewayOptions{}).Start()
	defer gw.Close()

	first := true
	tokens := map[string]string{}
	tokenFor := func(q *Req) string {
		k := q.User + "|" + strings.Join(q.Groups, ",")
		if t, ok := tokens[k]; ok {
			return t
		}
		t := gw.Tokens.Add(&user.DefaultInfo{Name: q.User, Groups: q.Groups})
		tokens[k] = t
		return t
	}

	g := r.Rng.Fork("e2e")
	down := make([]bool, K)
	defer func() {
		if !first {
			for _, st := range stubs {
				st.SetHealth(bed.HealthOK)
			}
			obj := bed.BuildCluster(bed.ClusterSpec{Name: "c01.e2e", Servers: eps})
			gw.Apply(obj)
			for _, e := range eps {
				e := e
				vkit.WaitFor(10*time.Second, func() bool {
					ci, _ := gw.Cluster("c01.e2e")
					ep, ok := ci.Endpoints.Load(e)
					if ok && ep.IsReady() {
						return true
					}
					if ok {
						ep.TriggerHealthCheck()
					}
					time.Sleep(time.Millisecond)
					return false
				})
			}
			racingUpdates(r, gw, stubs, eps, tokenFor, r.Rng.Fork("e2e-racing"))
		}
	}()
	first = true
	var idn int
	for i := 0; i < n; i++ {
		np := g.Range(1, K)
		var ps []proxyv1alpha1.DispatchPolicy
		for p := 0; p < np; p++ {
			pol := proxyv1alpha1.DispatchPolicy{Strategy: proxyv1alpha1.RoundRobin, UpstreamSubset: []string{eps[p]}}
			nr := g.Range(1, 2)
			for k := 0; k < nr; k++ {
				pol.Rules = append(pol.Rules, genRule(g))
			}
			ps = append(ps, pol)
		}
		obj := bed.BuildCluster(bed.ClusterSpec{Name: "c01.e2e", Servers: eps, Policies: ps})
		if sr := gw.Apply(obj); sr.Err != nil || sr.Panic != nil || sr.Requeue {
			r.Inconclusive(fmt.Sprintf("controller did not apply the e2e cluster: %+v", sr))
			return
		}
		if first {
			if !gw.WaitAllReady(obj, 10*time.Second) {
				r.Inconclusive("stub endpoints did not become ready within the 10s watchdog")
				return
			}
			first = false
		}
		// Every few rounds some policies' upstreams are made unhealthy: the routing decision must not depend on it
		// ("the decision depends only on the request attributes and the cluster's current policy list") — a request
		// whose first matching policy has no ready endpoint is answered 503 by the gateway, it is not handled under a
		// later matching policy.
		if i%4 == 3 {
			for si, st := range stubs {
				want := !g.Chance(0.4)
				if want == !down[si] {
					continue
				}
				if want {
					st.SetHealth(bed.HealthOK)
				} else {
					st.SetHealth(bed.Health500)
				}
				down[si] = !want
				ok := vkit.WaitFor(10*time.Second, func() bool {
					ci, found := gw.Cluster("c01.e2e")
					if !found {
						return false
					}
					ep, found := ci.Endpoints.Load(eps[si])
					if !found {
						return false
					}
					if ep.IsReady() == want {
						return true
					}
					ep.TriggerHealthCheck()
					time.Sleep(time.Millisecond)
					return false
				})
				if !ok {
					r.Inconclusive("stub endpoint did not reach the scripted health state within the 10s watchdog")
					return
				}
			}
		}
		for k := 0; k < 3; k++ {
			method, path, q := httpShape(g)
			if k == 2 || g.Chance(0.25) {
				// request lines outside the basic templates; attributes by the Kubernetes request-info convention
				if m2, p2, kind, q2 := wideShape(g); q2 != nil {
					method, path, q = m2, p2, q2
					r.Count("e2e_wide_shapes", 1)
					r.Count("e2e_wide_"+kind, 1)
				}
			}
			ref := refPolicies(ps, q)
			// A share of the requests arrives as an ALLOWED impersonation (the bed's authorizer allows everything): another
			// identity authenticates and asks to act as q.User with q.Groups. The request's user and groups are then the
			// impersonated ones (they are what the upstream is told and what the request is handled as), so the routing
			// decision must be the one for q, not the one for the impersonator.
			var impersonator *Req
			if len(q.Groups) > 0 && q.User != "" && g.Chance(0.3) {
				// the impersonator is chosen, where the policy list allows it, so that it would itself be routed differently
				// (constructed, not drawn: a minimum count must not depend on luck)
				impUsers := []string{"imp-admin", "admin", "bob", "system:serviceaccount:kube-system:sa1"}
				u0, g0 := g.Intn(len(impUsers)), g.Intn(len(ugroups))
			pickImpersonator:
				for du := 0; du < len(impUsers); du++ {
					for dg := 0; dg < len(ugroups); dg++ {
						cand := &Req{User: impUsers[(u0+du)%len(impUsers)], Groups: []string{ugroups[(g0+dg)%len(ugroups)]}}
						if impersonator == nil {
							impersonator = cand
						}
						asCand := *q
						asCand.User, asCand.Groups = cand.User, cand.Groups
						if refPolicies(ps, &asCand) != ref {
							impersonator = cand
							break pickImpersonator
						}
					}
				}
				r.Count("e2e_impersonated", 1)
			}
			// same attribute tuple twice with different irrelevant inputs: the decision must be the same
			for variant := 0; variant < 2; variant++ {
				idn++
				id := fmt.Sprintf("c01-%d", idn)
				var body *bytes.Reader
				if variant == 1 && method != "GET" && method != "HEAD" {
					body = bytes.NewReader(g.Bytes(g.Range(1, 200)))
				} else {
					body = bytes.NewReader(nil)
				}
				tok := tokenFor(q)
				if impersonator != nil {
					tok = tokenFor(impersonator)
				}
				req := bed.NewRequest(method, "c01.e2e", path, tok, id, body)
				if impersonator != nil {
					req.Header.Set("Impersonate-User", q.User)
					for _, grp := range q.Groups {
						req.Header.Add("Impersonate-Group", grp)
					}
				}
				if variant == 1 {
					req.Header.Set("X-Irrelevant", fmt.Sprint(g.Uint64()))
					req.Header.Set("Accept", "application/json")
				}
				resp := gw.Do(req)
				if resp.Err != nil {
					r.Inconclusive("client error talking to the in-process gateway: " + resp.Err.Error())
					return
				}
				got := -1
				hits := 0
				for si, s := range stubs {
					c := s.CountID(id)
					hits += c
					if c > 0 {
						got = si
					}
				}
				ref := ref
				if impersonator != nil {
					// The identity an impersonated request is handled as is the one the upstream is told (the gateway adds
					// system:authenticated to the asked groups). When the request was forwarded that identity is read at the
					// stub; when it was not, the verdict is only given if the asked groups with and without
					// system:authenticated lead to the same reference decision.
					withAuth := *q
					withAuth.Groups = append(append([]string{}, q.Groups...), "system:authenticated")
					refA := refPolicies(ps, &withAuth)
					if got >= 0 {
						seen, _ := stubs[got].Get(id)
						told := *q
						told.User = strings.Join(seen.Header["Impersonate-User"], ",")
						told.Groups = append([]string{}, seen.Header["Impersonate-Group"]...)
						ref = refPolicies(ps, &told)
						r.Count("e2e_impersonated_judged_by_the_identity_told_upstream", 1)
						asImp := told
						asImp.User, asImp.Groups = impersonator.User, impersonator.Groups
						if refPolicies(ps, &asImp) != ref {
							r.Count("e2e_impersonated_where_the_impersonator_would_be_routed_differently", 1)
						}
					} else if refA != ref {
						r.Count("e2e_impersonated_not_forwarded_ambiguous_not_judged", 1)
						continue
					}
				}
				r.Eval(1)
				r.Count("e2e_requests", 1)
				r.Distinct(vkit.Hash64("e2e", fmt.Sprintf("%+v|%s %s|%+v", ps, method, path, *q)))
				if ref >= 0 {
					r.Count("e2e_forwarded_expected", 1)
				} else {
					r.Count("e2e_nomatch_expected", 1)
				}
				w := map[string]interface{}{"policies": ps, "method": method, "path": path, "attributes": q, "reference": ref, "stub": got, "status": resp.Status, "variant": variant, "impersonated_by": impersonator}
				switch {
				case hits > 1:
					r.Violation("C01/e2e/forwarded-more-than-once", fmt.Sprintf("request %s reached %d stubs", id, hits), w)
				case ref < 0 && got >= 0:
					r.Violation("C01/e2e/no-match-forwarded/"+e2eDiverge(ps, q, got), fmt.Sprintf("request matching no policy (documented semantics) was forwarded to the stub of policy %d: %s %s as %+v", got, method, path, *q), w)
				case ref >= 0 && down[ref]:
					r.Count("e2e_first_match_has_no_ready_endpoint", 1)
					if got >= 0 {
						r.Violation("C01/e2e/wrong-policy/first-match-has-no-ready-endpoint", fmt.Sprintf("the first matching policy %d has no ready endpoint; the request was handled under policy %d instead of being answered 503: %s %s as %+v", ref, got, method, path, *q), w)
					} else if resp.Status != 503 {
						r.Violation("C01/e2e/first-match-has-no-ready-endpoint/not-503", fmt.Sprintf("the first matching policy %d has no ready endpoint; the client got status %d instead of 503", ref, resp.Status), w)
					}
				case ref >= 0 && got != ref:
					r.Violation("C01/e2e/wrong-policy/"+e2eDiverge(ps, q, minNonNeg(got, ref)), fmt.Sprintf("handled under policy %d, first matching policy is %d: %s %s as %+v (status %d)", got, ref, method, path, *q, resp.Status), w)
				case ref < 0 && (resp.Status < 400 || (method != "HEAD" && !bytes.Contains(resp.Body, []byte(`"kind":"Status"`)))): // a HEAD answer has no body
					r.Violation("C01/e2e/no-match-not-rejected", fmt.Sprintf("no policy matches but the client got status %d body %.80q", resp.Status, resp.Body), w)
				}
				if i == 0 && k == 0 && variant == 0 {
					r.Sample(map[string]interface{}{"kind": "e2e", "method": method, "path": path, "attributes": q, "policies": len(ps), "reference": ref, "stub": got, "status": resp.Status})
				}
			}
		}
	}
}

// racing: requests are in flight while exactly one policy-list update is applied; the policy a request is handled under
// must be the first match of the list before OR after the update ("the cluster's current policy list").
func racingUpdates(r *vkit.R, gw *bed.Gateway, stubs []*bed.Stub, eps []string, tokenFor func(*Req) string, g *vkit.Rand) {
	rounds := r.N(15, 300)
	genPolicies := func() []proxyv1alpha1.DispatchPolicy {
		np := g.Range(1, len(eps))
		var ps []proxyv1alpha1.DispatchPolicy
		for p := 0; p < np; p++ {
			pol := proxyv1alpha1.DispatchPolicy{Strategy: proxyv1alpha1.RoundRobin, UpstreamSubset: []string{eps[p]}}
			pol.Rules = append(pol.Rules, genRule(g))
			ps = append(ps, pol)
		}
		return ps
	}
	cur := genPolicies()
	gw.Apply(bed.BuildCluster(bed.ClusterSpec{Name: "c01.e2e", Servers: eps, Policies: cur}))
	idn := 0
	for round := 0; round < rounds; round++ {
		next := genPolicies()
		type job struct {
			method, path, id, tok string
			q                     *Req
		}
		var jobs []job
		for k := 0; k < 24; k++ {
			m, p, q := httpShape(g)
			idn++
			jobs = append(jobs, job{m, p, fmt.Sprintf("c01-race-%d", idn), tokenFor(q), q})
		}
		type res struct {
			status int
			err    error
		}
		out := make([]res, len(jobs))
		done := make(chan int, len(jobs))
		for i := range jobs {
			go func(i int) {
				j := jobs[i]
				resp := gw.Do(bed.NewRequest(j.method, "c01.e2e", j.path, j.tok, j.id, bytes.NewReader(nil)))
				out[i] = res{resp.Status, resp.Err}
				done <- i
			}(i)
		}
		gw.Apply(bed.BuildCluster(bed.ClusterSpec{Name: "c01.e2e", Servers: eps, Policies: next}))
		for range jobs {
			<-done
		}
		for i, j := range jobs {
			if out[i].err != nil {
				r.Inconclusive("client error in racing phase: " + out[i].err.Error())
				return
			}
			got, hits := -1, 0
			for si, s := range stubs {
				if c := s.CountID(j.id); c > 0 {
					hits += c
					got = si
				}
			}
			a, b := refPolicies(cur, j.q), refPolicies(next, j.q)
			r.Eval(1)
			r.Count("e2e_racing_requests", 1)
			if a != b {
				r.Count("e2e_racing_requests_where_lists_disagree", 1)
			}
			if hits > 1 || (got != a && got != b) {
				r.Violation("C01/e2e/racing-update/neither-old-nor-new-list", fmt.Sprintf("request handled under policy %d (hits %d) while the list was being replaced; first match before=%d after=%d: %s %s as %+v",
					got, hits, a, b, j.method, j.path, *j.q), map[string]interface{}{"before": cur, "after": next, "request": j.q, "stub": got})
			}
		}
		cur = next
	}
}

func minNonNeg(a, b int) int {
	if a < 0 {
		return b
	}
	if b < 0 || a < b {
		return a
	}
	return b
}

func e2eDiverge(ps []proxyv1alpha1.DispatchPolicy, q *Req, pol int) string {
	if pol >= 0 && pol < len(ps) {
		for j := range ps[pol].Rules {
			if d := divergingField(&ps[pol].Rules[j], q); d != "combination" {
				return d
			}
		}
	}
	return "combination"
}
