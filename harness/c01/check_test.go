package c01

import (
	"fmt"
	"strings"
	"sync"
	"sync/atomic"
	"testing"

	metav1 "k8s.io/apimachinery/pkg/apis/meta/v1"
	"k8s.io/apiserver/pkg/authentication/user"
	"k8s.io/apiserver/pkg/authorization/authorizer"

	proxyv1alpha1 "github.com/kubewharf/kubegateway/pkg/apis/proxy/v1alpha1"
	"github.com/kubewharf/kubegateway/pkg/clusters"

	"verifharness/vkit"
)

func attrs(q *Req) authorizer.Attributes {
	return &authorizer.AttributesRecord{
		User:            &user.DefaultInfo{Name: q.User, Groups: q.Groups},
		Verb:            q.Verb,
		APIGroup:        q.Group,
		Resource:        q.Resource,
		Subresource:     q.Sub,
		Name:            q.Name,
		Path:            q.Path,
		ResourceRequest: q.IsResource,
	}
}

var alphabet = []string{"*", "a", "b", "-a", "-b", "", "-", "a*", "-a*", "*/s", "-*/s", "a/s", "-a/s", "a/*"}

func enumLists(alpha []string, maxLen int, fn func([]string)) {
	fn(nil)
	var rec func(cur []string)
	rec = func(cur []string) {
		if len(cur) > 0 {
			c := make([]string, len(cur))
			copy(c, cur)
			fn(c)
		}
		if len(cur) == maxLen {
			return
		}
		for _, a := range alpha {
			rec(append(cur, a))
		}
	}
	rec(nil)
}

func nontrivialList(l []string) bool {
	for _, e := range l {
		if e != "*" {
			return true
		}
	}
	return false
}

func TestCheck(t *testing.T) {
	vkit.Run(t, "C01", "exploration", func(r *vkit.R) {
		r.Rule("(1) per-field lists of length<=L over a 14-entry alphabet (wildcard, positive, inverted, empty string, bare dash, globs, */sub) x request values, exhaustive, through the exported per-field matchers; " +
			"(2) seeded random whole rules x attribute tuples x policy lists through clusters.RuleMatches/MatchPolicies/ClusterInfo.MatchAttributes; " +
			"(3) a sample sent as real HTTP requests through the proxy handler chain. Oracle = reference model of the documented list semantics. " +
			"Non-trivial = some list contains an entry other than '*'; distinct = hash of (lists, request).")
		r.Assume("the reference model (harness/c01/model.go) is a faithful reading of the property statement and docs/en/design.md")
		perField(r)
		wholeRules(r)
		policySwapUnderLoad(r)
		endToEnd(r)
		r.Require(r.Counter("field_cases") > 1000 && r.Counter("rule_cases") > 1000, "too few cases evaluated")
		r.Require(r.Counter("e2e_impersonated_where_the_impersonator_would_be_routed_differently") >= int64(r.N(20, 150)), "too few allowed impersonations whose impersonator would be routed differently")
		r.Require(r.Counter("e2e_wide_shapes") >= int64(r.N(1200, 20000)), "too few end-to-end requests with request lines outside the basic templates")
	})
}

type fieldCase struct {
	Field   string   `json:"field"`
	List    []string `json:"list"`
	Request string   `json:"request"`
	Groups  []string `json:"groups,omitempty"`
	SAs     []string `json:"serviceAccounts,omitempty"`
	Real    bool     `json:"real"`
	Ref     bool     `json:"reference"`
}

func reportField(r *vkit.R, fc fieldCase, extra string) {
	sig := fmt.Sprintf("C01/field=%s/%s%s", fc.Field, listClass(fc.List), extra)
	r.Violation(sig, fmt.Sprintf("%s list %q on request %q (groups %q): real matcher says %v, documented semantics say %v",
		fc.Field, fc.List, fc.Request, fc.Groups, fc.Real, fc.Ref), fc)
}

func perField(r *vkit.R) {
	maxLen := r.N(3, 4)
	alpha := alphabet
	if !r.Quick() {
		// thorough: additionally length <= 4 over a reduced alphabet (done by a second pass below)
		defer perFieldPass(r, []string{"*", "a", "b", "-a", "-b", "a*", "-a*", "*/s", "-*/s"}, 4)
	}
	perFieldPass(r, alpha, maxLen)
}

func perFieldPass(r *vkit.R, alpha []string, maxLen int) {
	reqVals := []string{"a", "b", "c", "", "a1", "a/s", "b/s", "b/t", "a/s/t", "a/"}
	groupSets := [][]string{nil, {"a"}, {"b"}, {"c"}, {"a", "b"}, {"a", "c"}, {"c", "d"}, {"a", "b", "c"}, {""}, {"a1"}}
	type resReq struct{ res, sub string }
	resReqs := []resReq{{"a", ""}, {"b", ""}, {"c", ""}, {"a", "s"}, {"b", "s"}, {"b", "t"}, {"a1", ""}, {"", ""}, {"*", "s"}}
	saSets := [][]proxyv1alpha1.ServiceAccountRef{nil, {{Namespace: "n", Name: "x"}}, {{Namespace: "", Name: "x"}}, {{Namespace: "n", Name: "x"}, {Namespace: "m", Name: "y"}}}
	userVals := []string{"a", "b", "c", "", "a1", "a/x", "a/", "ab/c/d", "system:serviceaccount:n:x", "system:serviceaccount:m:y", "system:serviceaccount::x"}

	n := 0
	enumLists(alpha, maxLen, func(l []string) {
		nt := nontrivialList(l)
		key := strings.Join(l, "\x01")
		for _, v := range reqVals {
			cases := []struct {
				field     string
				real, ref bool
			}{
				{"verbs", proxyv1alpha1.VerbMatches(l, v), refVerb(l, v)},
				{"apiGroups", proxyv1alpha1.APIGroupMatches(l, v), refGroup(l, v)},
				{"resourceNames", proxyv1alpha1.ResourceNameMatches(l, v), refName(l, v)},
				{"nonResourceURLs", proxyv1alpha1.NonResourceURLMatches(l, v), refNonResource(l, v)},
			}
			for _, c := range cases {
				n++
				if nt {
					r.Distinct(vkit.Hash64(c.field, key, v))
				}
				if c.real != c.ref {
					reportField(r, fieldCase{Field: c.field, List: l, Request: v, Real: c.real, Ref: c.ref}, "")
				}
			}
		}
		for _, rq := range resReqs {
			combined := rq.res
			if rq.sub != "" {
				combined = rq.res + "/" + rq.sub
			}
			real, ref := proxyv1alpha1.ResourceMatches(l, combined, rq.sub), refResource(l, rq.res, rq.sub)
			n++
			if nt {
				r.Distinct(vkit.Hash64("resources", key, combined))
			}
			if real != ref {
				x := ""
				if rq.sub != "" {
					x = "/subresource-request"
				}
				reportField(r, fieldCase{Field: "resources", List: l, Request: combined, Real: real, Ref: ref}, x)
			}
		}
		for _, gs := range groupSets {
			real, ref := proxyv1alpha1.UserGroupMatches(l, gs), refUserGroups(l, gs)
			n++
			if nt {
				r.Distinct(vkit.Hash64("userGroups", key, strings.Join(gs, ",")))
			}
			if real != ref {
				x := fmt.Sprintf("/request-groups=%s", groupCountClass(len(gs)))
				reportField(r, fieldCase{Field: "userGroups", List: l, Groups: gs, Real: real, Ref: ref}, x)
			}
		}
		for si, sas := range saSets {
			for _, u := range userVals {
				real, ref := proxyv1alpha1.UserOrServiceAccountMatches(l, sas, u), refUser(l, sas, u)
				n++
				if nt {
					r.Distinct(vkit.Hash64("users", key, u, fmt.Sprint(si)))
				}
				if real != ref {
					var sn []string
					for _, s := range sas {
						sn = append(sn, s.Namespace+":"+s.Name)
					}
					reportField(r, fieldCase{Field: "users", List: l, Request: u, SAs: sn, Real: real, Ref: ref}, "")
				}
			}
		}
	})
	r.Eval(n)
	r.Count("field_cases", n)
	r.Set("per_field_exhaustive_max_len", maxLen)
	r.Sample(map[string]interface{}{"kind": "per-field", "list": []string{"-a", "-*/s"}, "request": "b/s", "real": proxyv1alpha1.ResourceMatches([]string{"-a", "-*/s"}, "b/s", "s"), "reference": refResource([]string{"-a", "-*/s"}, "b", "s")})
}

func groupCountClass(n int) string {
	switch {
	case n == 0:
		return "0"
	case n == 1:
		return "1"
	}
	return "many"
}

// ---- whole rules ----

var (
	verbs     = []string{"get", "list", "watch", "create", "update", "delete", "patch"}
	apiGroups = []string{"", "apps", "batch", "x.io"}
	resources = []string{"pods", "deployments", "nodes", "jobs", "events"}
	subs      = []string{"", "", "", "status", "log", "scale"}
	names     = []string{"", "n1", "n2", "nginx"}
	users     = []string{"admin", "admin1", "bob", "alice", "system:serviceaccount:kube-system:sa1", "system:serviceaccount:default:sa2", "system:kube-scheduler",
		"arn:aws:iam::1:role/admin", "oidc:https://issuer.example/alice", "admin/ops", "bob/",
		// case variant, inner blank, non-ASCII, very long (quantifier audit: "every request attribute tuple")
		"Bob", "bob smith", "用户甲", strings.Repeat("u", 300)}
	ugroups   = []string{"system:authenticated", "system:masters", "dev", "ops", "system:serviceaccounts", "DEV", "dév", strings.Repeat("g", 300)}
	paths     = []string{"/healthz", "/healthz/etcd", "/version", "/metrics", "/apis", "/", "/readyz/x/y"}
)

func genList(g *vkit.Rand, vals []string, allowGlob, allowStarSub bool) []string {
	switch g.Intn(10) {
	case 0:
		return nil
	case 1:
		return []string{"*"}
	}
	n := g.Range(1, 3)
	mode := g.Intn(4) // 0 positive, 1 inverted, 2 mixed, 3 positive
	var out []string
	for i := 0; i < n; i++ {
		v := g.Pick(vals)
		if allowGlob && g.Chance(0.25) && len(v) > 2 {
			v = v[:g.Range(1, len(v)-1)] + "*"
		}
		if allowStarSub && g.Chance(0.25) {
			v = "*/" + g.Pick([]string{"status", "log", "scale"})
		} else if allowStarSub && g.Chance(0.3) {
			v = v + "/" + g.Pick([]string{"status", "log", "scale"})
		}
		neg := mode == 1 || (mode == 2 && g.Bool())
		if neg {
			v = "-" + v
		}
		out = append(out, v)
	}
	if g.Chance(0.05) {
		out = append(out, "*")
	}
	if g.Chance(0.05) {
		out = append(out, out[0])
	}
	return out
}

func genRule(g *vkit.Rand) proxyv1alpha1.DispatchPolicyRule {
	ru := proxyv1alpha1.DispatchPolicyRule{
		Verbs:           genList(g, verbs, false, false),
		APIGroups:       genList(g, apiGroups, false, false),
		Resources:       genList(g, resources, false, true),
		NonResourceURLs: genList(g, paths, true, false),
	}
	// optional fields are often empty or '*' so that whole rules match reasonably often
	if g.Chance(0.4) {
		ru.ResourceNames = genList(g, names, false, false)
	}
	if g.Chance(0.5) {
		ru.Users = genList(g, users, true, false)
	}
	if g.Chance(0.4) {
		ru.UserGroups = genList(g, ugroups, false, false)
	}
	if g.Chance(0.25) {
		k := g.Range(1, 2)
		for i := 0; i < k; i++ {
			sa := proxyv1alpha1.ServiceAccountRef{Namespace: g.Pick([]string{"kube-system", "default", ""}), Name: g.Pick([]string{"sa1", "sa2", ""})}
			ru.ServiceAccounts = append(ru.ServiceAccounts, sa)
		}
	}
	if g.Chance(0.5) {
		ru.Verbs = []string{"*"}
	}
	if g.Chance(0.3) {
		ru.APIGroups = []string{"*"}
	}
	return ru
}

func genReq(g *vkit.Rand) *Req {
	q := &Req{Verb: g.Pick(verbs), User: g.Pick(users)}
	ng := g.Intn(4)
	for i := 0; i < ng; i++ {
		q.Groups = append(q.Groups, g.Pick(ugroups))
	}
	if g.Chance(0.75) {
		q.IsResource = true
		q.Group = g.Pick(apiGroups)
		q.Resource = g.Pick(resources)
		q.Sub = g.Pick(subs)
		q.Name = g.Pick(names)
		q.Path = "/apis/" + q.Group + "/v1/" + q.Resource
	} else {
		q.Path = g.Pick(paths)
	}
	return q
}

// sibling returns a copy of q that differs in exactly one attribute.
func sibling(g *vkit.Rand, q *Req) *Req {
	c := *q
	c.Groups = append([]string(nil), q.Groups...)
	switch g.Intn(7) {
	case 0:
		c.Verb = g.Pick(verbs)
	case 1:
		c.User = g.Pick(users)
	case 2:
		if len(c.Groups) > 0 && g.Bool() {
			c.Groups = c.Groups[:len(c.Groups)-1]
		} else {
			c.Groups = append(c.Groups, g.Pick(ugroups))
		}
	case 3:
		if c.IsResource {
			c.Group = g.Pick(apiGroups)
		} else {
			c.Path = g.Pick(paths)
		}
	case 4:
		if c.IsResource {
			c.Resource = g.Pick(resources)
		} else {
			c.Path = g.Pick(paths)
		}
	case 5:
		if c.IsResource {
			c.Sub = g.Pick(subs)
		} else {
			c.Path = g.Pick(paths)
		}
	default:
		if c.IsResource {
			c.Name = g.Pick(names)
		} else {
			c.Verb = g.Pick(verbs)
		}
	}
	return &c
}

func ruleNontrivial(ru *proxyv1alpha1.DispatchPolicyRule) bool {
	for _, l := range [][]string{ru.Verbs, ru.APIGroups, ru.Resources, ru.ResourceNames, ru.Users, ru.UserGroups, ru.NonResourceURLs} {
		if nontrivialList(l) {
			return true
		}
	}
	return false
}

// divergingField names the first field whose real and reference verdicts differ for this request, or "combination".
func divergingField(ru *proxyv1alpha1.DispatchPolicyRule, q *Req) string {
	combined := q.Resource
	if q.Sub != "" {
		combined += "/" + q.Sub
	}
	type c struct {
		name      string
		list      []string
		real, ref bool
	}
	cs := []c{
		{"verbs", ru.Verbs, proxyv1alpha1.VerbMatches(ru.Verbs, q.Verb), refVerb(ru.Verbs, q.Verb)},
		{"users", ru.Users, proxyv1alpha1.UserOrServiceAccountMatches(ru.Users, ru.ServiceAccounts, q.User), refUser(ru.Users, ru.ServiceAccounts, q.User)},
		{"userGroups", ru.UserGroups, proxyv1alpha1.UserGroupMatches(ru.UserGroups, q.Groups), refUserGroups(ru.UserGroups, q.Groups)},
	}
	if q.IsResource {
		cs = append(cs,
			c{"apiGroups", ru.APIGroups, proxyv1alpha1.APIGroupMatches(ru.APIGroups, q.Group), refGroup(ru.APIGroups, q.Group)},
			c{"resources", ru.Resources, proxyv1alpha1.ResourceMatches(ru.Resources, combined, q.Sub), refResource(ru.Resources, q.Resource, q.Sub)},
			c{"resourceNames", ru.ResourceNames, proxyv1alpha1.ResourceNameMatches(ru.ResourceNames, q.Name), refName(ru.ResourceNames, q.Name)})
	} else {
		cs = append(cs, c{"nonResourceURLs", ru.NonResourceURLs, proxyv1alpha1.NonResourceURLMatches(ru.NonResourceURLs, q.Path), refNonResource(ru.NonResourceURLs, q.Path)})
	}
	for _, x := range cs {
		if x.real != x.ref {
			s := "field=" + x.name + "/" + listClass(x.list)
			if x.name == "userGroups" {
				s += "/request-groups=" + groupCountClass(len(q.Groups))
			}
			if x.name == "resources" && q.Sub != "" {
				s += "/subresource-request"
			}
			return s
		}
	}
	return "combination"
}

func wholeRules(r *vkit.R) {
	nRules := r.N(20000, 5000000)
	nPol := r.N(6000, 800000)
	var matched, nomatch int64

	// (2a) single rule through RuleMatches
	r.Parallel(nRules, 16, func(i int, g *vkit.Rand) {
		ru := genRule(g)
		nt := ruleNontrivial(&ru)
		for k := 0; k < 4; k++ {
			q := genReq(g)
			real := clusters.RuleMatches(attrs(q), &ru)
			ref := refRule(&ru, q)
			r.Eval(1)
			r.Count("rule_cases", 1)
			if nt {
				r.Distinct(vkit.Hash64(fmt.Sprintf("%+v|%+v", ru, *q)))
			}
			if real != ref {
				r.Violation("C01/rule/"+divergingField(&ru, q),
					fmt.Sprintf("RuleMatches=%v but documented semantics say %v for rule %+v on request %+v", real, ref, ru, *q),
					map[string]interface{}{"rule": ru, "request": q, "real": real, "reference": ref})
			}
		}
	})

	// (2b) policy lists through MatchPolicies and ClusterInfo.MatchAttributes
	r.Parallel(nPol, 16, func(i int, g *vkit.Rand) {
		np := g.Range(1, 5)
		var ps []proxyv1alpha1.DispatchPolicy
		for p := 0; p < np; p++ {
			pol := proxyv1alpha1.DispatchPolicy{FlowControlSchemaName: fmt.Sprintf("p%d", p)}
			nr := g.Range(1, 3)
			for k := 0; k < nr; k++ {
				pol.Rules = append(pol.Rules, genRule(g))
			}
			ps = append(ps, pol)
		}
		ci := clusters.NewEmptyClusterInfo("c01", nil, nil, "", nil)
		uc := &proxyv1alpha1.UpstreamCluster{ObjectMeta: metav1.ObjectMeta{Name: "c01"}}
		uc.Spec.DispatchPolicies = ps
		if err := ci.Sync(uc); err != nil {
			r.Inconclusive("Sync of a policy-only cluster failed: " + err.Error())
			return
		}
		defer ci.Stop()
		// purity: besides fresh requests, "siblings" of earlier requests that differ in exactly one attribute are asked,
		// and earlier requests are asked again — a decision that depends on what was asked before (a cache keyed by
		// too little, state carried between calls) shows up as a divergence from the history-free reference.
		var asked []*Req
		for k := 0; k < 10; k++ {
			var q *Req
			switch {
			case k >= 3 && len(asked) > 0 && k%3 == 0:
				q = sibling(g, asked[g.Intn(len(asked))])
			case k >= 3 && len(asked) > 0 && k%3 == 1:
				c := *asked[g.Intn(len(asked))]
				q = &c
			default:
				q = genReq(g)
			}
			asked = append(asked, q)
			ref := refPolicies(ps, q)
			got := -1
			if p := clusters.MatchPolicies(attrs(q), ps); p != nil {
				fmt.Sscanf(p.FlowControlSchemaName, "p%d", &got)
			}
			got2 := -1
			picker, err := ci.MatchAttributes(attrs(q))
			if err == nil {
				fmt.Sscanf(picker.FlowControlName(), "p%d", &got2)
			} else if err != clusters.ErrNoRouterRuleMatches {
				got2 = -2
			}
			r.Eval(1)
			r.Count("policy_list_cases", 1)
			r.Distinct(vkit.Hash64(fmt.Sprintf("%+v|%+v", ps, *q)))
			if ref >= 0 {
				r.Count("policy_matched", 1)
				_ = matched
			} else {
				r.Count("policy_nomatch", 1)
				_ = nomatch
			}
			if got != ref || got2 != ref {
				sig := "C01/policies/"
				if got != got2 {
					sig += "MatchAttributes-differs-from-MatchPolicies"
				} else {
					// attribute to the rule-level divergence of the policy that decided wrongly
					first := got
					if ref >= 0 && (first < 0 || ref < first) {
						first = ref
					}
					sig += "combination"
					if first >= 0 {
						for j := range ps[first].Rules {
							if clusters.RuleMatches(attrs(q), &ps[first].Rules[j]) != refRule(&ps[first].Rules[j], q) {
								sig = "C01/policies/" + divergingField(&ps[first].Rules[j], q)
								break
							}
						}
					}
				}
				r.Violation(sig, fmt.Sprintf("policy chosen: MatchPolicies=%d MatchAttributes=%d, first matching policy by the documented semantics=%d; request %+v", got, got2, ref, *q),
					map[string]interface{}{"policies": ps, "request": q, "matchPolicies": got, "matchAttributes": got2, "reference": ref})
			}
			if i < 2 && k == 0 {
				r.Sample(map[string]interface{}{"kind": "policy-list", "policies": ps, "request": q, "chosen": got, "reference": ref})
			}
		}
	})
}

// policySwapUnderLoad: goroutines match requests through ClusterInfo.MatchAttributes exactly as the dispatcher does while
// the cluster's policy list is swapped back and forth between two generated lists A and B a fixed number of times.
// Every policy carries a name that identifies its list and index ("A3", "B0"), so the policy a request was handled under is
// observable. Oracle ("the decision depends only on the request attributes and the cluster's current policy list"): the
// result must be the first match of list A or the first match of list B (both computed by the reference model) — a result
// that mixes the two lists (index found in one list, policy taken from the other) is neither.
func policySwapUnderLoad(r *vkit.R) {
	scen := r.N(8, 80)
	swaps := r.N(4000, 20000)
	r.Parallel(scen, 8, func(i int, g *vkit.Rand) {
		mk := func(tag string) []proxyv1alpha1.DispatchPolicy {
			np := g.Range(2, 5)
			var ps []proxyv1alpha1.DispatchPolicy
			for p := 0; p < np; p++ {
				pol := proxyv1alpha1.DispatchPolicy{FlowControlSchemaName: fmt.Sprintf("%s%d", tag, p)}
				nr := g.Range(1, 2)
				for k := 0; k < nr; k++ {
					pol.Rules = append(pol.Rules, genRule(g))
				}
				ps = append(ps, pol)
			}
			return ps
		}
		A, B := mk("A"), mk("B")
		// requests on which the two lists disagree about the index are the informative ones
		var reqs []*Req
		for len(reqs) < 12 {
			q := genReq(g)
			a, b := refPolicies(A, q), refPolicies(B, q)
			if a != b || len(reqs) >= 8 || g.Chance(0.02) {
				reqs = append(reqs, q)
			}
		}
		type want struct{ a, b string }
		wants := make([]want, len(reqs))
		name := func(tag string, idx int) string {
			if idx < 0 {
				return "none"
			}
			return fmt.Sprintf("%s%d", tag, idx)
		}
		for k, q := range reqs {
			wants[k] = want{name("A", refPolicies(A, q)), name("B", refPolicies(B, q))}
		}
		ci := clusters.NewEmptyClusterInfo("c01swap", nil, nil, "", nil)
		defer ci.Stop()
		ucA := &proxyv1alpha1.UpstreamCluster{ObjectMeta: metav1.ObjectMeta{Name: "c01swap"}}
		ucA.Spec.DispatchPolicies = A
		ucB := ucA.DeepCopy()
		ucB.Spec.DispatchPolicies = B
		if err := ci.Sync(ucA); err != nil {
			r.Inconclusive("policy-only Sync failed: " + err.Error())
			return
		}
		var stop int32
		var wg sync.WaitGroup
		var decisions int64
		for w := 0; w < 6; w++ {
			wg.Add(1)
			go func(w int) {
				defer wg.Done()
				k := w
				for atomic.LoadInt32(&stop) == 0 {
					k = (k + 1) % len(reqs)
					got := "none"
					picker, err := ci.MatchAttributes(attrs(reqs[k]))
					if err == nil {
						got = picker.FlowControlName()
					} else if err != clusters.ErrNoRouterRuleMatches {
						got = "error:" + err.Error()
					}
					atomic.AddInt64(&decisions, 1)
					if got != wants[k].a && got != wants[k].b {
						r.Violation("C01/policy-swap-under-load/decision-of-neither-list",
							fmt.Sprintf("while the policy list was swapped between lists A and B, request %+v was handled under %q; first match in A is %q, in B %q", *reqs[k], got, wants[k].a, wants[k].b),
							map[string]interface{}{"A": A, "B": B, "request": reqs[k], "got": got, "firstMatchA": wants[k].a, "firstMatchB": wants[k].b})
					}
				}
			}(w)
		}
		for n := 0; n < swaps; n++ {
			if n%2 == 0 {
				_ = ci.Sync(ucB)
			} else {
				_ = ci.Sync(ucA)
			}
		}
		atomic.StoreInt32(&stop, 1)
		wg.Wait()
		r.Eval(1)
		r.Count("swap_scenarios", 1)
		r.Count("swap_policy_list_swaps", swaps)
		r.Count("swap_decisions_concurrent_with_swaps", int(decisions))
	})
	r.Require(r.Counter("swap_decisions_concurrent_with_swaps") > 10000, "too few routing decisions concurrent with policy-list swaps")
}
