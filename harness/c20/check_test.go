package c20

import (
	"context"
	"encoding/json"
	"fmt"
	"reflect"
	"sort"
	"strings"
	"testing"
	"time"

	apiequality "k8s.io/apimachinery/pkg/api/equality"
	"k8s.io/apimachinery/pkg/api/meta"
	metav1 "k8s.io/apimachinery/pkg/apis/meta/v1"
	"k8s.io/apimachinery/pkg/runtime"
	"k8s.io/apimachinery/pkg/types"
	genericapirequest "k8s.io/apiserver/pkg/endpoints/request"
	"k8s.io/apiserver/pkg/registry/rest"

	proxyv1alpha1 "github.com/kubewharf/kubegateway/pkg/apis/proxy/v1alpha1"

	"verifharness/vkit"
)

// A case is (stored object, list of named edits); the submitted object is a deep copy of the stored one with the edits
// applied. Edits are closures over pre-drawn values, so any subset of them can be re-applied to a fresh copy: that is how
// a violating pair is shrunk to the minimal set of differing parts that still violates (the signature's feature).
type edit struct {
	Name  string // e.g. "spec.servers"
	Part  string // labels | annotations | finalizers | ownerReferences | client-generation | other-metadata | spec | status
	Apply func(o runtime.Object)
}

type kindGen struct {
	Kind    string
	Stored  func(g *vkit.Rand) runtime.Object
	SpecSt  []func(g *vkit.Rand) edit // spec and status edits (typed)
	Comment string
}

// ---------- generic metadata edits ----------

func acc(o runtime.Object) metav1.Object {
	a, err := meta.Accessor(o)
	if err != nil {
		panic(err)
	}
	return a
}

var (
	labelKeys = []string{"app", "tier", "env"}
	// annotation keys: well-known ones (a comparison that special-cases any of them changes the generation rule), keys with
	// and without prefix
	annKeys = []string{"note", "proxy.kubegateway.io/feature-gates", "owner", "kubectl.kubernetes.io/last-applied-configuration",
		"kubernetes.io/change-cause", "deployment.kubernetes.io/revision", "example.com/marker", "control-plane.alpha.kubernetes.io/leader"}
	vals    = []string{"a", "b", "c", ""}
	annVals = []string{"a", "b", "c", "", "1", "2", "kubectl apply --filename=cluster.yaml --record=true",
		`{"apiVersion":"proxy.kubegateway.io/v1alpha1","kind":"UpstreamCluster","metadata":{"annotations":{},"labels":{"app":"a"},"name":"c20-cluster"},"spec":{"servers":[{"endpoint":"https://10.0.0.1:6443"}]}}`,
		`{"apiVersion":"proxy.kubegateway.io/v1alpha1","kind":"UpstreamCluster","metadata":{"annotations":{},"labels":{"app":"b"},"name":"c20-cluster"},"spec":{"servers":[{"endpoint":"https://10.0.0.1:6443"}]}}`}
)

func metaEdits() []func(g *vkit.Rand) edit {
	return []func(g *vkit.Rand) edit{
		func(g *vkit.Rand) edit {
			k, v, mode := g.Pick(labelKeys), g.Pick(vals), g.Intn(4)
			return edit{"labels", "labels", func(o runtime.Object) {
				a := acc(o)
				l := copyMap(a.GetLabels())
				switch mode {
				case 0, 1:
					if l == nil {
						l = map[string]string{}
					}
					l[k] = v
				case 2:
					delete(l, k)
				case 3:
					l = nil
				}
				a.SetLabels(l)
			}}
		},
		func(g *vkit.Rand) edit {
			k, v, mode := g.Pick(annKeys), g.Pick(annVals), g.Intn(4)
			return edit{"annotations", "annotations", func(o runtime.Object) {
				a := acc(o)
				l := copyMap(a.GetAnnotations())
				switch mode {
				case 0, 1:
					if l == nil {
						l = map[string]string{}
					}
					l[k] = v
				case 2:
					delete(l, k)
				case 3:
					l = nil
				}
				a.SetAnnotations(l)
			}}
		},
		// what `kubectl apply` of a label edit sends: the label and the last-applied-configuration annotation change together
		func(g *vkit.Rand) edit {
			k, v, av := g.Pick(labelKeys), g.Pick(vals), g.Pick(annVals[7:])
			return edit{"labels+last-applied-configuration", "annotations", func(o runtime.Object) {
				a := acc(o)
				l := copyMap(a.GetLabels())
				if l == nil {
					l = map[string]string{}
				}
				l[k] = v
				a.SetLabels(l)
				an := copyMap(a.GetAnnotations())
				if an == nil {
					an = map[string]string{}
				}
				an["kubectl.kubernetes.io/last-applied-configuration"] = av
				a.SetAnnotations(an)
			}}
		},
		// one annotation REPLACED by another, the count stays: marker annotations (empty value) old and/or new, a key-only
		// change (value kept), a valued annotation replaced by a marker
		func(g *vkit.Rand) edit {
			newKey, mode := g.Pick(append([]string{"paused", "drain", "note2"}, annKeys...)), g.Intn(3)
			return edit{"annotations(key replaced, same count)", "annotations", func(o runtime.Object) {
				a := acc(o)
				l := copyMap(a.GetAnnotations())
				if len(l) == 0 {
					return
				}
				var ks []string
				for k := range l {
					ks = append(ks, k)
				}
				sort.Strings(ks)
				oldKey := ks[0]
				if _, exists := l[newKey]; exists || newKey == oldKey {
					return
				}
				v := l[oldKey]
				delete(l, oldKey)
				switch mode {
				case 0:
					l[newKey] = "" // marker
				case 1:
					l[newKey] = v // key-only change
				case 2:
					l[newKey] = "x"
				}
				a.SetAnnotations(l)
			}}
		},
		// value "" <-> key missing, and "" <-> some value
		func(g *vkit.Rand) edit {
			k, mode := g.Pick(annKeys), g.Intn(2)
			return edit{"annotations(empty value)", "annotations", func(o runtime.Object) {
				a := acc(o)
				l := copyMap(a.GetAnnotations())
				v, has := l[k]
				switch {
				case !has:
					if l == nil {
						l = map[string]string{}
					}
					l[k] = ""
				case v == "" && mode == 0:
					delete(l, k)
				case v == "":
					l[k] = "x"
				default:
					l[k] = ""
				}
				a.SetAnnotations(l)
			}}
		},
		// boundary shapes: a key that differs only in letter case, a non-ASCII value, 40 entries at once
		func(g *vkit.Rand) edit {
			mode, onLabels := g.Intn(3), g.Bool()
			name, part := "annotations(case/non-ASCII/many)", "annotations"
			if onLabels {
				name, part = "labels(case/many)", "labels"
			}
			return edit{name, part, func(o runtime.Object) {
				a := acc(o)
				get, set := a.GetAnnotations, a.SetAnnotations
				if onLabels {
					get, set = a.GetLabels, a.SetLabels
				}
				l := copyMap(get())
				if l == nil {
					l = map[string]string{}
				}
				switch mode {
				case 0: // same key, other case (a different key)
					var ks []string
					for k := range l {
						ks = append(ks, k)
					}
					sort.Strings(ks) // edits must be deterministic: they are re-applied when a pair is shrunk
					for _, k := range ks {
						if up := strings.ToUpper(k[:1]) + k[1:]; up != k && !strings.Contains(k, "/") {
							v := l[k]
							delete(l, k)
							l[up] = v
							break
						}
					}
				case 1:
					if onLabels {
						l["tier"] = "Tier-1"
					} else {
						l["note"] = "héllo wörld ✓"
					}
				case 2:
					for i := 0; i < 40; i++ {
						l[fmt.Sprintf("k%d", i)] = fmt.Sprint(i % 3)
					}
				}
				set(l)
			}}
		},
		// nil <-> empty map: the same stored form (omitempty); judged as "either verdict acceptable" (see ambiguous)
		func(g *vkit.Rand) edit {
			return edit{"annotations(nil<->empty)", "annotations", func(o runtime.Object) {
				a := acc(o)
				switch {
				case a.GetAnnotations() == nil:
					a.SetAnnotations(map[string]string{})
				case len(a.GetAnnotations()) == 0:
					a.SetAnnotations(nil)
				}
			}}
		},
		func(g *vkit.Rand) edit {
			f, add := g.Pick([]string{"proxy.kubegateway.io/cleanup", "example.com/f"}), g.Bool()
			return edit{"finalizers", "finalizers", func(o runtime.Object) {
				a := acc(o)
				var out []string
				for _, x := range a.GetFinalizers() {
					if x != f {
						out = append(out, x)
					}
				}
				if add {
					out = append(out, f)
				}
				a.SetFinalizers(out)
			}}
		},
		func(g *vkit.Rand) edit {
			n := g.Pick([]string{"o1", "o2"})
			return edit{"ownerReferences", "ownerReferences", func(o runtime.Object) {
				acc(o).SetOwnerReferences([]metav1.OwnerReference{{APIVersion: "v1", Kind: "ConfigMap", Name: n, UID: types.UID("uid-" + n)}})
			}}
		},
		func(g *vkit.Rand) edit {
			gen := int64(g.PickInt([]int{0, 1, 7, 1000, -3}))
			return edit{"metadata.generation(client-sent)", "client-generation", func(o runtime.Object) { acc(o).SetGeneration(gen) }}
		},
		func(g *vkit.Rand) edit {
			mode := g.Intn(6)
			return edit{"metadata.other", "other-metadata", func(o runtime.Object) {
				a := acc(o)
				switch mode {
				case 3: // system fields a client may send back changed; the API path puts them right or ignores them
					a.SetCreationTimestamp(metav1.NewTime(time.Unix(1700000000, 0)))
				case 4:
					a.SetSelfLink("/apis/proxy.kubegateway.io/v1alpha1/upstreamclusters/elsewhere")
				case 5:
					a.SetGenerateName("c20-")
				case 0:
					a.SetClusterName("elsewhere")
				case 1:
					a.SetNamespace("ns-sent-by-client")
				case 2:
					a.SetManagedFields([]metav1.ManagedFieldsEntry{{Manager: "kubectl", Operation: metav1.ManagedFieldsOperationUpdate}})
				}
			}}
		},
	}
}

func copyMap(m map[string]string) map[string]string {
	if m == nil {
		return nil
	}
	o := make(map[string]string, len(m))
	for k, v := range m {
		o[k] = v
	}
	return o
}

// object names: the conventions do not depend on the name; upper case, ':' , IPv6 literal, 253 characters are all legal path
// segment names for these cluster-scoped kinds
var objNames = []string{"c20-cluster", "c20-cluster", "Cluster-A.Example.COM", "cluster-a.example.com:6443", "[2001:db8::1]:6443", "x", strings.Repeat("a", 253), "集群-1"}

func storedMeta(g *vkit.Rand, name string) metav1.ObjectMeta {
	m := metav1.ObjectMeta{
		Name:              name,
		UID:               types.UID("uid-" + name),
		ResourceVersion:   fmt.Sprint(g.Range(1, 9999)),
		Generation:        int64(g.PickInt([]int{0, 1, 2, 5, 41, 1 << 20})),
		CreationTimestamp: metav1.NewTime(time.Unix(1600000000, 0)),
	}
	if g.Chance(0.6) {
		m.Labels = map[string]string{}
		for i, n := 0, g.Intn(3); i < n; i++ {
			m.Labels[g.Pick(labelKeys)] = g.Pick(vals)
		}
	}
	if g.Chance(0.6) {
		m.Annotations = map[string]string{}
		for i, n := 0, g.Intn(3); i < n; i++ {
			m.Annotations[g.Pick(annKeys)] = g.Pick(annVals)
		}
	}
	if g.Chance(0.25) && m.Annotations != nil {
		m.Annotations[g.Pick([]string{"paused", "drain"})] = "" // marker annotation
	}
	if g.Chance(0.2) {
		m.Finalizers = []string{"example.com/f"}
	}
	if g.Chance(0.25) {
		// terminating: deleted, kept by a finalizer. rest.BeforeUpdate keeps deletionTimestamp / grace period of the stored
		// object and refuses new finalizers; the conventions of the statement do not depend on this state
		dt := metav1.NewTime(time.Unix(1600000500, 0))
		grace := int64(30)
		m.DeletionTimestamp, m.DeletionGracePeriodSeconds = &dt, &grace
		if len(m.Finalizers) == 0 {
			m.Finalizers = []string{"proxy.kubegateway.io/cleanup"}
		}
	}
	return m
}

// ---------- UpstreamCluster ----------

func bp(b bool) *bool { return &b }

func genUCSpec(g *vkit.Rand) proxyv1alpha1.UpstreamClusterSpec {
	var s proxyv1alpha1.UpstreamClusterSpec
	for i, n := 0, g.Intn(3); i < n; i++ {
		sv := proxyv1alpha1.UpstreamClusterServer{Endpoint: fmt.Sprintf("https://10.0.0.%d:6443", g.Range(1, 4))}
		if g.Chance(0.4) {
			sv.Disabled = bp(g.Bool())
		}
		s.Servers = append(s.Servers, sv)
	}
	if g.Chance(0.5) {
		s.ClientConfig = proxyv1alpha1.ClientConfig{Insecure: g.Bool(), BearerToken: []byte(g.Pick(vals)), QPS: int32(g.Intn(3)), ServerName: g.Pick(vals)}
	}
	if g.Chance(0.4) {
		s.SecureServing.ServerNames = []string{g.Pick(vals) + ".example.com"}
	}
	if g.Chance(0.5) {
		fc := proxyv1alpha1.FlowControlSchema{Name: g.Pick([]string{"f1", "f2"})}
		switch g.Intn(3) {
		case 0:
			fc.MaxRequestsInflight = &proxyv1alpha1.MaxRequestsInflightFlowControlSchema{Max: int32(g.Range(1, 3))}
		case 1:
			fc.TokenBucket = &proxyv1alpha1.TokenBucketFlowControlSchema{QPS: int32(g.Range(1, 3)), Burst: 5}
		case 2:
			fc.Exempt = &proxyv1alpha1.ExemptFlowControlSchema{}
		}
		s.FlowControl.Schemas = append(s.FlowControl.Schemas, fc)
	}
	if g.Chance(0.6) {
		s.DispatchPolicies = []proxyv1alpha1.DispatchPolicy{{Strategy: proxyv1alpha1.RoundRobin, FlowControlSchemaName: g.Pick([]string{"f1", "f2", ""}),
			Rules: []proxyv1alpha1.DispatchPolicyRule{{Verbs: []string{g.Pick([]string{"*", "get", "-list"})}, APIGroups: []string{"*"}, Resources: []string{"*"}}}}}
	}
	if g.Chance(0.3) {
		s.Logging.Mode = proxyv1alpha1.LogMode(g.Pick([]string{"on", "off"}))
	}
	return s
}

func ucKind() kindGen {
	uc := func(o runtime.Object) *proxyv1alpha1.UpstreamCluster { return o.(*proxyv1alpha1.UpstreamCluster) }
	return kindGen{
		Kind: "UpstreamCluster",
		Stored: func(g *vkit.Rand) runtime.Object {
			return &proxyv1alpha1.UpstreamCluster{ObjectMeta: storedMeta(g, g.Pick(objNames)), Spec: genUCSpec(g)}
		},
		SpecSt: []func(g *vkit.Rand) edit{
			func(g *vkit.Rand) edit {
				s := genUCSpec(g)
				return edit{"spec(whole)", "spec", func(o runtime.Object) { uc(o).Spec = *s.DeepCopy() }}
			},
			func(g *vkit.Rand) edit {
				ep, dis := fmt.Sprintf("https://10.0.1.%d:6443", g.Range(1, 3)), g.Bool()
				return edit{"spec.servers", "spec", func(o runtime.Object) {
					u := uc(o)
					if len(u.Spec.Servers) > 0 && dis {
						u.Spec.Servers[0].Disabled = bp(u.Spec.Servers[0].Disabled == nil || !*u.Spec.Servers[0].Disabled)
						return
					}
					u.Spec.Servers = append(u.Spec.Servers, proxyv1alpha1.UpstreamClusterServer{Endpoint: ep})
				}}
			},
			func(g *vkit.Rand) edit {
				q := int32(g.Range(0, 2))
				return edit{"spec.clientConfig.qps", "spec", func(o runtime.Object) { uc(o).Spec.ClientConfig.QPS = q }}
			},
			func(g *vkit.Rand) edit {
				m := int32(g.Range(1, 3))
				return edit{"spec.flowControl", "spec", func(o runtime.Object) {
					u := uc(o)
					if len(u.Spec.FlowControl.Schemas) > 0 && u.Spec.FlowControl.Schemas[0].MaxRequestsInflight != nil {
						u.Spec.FlowControl.Schemas[0].MaxRequestsInflight = &proxyv1alpha1.MaxRequestsInflightFlowControlSchema{Max: m}
						return
					}
					u.Spec.FlowControl.Schemas = append(u.Spec.FlowControl.Schemas, proxyv1alpha1.FlowControlSchema{Name: "fx",
						FlowControlSchemaConfiguration: proxyv1alpha1.FlowControlSchemaConfiguration{MaxRequestsInflight: &proxyv1alpha1.MaxRequestsInflightFlowControlSchema{Max: m}}})
				}}
			},
			func(g *vkit.Rand) edit {
				v := g.Pick([]string{"get", "list", "*"})
				return edit{"spec.dispatchPolicies", "spec", func(o runtime.Object) {
					u := uc(o)
					if len(u.Spec.DispatchPolicies) > 0 && len(u.Spec.DispatchPolicies[0].Rules) > 0 {
						u.Spec.DispatchPolicies[0].Rules[0].Verbs = []string{v}
						return
					}
					u.Spec.DispatchPolicies = append(u.Spec.DispatchPolicies, proxyv1alpha1.DispatchPolicy{Rules: []proxyv1alpha1.DispatchPolicyRule{{Verbs: []string{v}}}})
				}}
			},
			// a *bool that goes nil <-> false (different stored forms: omitted vs false)
			func(g *vkit.Rand) edit {
				return edit{"spec.servers[0].disabled(nil<->false)", "spec", func(o runtime.Object) {
					u := uc(o)
					if len(u.Spec.Servers) == 0 {
						return
					}
					sv := append([]proxyv1alpha1.UpstreamClusterServer(nil), u.Spec.Servers...)
					if sv[0].Disabled == nil {
						sv[0].Disabled = bp(false)
					} else if !*sv[0].Disabled {
						sv[0].Disabled = nil
					}
					u.Spec.Servers = sv
				}}
			},
			// the same servers in another order
			func(g *vkit.Rand) edit {
				return edit{"spec.servers(reordered)", "spec", func(o runtime.Object) {
					u := uc(o)
					n := len(u.Spec.Servers)
					if n < 2 {
						return
					}
					sv := make([]proxyv1alpha1.UpstreamClusterServer, n)
					for i := range sv {
						sv[i] = u.Spec.Servers[n-1-i]
					}
					u.Spec.Servers = sv
				}}
			},
			// byte fields: content change, nil <-> empty
			func(g *vkit.Rand) edit {
				mode := g.Intn(3)
				return edit{"spec.secureServing.keyData", "spec", func(o runtime.Object) {
					u := uc(o)
					switch mode {
					case 0:
						u.Spec.SecureServing.KeyData = []byte("-----BEGIN KEY-----\nA\n")
					case 1:
						u.Spec.SecureServing.KeyData = append(append([]byte(nil), u.Spec.SecureServing.KeyData...), 'x')
					case 2:
						if u.Spec.SecureServing.KeyData == nil {
							u.Spec.SecureServing.KeyData = []byte{}
						} else if len(u.Spec.SecureServing.KeyData) == 0 {
							u.Spec.SecureServing.KeyData = nil
						}
					}
				}}
			},
			// nil <-> empty list inside the spec: same stored form, "either verdict acceptable"
			func(g *vkit.Rand) edit {
				return edit{"spec.servers(nil<->empty)", "spec", func(o runtime.Object) {
					u := uc(o)
					switch {
					case u.Spec.Servers == nil:
						u.Spec.Servers = []proxyv1alpha1.UpstreamClusterServer{}
					case len(u.Spec.Servers) == 0:
						u.Spec.Servers = nil
					}
				}}
			},
			// UpstreamClusterStatus has no fields on this tree: a "status edit" cannot differ; kept so that the case list
			// has the slot (and starts differing the day the type gains a field — through reflection below)
			func(g *vkit.Rand) edit {
				x := g.Uint64()
				return edit{"status", "status", func(o runtime.Object) { fillStatus(reflect.ValueOf(o).Elem().FieldByName("Status"), x) }}
			},
		},
	}
}

// fillStatus writes seeded values into whatever exported fields a status struct has (strings, ints, bools; slices of
// structs get one element).
func fillStatus(v reflect.Value, x uint64) {
	if !v.IsValid() || !v.CanSet() {
		return
	}
	switch v.Kind() {
	case reflect.Struct:
		for i := 0; i < v.NumField(); i++ {
			fillStatus(v.Field(i), x*31+uint64(i)+1)
		}
	case reflect.String:
		v.SetString(fmt.Sprintf("s%d", x%5))
	case reflect.Int, reflect.Int32, reflect.Int64:
		v.SetInt(int64(x % 7))
	case reflect.Bool:
		v.SetBool(x%2 == 0)
	case reflect.Slice:
		if v.Type().Elem().Kind() == reflect.Struct {
			s := reflect.MakeSlice(v.Type(), 1, 1)
			fillStatus(s.Index(0), x*17+3)
			v.Set(s)
		}
	case reflect.Ptr:
		if v.Type().Elem().Kind() == reflect.Struct {
			p := reflect.New(v.Type().Elem())
			fillStatus(p.Elem(), x*13+5)
			v.Set(p)
		}
	}
}

// ---------- probe kind: RateLimitCondition pushed through the generic strategy registered for a SubStatus kind ----------

func genRLSpec(g *vkit.Rand) proxyv1alpha1.RateLimitSpec {
	s := proxyv1alpha1.RateLimitSpec{UpstreamCluster: g.Pick([]string{"u1", "u2"}), Instance: g.Pick([]string{"i1", "i2"})}
	for i, n := 0, g.Intn(3); i < n; i++ {
		it := proxyv1alpha1.RateLimitItemConfiguration{Name: g.Pick([]string{"f1", "f2"}), Strategy: proxyv1alpha1.GlobalAllocateLimit}
		if g.Bool() {
			it.MaxRequestsInflight = &proxyv1alpha1.MaxRequestsInflightFlowControlSchema{Max: int32(g.Range(1, 4))}
		} else {
			it.TokenBucket = &proxyv1alpha1.TokenBucketFlowControlSchema{QPS: int32(g.Range(1, 4)), Burst: int32(g.Range(1, 4))}
		}
		s.LimitItemConfigurations = append(s.LimitItemConfigurations, it)
	}
	return s
}

func genRLStatus(g *vkit.Rand) proxyv1alpha1.RateLimitStatus {
	var s proxyv1alpha1.RateLimitStatus
	for i, n := 0, g.Intn(3); i < n; i++ {
		it := proxyv1alpha1.RateLimitItemStatus{Name: g.Pick([]string{"f1", "f2"}), RequestLevel: int32(g.Intn(4))}
		if g.Bool() {
			it.MaxRequestsInflight = &proxyv1alpha1.MaxRequestsInflightFlowControlSchema{Max: int32(g.Range(1, 4))}
		} else {
			it.TokenBucket = &proxyv1alpha1.TokenBucketFlowControlSchema{QPS: int32(g.Range(1, 4)), Burst: int32(g.Range(1, 4))}
		}
		s.LimitItemStatuses = append(s.LimitItemStatuses, it)
	}
	return s
}

func rlKind() kindGen {
	rl := func(o runtime.Object) *proxyv1alpha1.RateLimitCondition { return o.(*proxyv1alpha1.RateLimitCondition) }
	return kindGen{
		Kind: "RateLimitCondition",
		Stored: func(g *vkit.Rand) runtime.Object {
			return &proxyv1alpha1.RateLimitCondition{ObjectMeta: storedMeta(g, g.Pick(objNames)), Spec: genRLSpec(g), Status: genRLStatus(g)}
		},
		SpecSt: []func(g *vkit.Rand) edit{
			func(g *vkit.Rand) edit {
				s := genRLSpec(g)
				return edit{"spec(whole)", "spec", func(o runtime.Object) { rl(o).Spec = *s.DeepCopy() }}
			},
			func(g *vkit.Rand) edit {
				v := g.Pick([]string{"i1", "i2", "i3"})
				return edit{"spec.instance", "spec", func(o runtime.Object) { rl(o).Spec.Instance = v }}
			},
			func(g *vkit.Rand) edit {
				m := int32(g.Range(1, 5))
				return edit{"spec.limitItemConfigurations", "spec", func(o runtime.Object) {
					r := rl(o)
					r.Spec.LimitItemConfigurations = append(append([]proxyv1alpha1.RateLimitItemConfiguration(nil), r.Spec.LimitItemConfigurations...),
						proxyv1alpha1.RateLimitItemConfiguration{Name: "fx", LimitItemDetail: proxyv1alpha1.LimitItemDetail{MaxRequestsInflight: &proxyv1alpha1.MaxRequestsInflightFlowControlSchema{Max: m}}})
				}}
			},
			func(g *vkit.Rand) edit {
				return edit{"spec.limitItemConfigurations(nil<->empty)", "spec", func(o runtime.Object) {
					r := rl(o)
					switch {
					case r.Spec.LimitItemConfigurations == nil:
						r.Spec.LimitItemConfigurations = []proxyv1alpha1.RateLimitItemConfiguration{}
					case len(r.Spec.LimitItemConfigurations) == 0:
						r.Spec.LimitItemConfigurations = nil
					}
				}}
			},
			func(g *vkit.Rand) edit {
				s := genRLStatus(g)
				return edit{"status(whole)", "status", func(o runtime.Object) { rl(o).Status = *s.DeepCopy() }}
			},
			func(g *vkit.Rand) edit {
				lv := int32(g.Range(5, 9))
				return edit{"status.limitItemStatuses", "status", func(o runtime.Object) {
					r := rl(o)
					r.Status.LimitItemStatuses = append(append([]proxyv1alpha1.RateLimitItemStatus(nil), r.Status.LimitItemStatuses...), proxyv1alpha1.RateLimitItemStatus{Name: "fx", RequestLevel: lv})
				}}
			},
		},
	}
}

// ---------- observations ----------

func part(o runtime.Object, name string) interface{} {
	return reflect.ValueOf(o).Elem().FieldByName(name).Interface()
}

func semEq(a, b interface{}) bool { return apiequality.Semantic.DeepEqual(a, b) }

func mapsSemEq(a, b map[string]string) bool {
	if len(a) == 0 && len(b) == 0 {
		return true
	}
	return reflect.DeepEqual(a, b)
}

// relation between two values of a part: "same" (identical in memory form and stored form), "differs" (different
// stored form), "ambiguous" (nil vs empty somewhere: same stored form — every list/map of these types is omitempty — but
// reflect.DeepEqual tells them apart; the statement's "change" can be read either way, so both verdicts are accepted).
func relation(a, b interface{}) string {
	if reflect.DeepEqual(a, b) {
		return "same"
	}
	if semEq(a, b) {
		return "ambiguous"
	}
	return "differs"
}

type opKind string

const (
	opCreate opKind = "create"
	opUpdate opKind = "main-update"
	opStatus opKind = "status-update"
)

type outcome struct {
	Class   string // "" = conforms; otherwise the violation class
	Detail  string
	Refused bool
	After   runtime.Object
}

func zeroOf(v interface{}) interface{} { return reflect.Zero(reflect.TypeOf(v)).Interface() }

// run pushes one pair through the real API path and judges it by the statement.
func run(k *servedKind, kg *kindGen, op opKind, stored runtime.Object, edits []edit) (out outcome) {
	submitted := stored.DeepCopyObject()
	for _, e := range edits {
		e.Apply(submitted)
	}
	old := stored.DeepCopyObject() // the API path may write into old (managedFields); the oracle keeps `stored` pristine
	ctx := genericapirequest.NewContext()
	var err error
	p := vkit.Safely(func() {
		switch op {
		case opCreate:
			err = rest.BeforeCreate(k.Create, ctx, submitted)
		case opUpdate:
			err = rest.BeforeUpdate(k.Update, ctx, submitted, old)
		case opStatus:
			err = rest.BeforeUpdate(k.Status, ctx, submitted, old)
		}
	})
	if p != nil {
		return outcome{Class: "panic", Detail: fmt.Sprintf("the API path panicked: %v", p)}
	}
	if err != nil {
		return outcome{Refused: true, Detail: err.Error()}
	}
	asked := stored.DeepCopyObject() // what the client asked for (before the API path touched it)
	for _, e := range edits {
		e.Apply(asked)
	}
	return judge(op, stored, asked, submitted)
}

// judge applies the statement to one observed transition: `stored` was there, the client sent `asked`, `submitted` is what
// the API path made of it (= what gets stored).
func judge(op opKind, stored, asked, submitted runtime.Object) (out outcome) {
	out.After = submitted
	sm, am := acc(stored), acc(submitted)
	switch op {
	case opCreate:
		if st := part(submitted, "Status"); !semEq(st, zeroOf(st)) {
			return outcome{Class: "status-kept", Detail: fmt.Sprintf("created object keeps the client's status %s", js(st)), After: submitted}
		}
		if am.GetGeneration() != 1 {
			return outcome{Class: "generation-not-1", Detail: fmt.Sprintf("created object has generation %d", am.GetGeneration()), After: submitted}
		}
	case opUpdate:
		if !semEq(part(submitted, "Status"), part(stored, "Status")) {
			return outcome{Class: "status-changed", Detail: fmt.Sprintf("status stored %s, after the main-resource update %s", js(part(stored, "Status")), js(part(submitted, "Status"))), After: submitted}
		}
		specRel := relation(part(stored, "Spec"), part(asked, "Spec"))
		annRel := relation(sm.GetAnnotations(), acc(asked).GetAnnotations())
		if annRel != "same" && mapsSemEq(sm.GetAnnotations(), acc(asked).GetAnnotations()) {
			annRel = "ambiguous"
		}
		g0, g1 := sm.GetGeneration(), am.GetGeneration()
		mustBump := specRel == "differs" || annRel == "differs"
		mayBump := mustBump || specRel == "ambiguous" || annRel == "ambiguous"
		switch {
		case g1 == g0+1 && !mayBump:
			return outcome{Class: "generation-bumped-without-spec-or-annotation-change", Detail: fmt.Sprintf("generation %d -> %d although spec and annotations are unchanged", g0, g1), After: submitted}
		case g1 == g0 && mustBump:
			w := "spec"
			if specRel != "differs" {
				w = "annotations"
			}
			return outcome{Class: "generation-not-bumped-on-" + w + "-change", Detail: fmt.Sprintf("generation stays %d although %s changed", g0, w), After: submitted}
		case g1 != g0 && g1 != g0+1:
			return outcome{Class: "generation-neither-kept-nor-plus-one", Detail: fmt.Sprintf("generation %d -> %d", g0, g1), After: submitted}
		}
	case opStatus:
		if !semEq(part(submitted, "Spec"), part(stored, "Spec")) {
			return outcome{Class: "spec-changed", Detail: fmt.Sprintf("spec stored %s, after the status update %s", js(part(stored, "Spec")), js(part(submitted, "Spec"))), After: submitted}
		}
		if !mapsSemEq(am.GetLabels(), sm.GetLabels()) {
			return outcome{Class: "labels-changed", Detail: fmt.Sprintf("labels stored %v, after the status update %v", sm.GetLabels(), am.GetLabels()), After: submitted}
		}
		// The generation clause is not limited to the main resource ("The generation increases by one exactly when the spec or
		// the annotations change, and stays the same otherwise"), and the first sentence lets a status update change annotations
		// (it only protects spec and labels). The stored spec cannot change on this path (just checked), so: if what is STORED
		// afterwards has other annotations than before, the generation must be +1; if the annotations stored are the same
		// (the client sent none other, or the API put the stored ones back), it must stay. nil vs empty: either.
		switch annRel, g0, g1 := relation(sm.GetAnnotations(), am.GetAnnotations()), sm.GetGeneration(), am.GetGeneration(); {
		case annRel == "same" && g1 != g0:
			return outcome{Class: "generation-changed", Detail: fmt.Sprintf("generation %d -> %d by a status update that changed neither spec nor annotations", g0, g1), After: submitted}
		case annRel == "differs" && g1 != g0+1:
			return outcome{Class: "generation-not-bumped-on-annotations-change", Detail: fmt.Sprintf("a status update stored other annotations (%v -> %v) and the generation went %d -> %d", sm.GetAnnotations(), am.GetAnnotations(), g0, g1), After: submitted}
		case annRel == "ambiguous" && g1 != g0 && g1 != g0+1:
			return outcome{Class: "generation-neither-kept-nor-plus-one", Detail: fmt.Sprintf("generation %d -> %d by a status update", g0, g1), After: submitted}
		}
	}
	return out
}

func js(v interface{}) string {
	b, _ := json.Marshal(v)
	s := string(b)
	if len(s) > 300 {
		s = s[:300] + "..."
	}
	return s
}

// shrink removes edits greedily while the same violation class is still produced by the real code.
func shrink(k *servedKind, kg *kindGen, op opKind, stored runtime.Object, edits []edit, class string) []edit {
	cur := edits
	for changed := true; changed; {
		changed = false
		for i := range cur {
			c := append(append([]edit(nil), cur[:i]...), cur[i+1:]...)
			if o := run(k, kg, op, stored, c); o.Class == class {
				cur, changed = c, true
				break
			}
		}
	}
	return cur
}

// keySpecific: when the pair differs in exactly one annotation key, the same pair with that key renamed to a neutral one
// (in the stored and in the submitted object) is run; if that conforms, the violation is specific to the key.
func keySpecific(k *servedKind, kg *kindGen, op opKind, stored runtime.Object, edits []edit, class string) string {
	asked := stored.DeepCopyObject()
	for _, e := range edits {
		e.Apply(asked)
	}
	sa, aa := acc(stored).GetAnnotations(), acc(asked).GetAnnotations()
	var diff []string
	for key, v := range sa {
		if w, ok := aa[key]; !ok || w != v {
			diff = append(diff, key)
		}
	}
	for key := range aa {
		if _, ok := sa[key]; !ok {
			diff = append(diff, key)
		}
	}
	if len(diff) != 1 {
		return ""
	}
	const neutral = "verif.example.com/neutral"
	renamed := func(m map[string]string) map[string]string {
		out := copyMap(m)
		if v, ok := out[diff[0]]; ok {
			delete(out, diff[0])
			out[neutral] = v
		}
		return out
	}
	st2 := stored.DeepCopyObject()
	acc(st2).SetAnnotations(renamed(sa))
	want := renamed(aa) // the submitted annotations with the key renamed, whatever kind of edit (add, change, removal) produced them
	final := edit{"annotations := submitted annotations with the key renamed", "annotations", func(o runtime.Object) { acc(o).SetAnnotations(copyMap(want)) }}
	if o := run(k, kg, op, st2, append(append([]edit(nil), edits...), final)); o.Class != class && !o.Refused {
		return diff[0]
	}
	return ""
}

// diffParts names the parts in which stored + edits really differs from stored (edits can cancel out).
func diffParts(stored runtime.Object, edits []edit) string {
	asked := stored.DeepCopyObject()
	for _, e := range edits {
		e.Apply(asked)
	}
	s, a := acc(stored), acc(asked)
	var ps []string
	add := func(name string, x, y interface{}) {
		switch relation(x, y) {
		case "differs":
			ps = append(ps, name)
		case "ambiguous":
			ps = append(ps, name+"(nil-vs-empty)")
		}
	}
	add("labels", s.GetLabels(), a.GetLabels())
	add("annotations", s.GetAnnotations(), a.GetAnnotations())
	add("finalizers", s.GetFinalizers(), a.GetFinalizers())
	add("ownerReferences", s.GetOwnerReferences(), a.GetOwnerReferences())
	add("client-generation", s.GetGeneration(), a.GetGeneration())
	add("other-metadata", []interface{}{s.GetClusterName(), s.GetNamespace(), s.GetManagedFields()}, []interface{}{a.GetClusterName(), a.GetNamespace(), a.GetManagedFields()})
	add("spec", part(stored, "Spec"), part(asked, "Spec"))
	add("status", part(stored, "Status"), part(asked, "Status"))
	if len(ps) == 0 {
		return "nothing"
	}
	return strings.Join(ps, "+")
}

func names(edits []edit) []string {
	out := []string{}
	for _, e := range edits {
		out = append(out, e.Name)
	}
	return out
}

// ---------- the check ----------

func TestCheck(t *testing.T) {
	vkit.Run(t, "C20", "exploration", func(r *vkit.R) {
		r.Rule("pairs (stored object, submitted object = stored + a random subset of 0..4 named edits out of: labels, annotations (incl. nil<->empty), finalizers, ownerReferences, client-sent generation, " +
			"clusterName/namespace/managedFields, annotation key replaced at equal count (marker/valued), annotation value ''<->missing<->value, whole spec, spec sub-fields (servers, clientConfig, flowControl, dispatchPolicies, nil<->empty list), status sub-fields) are pushed through the real k8s.io/apiserver " +
			"rest.BeforeCreate / rest.BeforeUpdate with the strategies of the genericregistry.Store objects that registry.NewResourceREST builds from the registered RESTStorageOptions (main store and status store); " +
			"every kind served with a status subresource is judged with its own objects; because UpstreamClusterStatus has no fields, the same registered (kind-generic, reflection based) strategies are also " +
			"exercised with RateLimitCondition objects (rich spec and status) as a probe kind. The no-difference pair and every single-edit pair are always included (systematic part), then random subsets. " +
			"Non-trivial = every case (each is a distinct (operation, stored, edits) triple by hash). A violating pair is shrunk to the minimal set of edits that still violates; the signature names the differing parts.")
		r.Assume("a nil list/map and an empty one are the same stored object (every such field is omitempty), so for pairs that differ only that way both 'generation kept' and 'generation+1' are accepted")
		r.Assume("a status update that stores other annotations is judged by the generation clause like any other change of the annotations (counted: status_update_with_annotation_change)")
		r.Assume("the probe kind is only used while the registered strategy is the kind-generic registry.DefaultRESTStrategy")
		kinds, err := servedKinds()
		if err != nil {
			r.Inconclusive("cannot build the registered storage: " + err.Error())
			return
		}
		gens := map[string]kindGen{"UpstreamCluster": ucKind(), "RateLimitCondition": rlKind()}
		type target struct {
			k     *servedKind
			kg    kindGen
			probe bool
		}
		var targets []target
		var served []string
		for i := range kinds {
			k := &kinds[i]
			served = append(served, fmt.Sprintf("%s(status subresource=%v)", k.Kind, k.Status != nil))
			if k.Status == nil {
				r.Count("kinds_without_status_subresource", 1)
				continue
			}
			kg, ok := gens[k.Kind]
			if !ok {
				r.Inconclusive("no generator for served kind " + k.Kind)
				continue
			}
			targets = append(targets, target{k, kg, false})
			if k.Generic {
				for name, pg := range gens {
					if name != k.Kind {
						targets = append(targets, target{k, pg, true})
					}
				}
			}
		}
		r.Set("served_kinds", served)
		if len(targets) == 0 {
			r.Inconclusive("no kind is served with a status subresource")
			return
		}
		sort.Slice(targets, func(i, j int) bool { return !targets[i].probe && targets[j].probe })

		nPairs := r.N(300000, 2000000)
		for ti := range targets {
			tg := targets[ti]
			label := tg.k.Kind
			if tg.probe {
				label = tg.k.Kind + "-strategies-with-probe-kind-" + tg.kg.Kind
			}
			all := append(metaEdits(), tg.kg.SpecSt...)
			r.Parallel(nPairs, 16, func(i int, g *vkit.Rand) {
				stored := tg.kg.Stored(g)
				var edits []edit
				switch {
				case i < 50: // the no-difference pair, on different stored objects
				case i < 50+40*len(all): // every single edit
					edits = []edit{all[(i-50)%len(all)](g)}
				default:
					n := g.Range(0, 4)
					for _, j := range g.Perm(len(all))[:n] {
						edits = append(edits, all[j](g))
					}
				}
				for _, op := range []opKind{opCreate, opUpdate, opStatus} {
					o := run(tg.k, &tg.kg, op, stored, edits)
					r.Eval(1)
					r.Distinct(vkit.Hash64(label, string(op), js2(stored), strings.Join(names(edits), ","), fmt.Sprint(i)))
					r.Count("cases_"+string(op), 1)
					if acc(stored).GetDeletionTimestamp() != nil {
						r.Count("cases_stored_terminating", 1)
					}
					if o.Refused {
						r.Count("refused_"+string(op), 1)
						continue
					}
					if o.After != nil && len(edits) > 0 {
						asked := stored.DeepCopyObject()
						for _, e := range edits {
							e.Apply(asked)
						}
						switch op {
						case opStatus: // the clauses are only exercised when the client really sent something else
							if !semEq(part(stored, "Spec"), part(asked, "Spec")) {
								r.Count("status_update_sent_a_different_spec", 1)
							}
							if !mapsSemEq(acc(stored).GetLabels(), acc(asked).GetLabels()) {
								r.Count("status_update_sent_different_labels", 1)
							}
						case opUpdate:
							if !semEq(part(stored, "Status"), part(asked, "Status")) {
								r.Count("main_update_sent_a_different_status", 1)
							}
						case opCreate:
							if st := part(asked, "Status"); !semEq(st, zeroOf(st)) {
								r.Count("create_sent_a_status", 1)
							}
							if acc(asked).GetGeneration() > 1 {
								r.Count("create_sent_generation_above_1", 1)
							}
						}
					}
					if op == opStatus && o.After != nil {
						asked := stored.DeepCopyObject()
						for _, e := range edits {
							e.Apply(asked)
						}
						if !mapsSemEq(acc(stored).GetAnnotations(), acc(asked).GetAnnotations()) {
							r.Count("status_update_with_annotation_change", 1)
						}
					}
					if op == opUpdate && o.After != nil {
						if acc(o.After).GetGeneration() == acc(stored).GetGeneration() {
							r.Count("main_update_generation_kept", 1)
						} else {
							r.Count("main_update_generation_bumped", 1)
						}
					}
					if o.Class == "" {
						continue
					}
					report(r, tg.k, &tg.kg, op, stored, edits, o, "")
				}
				if i == 0 || i == 60 {
					r.Sample(map[string]interface{}{"target": label, "stored": stored, "edits": names(edits)})
				}
			})
			r.Count("targets", 1)
		}
		storeHistories(r, kinds, gens)
		r.Require(r.Counter("store_histories") >= 500 && r.Counter("store_steps_judged") >= 5000, "the store-backed histories did not run")
		r.Require(r.Violations() > 0 || (r.Counter("store_recreated_after_delete") >= 100 && r.Counter("store_became_terminating_by_delete") >= 50 && r.Counter("store_create_on_update") >= 100 && r.Counter("store_unconditional_updates") >= 500),
			"the store-backed histories did not exercise delete+recreate / terminating-by-delete / create-on-update / unconditional updates")
		r.Require(r.Violations() > 0 || (r.Counter("status_update_sent_a_different_spec") > 1000 && r.Counter("status_update_sent_different_labels") > 1000 && r.Counter("main_update_sent_a_different_status") > 1000 &&
			r.Counter("create_sent_a_status") > 1000 && r.Counter("create_sent_generation_above_1") > 1000), "some clause was never put to the test (client never sent the part the API must ignore)")
		tot := r.Counter("cases_create") + r.Counter("cases_main-update") + r.Counter("cases_status-update")
		ref := r.Counter("refused_create") + r.Counter("refused_main-update") + r.Counter("refused_status-update")
		r.Require(tot > 10000, "too few cases")
		r.Require(r.Violations() > 0 || (r.Counter("main_update_generation_kept") > 1000 && r.Counter("main_update_generation_bumped") > 1000), "main-resource updates do not exercise both generation outcomes")
		r.Require(ref*10 < tot, fmt.Sprintf("too many pairs refused by the API path (%d of %d)", ref, tot))
	})
}

// report shrinks a violating pair, classifies it and records it. via names the path when it is not the direct one.
func report(r *vkit.R, k *servedKind, kg *kindGen, op opKind, stored runtime.Object, edits []edit, o outcome, via string) {
	min := shrink(k, kg, op, stored, edits, o.Class)
	mo := run(k, kg, op, stored, min)
	sig := fmt.Sprintf("C20/%s/%s/differs=%s", op, o.Class, diffParts(stored, min))
	if ks := keySpecific(k, kg, op, stored, min, o.Class); ks != "" {
		sig += "/annotation-key=" + ks // the same change on a neutral key conforms
	}
	if acc(stored).GetDeletionTimestamp() != nil && op != opCreate {
		live := stored.DeepCopyObject()
		acc(live).SetDeletionTimestamp(nil)
		acc(live).SetDeletionGracePeriodSeconds(nil)
		if lo := run(k, kg, op, live, min); lo.Class != o.Class {
			sig += "/stored=terminating" // the same pair on a live object conforms
		}
	}
	if op == opCreate { // there is no stored object on create; the submitted one is the whole input
		sig = fmt.Sprintf("C20/%s/%s", op, o.Class)
	}
	path := "through the strategy registered for " + k.Kind
	if via != "" {
		path = via
	}
	r.Violation(sig, fmt.Sprintf("%s of a %s %s: %s; submitted = stored + edits %v (minimal: %v); stored %s",
		op, kg.Kind, path, mo.Detail, names(edits), names(min), js(stored)),
		map[string]interface{}{"operation": op, "strategyOf": k.Kind, "objectKind": kg.Kind, "stored": stored, "edits": names(edits), "minimalEdits": names(min), "after": mo.After, "detail": mo.Detail, "path": path})
}

func js2(v interface{}) string {
	b, _ := json.Marshal(v)
	return string(b)
}

var _ = context.Background
