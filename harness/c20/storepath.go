package c20

import (
	"fmt"
	"strings"

	apierrors "k8s.io/apimachinery/pkg/api/errors"
	metav1 "k8s.io/apimachinery/pkg/apis/meta/v1"
	"k8s.io/apimachinery/pkg/runtime"
	genericapirequest "k8s.io/apiserver/pkg/endpoints/request"
	"k8s.io/apiserver/pkg/registry/rest"

	"verifharness/vkit"
)

// storeHistories drives the REAL REST storages (registry.ObjectREST / registry.StatusREST around genericregistry.Store, as
// registry.NewResourceREST wires them) on an in-memory storage.Interface: every object lives through a history of
// create, main-resource updates, status updates (conditional on resourceVersion or unconditional), an update of a name that
// does not exist (create-on-update), and delete followed by re-creation under the same name from the OLD copy (uid,
// generation, status, timestamps of the previous incarnation still in it). A delete of an object with finalizers makes it
// terminating through the real path. Each step is judged with the same oracle as the pairs: (what was stored before, what the
// client sent) -> what the store returned and holds.
func storeHistories(r *vkit.R, kinds []servedKind, gens map[string]kindGen) {
	type target struct {
		k  *servedKind
		kg kindGen
	}
	var targets []target
	for i := range kinds {
		k := &kinds[i]
		if k.StatusR == nil || k.Object == nil {
			continue
		}
		targets = append(targets, target{k, gens[k.Kind]})
		if k.Generic {
			for name := range gens {
				if name == k.Kind {
					continue
				}
				pk, err := probeRegistration(kinds, k, name)
				if err != nil {
					r.Inconclusive("probe registration failed: " + err.Error())
					continue
				}
				targets = append(targets, target{pk, gens[name]})
			}
		}
	}
	nHist := r.N(1500, 60000)
	for ti := range targets {
		tg := targets[ti]
		via := "through the REST storage registered for " + tg.k.Kind + " (genericregistry.Store on an in-memory storage)"
		if tg.k.Probe {
			via = "through a REST storage built by registry.NewResourceREST for the probe kind " + tg.k.Kind + " with the options registered for a status-subresource kind"
		}
		all := append(metaEdits(), tg.kg.SpecSt...)
		r.Parallel(nHist, 16, func(i int, g *vkit.Rand) {
			ctx := genericapirequest.NewContext()
			name := fmt.Sprintf("h%d-%d", ti, i)
			if g.Chance(0.2) {
				name = fmt.Sprintf("H%d-%d:[::1]", ti, i)
			}
			var trace []string
			fresh := func() runtime.Object { // what a client would send for a creation (possibly an old copy)
				o := tg.kg.Stored(g)
				m := acc(o)
				m.SetName(name)
				m.SetResourceVersion("")
				m.SetDeletionTimestamp(nil)
				m.SetDeletionGracePeriodSeconds(nil)
				return o
			}
			create := func(sent runtime.Object, how string) runtime.Object {
				var out runtime.Object
				var err error
				p := vkit.Safely(func() {
					if how == "create-on-update" {
						out, _, err = tg.k.Object.Update(ctx, name, rest.DefaultUpdatedObjectInfo(sent.DeepCopyObject()), rest.ValidateAllObjectFunc, rest.ValidateAllObjectUpdateFunc, false, &metav1.UpdateOptions{})
					} else {
						out, err = tg.k.Object.Create(ctx, sent.DeepCopyObject(), rest.ValidateAllObjectFunc, &metav1.CreateOptions{})
					}
				})
				trace = append(trace, fmt.Sprintf("%s -> err=%v panic=%v", how, err, p))
				r.Count("store_steps_judged", 1)
				if p != nil {
					r.Violation("C20/create/panic", fmt.Sprintf("%s of a %s %s panicked: %v", how, tg.kg.Kind, via, p), map[string]interface{}{"sent": sent, "trace": trace})
					return nil
				}
				if err != nil {
					r.Count("store_refused", 1)
					return nil
				}
				if o := judge(opCreate, sent, sent, out); o.Class != "" {
					// the same input through the strategy alone?
					if d := run(tg.k, &tg.kg, opCreate, sent, nil); d.Class == o.Class {
						report(r, tg.k, &tg.kg, opCreate, sent, nil, o, via+" ("+how+")")
					} else {
						r.Violation(fmt.Sprintf("C20/create/%s/only-through-store", o.Class), fmt.Sprintf("%s of a %s %s: %s (rest.BeforeCreate alone conforms); sent %s", how, tg.kg.Kind, via, o.Detail, js(sent)),
							map[string]interface{}{"sent": sent, "after": out, "trace": trace})
					}
				}
				return out
			}
			var cur runtime.Object
			switch {
			case g.Chance(0.15):
				cur = create(fresh(), "create-on-update")
				if cur != nil {
					r.Count("store_create_on_update", 1)
				}
			default:
				cur = create(fresh(), "create")
			}
			steps := g.Range(4, 10)
			for s := 0; s < steps && cur != nil; s++ {
				if g.Chance(0.12) {
					// delete; with finalizers the object only becomes terminating
					var out runtime.Object
					var err error
					p := vkit.Safely(func() {
						out, _, err = tg.k.Object.Delete(ctx, name, rest.ValidateAllObjectFunc, &metav1.DeleteOptions{})
					})
					trace = append(trace, fmt.Sprintf("delete -> err=%v panic=%v", err, p))
					if p != nil || err != nil {
						r.Count("store_delete_failed", 1)
						continue
					}
					got, gerr := tg.k.Object.Get(ctx, name, &metav1.GetOptions{})
					if gerr == nil {
						r.Count("store_became_terminating_by_delete", 1)
						cur = got
						_ = out
						continue
					}
					if !apierrors.IsNotFound(gerr) {
						r.Count("store_delete_failed", 1)
						continue
					}
					// re-created under the same name from the old copy: uid, generation, status, timestamps still in it
					old := cur.DeepCopyObject()
					acc(old).SetResourceVersion("")
					if g.Bool() {
						acc(old).SetUID("")
					}
					cur = create(old, "create")
					if cur != nil {
						r.Count("store_recreated_after_delete", 1)
					}
					continue
				}
				op := opUpdate
				if g.Chance(0.4) {
					op = opStatus
				}
				var edits []edit
				for _, j := range g.Perm(len(all))[:g.Range(0, 3)] {
					edits = append(edits, all[j](g))
				}
				asked := cur.DeepCopyObject()
				for _, e := range edits {
					e.Apply(asked)
				}
				if g.Chance(0.3) {
					acc(asked).SetResourceVersion("") // unconditional update
					r.Count("store_unconditional_updates", 1)
				}
				var out runtime.Object
				var err error
				p := vkit.Safely(func() {
					info := rest.DefaultUpdatedObjectInfo(asked.DeepCopyObject())
					if op == opStatus {
						out, _, err = tg.k.StatusR.Update(ctx, name, info, rest.ValidateAllObjectFunc, rest.ValidateAllObjectUpdateFunc, false, &metav1.UpdateOptions{})
					} else {
						out, _, err = tg.k.Object.Update(ctx, name, info, rest.ValidateAllObjectFunc, rest.ValidateAllObjectUpdateFunc, false, &metav1.UpdateOptions{})
					}
				})
				trace = append(trace, fmt.Sprintf("%s edits=%v -> err=%v panic=%v", op, names(edits), err, p))
				r.Count("store_steps_judged", 1)
				r.Count("store_steps_"+string(op), 1)
				if p != nil {
					r.Violation(fmt.Sprintf("C20/%s/panic", op), fmt.Sprintf("%s of a %s %s panicked: %v", op, tg.kg.Kind, via, p), map[string]interface{}{"stored": cur, "edits": names(edits), "trace": trace})
					break
				}
				if err != nil {
					r.Count("store_refused", 1)
					continue
				}
				// the oracle compares with what the client sent; an empty resourceVersion is a way of sending, not content
				if o := judge(op, cur, asked, out); o.Class != "" {
					if d := run(tg.k, &tg.kg, op, cur, edits); d.Class == o.Class {
						report(r, tg.k, &tg.kg, op, cur, edits, o, via)
					} else {
						r.Violation(fmt.Sprintf("C20/%s/%s/differs=%s/only-through-store", op, o.Class, diffParts(cur, edits)), fmt.Sprintf("%s of a %s %s: %s (rest.BeforeUpdate with the same pair conforms); stored %s; edits %v; history %s",
							op, tg.kg.Kind, via, o.Detail, js(cur), names(edits), strings.Join(trace, " | ")), map[string]interface{}{"stored": cur, "edits": names(edits), "after": out, "trace": trace})
					}
				}
				// what the store holds must be what it returned (or nothing, when the last finalizer of a terminating object went)
				if got, gerr := tg.k.Object.Get(ctx, name, &metav1.GetOptions{}); gerr == nil {
					if !semEq(got, out) {
						r.Count("store_returned_differs_from_held", 1)
					}
					cur = got
				} else {
					r.Count("store_finalized_by_update", 1)
					cur = nil
				}
			}
			r.Eval(1)
			r.Count("store_histories", 1)
			r.Distinct(vkit.Hash64("store", tg.k.Kind, fmt.Sprint(tg.k.Probe), strings.Join(trace, "|"), fmt.Sprint(i)))
			if i == 0 {
				r.Sample(map[string]interface{}{"kind": "store-history", "path": via, "trace": trace})
			}
		})
	}
}
