package c20

import (
	"context"
	"errors"
	"reflect"
	"sync"

	"k8s.io/apimachinery/pkg/runtime"
	"k8s.io/apimachinery/pkg/watch"
	"k8s.io/apiserver/pkg/storage"
	"k8s.io/apiserver/pkg/storage/etcd3"
)

// memStorage is a minimal in-memory storage.Interface (what etcd3 is to the real server), so that the REAL
// genericregistry.Store objects built by registry.NewResourceREST can be driven end to end: Create / Update / Delete of the
// main store and Update of the status store, with optimistic concurrency on resourceVersion. It has no semantics of its
// own beyond keeping deep copies and numbering writes.
type memStorage struct {
	mu   sync.Mutex
	rv   uint64
	objs map[string]runtime.Object
	v    storage.Versioner
}

func newMemStorage() *memStorage {
	return &memStorage{objs: map[string]runtime.Object{}, v: etcd3.APIObjectVersioner{}}
}

var errNotImplemented = errors.New("memStorage: not implemented")

func copyInto(dst, src runtime.Object) {
	reflect.ValueOf(dst).Elem().Set(reflect.ValueOf(src.DeepCopyObject()).Elem())
}

func zero(dst runtime.Object) {
	e := reflect.ValueOf(dst).Elem()
	e.Set(reflect.Zero(e.Type()))
}

func (m *memStorage) Versioner() storage.Versioner { return m.v }

func (m *memStorage) Create(ctx context.Context, key string, obj, out runtime.Object, ttl uint64) error {
	m.mu.Lock()
	defer m.mu.Unlock()
	if version, err := m.v.ObjectResourceVersion(obj); err == nil && version != 0 {
		return errors.New("resourceVersion should not be set on objects to be created")
	}
	if _, ok := m.objs[key]; ok {
		return storage.NewKeyExistsError(key, 0)
	}
	m.rv++
	c := obj.DeepCopyObject()
	if err := m.v.UpdateObject(c, m.rv); err != nil {
		return err
	}
	m.objs[key] = c
	if out != nil {
		copyInto(out, c)
	}
	return nil
}

func (m *memStorage) Delete(ctx context.Context, key string, out runtime.Object, preconditions *storage.Preconditions, validateDeletion storage.ValidateObjectFunc) error {
	m.mu.Lock()
	defer m.mu.Unlock()
	cur, ok := m.objs[key]
	if !ok {
		return storage.NewKeyNotFoundError(key, 0)
	}
	if preconditions != nil {
		if err := preconditions.Check(key, cur); err != nil {
			return err
		}
	}
	if validateDeletion != nil {
		if err := validateDeletion(ctx, cur.DeepCopyObject()); err != nil {
			return err
		}
	}
	delete(m.objs, key)
	if out != nil {
		copyInto(out, cur)
	}
	return nil
}

func (m *memStorage) Get(ctx context.Context, key string, resourceVersion string, objPtr runtime.Object, ignoreNotFound bool) error {
	m.mu.Lock()
	defer m.mu.Unlock()
	cur, ok := m.objs[key]
	if !ok {
		if ignoreNotFound {
			zero(objPtr)
			return nil
		}
		return storage.NewKeyNotFoundError(key, 0)
	}
	copyInto(objPtr, cur)
	return nil
}

func (m *memStorage) GuaranteedUpdate(ctx context.Context, key string, ptrToType runtime.Object, ignoreNotFound bool,
	preconditions *storage.Preconditions, tryUpdate storage.UpdateFunc, suggestion ...runtime.Object) error {
	m.mu.Lock()
	defer m.mu.Unlock()
	cur, ok := m.objs[key]
	var in runtime.Object
	var curRV uint64
	if ok {
		in = cur.DeepCopyObject()
		curRV, _ = m.v.ObjectResourceVersion(cur)
		if preconditions != nil {
			if err := preconditions.Check(key, cur); err != nil {
				return err
			}
		}
	} else {
		if !ignoreNotFound {
			return storage.NewKeyNotFoundError(key, 0)
		}
		in = reflect.New(reflect.TypeOf(ptrToType).Elem()).Interface().(runtime.Object)
	}
	out, _, err := tryUpdate(in, storage.ResponseMeta{ResourceVersion: curRV})
	if err != nil {
		return err
	}
	m.rv++
	c := out.DeepCopyObject()
	if err := m.v.UpdateObject(c, m.rv); err != nil {
		return err
	}
	m.objs[key] = c
	copyInto(ptrToType, c)
	return nil
}

func (m *memStorage) Watch(ctx context.Context, key string, resourceVersion string, p storage.SelectionPredicate) (watch.Interface, error) {
	return nil, errNotImplemented
}
func (m *memStorage) WatchList(ctx context.Context, key string, resourceVersion string, p storage.SelectionPredicate) (watch.Interface, error) {
	return nil, errNotImplemented
}
func (m *memStorage) GetToList(ctx context.Context, key string, resourceVersion string, p storage.SelectionPredicate, listObj runtime.Object) error {
	return errNotImplemented
}
func (m *memStorage) List(ctx context.Context, key string, resourceVersion string, p storage.SelectionPredicate, listObj runtime.Object) error {
	return errNotImplemented
}
func (m *memStorage) Count(key string) (int64, error) { return int64(len(m.objs)), nil }
