// Package c20 checks C20 (spec/status separation and generation conventions of the control-plane API).
package c20

import (
	"fmt"

	"k8s.io/apimachinery/pkg/runtime"
	"k8s.io/apiserver/pkg/registry/generic"
	genericregistry "k8s.io/apiserver/pkg/registry/generic/registry"
	"k8s.io/apiserver/pkg/registry/rest"
	serverstorage "k8s.io/apiserver/pkg/server/storage"
	"k8s.io/apiserver/pkg/storage"
	"k8s.io/apiserver/pkg/storage/storagebackend"
	"k8s.io/apiserver/pkg/storage/storagebackend/factory"
	"k8s.io/client-go/tools/cache"

	"github.com/kubewharf/apiserver-runtime/pkg/registry"
	runtimescheme "github.com/kubewharf/apiserver-runtime/pkg/scheme"
	runtimestorage "github.com/kubewharf/apiserver-runtime/pkg/server/storage"

	_ "github.com/kubewharf/kubegateway/pkg/gateway/controlplane" // installs the proxy group into the control plane's scheme
	proxyrest "github.com/kubewharf/kubegateway/pkg/gateway/controlplane/registry/proxy/rest"
)

// servedKind is one kind as the control plane serves it: the strategies of the REAL genericregistry.Store objects that
// registry.NewResourceREST builds from the RESTStorageOptions registered in pkg/gateway/controlplane/registry/proxy/rest.
type servedKind struct {
	Kind      string
	Options   registry.RESTStorageOptions
	Create    rest.RESTCreateStrategy
	Update    rest.RESTUpdateStrategy
	Status    rest.RESTUpdateStrategy // nil when the kind is served without a status subresource
	New       func() runtime.Object
	Generic   bool // the registered strategy is the kind-generic registry.DefaultRESTStrategy
	SubStatus bool
}

// nullDecorator lets genericregistry.Store.CompleteWithOptions finish without etcd: the stores are only used for their
// strategy wiring (CreateStrategy / UpdateStrategy, and the status store's UpdateStrategy), never for storage calls.
func nullDecorator(config *storagebackend.Config, resourcePrefix string, keyFunc func(obj runtime.Object) (string, error),
	newFunc func() runtime.Object, newListFunc func() runtime.Object, getAttrsFunc storage.AttrFunc,
	trigger storage.IndexerFuncs, indexers *cache.Indexers) (storage.Interface, factory.DestroyFunc, error) {
	return nil, func() {}, nil
}

func servedKinds() ([]servedKind, error) {
	sch := runtimescheme.Scheme
	enc := serverstorage.NewDefaultResourceEncodingConfig(sch)
	sf := serverstorage.NewDefaultStorageFactory(storagebackend.Config{Prefix: "/registry"}, "application/json", nil, enc, serverstorage.NewResourceConfig(), nil)
	f := registry.NewRESTStorageOptionsFactory(&runtimestorage.DefaultStorageFactory{DefaultStorageFactory: sf, ResourceEncodingConfig: enc})
	opts, err := proxyrest.VerifStorageOptions(f)
	if err != nil {
		return nil, err
	}
	getter := generic.RESTOptions{StorageConfig: &storagebackend.Config{Prefix: "/registry"}, Decorator: nullDecorator, DeleteCollectionWorkers: 1, ResourcePrefix: "/registry"}
	var out []servedKind
	for _, o := range opts {
		rr, err := registry.NewResourceREST(sch, getter, o)
		if err != nil {
			return nil, fmt.Errorf("NewResourceREST(%s): %v", o.GVKR.Kind, err)
		}
		or, ok := rr.ObjectREST.(*registry.ObjectREST)
		if !ok {
			return nil, fmt.Errorf("%s: object storage is %T", o.GVKR.Kind, rr.ObjectREST)
		}
		k := servedKind{Kind: o.GVKR.Kind, Options: o, Create: or.Store.CreateStrategy, Update: or.Store.UpdateStrategy, New: or.Store.NewFunc, SubStatus: o.SubStatus}
		_, k.Generic = o.RESTStrategy.(registry.DefaultRESTStrategy)
		if st, ok := rr.SubresourcesREST["status"]; ok {
			sr, ok := st.(*registry.StatusREST)
			if !ok {
				return nil, fmt.Errorf("%s: status storage is %T", o.GVKR.Kind, st)
			}
			k.Status = sr.Store.UpdateStrategy
		}
		out = append(out, k)
	}
	return out, nil
}

var _ = genericregistry.Store{}
