// Package c20 checks C20 (spec/status separation and generation conventions of the control-plane API).
package c20

import (
	"fmt"

	"k8s.io/apimachinery/pkg/runtime"
	"k8s.io/apiserver/pkg/registry/generic"
	genericregistry "k8s.io/apiserver/pkg/registry/generic/registry"
	"k8s.io/apiserver/pkg/registry/rest"
	serverstorage "k8s.io/apiserver/pkg/server/storage"
	"k8s.io/apiserver/pkg/storage"
	"k8s.io/apiserver/pkg/storage/storagebackend"
	"k8s.io/apiserver/pkg/storage/storagebackend/factory"
	"k8s.io/client-go/tools/cache"

	"github.com/kubewharf/apiserver-runtime/pkg/registry"
	runtimescheme "github.com/kubewharf/apiserver-runtime/pkg/scheme"
	runtimestorage "github.com/kubewharf/apiserver-runtime/pkg/server/storage"

	_ "github.com/kubewharf/kubegateway/pkg/gateway/controlplane" // installs the proxy group into the control plane's scheme
	proxyrest "github.com/kubewharf/kubegateway/pkg/gateway/controlplane/registry/proxy/rest"
)

// servedKind is one kind as the control plane serves it: the strategies of the REAL genericregistry.Store objects that
// registry.NewResourceREST builds from the RESTStorageOptions registered in pkg/gateway/controlplane/registry/proxy/rest.
type servedKind struct {
	Kind      string
	Options   registry.RESTStorageOptions
	Create    rest.RESTCreateStrategy
	Update    rest.RESTUpdateStrategy
	Status    rest.RESTUpdateStrategy // nil when the kind is served without a status subresource
	New       func() runtime.Object
	Generic   bool // the registered strategy is the kind-generic registry.DefaultRESTStrategy
	SubStatus bool
	// the REST storages themselves, on an in-memory storage.Interface (store-backed histories)
	Object  *registry.ObjectREST
	StatusR *registry.StatusREST
	Probe   bool // not a registration of the control plane: the probe kind registered by the harness with the same options
}

// memDecorator lets genericregistry.Store.CompleteWithOptions finish without etcd: every store gets an in-memory
// storage.Interface (memstore.go). The main store and the status store of a kind share it, as in the real server.
func memDecorator(config *storagebackend.Config, resourcePrefix string, keyFunc func(obj runtime.Object) (string, error),
	newFunc func() runtime.Object, newListFunc func() runtime.Object, getAttrsFunc storage.AttrFunc,
	trigger storage.IndexerFuncs, indexers *cache.Indexers) (storage.Interface, factory.DestroyFunc, error) {
	return newMemStorage(), func() {}, nil
}

func servedKinds() ([]servedKind, error) {
	sch := runtimescheme.Scheme
	enc := serverstorage.NewDefaultResourceEncodingConfig(sch)
	sf := serverstorage.NewDefaultStorageFactory(storagebackend.Config{Prefix: "/registry"}, "application/json", nil, enc, serverstorage.NewResourceConfig(), nil)
	f := registry.NewRESTStorageOptionsFactory(&runtimestorage.DefaultStorageFactory{DefaultStorageFactory: sf, ResourceEncodingConfig: enc})
	opts, err := proxyrest.VerifStorageOptions(f)
	if err != nil {
		return nil, err
	}
	getter := generic.RESTOptions{StorageConfig: &storagebackend.Config{Prefix: "/registry"}, Decorator: memDecorator, DeleteCollectionWorkers: 1, ResourcePrefix: "/registry"}
	var out []servedKind
	for _, o := range opts {
		rr, err := registry.NewResourceREST(sch, getter, o)
		if err != nil {
			return nil, fmt.Errorf("NewResourceREST(%s): %v", o.GVKR.Kind, err)
		}
		or, ok := rr.ObjectREST.(*registry.ObjectREST)
		if !ok {
			return nil, fmt.Errorf("%s: object storage is %T", o.GVKR.Kind, rr.ObjectREST)
		}
		k := servedKind{Kind: o.GVKR.Kind, Options: o, Create: or.Store.CreateStrategy, Update: or.Store.UpdateStrategy, New: or.Store.NewFunc, SubStatus: o.SubStatus, Object: or}
		_, k.Generic = o.RESTStrategy.(registry.DefaultRESTStrategy)
		if st, ok := rr.SubresourcesREST["status"]; ok {
			sr, ok := st.(*registry.StatusREST)
			if !ok {
				return nil, fmt.Errorf("%s: status storage is %T", o.GVKR.Kind, st)
			}
			k.Status = sr.Store.UpdateStrategy
			k.StatusR = sr
		}
		out = append(out, k)
	}
	return out, nil
}

// probeRegistration registers kind `probe` (one of the served kinds, which the control plane serves WITHOUT a status
// subresource) through the same registry.NewResourceREST with the RESTStrategy and SubStatus of `like` (a kind served WITH
// one): the generic wiring (status store, strategies) is then observable on a kind whose status has fields.
func probeRegistration(kinds []servedKind, like *servedKind, probe string) (*servedKind, error) {
	for i := range kinds {
		if kinds[i].Kind != probe {
			continue
		}
		o := kinds[i].Options
		o.RESTStrategy, o.SubStatus = like.Options.RESTStrategy, like.Options.SubStatus
		getter := generic.RESTOptions{StorageConfig: &storagebackend.Config{Prefix: "/registry"}, Decorator: memDecorator, DeleteCollectionWorkers: 1, ResourcePrefix: "/registry"}
		rr, err := registry.NewResourceREST(runtimescheme.Scheme, getter, o)
		if err != nil {
			return nil, err
		}
		or, ok := rr.ObjectREST.(*registry.ObjectREST)
		sr, ok2 := rr.SubresourcesREST["status"].(*registry.StatusREST)
		if !ok || !ok2 {
			return nil, fmt.Errorf("probe registration of %s has no object/status storage", probe)
		}
		return &servedKind{Kind: probe, Options: o, Create: or.Store.CreateStrategy, Update: or.Store.UpdateStrategy, Status: sr.Store.UpdateStrategy, New: or.Store.NewFunc,
			Generic: true, SubStatus: true, Object: or, StatusR: sr, Probe: true}, nil
	}
	return nil, fmt.Errorf("kind %s is not served", probe)
}

var _ = genericregistry.Store{}
