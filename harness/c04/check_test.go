package c04

import (
	"context"
	"crypto/sha256"
	"encoding/hex"
	"encoding/json"
	"fmt"
	"os"
	"net/http"
	"sort"
	"strings"
	"sync"
	"testing"
	"time"

	metav1 "k8s.io/apimachinery/pkg/apis/meta/v1"
	"k8s.io/apiserver/pkg/authentication/user"
	"k8s.io/apiserver/pkg/authorization/authorizer"
	"k8s.io/client-go/kubernetes/scheme"

	proxyv1alpha1 "github.com/kubewharf/kubegateway/pkg/apis/proxy/v1alpha1"

	"verifharness/bed"
	"verifharness/vkit"
)

const watchdog = 30 * time.Second

type testbed struct {
	idx   int
	gw    *bed.Gateway
	fwd   []*bed.RawStub // endpoints of the forwarding cluster
	aux   []*bed.RawStub // endpoints behind the clusters whose requests are terminated
	hFwd  string
	hFC   string
	hDis  string
	hUnh  string
	hNone string
	hH2   string
	h2    *bed.Stub // TLS + HTTP/2 net/http stub (thorough tier)
	h2s   sync.Map  // id -> *bed.RawReply
	token string
}

func (tb *testbed) stubs() []*bed.RawStub { return append(append([]*bed.RawStub(nil), tb.fwd...), tb.aux...) }

func (tb *testbed) activity() (int, int) {
	r, p := 0, 0
	for _, s := range tb.stubs() {
		a, b := s.Activity()
		r += a
		p += b
	}
	return r, p
}

func authz(ctx context.Context, a authorizer.Attributes) (authorizer.Decision, string, error) {
	if a.GetVerb() == "impersonate" && strings.HasPrefix(a.GetName(), "deny-") {
		return authorizer.DecisionDeny, "scripted denial", nil
	}
	return authorizer.DecisionAllow, "", nil
}

// h2Respond writes a scripted reply through net/http (every singleton header is set explicitly by the script, so the
// stub's own server adds nothing but framing).
func (tb *testbed) h2Respond(w http.ResponseWriter, r *http.Request, s *bed.Seen) {
	v, ok := tb.h2s.Load(s.ID)
	if !ok {
		w.Header().Set("Content-Type", "text/plain")
		w.Header().Set("Date", "Tue, 15 Nov 1994 08:12:31 GMT")
		w.WriteHeader(200)
		return
	}
	p := v.(*bed.RawReply)
	for _, h := range p.Headers {
		w.Header().Add(h.Name, h.Value)
	}
	for _, t := range p.Trailers {
		w.Header().Add("Trailer", t.Name)
	}
	w.WriteHeader(p.Status)
	if r.Method != "HEAD" && p.Status != 204 && p.Status != 304 {
		w.Write(p.Body)
		if len(p.Trailers) > 0 {
			// Without a flush net/http's h2 server adds a Content-Length next to the trailers; an HTTP/1.1 hop cannot
			// carry both (trailers need chunked framing) and the gateway keeps the Content-Length. Observed during
			// development, not judged: the statement does not name trailers and API servers do not send them.
			if f, ok := w.(http.Flusher); ok {
				f.Flush()
			}
		}
	}
	for _, t := range p.Trailers {
		w.Header().Set(t.Name, t.Value)
	}
}

func newTestbed(idx int, withH2 bool) (*testbed, error) {
	tb := &testbed{idx: idx}
	tb.gw = bed.NewGateway(bed.GatewayOptions{Authz: bed.AuthzFunc(authz)}).Start()
	tb.token = fmt.Sprintf("c04-client-token-%d", idx)
	tb.gw.Tokens.Set(tb.token, &user.DefaultInfo{Name: "alice", Groups: []string{"dev", "system:authenticated"}})
	mk := func(n string) *bed.RawStub { return bed.NewRawStub(fmt.Sprintf("%s-%d", n, idx)) }
	tb.fwd = []*bed.RawStub{mk("fwd-a"), mk("fwd-b")}
	sFC, sDis, sUnh := mk("fc"), mk("dis"), mk("unh")
	sUnh.SetHealth(bed.Health500)
	tb.aux = []*bed.RawStub{sFC, sDis, sUnh}
	tb.hFwd = fmt.Sprintf("c04-%d-fwd.test", idx)
	tb.hFC = fmt.Sprintf("c04-%d-fc.test", idx)
	tb.hDis = fmt.Sprintf("c04-%d-dis.test", idx)
	tb.hUnh = fmt.Sprintf("c04-%d-unh.test", idx)
	tb.hNone = fmt.Sprintf("c04-%d-unknown.test", idx)
	apply := func(spec bed.ClusterSpec, wait bool) error {
		obj := bed.BuildCluster(spec)
		if sr := tb.gw.Apply(obj); sr.Err != nil || sr.Panic != nil || sr.Requeue {
			return fmt.Errorf("controller did not apply cluster %s: %+v", spec.Name, sr)
		}
		if wait && !tb.gw.WaitAllReady(obj, watchdog) {
			return fmt.Errorf("endpoints of %s did not become ready within the watchdog", spec.Name)
		}
		return nil
	}
	if err := apply(bed.ClusterSpec{Name: tb.hFwd, Servers: []string{tb.fwd[0].URL, tb.fwd[1].URL}}, true); err != nil {
		return tb, err
	}
	if withH2 {
		tb.hH2 = fmt.Sprintf("c04-%d-h2.test", idx)
		tb.h2 = bed.NewTLSStub(fmt.Sprintf("h2-%d", idx), true)
		tb.h2.SetResponder(tb.h2Respond)
		if err := apply(bed.ClusterSpec{Name: tb.hH2, Servers: []string{tb.h2.URL}}, true); err != nil {
			return tb, err
		}
	}
	// flow-controlled: the catch-all policy uses a max-in-flight schema with no slot, so every request is refused
	if err := apply(bed.ClusterSpec{Name: tb.hFC, Servers: []string{sFC.URL},
		Policies: []proxyv1alpha1.DispatchPolicy{bed.CatchAllPolicy(nil, "none-in-flight")},
		Schemas: []proxyv1alpha1.FlowControlSchema{{Name: "none-in-flight", FlowControlSchemaConfiguration: proxyv1alpha1.FlowControlSchemaConfiguration{
			MaxRequestsInflight: &proxyv1alpha1.MaxRequestsInflightFlowControlSchema{Max: 0}}}}}, true); err != nil {
		return tb, err
	}
	// disabled: the endpoint is first enabled and found healthy, then disabled (a healthy-but-disabled endpoint is the
	// case in which a gateway that forgets the flag would still forward)
	if err := apply(bed.ClusterSpec{Name: tb.hDis, Servers: []string{sDis.URL}}, true); err != nil {
		return tb, err
	}
	if err := apply(bed.ClusterSpec{Name: tb.hDis, Servers: []string{sDis.URL}, Disabled: map[string]bool{sDis.URL: true}}, false); err != nil {
		return tb, err
	}
	if err := apply(bed.ClusterSpec{Name: tb.hUnh, Servers: []string{sUnh.URL}}, false); err != nil {
		return tb, err
	}
	// the unhealthy endpoint must have been probed at least once and found unhealthy (it starts as not ready anyway)
	if !vkit.WaitFor(watchdog, func() bool { return sUnh.ProbeCount() > 0 }) {
		return tb, fmt.Errorf("the unhealthy stub was never probed within the watchdog")
	}
	return tb, nil
}

func (tb *testbed) close() {
	if tb.gw != nil {
		tb.gw.Close()
	}
	for _, s := range tb.stubs() {
		s.Close()
	}
	if tb.h2 != nil {
		tb.h2.Close()
	}
}

func sha(b []byte) string {
	h := sha256.Sum256(b)
	return hex.EncodeToString(h[:])
}

// decodeStatus reads a terminated answer as a v1 Status in whatever media type was negotiated.
func decodeStatus(contentType string, body []byte) (*metav1.Status, string, error) {
	if strings.HasPrefix(contentType, "application/json") || contentType == "" {
		var raw map[string]interface{}
		if err := json.Unmarshal(body, &raw); err != nil {
			return nil, "", err
		}
		st := &metav1.Status{}
		if err := json.Unmarshal(body, st); err != nil {
			return nil, "", err
		}
		k, _ := raw["kind"].(string)
		return st, k, nil
	}
	st := &metav1.Status{}
	_, gvk, err := scheme.Codecs.UniversalDeserializer().Decode(body, nil, st)
	if err != nil {
		return nil, "", err
	}
	return st, gvk.Kind, nil
}

var termClasses = []string{"429", "429-events", "503-unknown-host", "503-disabled", "503-unhealthy", "403-impersonation", "401", "500-malformed-impersonation"}

func TestCheck(t *testing.T) {
	vkit.Run(t, "C04", "exploration", func(r *vkit.R) {
		r.Rule("each exchange = method x k8s-shaped or random path (escaped bytes, sub-delims, non-canonical escapes, empty/dot segments, trailing slash) x query (repeated keys, empty values, '+', %20, no '=', ';', malformed escapes) x " +
			"0-12 headers (multi-valued, random wire casing, Te, Connection-nominated, X-Forwarded-For, User-Agent, Accept-Encoding) x body 0..2MiB fixed or chunked x upstream reply (21 status codes, 0-8 headers, fixed/chunked/close-delimited/no body, trailers, scripted gzip) " +
			"written and read byte-exact on raw sockets on both sides of the real handler chain; plus terminated classes (429 max-in-flight 0, 429 on events, 503 unknown host / disabled / unhealthy endpoint, 403 refused impersonation, 401, malformed impersonation) with the same request generator. " +
			"A third phase sends barrier-started batches of 16 distinct exchanges at the same moment through one gateway to one cluster, each judged by its own request id. " +
			"Non-trivial = anything beyond a bare GET with a 200 reply; distinct = hash of the request bytes' shape and the reply script.")
		r.Assume("the stub upstreams speak correct HTTP/1.1 (content-encoding gzip only with a real gzip stream; no mid-body failures)")
		r.Assume("API-shaped paths the generic WithRequestInfo filter cannot parse are answered by k8s.io/apiserver with a plain-text 500 before kubegateway code runs: excluded and counted (excluded_unparsable_api_path)")
		r.Assume("request trailers, the Host header and the reason phrase are observed, not judged (not named by the statement)")

		n := r.N(10000, 250000)
		workers := 8
		big := true
		pool := make(chan *testbed, workers)
		var beds []*testbed
		defer func() {
			for _, tb := range beds {
				tb.close()
			}
		}()
		for w := 0; w < workers; w++ {
			tb, err := newTestbed(w, !r.Quick())
			beds = append(beds, tb)
			if err != nil {
				r.Inconclusive(err.Error())
				return
			}
			pool <- tb
		}
		only := -1
		if r.ReplayPath != "" {
			var rp struct {
				Witness struct {
					Idx *int `json:"idx"`
				} `json:"witness"`
			}
			if b, err := os.ReadFile(r.ReplayPath); err == nil && json.Unmarshal(b, &rp) == nil && rp.Witness.Idx != nil {
				only = *rp.Witness.Idx
			}
		}
		r.Parallel(n, workers, func(i int, g *vkit.Rand) {
			if only >= 0 && i != only {
				return
			}
			tb := <-pool
			defer func() { pool <- tb }()
			switch k := g.Intn(100); {
			case k < 66:
				runForwarded(r, tb, i, g, big, false)
			case k < 72:
				runForwarded(r, tb, i, g, big, true) // 101 / upgrade path
			default:
				runTerminated(r, tb, i, g, big)
			}
		})
		// second phase: request body + immediate large reply (see runBodyThenBigReply)
		m := r.N(4000, 30000)
		// (fewer exchanges at a time: the window was hit more often with little parallelism)
		r.Parallel(m, workers/2, func(j int, g *vkit.Rand) {
			i := n + j
			if only >= 0 && i != only {
				return
			}
			tb := <-pool
			defer func() { pool <- tb }()
			runBodyThenBigReply(r, tb, i, g)
		})
		// third phase: barrier-started batches of distinct requests through one gateway to one cluster at the same moment
		// (the first two phases send one request at a time per gateway)
		const batchSize = 16
		nb := r.N(400, 4000)
		r.Parallel(nb, workers, func(b int, g *vkit.Rand) {
			base := n + m + b*batchSize
			if only >= 0 && (only < base || only >= base+batchSize) {
				return
			}
			tb := <-pool
			defer func() { pool <- tb }()
			runConcurrentBatch(r, tb, base, batchSize, g)
		})
		if only < 0 {
			r.Require(r.Counter("concurrent_exchanges") == int64(nb*batchSize), "the concurrent phase did not run")
			r.Require(r.Counter("body_then_big_reply_exchanges") == int64(m), "the request-body + large-reply phase did not run")
			r.Require(r.Counter("forwarded_judged") >= int64(n/2), "too few forwarded exchanges were judged")
			for _, c := range termClasses {
				r.Require(r.Counter("terminated_"+c) >= int64(n/150), "too few terminated requests of class "+c)
			}
			r.Require(r.Counter("request_body_bytes") > 1<<20 && r.Counter("response_body_bytes") > 1<<20, "too little body data crossed the gateway")
			r.Require(r.Counter("upgrade_101_echoed") > 0 && r.Counter("upgrade_refused_relayed") > 0, "the upgrade path was not exercised")
			if !r.Quick() {
				r.Require(r.Counter("forwarded_over_tls_h2") >= int64(n/20), "too few exchanges over the TLS+h2 upstream")
			}
			r.Require(r.Counter("response_trailers_checked") > 0 && r.Counter("gzip_decoded_by_gateway") > 0 && r.Counter("chunked_requests") > 0, "a framing variant was never exercised")
		}
	})
}

func witness(i int, x *Exchange, resp *bed.RawResponse, seen *seenUp, extra map[string]interface{}) map[string]interface{} {
	head := string(x.Req.Bytes())
	if k := strings.Index(head, "\r\n\r\n"); k >= 0 {
		head = head[:k]
	}
	w := map[string]interface{}{"idx": i, "exchange": x, "wire_request_head": head, "client_status": resp.Status, "client_headers": resp.RawHeaders,
		"client_body_len": len(resp.Body), "client_body_prefix": fmt.Sprintf("%.200q", resp.Body), "client_body_suffix": fmt.Sprintf("%q", resp.Body[max0(len(resp.Body)-300):])}
	if resp.Err != nil {
		w["client_error"] = resp.Err.Error()
	}
	if resp.BodyErr != nil {
		w["client_body_error"] = resp.BodyErr.Error()
	}
	if seen != nil {
		w["upstream_received_target"] = seen.Target
		w["upstream_received_headers"] = seen.Headers
		w["upstream_received_body_len"] = seen.BodyLen
	}
	for k, v := range extra {
		w[k] = v
	}
	return w
}

// seenUp is what an upstream (raw or net/http stub) recorded of one request.
type seenUp struct {
	Method, Target, Proto string
	Headers               []bed.RawHeader
	BodyLen               int64
	BodySHA, BodyErr      string
	Complete              bool
}

func fromRaw(s bed.RawSeen) seenUp {
	return seenUp{Method: s.Method, Target: s.Target, Proto: s.Proto, Headers: s.RawHeaders, BodyLen: s.BodyLen, BodySHA: s.BodySHA, BodyErr: s.BodyErr, Complete: s.Complete}
}

func fromH2(s bed.Seen) seenUp {
	u := seenUp{Method: s.Method, Target: s.RequestURI, Proto: s.Proto, BodyLen: s.BodyLen, BodySHA: s.BodySHA, Complete: s.BodySHA != ""}
	var keys []string
	for k := range s.Header {
		keys = append(keys, k)
	}
	sort.Strings(keys)
	for _, k := range keys {
		for _, v := range s.Header[k] {
			u.Headers = append(u.Headers, bed.RawHeader{Name: k, Value: v})
		}
	}
	return u
}

// runBodyThenBigReply: a request with a fixed-length body answered at once with a large reply. On this shape the relay
// races with net/http's own handling of the request body (the server closes it on the first response byte while the
// transport still owns it); the phase exists so that the outcome does not depend on luck in the mixed workload.
func runBodyThenBigReply(r *vkit.R, tb *testbed, i int, g *vkit.Rand) {
	r.Count("body_then_big_reply_exchanges", 1)
	runForwardedShape(r, tb, i, g, true, false, true, nil)
}

func runForwarded(r *vkit.R, tb *testbed, i int, g *vkit.Rand, big bool, upgrade bool) {
	runForwardedShape(r, tb, i, g, big, upgrade, false, nil)
}

// batch is one barrier-started group of exchanges sent at the same moment through the same gateway to the same cluster.
type batch struct {
	mu      sync.Mutex
	targets map[string]string // request id -> request-target the client sent
	ready   sync.WaitGroup
	start   chan struct{}
}

// gate registers the member and blocks until every member of the batch is about to send.
func (b *batch) gate(id, target string) {
	b.mu.Lock()
	b.targets[id] = target
	b.mu.Unlock()
	b.ready.Done()
	<-b.start
}

// uriOfAnother reports the concurrent request whose path (when this one's path differs) or query (when this one's
// query differs) is what the upstream received under this request's id.
func (b *batch) uriOfAnother(id string, pathDiffers, queryDiffers bool, stubPath, stubQuery string) (string, string, string) {
	b.mu.Lock()
	defer b.mu.Unlock()
	var oid, ot, part string
	for o, t := range b.targets {
		if o == id {
			continue
		}
		op, oq := splitTarget(t)
		// (the proxy handler re-appends a trailing slash of the request's own path to whatever location it copied)
		pd, _ := comparePath(strings.TrimSuffix(op, "/"), strings.TrimSuffix(stubPath, "/"))
		pm := pathDiffers && len(pd) == 0
		qm := queryDiffers && len(compareQuery(oq, stubQuery, "")) == 0
		switch {
		case pm && (qm || !queryDiffers):
			return o, t, "URI"
		case pm && oid == "":
			oid, ot, part = o, t, "path"
		case qm && !pathDiffers:
			return o, t, "query"
		case qm && oid == "":
			oid, ot, part = o, t, "query"
		}
	}
	return oid, ot, part
}

// runConcurrentBatch sends k distinct exchanges at once through one gateway to one cluster (the forwarding cluster: two
// endpoints, round robin, so every endpoint is picked by several requests that are in flight together) and judges each
// by its own request id with the ordinary forwarded oracle. What a request is forwarded with must not depend on what
// else is in flight.
func runConcurrentBatch(r *vkit.R, tb *testbed, base int, k int, g *vkit.Rand) {
	bt := &batch{targets: map[string]string{}, start: make(chan struct{})}
	bt.ready.Add(k)
	var wg sync.WaitGroup
	for j := 0; j < k; j++ {
		gj := g.Sub(j)
		wg.Add(1)
		go func(j int) {
			defer wg.Done()
			runForwardedShape(r, tb, base+j, gj, false, false, false, bt)
		}(j)
	}
	bt.ready.Wait()
	close(bt.start)
	wg.Wait()
	r.Count("concurrent_batches", 1)
	r.Count("concurrent_exchanges", k)
}

func runForwardedShape(r *vkit.R, tb *testbed, i int, g *vkit.Rand, big bool, upgrade bool, bodyThenBig bool, bt *batch) {
	id := fmt.Sprintf("c04-%d", i)
	overH2 := tb.h2 != nil && !upgrade && !bodyThenBig && bt == nil && g.Chance(0.25)
	host := tb.hFwd
	if overH2 {
		host = tb.hH2
	}
	var x *Exchange
	if upgrade {
		x = genUpgrade(g, id, host)
	} else {
		x = genRequest(g, id, host, big, "")
		x.Class = "forwarded"
		genReply(g, x, big)
		if bodyThenBig {
			x.Class = "forwarded-body-then-big-reply"
			x.Req.Method = g.Pick([]string{"POST", "PUT", "PATCH"})
			x.Req.Body, x.Req.Chunked, x.Req.SendCL = g.Bytes(g.Range(1, 3000)), false, true
			x.ReqBody = len(x.Req.Body)
			x.Gzip, x.PlainBody = false, nil
			var hs []bed.RawHeader
			for _, h := range x.Reply.Headers {
				if !strings.EqualFold(h.Name, "Content-Encoding") {
					hs = append(hs, h)
				}
			}
			x.Reply.Headers = hs
			x.Reply.Status = g.PickInt([]int{200, 201, 409, 500})
			x.Reply.Body = g.Bytes(g.Range(150000, 600000))
			x.ReplyBody = len(x.Reply.Body)
			x.Reply.Framing, x.Reply.ChunkSize, x.Reply.Trailers = g.Pick([]string{"cl", "chunked", "close"}), 0, nil
		}
		if overH2 {
			x.Class = "forwarded-h2"
			normalizeForNetHTTPStub(x)
		}
	}
	x.finish(g, bed.RawHeader{Name: wireCase(g, "Authorization"), Value: "Bearer " + tb.token})
	if overH2 {
		tb.h2s.Store(id, x.Reply)
	} else {
		for _, s := range tb.fwd {
			s.Script(id, x.Reply)
		}
	}
	if bt != nil {
		x.Class = "forwarded-concurrent"
		bt.gate(id, x.Req.Target)
	}
	resp := bed.RawDo(tb.gw.Addr(), x.Req, watchdog)
	r.Eval(1)
	r.Count("exchanges", 1)
	var seen []seenUp
	for _, s := range tb.fwd {
		for _, rs := range s.Get(id) {
			seen = append(seen, fromRaw(rs))
		}
		s.Forget(id)
	}
	if tb.h2 != nil {
		if hs, ok := tb.h2.Get(id); ok {
			seen = append(seen, fromH2(hs))
		}
		tb.h2s.Delete(id)
	}
	for _, s := range tb.aux {
		if len(s.Get(id)) > 0 {
			r.Violation("C04/forwarded/reached-foreign-cluster", fmt.Sprintf("request %s for %s arrived at a stub of another cluster", id, host), witness(i, x, &resp, nil, nil))
		}
	}
	if !(x.Req.Method == "GET" && len(x.Req.Headers) <= 2 && x.Reply.Status == 200 && !strings.Contains(x.Req.Target, "?")) {
		r.Distinct(vkit.Hash64(x.Req.Method, x.Req.Target, fmt.Sprint(x.Req.Headers[:len(x.Req.Headers)]), fmt.Sprint(x.ReqBody, x.Req.Chunked, x.Req.ChunkSize), fmt.Sprint(x.Reply.Status, x.Reply.Headers, x.Reply.Framing, x.ReplyBody)))
	}
	if resp.Err != nil {
		r.Count("client_errors", 1)
		r.Inconclusive(fmt.Sprintf("exchange %d: no parsable answer from the gateway: %v", i, resp.Err))
		return
	}
	if len(seen) == 0 {
		ct := resp.Header.Get("Content-Type")
		if excludedRequestInfo500(&resp, x.Req.Method) {
			r.Count("excluded_unparsable_api_path", 1)
			return
		}
		if x.HostileQ != "" && resp.Status == 400 {
			// a query string the gateway cannot parse faithfully may be refused instead of forwarded: then it is a
			// terminated request and must carry a well-formed Status
			if st, kind, err := decodeStatus(ct, resp.Body); x.Req.Method == "HEAD" || (err == nil && kind == "Status" && st.Status == metav1.StatusFailure && st.Code == 400) {
				r.Count("terminated_400_unparsable_query", 1)
				return
			}
		}
		r.Violation(fmt.Sprintf("C04/forwarded/not-forwarded/status-%d", resp.Status),
			fmt.Sprintf("%s %s to a proxied cluster with a ready endpoint was answered %d by the gateway and reached no upstream: %.200q", x.Req.Method, x.Req.Target, resp.Status, resp.Body), witness(i, x, &resp, nil, nil))
		return
	}
	if len(seen) > 1 {
		r.Count("seen_more_than_once", 1)
	}
	s := seen[len(seen)-1]
	r.Count("forwarded_judged", 1)
	r.Count("upstream_proto_"+s.Proto, 1)
	if overH2 {
		r.Count("forwarded_over_tls_h2", 1)
	}
	r.Count("request_body_bytes", len(x.Req.Body))
	if x.Req.Chunked {
		r.Count("chunked_requests", 1)
	}
	var ds []diff

	// request side
	if s.Method != x.Req.Method {
		ds = append(ds, diff{"method", fmt.Sprintf("method %s reached the upstream as %s", x.Req.Method, s.Method)})
	}
	cp, cq := splitTarget(x.Req.Target)
	sp, sq := splitTarget(s.Target)
	pd, obs := comparePath(cp, sp)
	qd := compareQuery(cq, sq, x.HostileQ)
	if bt != nil && len(pd)+len(qd) > 0 {
		if oid, ot, part := bt.uriOfAnother(id, len(pd) > 0, len(qd) > 0, sp, sq); oid != "" {
			// one defect, one signature: the request went out with (part of) the URI of a request that was in flight together with it
			ds = append(ds, diff{"uri-of-another-request", fmt.Sprintf("%s %s reached the upstream as %q: that is the %s of %s %q, which was sent at the same moment through the same gateway to the same cluster", x.Req.Method, x.Req.Target, s.Target, part, oid, ot)})
			pd, qd = nil, nil
		}
	}
	ds = append(ds, pd...)
	if obs.pct2f {
		r.Count("observed_pct2F_in_path_decoded_not_judged", 1)
	}
	if !obs.canonical {
		r.Count("observed_noncanonical_path_encoding", 1)
	}
	if cp != sp {
		r.Count("observed_path_reencoded", 1)
	}
	ds = append(ds, qd...)
	if cq != "" {
		r.Count("queries_compared", 1)
	}
	if !s.Complete {
		ds = append(ds, diff{"request-body/incomplete", fmt.Sprintf("the upstream could not read the request body to its end: %s", s.BodyErr)})
	} else if s.BodyLen != int64(len(x.Req.Body)) || s.BodySHA != sha(x.Req.Body) {
		feat := "content"
		if s.BodyLen < int64(len(x.Req.Body)) {
			feat = "truncated"
		}
		ds = append(ds, diff{"request-body/" + feat, fmt.Sprintf("request body: client sent %d bytes (sha %s), upstream received %d bytes (sha %s)", len(x.Req.Body), sha(x.Req.Body)[:12], s.BodyLen, s.BodySHA[:12])})
	}
	ds = append(ds, compareRequestHeaders(x, s.Headers, "127.0.0.1", upgrade, overH2)...)
	if len(x.Req.Trailers) > 0 {
		r.Count("observed_request_trailers", 1)
	}

	// response side
	if upgrade && x.Reply.Status == 101 {
		if string(resp.Echo) != string(x.Req.UpgradePayload) {
			ds = append(ds, diff{"upgrade/stream-bytes", fmt.Sprintf("upgraded stream: %d bytes sent, echo of %d bytes differs", len(x.Req.UpgradePayload), len(resp.Echo))})
		}
		r.Count("upgrade_101_echoed", 1)
		r.Count("upgrade_stream_bytes", len(resp.Echo))
	} else if upgrade {
		r.Count("upgrade_refused_relayed", 1)
	}
	if resp.Status != x.Reply.Status {
		ds = append(ds, diff{fmt.Sprintf("status/%d-became-%d", x.Reply.Status, resp.Status), fmt.Sprintf("upstream answered %d, client received %d", x.Reply.Status, resp.Status)})
	}
	// The gateway's transport asks for gzip itself when the client negotiated nothing (and sent no Range), and then
	// undoes the compression: in exactly that hop-negotiated case the decoded representation is compared.
	sm, _ := lowerMap(s.Headers)
	decoded := x.Gzip && !x.ClientAE && hasToken(sm["accept-encoding"], "gzip")
	wantBody := x.Reply.Body
	if decoded {
		wantBody = x.PlainBody
		r.Count("gzip_decoded_by_gateway", 1)
	} else if x.Gzip {
		r.Count("gzip_passed_through", 1)
	}
	if x.Req.Method == "HEAD" || x.Reply.Status == 204 || x.Reply.Status == 304 {
		wantBody = nil
	}
	r.Count("response_body_bytes", len(wantBody))
	bd := compareBody("response-body", wantBody, resp.Body)
	if len(bd) == 0 && resp.BodyErr != nil {
		bd = []diff{{"response-body/framing-broken", fmt.Sprintf("the response body arrived complete but its framing is broken: %v", resp.BodyErr)}}
	}
	ds = append(ds, bd...)
	ds = append(ds, compareResponseHeaders(x, x.Req.Method, resp.RawHeaders, decoded)...)
	if x.Req.Method != "HEAD" {
		for _, tr := range x.Reply.Trailers {
			r.Count("response_trailers_checked", 1)
			if got := resp.Trailer.Values(tr.Name); len(got) != 1 || got[0] != tr.Value {
				ds = append(ds, diff{"response-trailer/lost", fmt.Sprintf("upstream trailer %s: %q reached the client as %q", tr.Name, tr.Value, got)})
			}
		}
	}
	r.Count(fmt.Sprintf("upstream_status_%d", x.Reply.Status), 1)
	r.Count("reply_framing_"+x.Reply.Framing, 1)

	pathFeat := ""
	if bt != nil {
		pathFeat = "concurrent/"
	} else if upgrade {
		pathFeat = "upgrade/"
	} else if overH2 {
		pathFeat = "h2/"
	}
	for _, d := range ds {
		r.Violation("C04/forwarded/"+pathFeat+d.sig, d.what, witness(i, x, &resp, &s, nil))
	}
	if len(ds) == 0 && r.WantSample() && i%53 == 0 {
		r.Sample(map[string]interface{}{"kind": "forwarded", "client_target": x.Req.Target, "upstream_target": s.Target, "method": x.Req.Method, "request_headers": len(x.Req.Headers), "request_body": len(x.Req.Body),
			"upstream_status": x.Reply.Status, "framing": x.Reply.Framing, "reply_body": x.ReplyBody, "client_headers": resp.RawHeaders})
	}
}

func runTerminated(r *vkit.R, tb *testbed, i int, g *vkit.Rand, big bool) {
	id := fmt.Sprintf("c04-%d", i)
	class := g.Pick(termClasses)
	host, path := tb.hFwd, ""
	switch class {
	case "429":
		host, path = tb.hFC, fill(g, g.Pick(nonEventTemplates))
	case "429-events":
		host, path = tb.hFC, fill(g, g.Pick(eventTemplates))
	case "503-unknown-host":
		host = tb.hNone
	case "503-disabled":
		host = tb.hDis
	case "503-unhealthy":
		host = tb.hUnh
	}
	x := genRequest(g, id, host, big, path)
	x.Class = class
	// negotiation of the error body
	if g.Chance(0.5) {
		x.Req.Headers = append(x.Req.Headers, bed.RawHeader{Name: "Accept", Value: g.Pick([]string{"application/json", "*/*", "application/vnd.kubernetes.protobuf", "application/yaml", "text/html",
			"application/json;as=Table;v=v1;g=meta.k8s.io,application/json", "application/vnd.kubernetes.protobuf,application/json"})})
	}
	auth := bed.RawHeader{Name: wireCase(g, "Authorization"), Value: "Bearer " + tb.token}
	var extra []bed.RawHeader
	switch class {
	case "403-impersonation":
		extra = append(extra, bed.RawHeader{Name: wireCase(g, "Impersonate-User"), Value: "deny-" + g.Pick([]string{"bob", "system:admin"})})
		if g.Bool() {
			extra = append(extra, bed.RawHeader{Name: "Impersonate-Group", Value: "dev"})
		}
	case "401":
		auth.Value = g.Pick([]string{"Bearer wrong-token", "Basic YTpi", "Bearer"})
	case "500-malformed-impersonation":
		extra = append(extra, bed.RawHeader{Name: "Impersonate-Group", Value: "system:masters"})
	}
	x.finish(g, append(extra, auth)...)
	before, beforeP := tb.activity()
	resp := bed.RawDo(tb.gw.Addr(), x.Req, watchdog)
	after, afterP := tb.activity()
	r.Eval(1)
	r.Count("exchanges", 1)
	r.Count("terminated_"+class, 1)
	r.Distinct(vkit.Hash64(class, x.Req.Method, x.Req.Target, fmt.Sprint(x.Req.Headers), fmt.Sprint(x.ReqBody, x.Req.Chunked)))
	if resp.Err != nil {
		r.Count("client_errors", 1)
		r.Inconclusive(fmt.Sprintf("exchange %d (%s): no parsable answer from the gateway: %v", i, class, resp.Err))
		return
	}
	w := func() map[string]interface{} { return witness(i, x, &resp, nil, map[string]interface{}{"class": class}) }
	if excludedRequestInfo500(&resp, x.Req.Method) {
		// the generic request-info filter is the outermost one: it answers before any kubegateway code (excluded, counted);
		// non-forwarding is still judged below
		r.Count("excluded_unparsable_api_path", 1)
		if after != before || afterP != beforeP {
			r.Violation("C04/terminated/"+class+"/forwarded", "a request answered by the generic request-info filter reached an upstream", w())
		}
		return
	}
	// not forwarded, not even partially: no stub of this gateway saw a request head or a fragment of one
	if after != before || afterP != beforeP {
		what := "a complete request head"
		if afterP != beforeP {
			what = "a partial request"
		}
		r.Violation("C04/terminated/"+class+"/forwarded", fmt.Sprintf("%s %s (%s) was answered %d by the gateway but an upstream received %s", x.Req.Method, x.Req.Target, class, resp.Status, what), w())
	}
	wantStatus := map[string]int{"429": 429, "429-events": 429, "503-unknown-host": 503, "503-disabled": 503, "503-unhealthy": 503, "403-impersonation": 403, "401": 401, "500-malformed-impersonation": 500}[class]
	if class == "500-malformed-impersonation" {
		// answered by the generic InternalError helper in plain text; its format is not part of the statement (DESIGN C02/C04)
		if resp.Status < 400 {
			r.Violation("C04/terminated/"+class+"/status", fmt.Sprintf("malformed impersonation answered %d", resp.Status), w())
		}
		return
	}
	if resp.Status == 400 && x.HostileQ != "" {
		// Two reasons to refuse at once: a query string the gateway cannot parse faithfully (';', malformed escape) on a
		// request it would terminate anyway. Which reason wins is not fixed by the statement; a well-formed 400 is accepted.
		if st, kind, err := decodeStatus(resp.Header.Get("Content-Type"), resp.Body); x.Req.Method == "HEAD" || (err == nil && kind == "Status" && st.Status == metav1.StatusFailure && st.Code == 400) {
			r.Count("terminated_400_unparsable_query", 1)
			return
		}
	}
	if resp.Status != wantStatus {
		r.Violation(fmt.Sprintf("C04/terminated/%s/status-%d", class, resp.Status), fmt.Sprintf("%s: expected status %d, got %d: %.200q", class, wantStatus, resp.Status, resp.Body), w())
		return
	}
	// Retry-After
	ra := resp.Header.Values("Retry-After")
	switch class {
	case "429":
		if len(ra) != 1 || ra[0] != "1" {
			r.Violation("C04/terminated/429/retry-after", fmt.Sprintf("flow-controlled %s %s: Retry-After %q, expected \"1\"", x.Req.Method, x.Req.Target, ra), w())
		}
	case "429-events":
		if len(ra) != 0 {
			r.Violation("C04/terminated/429-events/retry-after-present", fmt.Sprintf("flow-controlled events request %s %s: Retry-After %q, expected none", x.Req.Method, x.Req.Target, ra), w())
		}
	case "503-unknown-host", "503-disabled", "503-unhealthy":
		if len(ra) != 1 || ra[0] != "60" {
			r.Violation("C04/terminated/"+class+"/retry-after", fmt.Sprintf("%s: Retry-After %q, expected \"60\"", class, ra), w())
		}
	}
	if x.Req.Method == "HEAD" {
		r.Count("terminated_head_no_body_to_judge", 1)
		return
	}
	ct := resp.Header.Get("Content-Type")
	st, kind, err := decodeStatus(ct, resp.Body)
	switch {
	case err != nil:
		r.Violation("C04/terminated/"+class+"/body-not-a-status", fmt.Sprintf("%s: the %d answer (Content-Type %q) does not decode as a v1 Status: %v; body %.200q", class, resp.Status, ct, err, resp.Body), w())
	case kind != "Status" || st.Status != metav1.StatusFailure || int(st.Code) != resp.Status:
		r.Violation("C04/terminated/"+class+"/status-object", fmt.Sprintf("%s: Status object kind=%q status=%q code=%d in an HTTP %d answer", class, kind, st.Status, st.Code, resp.Status), w())
	default:
		r.Count("terminated_status_objects_decoded", 1)
		r.Count("terminated_media_"+strings.SplitN(ct, ";", 2)[0], 1)
	}
	if r.WantSample() && i%41 == 0 {
		r.Sample(map[string]interface{}{"kind": "terminated", "class": class, "method": x.Req.Method, "target": x.Req.Target, "status": resp.Status, "headers": resp.RawHeaders, "body": fmt.Sprintf("%.160q", resp.Body)})
	}
}

func max0(a int) int {
	if a < 0 {
		return 0
	}
	return a
}

// excludedRequestInfo500 recognises the answer of the generic (k8s.io/apiserver) request-info filter to an API-shaped
// path it cannot parse: plain-text 500 written by responsewriters.InternalError (for HEAD only the headers are there).
func excludedRequestInfo500(resp *bed.RawResponse, method string) bool {
	if resp.Status != 500 || !strings.HasPrefix(resp.Header.Get("Content-Type"), "text/plain") || resp.Header.Get("X-Content-Type-Options") != "nosniff" {
		return false
	}
	return method == "HEAD" || strings.Contains(string(resp.Body), "failed to create RequestInfo")
}
