package c04

import (
	"context"
	"crypto/sha256"
	"encoding/hex"
	"encoding/json"
	"fmt"
	"net/http"
	"os"
	"sort"
	"strings"
	"sync"
	"testing"
	"time"

	metav1 "k8s.io/apimachinery/pkg/apis/meta/v1"
	"k8s.io/apiserver/pkg/authentication/user"
	"k8s.io/apiserver/pkg/authorization/authorizer"
	"k8s.io/client-go/kubernetes/scheme"

	proxyv1alpha1 "github.com/kubewharf/kubegateway/pkg/apis/proxy/v1alpha1"

	"verifharness/bed"
	"verifharness/vkit"
)

const watchdog = 30 * time.Second

type testbed struct {
	idx   int
	gw    *bed.Gateway
	fwd   []*bed.RawStub // endpoints of the forwarding cluster
	aux   []*bed.RawStub // endpoints behind the clusters whose requests are terminated
	hFwd  string
	hFC   string
	hDis  string
	hUnh  string
	hNone string
	hH2   string
	h2    *bed.Stub // TLS + HTTP/2 net/http stub (thorough tier)
	h2s   sync.Map  // id -> *bed.RawReply
	token string

	// deepening pass: more clusters that share or toggle something
	hTwin       string       // second cluster whose only endpoint is fwd[0] (two clusters, one upstream)
	hMix        string       // one cluster, two policies: configmaps -> max-in-flight 0, everything else unlimited
	sMix        *bed.RawStub // its endpoint
	hSat        string       // max-in-flight 1: refused only while a request is in flight
	sSat        *bed.RawStub
	hFlap       string // deleted and re-created under its name again and again
	sFlap       *bed.RawStub
	flapPresent bool
	hDead       string     // endpoint was healthy, then its listener went away (connection refused)
	front       *bed.Front // TLS + HTTP/2 front door
	front6      *bed.Front // [::1] front door (nil without IPv6 loopback)
	// history of the forwarding cluster (only whoever holds the test bed writes)
	fwdEvents  int
	fwdSwapped bool
}

type route struct {
	name  string
	host  string
	stubs []*bed.RawStub
}

func (tb *testbed) fwdSpec() bed.ClusterSpec {
	servers := []string{tb.fwd[0].URL, tb.fwd[1].URL}
	if tb.fwdSwapped {
		servers[0], servers[1] = servers[1], servers[0]
	}
	return bed.ClusterSpec{Name: tb.hFwd, Servers: servers}
}

func (tb *testbed) flapSpec() bed.ClusterSpec {
	return bed.ClusterSpec{Name: tb.hFlap, Servers: []string{tb.sFlap.URL}}
}

// applyWait (re-)delivers a cluster object and waits for its enabled endpoints.
func (tb *testbed) applyWait(spec bed.ClusterSpec) error {
	obj := bed.BuildCluster(spec)
	if sr := tb.gw.Apply(obj); sr.Err != nil || sr.Panic != nil || sr.Requeue {
		return fmt.Errorf("controller did not apply cluster %s: %+v", spec.Name, sr)
	}
	if !tb.gw.WaitAllReady(obj, watchdog) {
		return fmt.Errorf("endpoints of %s did not become ready within the watchdog", spec.Name)
	}
	return nil
}

// readyAgain: closing a transport may cancel a health probe in flight and mark the endpoint unhealthy until the next
// probe; ask for one instead of waiting for the 5 s ticker.
func (tb *testbed) readyAgain(host, url string) error {
	ci, ok := tb.gw.Cluster(host)
	if !ok {
		return fmt.Errorf("cluster %s is gone", host)
	}
	ep, ok := ci.Endpoints.Load(url)
	if !ok {
		return fmt.Errorf("endpoint %s of %s is gone", url, host)
	}
	if !ep.IsReady() {
		ep.TriggerHealthCheck()
		if !tb.gw.WaitReady(host, url, true, watchdog) {
			return fmt.Errorf("endpoint %s of %s did not become ready again within the watchdog", url, host)
		}
	}
	return nil
}

func (tb *testbed) resetFwdTransport(k int) error {
	ci, ok := tb.gw.Cluster(tb.hFwd)
	if !ok {
		return fmt.Errorf("cluster %s is gone", tb.hFwd)
	}
	ep, ok := ci.Endpoints.Load(tb.fwd[k].URL)
	if !ok {
		return fmt.Errorf("endpoint %s is gone", tb.fwd[k].URL)
	}
	if err := ep.ResetTransport(); err != nil {
		return err
	}
	return tb.readyAgain(tb.hFwd, tb.fwd[k].URL)
}

func (tb *testbed) stubs() []*bed.RawStub {
	return append(append([]*bed.RawStub(nil), tb.fwd...), tb.aux...)
}

func (tb *testbed) activity() (int, int) {
	r, p := 0, 0
	for _, s := range tb.stubs() {
		a, b := s.Activity()
		r += a
		p += b
	}
	return r, p
}

func authz(ctx context.Context, a authorizer.Attributes) (authorizer.Decision, string, error) {
	if a.GetVerb() == "impersonate" && strings.HasPrefix(a.GetName(), "deny-") {
		return authorizer.DecisionDeny, "scripted denial", nil
	}
	return authorizer.DecisionAllow, "", nil
}

// h2Respond writes a scripted reply through net/http (every singleton header is set explicitly by the script, so the
// stub's own server adds nothing but framing).
func (tb *testbed) h2Respond(w http.ResponseWriter, r *http.Request, s *bed.Seen) {
	v, ok := tb.h2s.Load(s.ID)
	if !ok {
		w.Header().Set("Content-Type", "text/plain")
		w.Header().Set("Date", "Tue, 15 Nov 1994 08:12:31 GMT")
		w.WriteHeader(200)
		return
	}
	p := v.(*bed.RawReply)
	for _, h := range p.Headers {
		w.Header().Add(h.Name, h.Value)
	}
	for _, t := range p.Trailers {
		w.Header().Add("Trailer", t.Name)
	}
	w.WriteHeader(p.Status)
	if r.Method != "HEAD" && p.Status != 204 && p.Status != 304 {
		w.Write(p.Body)
		if len(p.Trailers) > 0 {
			// Without a flush net/http's h2 server adds a Content-Length next to the trailers; an HTTP/1.1 hop cannot
			// carry both (trailers need chunked framing) and the gateway keeps the Content-Length. Observed during
			// development, not judged: the statement does not name trailers and API servers do not send them.
			if f, ok := w.(http.Flusher); ok {
				f.Flush()
			}
		}
	}
	for _, t := range p.Trailers {
		w.Header().Set(t.Name, t.Value)
	}
}

func newTestbed(idx int, withH2 bool) (*testbed, error) {
	tb := &testbed{idx: idx}
	tb.gw = bed.NewGateway(bed.GatewayOptions{Authz: bed.AuthzFunc(authz)}).Start()
	tb.token = fmt.Sprintf("c04-client-token-%d", idx)
	tb.gw.Tokens.Set(tb.token, &user.DefaultInfo{Name: "alice", Groups: []string{"dev", "system:authenticated"}})
	mk := func(n string) *bed.RawStub { return bed.NewRawStub(fmt.Sprintf("%s-%d", n, idx)) }
	tb.fwd = []*bed.RawStub{mk("fwd-a"), mk("fwd-b")}
	sFC, sDis, sUnh := mk("fc"), mk("dis"), mk("unh")
	sUnh.SetHealth(bed.Health500)
	tb.sMix, tb.sSat, tb.sFlap = mk("mix"), mk("sat"), mk("flap")
	sDead := mk("dead")
	tb.aux = []*bed.RawStub{sFC, sDis, sUnh, tb.sMix, tb.sSat, tb.sFlap, sDead}
	tb.hTwin = fmt.Sprintf("c04-%d-twin.test", idx)
	tb.hMix = fmt.Sprintf("c04-%d-mix.test", idx)
	tb.hSat = fmt.Sprintf("c04-%d-sat.test", idx)
	tb.hFlap = fmt.Sprintf("c04-%d-flap.test", idx)
	tb.hDead = fmt.Sprintf("c04-%d-dead.test", idx)
	tb.front = bed.NewH2Front(tb.gw.Handler)
	tb.front6 = bed.NewIPv6Front(tb.gw.Handler)
	tb.hFwd = fmt.Sprintf("c04-%d-fwd.test", idx)
	tb.hFC = fmt.Sprintf("c04-%d-fc.test", idx)
	tb.hDis = fmt.Sprintf("c04-%d-dis.test", idx)
	tb.hUnh = fmt.Sprintf("c04-%d-unh.test", idx)
	tb.hNone = fmt.Sprintf("c04-%d-unknown.test", idx)
	apply := func(spec bed.ClusterSpec, wait bool) error {
		obj := bed.BuildCluster(spec)
		if sr := tb.gw.Apply(obj); sr.Err != nil || sr.Panic != nil || sr.Requeue {
			return fmt.Errorf("controller did not apply cluster %s: %+v", spec.Name, sr)
		}
		if wait && !tb.gw.WaitAllReady(obj, watchdog) {
			return fmt.Errorf("endpoints of %s did not become ready within the watchdog", spec.Name)
		}
		return nil
	}
	if err := apply(bed.ClusterSpec{Name: tb.hFwd, Servers: []string{tb.fwd[0].URL, tb.fwd[1].URL}}, true); err != nil {
		return tb, err
	}
	if withH2 {
		tb.hH2 = fmt.Sprintf("c04-%d-h2.test", idx)
		tb.h2 = bed.NewTLSStub(fmt.Sprintf("h2-%d", idx), true)
		tb.h2.SetResponder(tb.h2Respond)
		if err := apply(bed.ClusterSpec{Name: tb.hH2, Servers: []string{tb.h2.URL}}, true); err != nil {
			return tb, err
		}
	}
	// flow-controlled: the catch-all policy uses a max-in-flight schema with no slot, so every request is refused
	if err := apply(bed.ClusterSpec{Name: tb.hFC, Servers: []string{sFC.URL},
		Policies: []proxyv1alpha1.DispatchPolicy{bed.CatchAllPolicy(nil, "none-in-flight")},
		Schemas: []proxyv1alpha1.FlowControlSchema{{Name: "none-in-flight", FlowControlSchemaConfiguration: proxyv1alpha1.FlowControlSchemaConfiguration{
			MaxRequestsInflight: &proxyv1alpha1.MaxRequestsInflightFlowControlSchema{Max: 0}}}}}, true); err != nil {
		return tb, err
	}
	// disabled: the endpoint is first enabled and found healthy, then disabled (a healthy-but-disabled endpoint is the
	// case in which a gateway that forgets the flag would still forward)
	if err := apply(bed.ClusterSpec{Name: tb.hDis, Servers: []string{sDis.URL}}, true); err != nil {
		return tb, err
	}
	if err := apply(bed.ClusterSpec{Name: tb.hDis, Servers: []string{sDis.URL}, Disabled: map[string]bool{sDis.URL: true}}, false); err != nil {
		return tb, err
	}
	if err := apply(bed.ClusterSpec{Name: tb.hUnh, Servers: []string{sUnh.URL}}, false); err != nil {
		return tb, err
	}
	maxInflight := func(name string, max int32) proxyv1alpha1.FlowControlSchema {
		return proxyv1alpha1.FlowControlSchema{Name: name, FlowControlSchemaConfiguration: proxyv1alpha1.FlowControlSchemaConfiguration{
			MaxRequestsInflight: &proxyv1alpha1.MaxRequestsInflightFlowControlSchema{Max: max}}}
	}
	if err := apply(bed.ClusterSpec{Name: tb.hTwin, Servers: []string{tb.fwd[0].URL}}, true); err != nil {
		return tb, err
	}
	cmPolicy := proxyv1alpha1.DispatchPolicy{Strategy: proxyv1alpha1.RoundRobin, FlowControlSchemaName: "no-configmaps",
		Rules: []proxyv1alpha1.DispatchPolicyRule{{Verbs: []string{"*"}, APIGroups: []string{"*"}, Resources: []string{"configmaps"}}}}
	if err := apply(bed.ClusterSpec{Name: tb.hMix, Servers: []string{tb.sMix.URL}, Policies: []proxyv1alpha1.DispatchPolicy{cmPolicy, bed.CatchAllPolicy(nil, "")},
		Schemas: []proxyv1alpha1.FlowControlSchema{maxInflight("no-configmaps", 0)}}, true); err != nil {
		return tb, err
	}
	if err := apply(bed.ClusterSpec{Name: tb.hSat, Servers: []string{tb.sSat.URL}, Policies: []proxyv1alpha1.DispatchPolicy{bed.CatchAllPolicy(nil, "one-in-flight")},
		Schemas: []proxyv1alpha1.FlowControlSchema{maxInflight("one-in-flight", 1)}}, true); err != nil {
		return tb, err
	}
	if err := apply(tb.flapSpec(), true); err != nil {
		return tb, err
	}
	tb.flapPresent = true
	// the dead cluster's endpoint is found healthy, then its listener goes away: connections are refused until the next
	// probe (5 s ticker, or the one the dispatcher triggers) marks it unhealthy
	if err := apply(bed.ClusterSpec{Name: tb.hDead, Servers: []string{sDead.URL}}, true); err != nil {
		return tb, err
	}
	sDead.Close()
	// the unhealthy endpoint must have been probed at least once and found unhealthy (it starts as not ready anyway)
	if !vkit.WaitFor(watchdog, func() bool { return sUnh.ProbeCount() > 0 }) {
		return tb, fmt.Errorf("the unhealthy stub was never probed within the watchdog")
	}
	return tb, nil
}

func (tb *testbed) close() {
	tb.front.Close()
	tb.front6.Close()
	if tb.gw != nil {
		tb.gw.Close()
	}
	for _, s := range tb.stubs() {
		s.Close()
	}
	if tb.h2 != nil {
		tb.h2.Close()
	}
}

func sha(b []byte) string {
	h := sha256.Sum256(b)
	return hex.EncodeToString(h[:])
}

// decodeStatus reads a terminated answer as a v1 Status in whatever media type was negotiated.
func decodeStatus(contentType string, body []byte) (*metav1.Status, string, error) {
	if strings.HasPrefix(contentType, "application/json") || contentType == "" {
		var raw map[string]interface{}
		if err := json.Unmarshal(body, &raw); err != nil {
			return nil, "", err
		}
		st := &metav1.Status{}
		if err := json.Unmarshal(body, st); err != nil {
			return nil, "", err
		}
		k, _ := raw["kind"].(string)
		return st, k, nil
	}
	st := &metav1.Status{}
	_, gvk, err := scheme.Codecs.UniversalDeserializer().Decode(body, nil, st)
	if err != nil {
		return nil, "", err
	}
	return st, gvk.Kind, nil
}

var termClasses = []string{"429", "429-events", "503-unknown-host", "503-disabled", "503-unhealthy", "403-impersonation", "401", "500-malformed-impersonation",
	// deepening pass: a policy-scoped limit next to an unlimited catch-all in the same cluster; a limit that is full only while a
	// request is in flight; a cluster that was proxied a moment ago and is deleted now; an endpoint believed ready that refuses connections
	"429-policy", "429-saturated", "503-deleted-cluster", "502-upstream-refused"}

func TestCheck(t *testing.T) {
	vkit.Run(t, "C04", "exploration", func(r *vkit.R) {
		r.Rule("each exchange = method x k8s-shaped or random path (escaped bytes, sub-delims, non-canonical escapes, empty/dot segments, trailing slash) x query (repeated keys, empty values, '+', %20, no '=', ';', malformed escapes) x " +
			"0-12 headers (multi-valued, random wire casing, Te, Connection-nominated, X-Forwarded-For, User-Agent, Accept-Encoding) x body 0..2MiB fixed or chunked x upstream reply (21 status codes, 0-8 headers, fixed/chunked/close-delimited/no body, trailers, scripted gzip) " +
			"written and read byte-exact on raw sockets on both sides of the real handler chain; plus terminated classes (429 max-in-flight 0, 429 on events, 503 unknown host / disabled / unhealthy endpoint, 403 refused impersonation, 401, malformed impersonation) with the same request generator. " +
			"A third phase sends barrier-started batches of 16 distinct exchanges at the same moment through one gateway to one cluster, each judged by its own request id, a third of the batches racing with a re-delivery of the cluster object or a transport reset; a fourth sends pairs over one client connection (keep-alive / pipelined). " +
			"Deepening: extension methods, body/reply sizes at buffer boundaries, 80 header lines, 48 KiB header values, 4 KiB paths, 600-parameter queries; clients speaking HTTP/1.0, HTTP/2 over TLS, from ::1, with Expect: 100-continue; an upstream connection that dies once (every retried copy is judged); " +
			"routes: a twin cluster on the same upstream endpoint, a cluster with a policy-scoped limit next to an unlimited catch-all, a cluster deleted and re-created again and again; history of the forwarding cluster (transport reset, servers re-ordered, delete + re-create); " +
			"terminated classes 429-policy, 429-saturated (max-in-flight 1 held by an in-flight request), 503-deleted-cluster, 502-upstream-refused. " +
			"Non-trivial = anything beyond a bare GET with a 200 reply; distinct = hash of the request bytes' shape and the reply script.")
		r.Assume("the stub upstreams speak correct HTTP/1.1 (content-encoding gzip only with a real gzip stream; no mid-body failures)")
		r.Assume("API-shaped paths the generic WithRequestInfo filter cannot parse are answered by k8s.io/apiserver with a plain-text 500 before kubegateway code runs: excluded and counted (excluded_unparsable_api_path)")
		r.Assume("request trailers, the Host header and the reason phrase are observed, not judged (not named by the statement)")

		n := r.N(10000, 250000)
		workers := 8
		big := true
		pool := make(chan *testbed, workers)
		var beds []*testbed
		defer func() {
			for _, tb := range beds {
				tb.close()
			}
		}()
		for w := 0; w < workers; w++ {
			tb, err := newTestbed(w, !r.Quick())
			beds = append(beds, tb)
			if err != nil {
				r.Inconclusive(err.Error())
				return
			}
			pool <- tb
		}
		only := -1
		if r.ReplayPath != "" {
			var rp struct {
				Witness struct {
					Idx *int `json:"idx"`
				} `json:"witness"`
			}
			if b, err := os.ReadFile(r.ReplayPath); err == nil && json.Unmarshal(b, &rp) == nil && rp.Witness.Idx != nil {
				only = *rp.Witness.Idx
			}
		}
		r.Parallel(n, workers, func(i int, g *vkit.Rand) {
			if only >= 0 && i != only {
				return
			}
			tb := <-pool
			defer func() { pool <- tb }()
			switch k := g.Intn(100); {
			case k < 66:
				runForwarded(r, tb, i, g, big, false)
			case k < 72:
				runForwarded(r, tb, i, g, big, true) // 101 / upgrade path
			default:
				runTerminated(r, tb, i, g, big)
			}
		})
		// second phase: request body + immediate large reply (see runBodyThenBigReply)
		m := r.N(4000, 30000)
		// (fewer exchanges at a time: the window was hit more often with little parallelism)
		r.Parallel(m, workers/2, func(j int, g *vkit.Rand) {
			i := n + j
			if only >= 0 && i != only {
				return
			}
			tb := <-pool
			defer func() { pool <- tb }()
			runBodyThenBigReply(r, tb, i, g)
		})
		// third phase: barrier-started batches of distinct requests through one gateway to one cluster at the same moment
		// (the first two phases send one request at a time per gateway)
		const batchSize = 16
		nb := r.N(400, 4000)
		r.Parallel(nb, workers, func(b int, g *vkit.Rand) {
			base := n + m + b*batchSize
			if only >= 0 && (only < base || only >= base+batchSize) {
				return
			}
			tb := <-pool
			defer func() { pool <- tb }()
			runConcurrentBatch(r, tb, base, batchSize, g)
		})
		// fourth phase: two distinct exchanges over one client connection (keep-alive reuse / pipelined)
		np := r.N(800, 8000)
		r.Parallel(np, workers, func(j int, g *vkit.Rand) {
			base := n + m + nb*batchSize + 2*j
			if only >= 0 && only != base && only != base+1 {
				return
			}
			tb := <-pool
			defer func() { pool <- tb }()
			runForwardedPair(r, tb, base, g)
		})
		if only < 0 {
			r.Require(r.Counter("forwarded_via_keepalive") >= int64(np/2) && r.Counter("forwarded_via_pipelined") >= int64(np/4), "too few keep-alive / pipelined exchanges were forwarded")
			for _, v := range []string{"h1.0-client", "h2-client", "expect-continue", "upstream-connection-dies-once"} {
				r.Require(r.Counter("forwarded_via_"+v) >= int64(n/200), "too few forwarded exchanges via "+v)
			}
			if beds[0].front6 != nil {
				r.Require(r.Counter("forwarded_via_ipv6-peer") >= int64(n/200), "too few forwarded exchanges from an IPv6 peer")
			} else {
				r.Count("no_ipv6_loopback_in_sandbox", 1)
			}
			for _, v := range []string{"twin-cluster-same-upstream", "two-policy-cluster", "recreated-cluster"} {
				r.Require(r.Counter("forwarded_route_"+v) >= int64(n/100), "too few forwarded exchanges on route "+v)
			}
			r.Require(r.Counter("flap_cluster_deleted") >= 5 && r.Counter("flap_cluster_recreated") >= 5, "the delete / re-create cycle of a cluster hardly ran")
			r.Require(r.Counter("fwd_cluster_transport_resets")+r.Counter("fwd_cluster_redelivered_swapped")+r.Counter("fwd_cluster_recreated") >= 6 && r.Counter("forwarded_after_fwd_cluster_config_event") >= int64(n/20),
				"the forwarding cluster hardly lived through config events")
			r.Require(r.Counter("forwarded_with_client_address_headers") >= int64(n/20) && r.Counter("forwarded_upgrade_with_client_address_headers") >= int64(n/400), "too few forwarded requests carried X-Real-Ip-style headers")
			r.Require(r.Counter("terminated_unparsable_api_path") >= int64(n/100), "too few API-shaped paths the request-info filter cannot parse")
			r.Require(r.Counter("request_trailers_checked") >= int64(n/200), "too few request trailers were checked")
			r.Require(r.Counter("escaped_slash_in_path_judged") >= int64(n/100), "too few paths with %2F were judged")
			r.Require(r.Counter("request_body_over_2MiB_forwarded") >= 2 && r.Counter("reply_body_over_2MiB_relayed") >= 2, "no body above 2 MiB crossed the gateway")
			r.Require(r.Counter("upstream_copies_beyond_first_judged") >= 3, "no retried copy of a request was seen upstream")
			r.Require(r.Counter("expect_continue_got_100") >= 3, "Expect: 100-continue was never answered with an interim 100")
			r.Require(r.Counter("concurrent_batches_with_redeliver")+r.Counter("concurrent_batches_with_redeliver-swapped") >= int64(nb/10) && r.Counter("concurrent_batches_with_reset-transport") >= int64(nb/25), "too few batches raced with a config event")
			for _, b := range []string{"80-headers", "long-header-value", "long-path", "long-query"} {
				r.Require(r.Counter("forwarded_boundary_"+b) >= int64(n/400), "boundary shape hardly forwarded: "+b)
			}
			r.Require(r.Counter("saturated_slot_free_again_forwarded") >= int64(n/400), "the saturated limit never let a request through again after release")
			r.Require(r.Counter("terminated_via_h1.0-client") >= int64(n/100) && r.Counter("terminated_via_h2-client") >= int64(n/100), "too few terminated requests from HTTP/1.0 / HTTP/2 clients")
			r.Require(r.Counter("concurrent_exchanges") == int64(nb*batchSize), "the concurrent phase did not run")
			r.Require(r.Counter("body_then_big_reply_exchanges") == int64(m), "the request-body + large-reply phase did not run")
			r.Require(r.Counter("forwarded_judged") >= int64(n/2), "too few forwarded exchanges were judged")
			for _, c := range termClasses {
				r.Require(r.Counter("terminated_judged_"+c) >= int64(n/150), "too few requests of class "+c+" were actually terminated by the gateway (premise of the class not met?)")
			}
			r.Require(r.Counter("request_body_bytes") > 1<<20 && r.Counter("response_body_bytes") > 1<<20, "too little body data crossed the gateway")
			r.Require(r.Counter("upgrade_101_echoed") > 0 && r.Counter("upgrade_refused_relayed") > 0, "the upgrade path was not exercised")
			if !r.Quick() {
				r.Require(r.Counter("forwarded_over_tls_h2") >= int64(n/20), "too few exchanges over the TLS+h2 upstream")
			}
			r.Require(r.Counter("response_trailers_checked") > 0 && r.Counter("gzip_decoded_by_gateway") > 0 && r.Counter("chunked_requests") > 0, "a framing variant was never exercised")
		}
	})
}

func witness(i int, x *Exchange, resp *bed.RawResponse, seen *seenUp, extra map[string]interface{}) map[string]interface{} {
	head := string(x.Req.Bytes())
	if k := strings.Index(head, "\r\n\r\n"); k >= 0 {
		head = head[:k]
	}
	w := map[string]interface{}{"idx": i, "exchange": x, "wire_request_head": head, "client_status": resp.Status, "client_headers": resp.RawHeaders,
		"client_body_len": len(resp.Body), "client_body_prefix": fmt.Sprintf("%.200q", resp.Body), "client_body_suffix": fmt.Sprintf("%q", resp.Body[max0(len(resp.Body)-300):])}
	if resp.Err != nil {
		w["client_error"] = resp.Err.Error()
	}
	if resp.BodyErr != nil {
		w["client_body_error"] = resp.BodyErr.Error()
	}
	if seen != nil {
		w["upstream_received_target"] = seen.Target
		w["upstream_received_headers"] = seen.Headers
		w["upstream_received_body_len"] = seen.BodyLen
	}
	for k, v := range extra {
		w[k] = v
	}
	return w
}

// seenUp is what an upstream (raw or net/http stub) recorded of one request.
type seenUp struct {
	Host                  string
	Trailer               http.Header
	Method, Target, Proto string
	Headers               []bed.RawHeader
	BodyLen               int64
	BodySHA, BodyErr      string
	Complete              bool
}

func fromRaw(s bed.RawSeen) seenUp {
	return seenUp{Host: s.Host, Trailer: s.Trailer, Method: s.Method, Target: s.Target, Proto: s.Proto, Headers: s.RawHeaders, BodyLen: s.BodyLen, BodySHA: s.BodySHA, BodyErr: s.BodyErr, Complete: s.Complete}
}

func fromH2(s bed.Seen) seenUp {
	u := seenUp{Host: s.Host, Trailer: s.Trailer, Method: s.Method, Target: s.RequestURI, Proto: s.Proto, BodyLen: s.BodyLen, BodySHA: s.BodySHA, Complete: s.BodySHA != ""}
	var keys []string
	for k := range s.Header {
		keys = append(keys, k)
	}
	sort.Strings(keys)
	for _, k := range keys {
		for _, v := range s.Header[k] {
			u.Headers = append(u.Headers, bed.RawHeader{Name: k, Value: v})
		}
	}
	return u
}

// runBodyThenBigReply: a request with a fixed-length body answered at once with a large reply. On this shape the relay
// races with net/http's own handling of the request body (the server closes it on the first response byte while the
// transport still owns it); the phase exists so that the outcome does not depend on luck in the mixed workload.
func runBodyThenBigReply(r *vkit.R, tb *testbed, i int, g *vkit.Rand) {
	r.Count("body_then_big_reply_exchanges", 1)
	f := prepForwarded(r, tb, i, g, fwdOpts{big: true, bodyThenBig: true})
	if f == nil {
		return
	}
	resp := f.send(tb)
	judgeForwarded(r, tb, f, &resp)
}

func runForwarded(r *vkit.R, tb *testbed, i int, g *vkit.Rand, big bool, upgrade bool) {
	if os.Getenv("C04_PROF") != "" {
		t0 := time.Now()
		defer func() { r.Count("prof_ms_forwarded", int(time.Since(t0).Milliseconds())) }()
	}
	f := prepForwarded(r, tb, i, g, fwdOpts{big: big, upgrade: upgrade, history: true, routes: true, vias: true})
	if f == nil {
		return
	}
	resp := f.send(tb)
	judgeForwarded(r, tb, f, &resp)
}

// runForwardedPair sends two distinct exchanges over ONE client connection (keep-alive reuse or pipelined); each is judged
// by its own request id. What is forwarded for the second must not depend on the first.
func runForwardedPair(r *vkit.R, tb *testbed, base int, g *vkit.Rand) {
	via := "keepalive"
	if g.Chance(0.4) {
		via = "pipelined"
	}
	var fs [2]*fwd
	for k := 0; k < 2; k++ {
		fs[k] = prepForwarded(r, tb, base+k, g.Sub(k), fwdOpts{routes: true, pairVia: via})
		if fs[k] == nil {
			return
		}
	}
	resps := bed.RawDoSeq(tb.gw.Addr(), []*bed.RawRequest{fs[0].x.Req, fs[1].x.Req}, via == "pipelined", watchdog)
	r.Count("pairs_"+via, 1)
	if resps[1].Err != nil && resps[0].Err == nil {
		// the gateway announced "Connection: close" on the first answer (legal) or ended the connection: the second request
		// is unanswered; it is judged only if it reached an upstream all the same
		r.Count("pair_second_unanswered_connection_closed", 1)
		judgeForwarded(r, tb, fs[0], &resps[0])
		fs[1].unanswered = true
		resps[1].Err = nil
		judgeForwarded(r, tb, fs[1], &resps[1])
		return
	}
	judgeForwarded(r, tb, fs[0], &resps[0])
	judgeForwarded(r, tb, fs[1], &resps[1])
}

// batch is one barrier-started group of exchanges sent at the same moment through the same gateway to the same cluster.
type batch struct {
	mu      sync.Mutex
	targets map[string]string // request id -> request-target the client sent
	// racingReset: a transport of the cluster is rebuilt while the batch is in flight; requests it cancels are answered by
	// the gateway with an error object
	racingReset bool
}

// uriOfAnother reports the concurrent request whose path (when this one's path differs) or query (when this one's
// query differs) is what the upstream received under this request's id.
func (b *batch) uriOfAnother(id string, pathDiffers, queryDiffers bool, stubPath, stubQuery string) (string, string, string) {
	b.mu.Lock()
	defer b.mu.Unlock()
	var oid, ot, part string
	for o, t := range b.targets {
		if o == id {
			continue
		}
		op, oq := splitTarget(t)
		// (the proxy handler re-appends a trailing slash of the request's own path to whatever location it copied)
		pd, _ := comparePath(strings.TrimSuffix(op, "/"), strings.TrimSuffix(stubPath, "/"))
		pm := pathDiffers && len(pd) == 0
		qm := queryDiffers && len(compareQuery(oq, stubQuery, "")) == 0
		switch {
		case pm && (qm || !queryDiffers):
			return o, t, "URI"
		case pm && oid == "":
			oid, ot, part = o, t, "path"
		case qm && !pathDiffers:
			return o, t, "query"
		case qm && oid == "":
			oid, ot, part = o, t, "query"
		}
	}
	return oid, ot, part
}

// runConcurrentBatch sends k distinct exchanges at once through one gateway to one cluster (the forwarding cluster: two
// endpoints, round robin, so every endpoint is picked by several requests that are in flight together) and judges each
// by its own request id with the ordinary forwarded oracle. What a request is forwarded with must not depend on what
// else is in flight - nor on the cluster object being re-delivered (unchanged, or with its servers listed in the other
// order) or an endpoint transport being rebuilt at that moment.
func runConcurrentBatch(r *vkit.R, tb *testbed, base int, k int, g *vkit.Rand) {
	bt := &batch{targets: map[string]string{}}
	event := ""
	switch e := g.Intn(100); {
	case e < 12:
		event = "redeliver"
	case e < 24:
		event = "redeliver-swapped"
	case e < 34:
		event = "reset-transport"
		bt.racingReset = true
	}
	fs := make([]*fwd, k)
	for j := 0; j < k; j++ {
		fs[j] = prepForwarded(r, tb, base+j, g.Sub(j), fwdOpts{vias: true, bt: bt})
		if fs[j] == nil {
			return
		}
		bt.targets[fs[j].id] = fs[j].x.Req.Target
		fs[j].x.Racing = event
	}
	resps := make([]bed.RawResponse, k)
	start := make(chan struct{})
	var wg sync.WaitGroup
	for j := 0; j < k; j++ {
		wg.Add(1)
		go func(j int) {
			defer wg.Done()
			<-start
			resps[j] = fs[j].send(tb)
		}(j)
	}
	var evErr error
	if event != "" {
		wg.Add(1)
		go func() {
			defer wg.Done()
			<-start
			switch event {
			case "redeliver":
				evErr = tb.applyWait(tb.fwdSpec())
			case "redeliver-swapped":
				tb.fwdSwapped = !tb.fwdSwapped
				evErr = tb.applyWait(tb.fwdSpec())
			case "reset-transport":
				evErr = tb.resetFwdTransport(0)
			}
		}()
		r.Count("concurrent_batches_with_"+event, 1)
	}
	close(start)
	wg.Wait()
	if evErr != nil {
		r.Inconclusive("config event during a concurrent batch: " + evErr.Error())
		return
	}
	if event != "" {
		for _, s := range tb.fwd {
			if err := tb.readyAgain(tb.hFwd, s.URL); err != nil {
				r.Inconclusive(err.Error())
				return
			}
		}
	}
	for j := 0; j < k; j++ {
		judgeForwarded(r, tb, fs[j], &resps[j])
	}
	r.Count("concurrent_batches", 1)
	r.Count("concurrent_exchanges", k)
}

type fwdOpts struct {
	big, upgrade, bodyThenBig bool
	history                   bool   // let the forwarding cluster live through a config event now and then
	routes                    bool   // pick among the forwarding cluster, its twin, the two-policy cluster and the flapping one
	vias                      bool   // pick among HTTP/1.1, HTTP/1.0, HTTP/2, IPv6 peer, Expect: 100-continue, an upstream connection that dies once
	pairVia                   string // keepalive | pipelined
	bt                        *batch
}

// fwd is one prepared forwarded exchange.
type fwd struct {
	i          int
	id         string
	x          *Exchange
	rt         route
	overH2     bool // TLS+h2 upstream stub
	upgrade    bool
	bt         *batch
	peerIP     string
	unanswered bool
}

func (f *fwd) send(tb *testbed) bed.RawResponse {
	switch f.x.Via {
	case "h2-client":
		return tb.front.H2Do(f.x.Req, watchdog)
	case "ipv6-peer":
		return bed.RawDo(tb.front6.Addr, f.x.Req, watchdog)
	}
	return bed.RawDo(tb.gw.Addr(), f.x.Req, watchdog)
}

// fwdHistory lets the forwarding cluster live through what a long-running gateway sees: an endpoint transport rebuilt by
// the health checker, the object re-delivered with its servers in the other order, the object deleted and re-created.
func fwdHistory(r *vkit.R, tb *testbed, g *vkit.Rand) bool {
	var err error
	switch k := g.Intn(900); {
	case k < 3:
		r.Count("fwd_cluster_transport_resets", 1)
		err = tb.resetFwdTransport(g.Intn(2))
	case k < 5:
		r.Count("fwd_cluster_redelivered_swapped", 1)
		tb.fwdSwapped = !tb.fwdSwapped
		err = tb.applyWait(tb.fwdSpec())
	case k < 7:
		r.Count("fwd_cluster_recreated", 1)
		if sr := tb.gw.Delete(tb.hFwd); sr.Err != nil || sr.Panic != nil {
			err = fmt.Errorf("controller did not delete %s: %+v", tb.hFwd, sr)
		} else {
			err = tb.applyWait(tb.fwdSpec())
		}
	default:
		return true
	}
	if err != nil {
		r.Inconclusive("config event on the forwarding cluster: " + err.Error())
		return false
	}
	tb.fwdEvents++
	return true
}

var (
	mixFwdTemplates = []string{"/api/v1/namespaces/{p}/pods", "/api/v1/namespaces/{p}/secrets/{s}", "/apis/apps/v1/namespaces/{p}/deployments/{p}", "/version", "/x/{p}", "/api/v1/nodes/{s}", "/api/v1/namespaces/{p}/pods/{s}/log"}
	mix429Templates = []string{"/api/v1/namespaces/{p}/configmaps", "/api/v1/namespaces/{p}/configmaps/{p}", "/api/v1/configmaps", "/api/v1/namespaces/{p}/configmaps/{p}/"}
)

func prepForwarded(r *vkit.R, tb *testbed, i int, g *vkit.Rand, o fwdOpts) *fwd {
	f := &fwd{i: i, id: fmt.Sprintf("c04-%d", i), upgrade: o.upgrade, bt: o.bt, peerIP: "127.0.0.1"}
	f.overH2 = tb.h2 != nil && !o.upgrade && !o.bodyThenBig && o.bt == nil && o.pairVia == "" && g.Chance(0.25)
	f.rt = route{name: "fwd", host: tb.hFwd, stubs: tb.fwd}
	path := ""
	if f.overH2 {
		f.rt = route{name: "h2-upstream", host: tb.hH2}
	} else if o.routes {
		switch k := g.Intn(100); {
		case k < 70:
		case k < 80:
			f.rt = route{name: "twin-cluster-same-upstream", host: tb.hTwin, stubs: tb.fwd[:1]}
		case k < 90:
			f.rt = route{name: "two-policy-cluster", host: tb.hMix, stubs: []*bed.RawStub{tb.sMix}}
			path = fill(g, g.Pick(mixFwdTemplates))
		default:
			f.rt = route{name: "recreated-cluster", host: tb.hFlap, stubs: []*bed.RawStub{tb.sFlap}}
			if !tb.flapPresent {
				if err := tb.applyWait(tb.flapSpec()); err != nil {
					r.Inconclusive(err.Error())
					return nil
				}
				tb.flapPresent = true
				r.Count("flap_cluster_recreated", 1)
			}
		}
	}
	if o.history && f.rt.name == "fwd" && !fwdHistory(r, tb, g) {
		return nil
	}
	var x *Exchange
	if o.upgrade {
		x = genUpgrade(g, f.id, f.rt.host)
	} else {
		x = genRequest(g, f.id, f.rt.host, o.big, path)
		x.Class = "forwarded"
		genReply(g, x, o.big)
		if o.bodyThenBig {
			x.Class = "forwarded-body-then-big-reply"
			x.Req.Method = g.Pick([]string{"POST", "PUT", "PATCH"})
			x.Req.Body, x.Req.Chunked, x.Req.SendCL = g.Bytes(g.Range(1, 3000)), false, true
			x.Req.Trailers = nil
			x.ReqBody = len(x.Req.Body)
			x.Gzip, x.PlainBody = false, nil
			var hs []bed.RawHeader
			for _, h := range x.Reply.Headers {
				if !strings.EqualFold(h.Name, "Content-Encoding") {
					hs = append(hs, h)
				}
			}
			x.Reply.Headers = hs
			x.Reply.Status = g.PickInt([]int{200, 201, 409, 500})
			x.Reply.Body = g.Bytes(g.Range(150000, 600000))
			x.ReplyBody = len(x.Reply.Body)
			x.Reply.Framing, x.Reply.ChunkSize, x.Reply.Trailers = g.Pick([]string{"cl", "chunked", "close"}), 0, nil
		}
		if f.overH2 {
			x.Class = "forwarded-h2"
			normalizeForNetHTTPStub(x)
		}
	}
	x.Route = f.rt.name
	x.Via = "h1"
	var extra []bed.RawHeader
	if o.pairVia != "" {
		x.Via = o.pairVia
		x.Class = "forwarded-" + o.pairVia
	} else if o.vias && !o.upgrade && !o.bodyThenBig {
		idempotent := (x.Req.Method == "GET" || x.Req.Method == "HEAD" || x.Req.Method == "OPTIONS") && len(x.Req.Body) == 0 && !x.Req.Chunked && !x.Req.SendCL
		switch k := g.Intn(100); {
		case k < 62:
		case k < 70:
			x.Via = "h1.0-client"
			x.Req.Proto = "HTTP/1.0"
			if x.Req.Chunked { // HTTP/1.0 has no chunked coding
				x.Req.Chunked, x.Req.SendCL, x.Req.Trailers = false, true, nil
			}
		case k < 80:
			x.Via = "h2-client"
			x.Req.Trailers = nil
		case k < 86:
			if tb.front6 != nil {
				x.Via = "ipv6-peer"
				f.peerIP = "::1"
			}
		case k < 93:
			if len(x.Req.Body) > 0 {
				x.Via = "expect-continue"
				x.Req.ExpectContinue = true
				extra = append(extra, bed.RawHeader{Name: wireCase(g, "Expect"), Value: "100-continue"})
			}
		default:
			if idempotent && !f.overH2 {
				x.Via = "upstream-connection-dies-once"
				x.Reply.AbortTimes = 1
			}
		}
	}
	if o.bt != nil {
		x.Class = "forwarded-concurrent"
	}
	x.finish(g, append(extra, bed.RawHeader{Name: wireCase(g, "Authorization"), Value: "Bearer " + tb.token})...)
	if f.overH2 {
		tb.h2s.Store(f.id, x.Reply)
	} else {
		for _, s := range f.rt.stubs {
			s.Script(f.id, x.Reply)
		}
	}
	f.x = x
	return f
}

// gatewayErrorObject: the answer is a well-formed Status generated by the gateway for a failed relay (5xx).
func gatewayErrorObject(resp *bed.RawResponse) bool {
	if resp.Status < 500 {
		return false
	}
	st, kind, err := decodeStatus(resp.Header.Get("Content-Type"), resp.Body)
	return err == nil && kind == "Status" && st.Status == metav1.StatusFailure && int(st.Code) == resp.Status && st.Reason == "KubeGatewayInternalError"
}

func judgeForwarded(r *vkit.R, tb *testbed, f *fwd, respp *bed.RawResponse) {
	resp := *respp
	i, id, x, overH2, upgrade, bt := f.i, f.id, f.x, f.overH2, f.upgrade, f.bt
	h2wire := overH2 || x.Via == "h2-client"
	r.Eval(1)
	r.Count("exchanges", 1)
	var seen []seenUp
	mine := map[*bed.RawStub]bool{}
	for _, s := range f.rt.stubs {
		mine[s] = true
		for _, rs := range s.Get(id) {
			seen = append(seen, fromRaw(rs))
		}
		s.Forget(id)
	}
	if tb.h2 != nil {
		if hs, ok := tb.h2.Get(id); ok {
			if overH2 {
				seen = append(seen, fromH2(hs))
			} else {
				r.Violation("C04/forwarded/reached-foreign-cluster", fmt.Sprintf("request %s for %s arrived at the TLS+h2 stub of another cluster", id, f.rt.host), witness(i, x, &resp, nil, nil))
			}
		}
		tb.h2s.Delete(id)
	}
	for _, s := range tb.stubs() {
		if !mine[s] && len(s.Get(id)) > 0 {
			r.Violation("C04/forwarded/reached-foreign-cluster", fmt.Sprintf("request %s for %s arrived at a stub of another cluster", id, f.rt.host), witness(i, x, &resp, nil, nil))
		}
	}
	if !(x.Req.Method == "GET" && len(x.Req.Headers) <= 2 && x.Reply.Status == 200 && !strings.Contains(x.Req.Target, "?")) {
		r.Distinct(vkit.Hash64(x.Req.Method, x.Req.Target, x.Via, x.Route, fmt.Sprint(x.Req.Headers), fmt.Sprint(x.ReqBody, x.Req.Chunked, x.Req.ChunkSize), fmt.Sprint(x.Reply.Status, x.Reply.Headers, x.Reply.Framing, x.ReplyBody)))
	}
	if f.unanswered {
		if len(seen) == 0 {
			return
		}
		r.Count("pair_second_forwarded_but_unanswered", 1)
	} else if resp.Err != nil {
		r.Count("client_errors", 1)
		r.Inconclusive(fmt.Sprintf("exchange %d (%s, %s): no parsable answer from the gateway: %v", i, x.Via, x.Route, resp.Err))
		return
	}
	if len(seen) == 0 {
		ct := resp.Header.Get("Content-Type")
		if unparsableAPIPath(r, i, x, &resp) {
			return
		}
		if x.HostileQ != "" && resp.Status == 400 {
			// a query string the gateway cannot parse faithfully may be refused instead of forwarded: then it is a
			// terminated request and must carry a well-formed Status
			if st, kind, err := decodeStatus(ct, resp.Body); x.Req.Method == "HEAD" || (err == nil && kind == "Status" && st.Status == metav1.StatusFailure && st.Code == 400) {
				r.Count("terminated_400_unparsable_query", 1)
				return
			}
		}
		if bt != nil && bt.racingReset && (x.Req.Method == "HEAD" || gatewayErrorObject(&resp)) && resp.Status >= 500 {
			r.Count("cancelled_by_racing_transport_reset_before_reaching_upstream", 1)
			return
		}
		r.Violation(fmt.Sprintf("C04/forwarded/not-forwarded/status-%d", resp.Status),
			fmt.Sprintf("%s %s to a proxied cluster with a ready endpoint was answered %d by the gateway and reached no upstream: %.200q", x.Req.Method, x.Req.Target, resp.Status, resp.Body), witness(i, x, &resp, nil, nil))
		return
	}
	r.Count("forwarded_judged", 1)
	r.Count("forwarded_via_"+x.Via, 1)
	r.Count("forwarded_route_"+x.Route, 1)
	if x.Boundary != "" {
		r.Count("forwarded_boundary_"+x.Boundary, 1)
	}
	if x.ProxyHeaders {
		r.Count("forwarded_with_client_address_headers", 1)
		if upgrade {
			r.Count("forwarded_upgrade_with_client_address_headers", 1)
		}
	}
	if x.Route == "fwd" && tb.fwdEvents > 0 {
		r.Count("forwarded_after_fwd_cluster_config_event", 1)
	}
	if len(seen) > 1 {
		r.Count("upstream_copies_beyond_first_judged", len(seen)-1)
	}
	s := seen[len(seen)-1]
	r.Count("upstream_proto_"+s.Proto, 1)
	if overH2 {
		r.Count("forwarded_over_tls_h2", 1)
	}
	r.Count("request_body_bytes", len(x.Req.Body))
	if len(x.Req.Body) > 2<<20 {
		r.Count("request_body_over_2MiB_forwarded", 1)
	}
	if len(x.Reply.Body) > 2<<20 {
		r.Count("reply_body_over_2MiB_relayed", 1)
	}
	if x.Req.Chunked {
		r.Count("chunked_requests", 1)
	}
	// a request cancelled by a racing transport reset may have reached the upstream in part; the gateway then answers with
	// its own error object: only complete copies are compared, the answer is not the upstream's
	cancelled := bt != nil && bt.racingReset && (gatewayErrorObject(&resp) || (x.Req.Method == "HEAD" && resp.Status >= 500))
	if cancelled {
		r.Count("cancelled_by_racing_transport_reset_after_reaching_upstream", 1)
	}
	if x.Via == "upstream-connection-dies-once" {
		if gatewayErrorObject(&resp) || (x.Req.Method == "HEAD" && resp.Status >= 500 && len(seen) == 1) {
			// the transport did not retry (the dead connection was a fresh one): the upstream's failure is answered with the
			// gateway's error object; only what reached the upstream is compared
			r.Count("upstream_died_not_retried_gateway_error_object", 1)
			cancelled = true
		} else if len(seen) > 1 {
			r.Count("upstream_died_transport_retried", 1)
		}
	}
	var ds []diff

	// request side: every copy that reached the upstream (a transport may retry an idempotent request on a fresh connection)
	cp, cq := splitTarget(x.Req.Target)
	for copyNo, s := range seen {
		var cd []diff
		if s.Method != x.Req.Method {
			cd = append(cd, diff{"method", fmt.Sprintf("method %s reached the upstream as %s", x.Req.Method, s.Method)})
		}
		sp, sq := splitTarget(s.Target)
		pd, obs := comparePath(cp, sp)
		qd := compareQuery(cq, sq, x.HostileQ)
		if bt != nil && len(pd)+len(qd) > 0 {
			if oid, ot, part := bt.uriOfAnother(id, len(pd) > 0, len(qd) > 0, sp, sq); oid != "" {
				// one defect, one signature: the request went out with (part of) the URI of a request that was in flight together with it
				cd = append(cd, diff{"uri-of-another-request", fmt.Sprintf("%s %s reached the upstream as %q: that is the %s of %s %q, which was sent at the same moment through the same gateway to the same cluster", x.Req.Method, x.Req.Target, s.Target, part, oid, ot)})
				pd, qd = nil, nil
			}
		}
		cd = append(cd, pd...)
		cd = append(cd, qd...)
		if copyNo == 0 {
			if obs.pct2f {
				r.Count("escaped_slash_in_path_judged", 1)
			}
			if !obs.canonical {
				r.Count("observed_noncanonical_path_encoding", 1)
			}
			if cp != sp {
				r.Count("observed_path_reencoded", 1)
			}
			if cq != "" {
				r.Count("queries_compared", 1)
			}
		}
		switch {
		case !s.Complete && cancelled:
		case !s.Complete:
			cd = append(cd, diff{"request-body/incomplete", fmt.Sprintf("the upstream could not read the request body to its end: %s", s.BodyErr)})
		case s.BodyLen != int64(len(x.Req.Body)) || s.BodySHA != sha(x.Req.Body):
			feat := "content"
			if s.BodyLen < int64(len(x.Req.Body)) {
				feat = "truncated"
			}
			cd = append(cd, diff{"request-body/" + feat, fmt.Sprintf("request body: client sent %d bytes (sha %s), upstream received %d bytes (sha %s)", len(x.Req.Body), sha(x.Req.Body)[:12], s.BodyLen, s.BodySHA[:12])})
		}
		cd = append(cd, compareRequestHeaders(x, s.Headers, f.peerIP, upgrade, h2wire)...)
		// Host is an end-to-end header field like any other (quantifier audit): the upstream sees the name the client used
		if s.Host != x.Req.Host {
			cd = append(cd, diff{"request-header/changed/host", fmt.Sprintf("Host: client sent %q, upstream received %q", x.Req.Host, s.Host)})
		}
		// so are the fields of a chunked request's trailer part (HTTP/2 client requests and HTTP/1.0 ones carry none here)
		if s.Complete && len(x.Req.Body) == 0 && len(x.Req.Trailers) > 0 {
			// net/http in the gateway's transport probes a body of unknown length and sends an empty one as "no body"
			// (Content-Length: 0), which has no trailer part
			if copyNo == 0 {
				r.Count("request_trailers_after_empty_body_not_judged", 1)
			}
		} else if s.Complete {
			for _, tr := range x.Req.Trailers {
				if copyNo == 0 {
					r.Count("request_trailers_checked", 1)
				}
				if got := s.Trailer.Values(tr.Name); len(got) != 1 || got[0] != tr.Value {
					cd = append(cd, diff{"request-trailer/lost", fmt.Sprintf("request trailer %s: %q reached the upstream as %q", tr.Name, tr.Value, got)})
				}
			}
		}
		ds = append(ds, cd...)
	}
	if x.Via == "expect-continue" {
		got100 := false
		for _, c := range resp.Interim {
			got100 = got100 || c == 100
		}
		if got100 {
			r.Count("expect_continue_got_100", 1)
		} else {
			r.Count("expect_continue_without_100", 1)
		}
	}

	// response side
	if f.unanswered || cancelled {
		for _, d := range ds {
			r.Violation("C04/forwarded/"+sigPrefix(f)+d.sig, d.what, witness(i, x, &resp, &s, nil))
		}
		return
	}
	if upgrade && x.Reply.Status == 101 {
		if string(resp.Echo) != string(x.Req.UpgradePayload) {
			ds = append(ds, diff{"upgrade/stream-bytes", fmt.Sprintf("upgraded stream: %d bytes sent, echo of %d bytes differs", len(x.Req.UpgradePayload), len(resp.Echo))})
		}
		r.Count("upgrade_101_echoed", 1)
		r.Count("upgrade_stream_bytes", len(resp.Echo))
	} else if upgrade {
		r.Count("upgrade_refused_relayed", 1)
	}
	if resp.Status != x.Reply.Status {
		ds = append(ds, diff{fmt.Sprintf("status/%d-became-%d", x.Reply.Status, resp.Status), fmt.Sprintf("upstream answered %d, client received %d", x.Reply.Status, resp.Status)})
	}
	// The gateway's transport asks for gzip itself when the client negotiated nothing (and sent no Range), and then
	// undoes the compression: in exactly that hop-negotiated case the decoded representation is compared.
	sm, _ := lowerMap(s.Headers)
	decoded := x.Gzip && !x.ClientAE && hasToken(sm["accept-encoding"], "gzip")
	wantBody := x.Reply.Body
	if decoded {
		wantBody = x.PlainBody
		r.Count("gzip_decoded_by_gateway", 1)
	} else if x.Gzip {
		r.Count("gzip_passed_through", 1)
	}
	if x.Req.Method == "HEAD" || x.Reply.Status == 204 || x.Reply.Status == 304 {
		wantBody = nil
	}
	r.Count("response_body_bytes", len(wantBody))
	bd := compareBody("response-body", wantBody, resp.Body)
	if len(bd) == 0 && resp.BodyErr != nil {
		bd = []diff{{"response-body/framing-broken", fmt.Sprintf("the response body arrived complete but its framing is broken: %v", resp.BodyErr)}}
	}
	cutShort := false
	if len(bd) > 0 && bt != nil && bt.racingReset && len(resp.Body) < len(wantBody)+4096 {
		// A transport rebuilt while the answer is being relayed cancels the relay: the client sees a prefix of the upstream's
		// body and a broken framing (or the gateway's error object appended). That is the reset's doing, not the relay's.
		l := firstDiff(wantBody, resp.Body)
		// (a cancelled relay is ended by the gateway without an error object - the same path as a client that went away -,
		// so over a chunked or HTTP/2 hop the prefix may even arrive with intact framing)
		if l == len(resp.Body) || abortedMidstream(wantBody, resp.Body) {
			r.Count("relay_cut_short_by_racing_transport_reset", 1)
			bd, cutShort = nil, true
		}
	}
	ds = append(ds, bd...)
	ds = append(ds, compareResponseHeaders(x, x.Req.Method, resp.RawHeaders, decoded)...)
	// (an HTTP/1.0 client cannot be sent a chunked body, hence no trailers)
	if x.Req.Method != "HEAD" && x.Via != "h1.0-client" && !cutShort {
		for _, tr := range x.Reply.Trailers {
			r.Count("response_trailers_checked", 1)
			if got := resp.Trailer.Values(tr.Name); len(got) != 1 || got[0] != tr.Value {
				if bt != nil && bt.racingReset && len(got) == 0 {
					// The relay can also be cut by the racing transport reset after the last body byte and before the
					// trailer block was read from the upstream: the body is complete by coincidence, the gateway ends the
					// cancelled relay without an error object, the trailers are gone (flake hunt, seed 1013).
					r.Count("trailers_lost_to_racing_transport_reset", 1)
					continue
				}
				ds = append(ds, diff{"response-trailer/lost", fmt.Sprintf("upstream trailer %s: %q reached the client as %q", tr.Name, tr.Value, got)})
			}
		}
	}
	r.Count(fmt.Sprintf("upstream_status_%d", x.Reply.Status), 1)
	r.Count("reply_framing_"+x.Reply.Framing, 1)

	for _, d := range ds {
		r.Violation("C04/forwarded/"+sigPrefix(f)+d.sig, fmt.Sprintf("%s [client %s, route %s]", d.what, x.Via, x.Route), witness(i, x, &resp, &s, nil))
	}
	if len(ds) == 0 && r.WantSample() && i%53 == 0 {
		r.Sample(map[string]interface{}{"kind": "forwarded", "via": x.Via, "route": x.Route, "client_target": x.Req.Target, "upstream_target": s.Target, "method": x.Req.Method, "request_headers": len(x.Req.Headers), "request_body": len(x.Req.Body),
			"upstream_status": x.Reply.Status, "framing": x.Reply.Framing, "reply_body": x.ReplyBody, "client_headers": resp.RawHeaders})
	}
}

// sigPrefix: the structural mode of the exchange goes into the signature (they use different code in the gateway); the
// client variant and the route are named in the text and the witness only, so that one defect keeps one signature.
func sigPrefix(f *fwd) string {
	switch {
	case f.bt != nil:
		return "concurrent/"
	case f.upgrade:
		return "upgrade/"
	case f.overH2:
		return "h2/"
	}
	return ""
}

func runTerminated(r *vkit.R, tb *testbed, i int, g *vkit.Rand, big bool) {
	id := fmt.Sprintf("c04-%d", i)
	class := g.Pick(termClasses)
	if os.Getenv("C04_PROF") != "" {
		t0 := time.Now()
		defer func() { r.Count("prof_ms_terminated_"+class, int(time.Since(t0).Milliseconds())) }()
	}
	host, path := tb.hFwd, ""
	switch class {
	case "429":
		host, path = tb.hFC, fill(g, g.Pick(nonEventTemplates))
	case "429-events":
		host, path = tb.hFC, fill(g, g.Pick(eventTemplates))
	case "503-unknown-host":
		host = tb.hNone
	case "503-disabled":
		host = tb.hDis
	case "503-unhealthy":
		host = tb.hUnh
	case "429-policy":
		host, path = tb.hMix, fill(g, g.Pick(mix429Templates))
	case "429-saturated":
		host, path = tb.hSat, fill(g, g.Pick(nonEventTemplates))
	case "502-upstream-refused":
		host = tb.hDead
	case "503-deleted-cluster":
		host = tb.hFlap
		if tb.flapPresent {
			if sr := tb.gw.Delete(tb.hFlap); sr.Err != nil || sr.Panic != nil {
				r.Inconclusive(fmt.Sprintf("controller did not delete %s: %+v", tb.hFlap, sr))
				return
			}
			tb.flapPresent = false
			r.Count("flap_cluster_deleted", 1)
		}
	}
	x := genRequest(g, id, host, big, path)
	x.Class = class
	// unusual but legal clients
	via := "h1"
	switch k := g.Intn(100); {
	case k < 75:
	case k < 88:
		via = "h1.0-client"
		x.Req.Proto = "HTTP/1.0"
		if x.Req.Chunked {
			x.Req.Chunked, x.Req.SendCL, x.Req.Trailers = false, true, nil
		}
	default:
		via = "h2-client"
	}
	x.Via = via
	// negotiation of the error body
	if g.Chance(0.5) {
		x.Req.Headers = append(x.Req.Headers, bed.RawHeader{Name: "Accept", Value: g.Pick([]string{"application/json", "*/*", "application/vnd.kubernetes.protobuf", "application/yaml", "text/html",
			"application/json;as=Table;v=v1;g=meta.k8s.io,application/json", "application/vnd.kubernetes.protobuf,application/json"})})
	}
	auth := bed.RawHeader{Name: wireCase(g, "Authorization"), Value: "Bearer " + tb.token}
	var extra []bed.RawHeader
	switch class {
	case "403-impersonation":
		extra = append(extra, bed.RawHeader{Name: wireCase(g, "Impersonate-User"), Value: "deny-" + g.Pick([]string{"bob", "system:admin"})})
		if g.Bool() {
			extra = append(extra, bed.RawHeader{Name: "Impersonate-Group", Value: "dev"})
		}
	case "401":
		auth.Value = g.Pick([]string{"Bearer wrong-token", "Basic YTpi", "Bearer"})
	case "500-malformed-impersonation":
		extra = append(extra, bed.RawHeader{Name: "Impersonate-Group", Value: "system:masters"})
	}
	x.finish(g, append(extra, auth)...)
	// 429-saturated: the only slot of the cluster's limit is taken by a request the upstream holds until released
	var release func()
	if class == "429-saturated" {
		idA := id + "-holder"
		gate := make(chan struct{})
		tb.sSat.Script(idA, &bed.RawReply{Status: 200, Headers: []bed.RawHeader{{Name: "Content-Type", Value: "text/plain"}}, Body: []byte("held"), Framing: "cl", Gate: gate})
		holder := &bed.RawRequest{Method: "GET", Target: "/api/v1/namespaces/default/pods", Host: tb.hSat,
			Headers: []bed.RawHeader{{Name: "Authorization", Value: "Bearer " + tb.token}, {Name: bed.IDHeader, Value: idA}}}
		done := make(chan bed.RawResponse, 1)
		go func() { done <- bed.RawDo(tb.gw.Addr(), holder, watchdog) }()
		released := false
		release = func() {
			if released {
				return
			}
			released = true
			close(gate)
			ra := <-done
			tb.sSat.Forget(idA)
			if ra.Err != nil || ra.Status != 200 {
				r.Count("saturating_request_not_answered_200", 1)
			}
			// the slot is free again: the next request is forwarded (judged by C05; counted here)
			idC := id + "-after"
			after := &bed.RawRequest{Method: "GET", Target: "/api/v1/namespaces/default/pods", Host: tb.hSat,
				Headers: []bed.RawHeader{{Name: "Authorization", Value: "Bearer " + tb.token}, {Name: bed.IDHeader, Value: idC}}}
			rc := bed.RawDo(tb.gw.Addr(), after, watchdog)
			if len(tb.sSat.Get(idC)) > 0 && rc.Status == 200 {
				r.Count("saturated_slot_free_again_forwarded", 1)
			} else {
				r.Count("saturated_slot_still_refused_after_release", 1)
			}
			tb.sSat.Forget(idC)
		}
		defer release()
		if !vkit.WaitFor(watchdog, func() bool { return len(tb.sSat.Get(idA)) > 0 }) {
			r.Inconclusive("the request that saturates the max-in-flight=1 limit did not reach the upstream within the watchdog")
			return
		}
	}
	before, beforeP := tb.activity()
	var resp bed.RawResponse
	if via == "h2-client" {
		resp = tb.front.H2Do(x.Req, watchdog)
	} else {
		resp = bed.RawDo(tb.gw.Addr(), x.Req, watchdog)
	}
	after, afterP := tb.activity()
	if release != nil {
		release()
	}
	r.Eval(1)
	r.Count("exchanges", 1)
	r.Count("terminated_"+class, 1)
	r.Count("terminated_via_"+via, 1)
	r.Distinct(vkit.Hash64(class, x.Req.Method, x.Req.Target, fmt.Sprint(x.Req.Headers), fmt.Sprint(x.ReqBody, x.Req.Chunked)))
	if resp.Err != nil {
		r.Count("client_errors", 1)
		r.Inconclusive(fmt.Sprintf("exchange %d (%s): no parsable answer from the gateway: %v", i, class, resp.Err))
		return
	}
	w := func() map[string]interface{} {
		return witness(i, x, &resp, nil, map[string]interface{}{"class": class})
	}
	if unparsableAPIPath(r, i, x, &resp) {
		// (the request-info filter is the outermost one: it answers whatever the class is; non-forwarding is judged too)
		if after != before || afterP != beforeP {
			r.Violation("C04/terminated/"+class+"/forwarded", "a request answered by the request-info filter reached an upstream", w())
		}
		return
	}
	// The statement is about requests the gateway TERMINATES ITSELF. Whether it does (a max-in-flight 0 schema refuses, a
	// disabled endpoint is not picked, a denied impersonation is refused, ...) is the premise of the class and belongs to
	// other properties (C05, C03, C02): when the client holds the relayed answer of a stub upstream (its marker header), the
	// gateway did not terminate this exchange and there is nothing for C04 to judge. A gateway-generated answer next to a
	// request (or a fragment) at an upstream is the violation.
	if resp.Header.Get("X-Verif-Stub") != "" {
		r.Count("terminated_premise_not_met_"+class, 1)
		return
	}
	r.Count("terminated_judged_"+class, 1)
	// not forwarded, not even partially: no stub of this gateway saw a request head or a fragment of one
	if after != before || afterP != beforeP {
		what := "a complete request head"
		if afterP != beforeP {
			what = "a partial request"
		}
		r.Violation("C04/terminated/"+class+"/forwarded", fmt.Sprintf("%s %s (%s) was answered %d by the gateway but an upstream received %s", x.Req.Method, x.Req.Target, class, resp.Status, what), w())
	}
	wantStatus := map[string]int{"429": 429, "429-events": 429, "503-unknown-host": 503, "503-disabled": 503, "503-unhealthy": 503, "403-impersonation": 403, "401": 401, "500-malformed-impersonation": 500,
		"429-policy": 429, "429-saturated": 429, "503-deleted-cluster": 503, "502-upstream-refused": 502}[class]
	if class == "502-upstream-refused" && resp.Status == 503 {
		// the refused connection made the dispatcher ask for a health check; once the endpoint is known to be unhealthy the
		// answer is the ordinary "no ready endpoint"
		wantStatus = 503
		r.Count("terminated_502-upstream-refused_already_unhealthy_503", 1)
	}
	if class == "500-malformed-impersonation" {
		// Quantifier audit: the impersonation filter is the gateway's own code and it terminates the request; "every request
		// the gateway terminates itself is answered with a well-formed API Status whose code tells why". Which 4xx/5xx code
		// is not fixed by the statement; the object is.
		if resp.Status < 400 {
			r.Violation("C04/terminated/"+class+"/status", fmt.Sprintf("malformed impersonation answered %d", resp.Status), w())
			return
		}
		wantStatus = resp.Status
	}
	if resp.Status == 400 && x.HostileQ != "" {
		// Two reasons to refuse at once: a query string the gateway cannot parse faithfully (';', malformed escape) on a
		// request it would terminate anyway. Which reason wins is not fixed by the statement; a well-formed 400 is accepted.
		if st, kind, err := decodeStatus(resp.Header.Get("Content-Type"), resp.Body); x.Req.Method == "HEAD" || (err == nil && kind == "Status" && st.Status == metav1.StatusFailure && st.Code == 400) {
			r.Count("terminated_400_unparsable_query", 1)
			return
		}
	}
	if resp.Status != wantStatus {
		r.Violation(fmt.Sprintf("C04/terminated/%s/status-%d", class, resp.Status), fmt.Sprintf("%s: expected status %d, got %d: %.200q", class, wantStatus, resp.Status, resp.Body), w())
		return
	}
	// Retry-After
	ra := resp.Header.Values("Retry-After")
	switch class {
	case "429", "429-policy", "429-saturated":
		if len(ra) != 1 || ra[0] != "1" {
			r.Violation("C04/terminated/"+class+"/retry-after", fmt.Sprintf("flow-controlled %s %s: Retry-After %q, expected \"1\"", x.Req.Method, x.Req.Target, ra), w())
		}
	case "429-events":
		if len(ra) != 0 {
			r.Violation("C04/terminated/429-events/retry-after-present", fmt.Sprintf("flow-controlled events request %s %s: Retry-After %q, expected none", x.Req.Method, x.Req.Target, ra), w())
		}
	case "502-upstream-refused":
		if resp.Status == 503 && (len(ra) != 1 || ra[0] != "60") {
			r.Violation("C04/terminated/"+class+"/retry-after", fmt.Sprintf("%s answered 503: Retry-After %q, expected \"60\"", class, ra), w())
		}
	case "503-unknown-host", "503-disabled", "503-unhealthy", "503-deleted-cluster":
		if len(ra) != 1 || ra[0] != "60" {
			r.Violation("C04/terminated/"+class+"/retry-after", fmt.Sprintf("%s: Retry-After %q, expected \"60\"", class, ra), w())
		}
	}
	if x.Req.Method == "HEAD" {
		r.Count("terminated_head_no_body_to_judge", 1)
		return
	}
	ct := resp.Header.Get("Content-Type")
	st, kind, err := decodeStatus(ct, resp.Body)
	switch {
	case err != nil:
		r.Violation("C04/terminated/"+class+"/body-not-a-status", fmt.Sprintf("%s: the %d answer (Content-Type %q) does not decode as a v1 Status: %v; body %.200q", class, resp.Status, ct, err, resp.Body), w())
	case kind != "Status" || st.Status != metav1.StatusFailure || int(st.Code) != resp.Status:
		r.Violation("C04/terminated/"+class+"/status-object", fmt.Sprintf("%s: Status object kind=%q status=%q code=%d in an HTTP %d answer", class, kind, st.Status, st.Code, resp.Status), w())
	default:
		r.Count("terminated_status_objects_decoded", 1)
		r.Count("terminated_media_"+strings.SplitN(ct, ";", 2)[0], 1)
	}
	if r.WantSample() && i%41 == 0 {
		r.Sample(map[string]interface{}{"kind": "terminated", "class": class, "method": x.Req.Method, "target": x.Req.Target, "status": resp.Status, "headers": resp.RawHeaders, "body": fmt.Sprintf("%.160q", resp.Body)})
	}
}

func max0(a int) int {
	if a < 0 {
		return 0
	}
	return a
}

// stubsSeen: the stubs of this gateway that hold a record of request id.
func (tb *testbed) stubsSeen(id string) []*bed.RawStub {
	var out []*bed.RawStub
	for _, s := range tb.stubs() {
		if len(s.Get(id)) > 0 {
			out = append(out, s)
		}
	}
	return out
}

// unparsableAPIPath: an API-shaped path the request-info filter cannot parse (/api/v1/proxy, /apis/apps/v1/watch) is
// terminated by the gateway's handler chain - cmd/kube-gateway/app/proxy.go puts the filter there -, so the answer must
// be a well-formed Status like every other terminated one (quantifier audit: this used to be excluded). Reports whether
// the answer is that filter's (judged here).
func unparsableAPIPath(r *vkit.R, i int, x *Exchange, resp *bed.RawResponse) bool {
	if !strings.HasPrefix(x.Req.Target, "/api/v1/proxy") && !strings.HasPrefix(x.Req.Target, "/apis/apps/v1/watch") {
		return false
	}
	if resp.Header.Get("X-Verif-Stub") != "" || resp.Status < 400 {
		return false
	}
	r.Count("terminated_unparsable_api_path", 1)
	if x.Req.Method == "HEAD" {
		return true
	}
	ct := resp.Header.Get("Content-Type")
	st, kind, err := decodeStatus(ct, resp.Body)
	switch {
	case err != nil || !(strings.HasPrefix(ct, "application/") || ct == ""):
		r.Violation("C04/terminated/unparsable-api-path/body-not-a-status", fmt.Sprintf("%s %s was terminated by the gateway's request-info filter with %d and Content-Type %q: not a v1 Status: %.160q", x.Req.Method, x.Req.Target, resp.Status, ct, resp.Body), witness(i, x, resp, nil, nil))
	case kind != "Status" || st.Status != metav1.StatusFailure || int(st.Code) != resp.Status:
		r.Violation("C04/terminated/unparsable-api-path/status-object", fmt.Sprintf("Status object kind=%q status=%q code=%d in an HTTP %d answer", kind, st.Status, st.Code, resp.Status), witness(i, x, resp, nil, nil))
	default:
		r.Count("terminated_unparsable_api_path_status_decoded", 1)
	}
	return true
}

// excludedRequestInfo500 recognises the answer of the generic (k8s.io/apiserver) request-info filter to an API-shaped
// path it cannot parse: plain-text 500 written by responsewriters.InternalError (for HEAD only the headers are there).
func excludedRequestInfo500(resp *bed.RawResponse, method string) bool {
	if resp.Status != 500 || !strings.HasPrefix(resp.Header.Get("Content-Type"), "text/plain") || resp.Header.Get("X-Content-Type-Options") != "nosniff" {
		return false
	}
	return method == "HEAD" || strings.Contains(string(resp.Body), "failed to create RequestInfo")
}
