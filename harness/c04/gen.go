// Package c04: forwarding fidelity. gen.go builds the hostile-but-legal HTTP/1.1 exchanges.
package c04

import (
	"bytes"
	"compress/gzip"
	"fmt"
	"strings"

	"verifharness/bed"
	"verifharness/vkit"
)

var (
	methods = []string{"GET", "GET", "GET", "GET", "HEAD", "HEAD", "POST", "POST", "PUT", "PUT", "PATCH", "PATCH", "DELETE", "DELETE", "OPTIONS", "OPTIONS",
		// extension methods: any token is a legal method
		"PROPFIND", "TRACE", "MKCOL", "get", "M-SEARCH"}
	// body / reply sizes at buffer boundaries (bufio 4 KiB, copy buffer 32 KiB, 64 KiB, 1 MiB)
	boundarySizes = []int{1, 2, 511, 512, 2047, 2048, 2049, 4095, 4096, 4097, 8192, 32767, 32768, 32769, 65535, 65536, 65537, 1 << 20}
	// path segments: escaped bytes, sub-delims, non-canonical escapes (%7E, %41), empty and dot segments
	segPool = []string{"default", "kube-system", "nginx-7d9", "a%20b", "x%25y", "a%2Fb", "q%3Fr", "%C3%A9t%C3%A9", "semi;colon", "com,ma", "k=v", "pl+us", "til~de", "st*ar",
		"co:lon", "at@x", "ex!cl", "(par)", "'q'", "", ".", "..", "UPPER", "%7Etilde", "%41bc", "h%23ash", "dollar$", "amp&er", "%e4%b8%ad", "sp%20%20ace", "back%5Cslash", "br%5Bk%5D"}
	plainSeg  = []string{"default", "kube-system", "web-0", "n1", "cm-1", "ns2"}
	templates = []string{
		"/api/v1/namespaces/{s}/pods", "/api/v1/namespaces/{s}/pods/{s}", "/api/v1/namespaces/{p}/pods/{s}/status", "/api/v1/namespaces/{p}/pods/{s}/log",
		"/apis/apps/v1/namespaces/{p}/deployments/{s}/scale", "/api/v1/nodes/{s}", "/api/v1/nodes/{p}/proxy/{s}/{s}", "/api/v1/namespaces/{p}/services/{s}/proxy/{s}/{s}/{s}",
		"/apis/{s}/v1/{s}", "/apis/example.com/v1beta1/namespaces/{s}/widgets/{s}", "/api/v1/namespaces/{p}/configmaps", "/api/v1/pods",
		"/healthz", "/version", "/openapi/v2", "/metrics", "/api", "/apis", "/", "/{s}", "/{s}/{s}", "/{s}/{s}/{s}/{s}", "/logs/{s}", "/api/v1/namespaces/{p}/secrets/{s}",
		"/api/v1/proxy", "/apis/apps/v1/watch", // API-shaped but unparsable for the generic request-info filter (excluded class)
	}
	eventTemplates    = []string{"/api/v1/namespaces/{p}/events", "/api/v1/namespaces/{p}/events/{p}", "/apis/events.k8s.io/v1/namespaces/{p}/events", "/api/v1/events"}
	nonEventTemplates = []string{"/api/v1/namespaces/{p}/pods", "/api/v1/namespaces/{p}/pods/{p}", "/apis/apps/v1/namespaces/{p}/deployments/{p}", "/api/v1/nodes", "/version", "/healthz", "/api/v1/namespaces/{p}/configmaps/{p}/", "/x/{p}"}

	qKeys = []string{"watch", "labelSelector", "fieldSelector", "limit", "continue", "timeoutSeconds", "k", "k", "resourceVersion", "%C3%A9", "a%20b", "a+b", "pretty", "K", "k%5B0%5D", "dryRun"}
	qVals = []string{"", "true", "app%3Dweb", "a+b", "a%20b", "x%2Cy", "%C3%A9", "v%26w", "v%3Dw", "1", "app=web", "a,b", "~", "*", "%2B", "a/b", "a%2Fb", "x:y", "tier+in+(a,b)", "500", "%E4%B8%AD", "a?b", "@", "'", "!"}

	reqHeaderNames = []string{"X-Custom-1", "X-Custom-2", "X-Request-Id", "Accept", "Accept-Language", "Content-Type", "If-None-Match", "If-Match", "Cookie", "Origin", "Referer",
		"X-Forwarded-Proto", "X-Forwarded-Host", "X-Real-Ip", "Via", "Forwarded", "Warning", "Pragma", "Cache-Control", "Range", "X-Remote-User", "X-Remote-Group", "Audit-Id",
		"Upgrade-Insecure-Requests", "Content-Encoding", "X-Stream-Protocol-Version", "Kubectl-Command", "Kubectl-Session", "X-B3-Traceid", "Traceparent", "If-Modified-Since", "X-Http-Method-Override"}
	hdrVals = []string{"v", "a, b", "x=y; z=\"q\"", "üñí-中", "", "tab\tinner", "*/*", "application/json", "application/vnd.kubernetes.protobuf,application/json", "W/\"etag-1\"",
		"bytes=0-10", "no-cache", "1", "https://example.com/p?q=1", "kubectl/v1.18.10 (linux/amd64)", strings.Repeat("L", 1500), "00-4bf92f3577b34da6a3ce929d0e0e4736-00f067aa0ba902b7-01", "  ", "%41%zz"}

	statuses        = []int{200, 200, 200, 200, 201, 202, 204, 301, 304, 400, 401, 403, 404, 409, 410, 422, 429, 500, 502, 503, 504}
	respHeaderNames = []string{"X-Up-1", "X-Up-2", "Set-Cookie", "Set-Cookie", "Access-Control-Allow-Origin", "Access-Control-Allow-Methods", "Access-Control-Allow-Credentials", "Cache-Control", "Etag",
		"Warning", "Audit-Id", "X-Kubernetes-Pf-Flowschema-Uid", "X-Kubernetes-Pf-Prioritylevel-Uid", "Vary", "Last-Modified", "Expires", "X-Content-Type-Options", "Strict-Transport-Security",
		"Content-Language", "Link", "Server", "Via", "X-Frame-Options", "Accept-Ranges", "Pragma"}
	contentTypes = []string{"application/json", "application/vnd.kubernetes.protobuf", "text/plain; charset=utf-8", "application/json;stream=watch", "application/octet-stream", "text/html"}
)

// Headers by which a proxy in front of the gateway (or a client pretending to be one) names "the real client". They are
// end-to-end headers like any other; what the gateway appends to X-Forwarded-For is the address of ITS peer, whatever they claim.
var (
	clientAddrHeaders = []string{"X-Real-Ip", "X-Real-Ip", "True-Client-Ip", "X-Client-Ip", "Cf-Connecting-Ip", "X-Original-Forwarded-For", "X-Cluster-Client-Ip", "Fastly-Client-Ip"}
	clientAddrValues  = []string{"203.0.113.7", "198.51.100.2", "10.0.0.1", "2001:db8::1", "::1", "::ffff:192.0.2.9", "[2001:db8::2]", "[2001:db8::2]:4711", "203.0.113.7:55123",
		"203.0.113.7, 198.51.100.2", "not-an-address", "", "999.1.1.1", "0.0.0.0", "localhost", "fe80::1%eth0", "127.0.0.1"}
	forwardedValues = []string{"for=192.0.2.60;proto=http;by=203.0.113.43", `for="[2001:db8:cafe::17]:4711"`, "for=192.0.2.43, for=198.51.100.17", "for=unknown", "For=_hidden;Host=example.com", "garbage"}
)

// proxyHeaders adds 1-4 of them.
func proxyHeaders(g *vkit.Rand, hs []bed.RawHeader) []bed.RawHeader {
	for i, n := 0, g.Range(1, 4); i < n; i++ {
		switch k := g.Intn(10); {
		case k < 6:
			hs = append(hs, bed.RawHeader{Name: wireCase(g, g.Pick(clientAddrHeaders)), Value: g.Pick(clientAddrValues)})
		case k < 7:
			hs = append(hs, bed.RawHeader{Name: wireCase(g, "Forwarded"), Value: g.Pick(forwardedValues)})
		case k < 8:
			hs = append(hs, bed.RawHeader{Name: wireCase(g, "X-Forwarded-Host"), Value: g.Pick([]string{"api.example.com", "api.example.com:6443", "[2001:db8::5]:443", "10.0.0.9"})})
		case k < 9:
			hs = append(hs, bed.RawHeader{Name: wireCase(g, "X-Forwarded-Proto"), Value: g.Pick([]string{"https", "http", "wss", "HTTPS"})})
		default:
			hs = append(hs, bed.RawHeader{Name: wireCase(g, "X-Forwarded-Port"), Value: g.Pick([]string{"443", "6443", "0", "65536"})})
		}
	}
	return hs
}

func wireCase(g *vkit.Rand, name string) string {
	switch g.Intn(5) {
	case 0, 1:
		return name
	case 2:
		return strings.ToLower(name)
	case 3:
		return strings.ToUpper(name)
	}
	b := []byte(name)
	for i, c := range b {
		if g.Bool() {
			if c >= 'a' && c <= 'z' {
				b[i] = c - 32
			} else if c >= 'A' && c <= 'Z' {
				b[i] = c + 32
			}
		}
	}
	return string(b)
}

func fill(g *vkit.Rand, tpl string) string {
	var b strings.Builder
	for i := 0; i < len(tpl); i++ {
		if strings.HasPrefix(tpl[i:], "{s}") {
			b.WriteString(g.Pick(segPool))
			i += 2
		} else if strings.HasPrefix(tpl[i:], "{p}") {
			b.WriteString(g.Pick(plainSeg))
			i += 2
		} else {
			b.WriteByte(tpl[i])
		}
	}
	return b.String()
}

func genPath(g *vkit.Rand) string {
	p := fill(g, g.Pick(templates))
	if g.Chance(0.15) && !strings.HasSuffix(p, "/") {
		p += "/"
	}
	return p
}

// genQuery returns the raw query (without '?') and whether it contains a hostile pair (';' or a malformed escape).
func genQuery(g *vkit.Rand) (string, string) {
	if g.Chance(0.3) {
		return "", ""
	}
	var parts []string
	hostile := ""
	for i, n := 0, g.Range(1, 5); i < n; i++ {
		k, v := g.Pick(qKeys), g.Pick(qVals)
		switch x := g.Intn(100); {
		case x < 75:
			parts = append(parts, k+"="+v)
		case x < 83:
			parts = append(parts, k) // no '='
		case x < 88:
			parts = append(parts, k+"=")
		case x < 91:
			parts = append(parts, "") // "&&"
		case x < 95:
			parts = append(parts, k+"="+v+";"+g.Pick(qKeys)+"="+g.Pick([]string{"1", "x"}))
			hostile = "semicolon"
		case x < 98:
			parts = append(parts, k+"="+g.Pick([]string{"%zz", "100%", "%4"}))
			if hostile == "" {
				hostile = "bad-escape"
			}
		default:
			parts = append(parts, "="+v) // empty key
		}
	}
	return strings.Join(parts, "&"), hostile
}

func genBody(g *vkit.Rand, big bool) []byte {
	switch x := g.Intn(100); {
	case x < 25:
		return nil
	case x < 33:
		n := g.PickInt(boundarySizes)
		if !big && n > 70000 {
			n = 65536
		}
		return g.Bytes(n)
	case x < 75:
		return g.Bytes(g.Range(1, 2048))
	case x < 95 || !big:
		return g.Bytes(g.Range(2048, 70000))
	}
	return g.Bytes(g.Range(70000, 2<<20))
}

// Exchange is one generated request with the upstream's scripted answer.
type Exchange struct {
	ID        string          `json:"id"`
	Class     string          `json:"class"`
	Req       *bed.RawRequest `json:"request"`
	ReqBody   int             `json:"requestBodyLen"`
	Reply     *bed.RawReply   `json:"upstreamReply,omitempty"`
	ReplyBody int             `json:"upstreamBodyLen"`
	// PlainBody is the representation before the stub compressed it (gzip cases), else nil.
	PlainBody    []byte `json:"-"`
	Gzip         bool   `json:"gzipReply,omitempty"`
	ClientAE     bool   `json:"clientSentAcceptEncoding"`
	HostileQ     string `json:"hostileQuery,omitempty"`
	Upgrade      bool   `json:"upgrade,omitempty"`
	Boundary     string `json:"boundary,omitempty"`
	ProxyHeaders bool   `json:"clientAddressHeaders,omitempty"`
	Racing       string `json:"racingConfigEvent,omitempty"`
	Via          string `json:"via,omitempty"`
	Route        string `json:"route,omitempty"`
	EventsPath   bool   `json:"eventsPath,omitempty"`
	KnownPath    bool   `json:"templatePath,omitempty"`
	connNamed    map[string]bool
	clientToken  string
}

// genRequest builds the client's request (without credential / impersonation, which the class adds).
func genRequest(g *vkit.Rand, id, host string, big bool, path string) *Exchange {
	x := &Exchange{ID: id, connNamed: map[string]bool{}}
	freePath := path == "" // classes that depend on the path (events, policy-scoped limits) fix it
	q := &bed.RawRequest{Method: g.Pick(methods), Host: host}
	if g.Chance(0.1) {
		q.Host = host + ":6443"
	}
	if path == "" {
		path = genPath(g)
	}
	rq, hostile := genQuery(g)
	x.HostileQ = hostile
	q.Target = path
	if rq != "" || g.Chance(0.03) {
		q.Target += "?" + rq
	}
	var hs []bed.RawHeader
	for i, n := 0, g.PickInt([]int{0, 1, 2, 3, 4, 6, 8, 12}); i < n; i++ {
		name := g.Pick(reqHeaderNames)
		v := g.Pick(hdrVals)
		hs = append(hs, bed.RawHeader{Name: wireCase(g, name), Value: v})
		if g.Chance(0.2) { // multi-valued
			hs = append(hs, bed.RawHeader{Name: wireCase(g, name), Value: g.Pick(hdrVals)})
		}
	}
	switch k := g.Intn(100); {
	case k < 2: // many header lines
		for i := 0; i < 80; i++ {
			hs = append(hs, bed.RawHeader{Name: fmt.Sprintf("X-Many-%d", i%60), Value: fmt.Sprintf("v%d", i)})
		}
		x.Boundary = "80-headers"
	case k < 4: // one very long value
		hs = append(hs, bed.RawHeader{Name: "X-Long", Value: strings.Repeat("0123456789abcdef", g.PickInt([]int{256, 1024, 3000}))})
		x.Boundary = "long-header-value"
	case k < 6 && freePath: // long path
		q.Target = "/api/v1/namespaces/default/services/svc/proxy/" + strings.Repeat("seg%20ment/", g.PickInt([]int{100, 400})) + "end"
		if rq != "" {
			q.Target += "?" + rq
		}
		x.Boundary = "long-path"
	case k < 8 && hostile == "": // long query, many parameters
		var ps []string
		for i, m := 0, g.PickInt([]int{150, 600}); i < m; i++ {
			ps = append(ps, fmt.Sprintf("p%d=%s", i%97, g.Pick(qVals)))
		}
		q.Target = path + "?" + strings.Join(ps, "&")
		x.Boundary = "long-query"
	}
	if g.Chance(0.3) {
		hs = append(hs, bed.RawHeader{Name: wireCase(g, "User-Agent"), Value: g.Pick([]string{"kubectl/v1.18.10 (linux/amd64) kubernetes/62876fc", "curl/7.68.0", "Go-http-client/1.1", "ua üñí"})})
		if g.Chance(0.1) {
			hs = append(hs, bed.RawHeader{Name: "User-Agent", Value: "second/1.0"})
		}
	}
	if g.Chance(0.3) {
		x.ClientAE = true
		hs = append(hs, bed.RawHeader{Name: wireCase(g, "Accept-Encoding"), Value: g.Pick([]string{"gzip", "identity", "gzip, deflate, br", "deflate"})})
	}
	if g.Chance(0.25) {
		hs = append(hs, bed.RawHeader{Name: wireCase(g, "X-Forwarded-For"), Value: g.Pick([]string{"10.1.2.3", "10.1.2.3, 172.16.0.9", "2001:db8::1", "unknown", "", "203.0.113.7,198.51.100.2", "[2001:db8::1]:80", "garbage value"})})
		if g.Chance(0.3) { // a second (and third) X-Forwarded-For line
			hs = append(hs, bed.RawHeader{Name: wireCase(g, "X-Forwarded-For"), Value: g.Pick([]string{"192.0.2.7", "2001:db8::9", "192.0.2.7, 192.0.2.8"})})
			if g.Chance(0.3) {
				hs = append(hs, bed.RawHeader{Name: "X-Forwarded-For", Value: "198.51.100.77"})
			}
		}
	}
	if g.Chance(0.25) {
		x.ProxyHeaders = true
		hs = proxyHeaders(g, hs)
	}
	if g.Chance(0.15) {
		hs = append(hs, bed.RawHeader{Name: wireCase(g, "Te"), Value: g.Pick([]string{"trailers", "trailers, deflate", "gzip", "Trailers"})})
	}
	if g.Chance(0.15) { // hop-by-hop by nomination
		named := g.Pick([]string{"X-Hop-1", "X-Custom-1", "Cookie", "x-hop-1, X-Hop-2", "Keep-Alive"})
		hs = append(hs, bed.RawHeader{Name: wireCase(g, "Connection"), Value: named})
		for _, n := range strings.Split(named, ",") {
			n = strings.TrimSpace(n)
			x.connNamed[strings.ToLower(n)] = true
			if g.Chance(0.8) {
				hs = append(hs, bed.RawHeader{Name: n, Value: "hop-value"})
			}
		}
	}
	if g.Chance(0.08) {
		hs = append(hs, bed.RawHeader{Name: g.Pick([]string{"Keep-Alive", "Proxy-Connection", "Proxy-Authorization"}), Value: "timeout=5"})
	}
	// body
	hasBody := q.Method == "POST" || q.Method == "PUT" || q.Method == "PATCH" || g.Chance(0.08)
	if hasBody {
		q.Body = genBody(g, big)
		if big && g.Chance(0.004) { // above the 2 MiB the generator used to stop at (quantifier audit: "every ... body size")
			q.Body = g.Bytes(g.PickInt([]int{2<<20 + 1, 5 << 20, 17 << 20}))
		}
		if g.Chance(0.35) {
			q.Chunked = true
			if g.Chance(0.4) {
				q.Trailers = []bed.RawHeader{{Name: "X-Req-Trailer", Value: fmt.Sprintf("rt-%d", len(q.Body))}}
				if g.Bool() {
					q.Trailers = append(q.Trailers, bed.RawHeader{Name: "X-Req-Sum", Value: "s üñí"})
				}
			}
			q.ChunkSize = g.PickInt([]int{0, 1, 7, 512, 4096, 65536})
			if len(q.Body) > 20000 && q.ChunkSize > 0 && q.ChunkSize < 512 {
				q.ChunkSize = 4096
			}
		} else {
			q.SendCL = true
		}
	} else if g.Chance(0.1) {
		q.SendCL = true // explicit Content-Length: 0
	}
	x.ReqBody = len(q.Body)
	q.Headers = hs
	x.Req = q
	return x
}

// finish appends the identity headers and the id, then shuffles while keeping the relative order of same-named fields.
func (x *Exchange) finish(g *vkit.Rand, extra ...bed.RawHeader) {
	hs := append(x.Req.Headers, extra...)
	hs = append(hs, bed.RawHeader{Name: bed.IDHeader, Value: x.ID})
	orig := map[string][]bed.RawHeader{}
	for _, h := range hs {
		k := strings.ToLower(h.Name)
		orig[k] = append(orig[k], h)
	}
	for i := len(hs) - 1; i > 0; i-- {
		j := g.Intn(i + 1)
		hs[i], hs[j] = hs[j], hs[i]
	}
	for i := range hs {
		k := strings.ToLower(hs[i].Name)
		hs[i] = orig[k][0]
		orig[k] = orig[k][1:]
	}
	x.Req.Headers = hs
}

func gz(b []byte) []byte {
	var buf bytes.Buffer
	w := gzip.NewWriter(&buf)
	w.Write(b)
	w.Close()
	return buf.Bytes()
}

// genReply scripts the upstream's answer.
func genReply(g *vkit.Rand, x *Exchange, big bool) {
	p := &bed.RawReply{Status: g.PickInt(statuses)}
	if g.Chance(0.1) {
		p.Reason = g.Pick([]string{"Custom Reason", "OK", "Nope"})
	}
	var hs []bed.RawHeader
	for i, n := 0, g.PickInt([]int{0, 1, 2, 3, 5, 8}); i < n; i++ {
		name := g.Pick(respHeaderNames)
		hs = append(hs, bed.RawHeader{Name: wireCase(g, name), Value: g.Pick(hdrVals)})
	}
	ct := ""
	if g.Chance(0.8) {
		ct = g.Pick(contentTypes)
		hs = append(hs, bed.RawHeader{Name: wireCase(g, "Content-Type"), Value: ct})
	}
	if g.Chance(0.2) {
		hs = append(hs, bed.RawHeader{Name: "Date", Value: "Tue, 15 Nov 1994 08:12:31 GMT"})
	}
	switch p.Status {
	case 301, 201:
		if g.Chance(0.7) {
			hs = append(hs, bed.RawHeader{Name: "Location", Value: "/api/v1/namespaces/default/pods/x?y=%20z"})
		}
	case 429, 503:
		if g.Chance(0.7) {
			hs = append(hs, bed.RawHeader{Name: "Retry-After", Value: g.Pick([]string{"7", "120", "Fri, 31 Dec 1999 23:59:59 GMT"})})
		}
	case 401:
		hs = append(hs, bed.RawHeader{Name: "Www-Authenticate", Value: "Basic realm=\"kubernetes-master\""})
	}
	noBody := p.Status == 204 || p.Status == 304
	var body []byte
	if !noBody {
		switch v := g.Intn(100); {
		case v < 12:
		case v < 20:
			n := g.PickInt(boundarySizes)
			if !big && n > 90000 {
				n = 65536
			}
			body = g.Bytes(n)
		case v < 75:
			if strings.HasPrefix(ct, "application/json") && g.Bool() {
				body = []byte(fmt.Sprintf(`{"kind":"Status","apiVersion":"v1","status":"Failure","message":"upstream says %d","code":%d}`, p.Status, p.Status))
			} else {
				body = g.Bytes(g.Range(1, 3000))
			}
		case v < 95 || !big:
			body = g.Bytes(g.Range(3000, 90000))
		default:
			body = g.Bytes(g.Range(90000, 2<<20))
		}
	}
	if big && !noBody && g.Chance(0.003) {
		body = g.Bytes(g.PickInt([]int{2<<20 + 1, 6 << 20, 19 << 20}))
	}
	// hop-negotiated compression: only scripted, and only with a real gzip stream
	if len(body) > 0 && g.Chance(0.1) {
		x.Gzip = true
		x.PlainBody = body
		body = gz(body)
		hs = append(hs, bed.RawHeader{Name: "Content-Encoding", Value: "gzip"})
	}
	p.Body = body
	switch {
	case noBody:
		p.Framing = "none"
		if p.Status == 304 && g.Bool() {
			p.Framing = "cl" // Content-Length: 0
		}
	case g.Chance(0.35):
		p.Framing = "chunked"
		p.ChunkSize = g.PickInt([]int{0, 1, 13, 1024, 32768})
		if len(body) > 20000 && p.ChunkSize > 0 && p.ChunkSize < 1024 {
			p.ChunkSize = 8192
		}
		if g.Chance(0.3) {
			p.Trailers = []bed.RawHeader{{Name: "X-Trailer-Sum", Value: fmt.Sprintf("sum-%d", len(body))}}
			if g.Bool() {
				p.Trailers = append(p.Trailers, bed.RawHeader{Name: "X-Trailer-2", Value: "t2"})
			}
		}
	case g.Chance(0.08):
		p.Framing = "close"
	default:
		p.Framing = "cl"
	}
	if g.Chance(0.06) { // hop-by-hop by nomination on the response side
		hs = append(hs, bed.RawHeader{Name: "Connection", Value: "X-Up-Hop"}, bed.RawHeader{Name: "X-Up-Hop", Value: "h"})
	}
	p.Headers = hs
	x.Reply = p
	x.ReplyBody = len(body)
}

// genUpgrade builds a protocol-upgrade exchange (exec/attach/port-forward style): the upstream either switches protocols
// and echoes the stream, or refuses with an error the gateway has to relay.
func genUpgrade(g *vkit.Rand, id, host string) *Exchange {
	x := &Exchange{ID: id, Class: "upgrade", Upgrade: true, connNamed: map[string]bool{}}
	q := &bed.RawRequest{Method: g.Pick([]string{"GET", "POST"}), Host: host}
	q.Target = fill(g, g.Pick([]string{"/api/v1/namespaces/{p}/pods/{s}/exec", "/api/v1/namespaces/{p}/pods/{p}/attach", "/api/v1/namespaces/{p}/pods/{s}/portforward", "/api/v1/nodes/{p}/proxy/exec/{s}/{s}"}))
	rq, hostile := genQuery(g)
	x.HostileQ = hostile
	if rq != "" {
		q.Target += "?" + rq
	}
	proto := g.Pick([]string{"SPDY/3.1", "websocket"})
	hs := []bed.RawHeader{{Name: wireCase(g, "Connection"), Value: g.Pick([]string{"Upgrade", "upgrade"})}, {Name: wireCase(g, "Upgrade"), Value: proto}}
	for i, n := 0, g.Range(0, 5); i < n; i++ {
		hs = append(hs, bed.RawHeader{Name: wireCase(g, g.Pick(reqHeaderNames)), Value: g.Pick(hdrVals)})
	}
	hs = append(hs, bed.RawHeader{Name: "X-Stream-Protocol-Version", Value: "v4.channel.k8s.io"})
	if g.Chance(0.3) {
		hs = append(hs, bed.RawHeader{Name: "X-Forwarded-For", Value: g.Pick([]string{"10.9.8.7", "10.9.8.7, 2001:db8::1", "unknown"})})
	}
	if g.Chance(0.3) {
		x.ProxyHeaders = true
		hs = proxyHeaders(g, hs)
	}
	if g.Chance(0.3) {
		hs = append(hs, bed.RawHeader{Name: "User-Agent", Value: "kubectl/v1.18.10"})
	}
	x.ClientAE = true // nothing negotiates compression on this path
	q.Headers = hs
	x.Req = q
	p := &bed.RawReply{}
	if g.Chance(0.7) {
		p.Status = 101
		p.Headers = []bed.RawHeader{{Name: "Connection", Value: "Upgrade"}, {Name: "Upgrade", Value: proto}, {Name: "X-Stream-Protocol-Version", Value: "v4.channel.k8s.io"}, {Name: "X-Up-1", Value: g.Pick(hdrVals)}}
		p.Framing = "none"
		p.Echo = true
		q.UpgradePayload = g.Bytes(g.Range(1, 200000))
	} else {
		p.Status = g.PickInt([]int{400, 403, 404, 500, 503})
		p.Headers = []bed.RawHeader{{Name: "Content-Type", Value: "application/json"}, {Name: "X-Up-2", Value: g.Pick(hdrVals)}}
		p.Body = []byte(fmt.Sprintf(`{"kind":"Status","apiVersion":"v1","status":"Failure","message":"no upgrade","code":%d}`, p.Status))
		p.Framing = "cl"
	}
	x.Reply = p
	x.ReplyBody = len(p.Body)
	return x
}

// normalizeForNetHTTPStub makes a reply script safe for a net/http-based stub: every header that server would otherwise
// invent (Content-Type by sniffing, Date) is set explicitly, hop-by-hop nominations and close-delimited framing (which
// do not exist in HTTP/2) are removed.
func normalizeForNetHTTPStub(x *Exchange) {
	p := x.Reply
	var hs []bed.RawHeader
	hasCT, hasDate := false, false
	for _, h := range p.Headers {
		switch strings.ToLower(h.Name) {
		case "connection", "x-up-hop":
			continue
		case "content-type":
			hasCT = true
		case "date":
			hasDate = true
		}
		hs = append(hs, h)
	}
	if !hasCT {
		hs = append(hs, bed.RawHeader{Name: "Content-Type", Value: "application/octet-stream"})
	}
	if !hasDate {
		hs = append(hs, bed.RawHeader{Name: "Date", Value: "Tue, 15 Nov 1994 08:12:31 GMT"})
	}
	p.Headers = hs
	if p.Framing == "close" || p.Framing == "none" {
		p.Framing = "cl"
	}
	p.Reason = ""
}
